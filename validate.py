#!/usr/bin/env python3
"""Validate MANIFEST.json and evidence/*.json against the given schemas (dev helper)."""
import json, sys, glob, jsonschema
m = json.load(open('/verif/MANIFEST.json'))
jsonschema.validate(m, json.load(open('/root/.vp/MANIFEST.schema.json')))
es = json.load(open('/root/.vp/EVIDENCE.schema.json'))
n = 0
for f in sorted(glob.glob('/verif/evidence/*.json')):
    jsonschema.validate(json.load(open(f)), es); n += 1
props = [json.loads(l)['id'] for l in open('/verif/properties.jsonl') if l.strip()]
claimed = {c['property_id'] for c in m['checks']}
na = {c['property_id'] for c in m.get('not_applicable', [])}
assert claimed | na == set(props) and not (claimed & na), (claimed, na)
print("manifest ok: claimed", len(claimed), "n/a", len(na), "; evidence files valid:", n)
