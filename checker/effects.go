package main

import (
	"go/types"
	"sort"
	"strings"

	"golang.org/x/tools/go/callgraph"
	"golang.org/x/tools/go/callgraph/cha"
	"golang.org/x/tools/go/callgraph/vta"
	"golang.org/x/tools/go/ssa"
	"golang.org/x/tools/go/ssa/ssautil"
)

// CG is a cheap, sound-for-may call graph over the repository's own functions:
// static callees, closures created in a function, and interface dispatch resolved by
// method name + structural implementation over the repository's declared methods (CHA).
type CG struct {
	p        *Prog
	edges    map[*ssa.Function][]*ssa.Function
	callers  map[*ssa.Function][]*ssa.Function
	implMemo map[*types.Func][]*types.Func
	funcs    []*ssa.Function
	// UnresolvedFuncValues counts calls through function values with unknown targets.
	UnresolvedFuncValues int
	// vtaSites: thorough tier only — callees of function-value calls resolved by VTA over the whole program
	vtaSites    map[ssa.CallInstruction][]*ssa.Function
	VTAResolved int
}

var cgCache = map[*Prog]*CG{}

func (p *Prog) CallGraph() *CG {
	if g := cgCache[p]; g != nil {
		return g
	}
	g := p.buildCallGraph()
	cgCache[p] = g
	return g
}

func (p *Prog) buildCallGraph() *CG {
	g := &CG{p: p, edges: map[*ssa.Function][]*ssa.Function{}, callers: map[*ssa.Function][]*ssa.Function{}, implMemo: map[*types.Func][]*types.Func{}}
	g.funcs = p.SrcFuncs("ast", "boltz", "objectz", "zitiql", "boltztest")
	if p.Whole {
		// whole-program VTA (seeded with CHA) resolves calls through function values; its results are
		// only ADDED to the name-and-shape CHA used everywhere else, so may-effects can only grow
		g.vtaSites = map[ssa.CallInstruction][]*ssa.Function{}
		all := ssautil.AllFunctions(p.SSA)
		vg := vta.CallGraph(all, cha.CallGraph(p.SSA))
		inRepo := map[*ssa.Function]bool{}
		for _, fn := range g.funcs {
			inRepo[fn] = true
		}
		for fn, node := range vg.Nodes {
			if fn == nil || !inRepo[fn] {
				continue
			}
			for _, e := range node.Out {
				if e.Site == nil || e.Site.Common().IsInvoke() || e.Site.Common().StaticCallee() != nil {
					continue
				}
				callee := e.Callee.Func
				if callee == nil || callee.Blocks == nil || callee.Pkg == nil || !strings.HasPrefix(callee.Pkg.Pkg.Path(), modPath) {
					continue
				}
				g.vtaSites[e.Site] = append(g.vtaSites[e.Site], callee)
			}
		}
		_ = callgraph.GraphVisitEdges
	}
	for _, fn := range g.funcs {
		seen := map[*ssa.Function]bool{}
		addEdge := func(to *ssa.Function) {
			if to == nil || seen[to] {
				return
			}
			seen[to] = true
			g.edges[fn] = append(g.edges[fn], to)
			g.callers[to] = append(g.callers[to], fn)
		}
		for _, b := range fn.Blocks {
			for _, in := range b.Instrs {
				switch x := in.(type) {
				case *ssa.MakeClosure:
					if f, ok := x.Fn.(*ssa.Function); ok {
						addEdge(f)
					}
				case ssa.CallInstruction:
					for _, t := range g.CalleesOf(x.Common()) {
						addEdge(t)
					}
					for _, t := range g.vtaSites[x] {
						g.VTAResolved++
						addEdge(t)
					}
				}
			}
		}
	}
	return g
}

// CalleesOf resolves the possible repository callees of one call.
func (g *CG) CalleesOf(c *ssa.CallCommon) []*ssa.Function {
	var out []*ssa.Function
	if c.IsInvoke() {
		for _, m := range g.Implementers(c.Method) {
			if f := g.p.SSA.FuncValue(m); f != nil && f.Blocks != nil {
				out = append(out, f)
			}
		}
		return out
	}
	if a := anonCallee(c); a != nil {
		return []*ssa.Function{a}
	}
	if sc := c.StaticCallee(); sc != nil {
		if sc.Pkg == nil || !strings.HasPrefix(sc.Pkg.Pkg.Path(), modPath) {
			if o := sc.Origin(); o == nil || o.Pkg == nil || !strings.HasPrefix(o.Pkg.Pkg.Path(), modPath) {
				return nil // dependency code is not part of the repository call graph (same in both tiers)
			}
		}
		if sc.Blocks == nil {
			if o := sc.Origin(); o != nil && o.Blocks != nil {
				return []*ssa.Function{o}
			}
			return nil
		}
		if sc.Origin() != nil && sc.Origin() != sc && sc.Origin().Blocks != nil {
			return []*ssa.Function{sc.Origin()}
		}
		return []*ssa.Function{sc}
	}
	// function value: parameter / field / global
	switch c.Value.(type) {
	case *ssa.Function, *ssa.MakeClosure, *ssa.Builtin:
	default:
		g.UnresolvedFuncValues++
	}
	return nil
}

// Implementers lists the repository's declared methods that can be the target of a dynamic
// call to interface method m (over-approximation: name match + receiver type has every method
// name of the interface + same parameter/result counts).
func (g *CG) Implementers(m *types.Func) []*types.Func {
	m = m.Origin()
	if r, ok := g.implMemo[m]; ok {
		return r
	}
	var out []*types.Func
	sig := m.Type().(*types.Signature)
	var iface *types.Interface
	if recv := sig.Recv(); recv != nil {
		iface, _ = recv.Type().Underlying().(*types.Interface)
	}
	for f := range g.p.Decls {
		if f.Name() != m.Name() {
			continue
		}
		fs := f.Type().(*types.Signature)
		if fs.Recv() == nil || fs.Params().Len() != sig.Params().Len() || fs.Results().Len() != sig.Results().Len() {
			continue
		}
		if iface != nil {
			n := namedOf(fs.Recv().Type())
			if n == nil {
				continue
			}
			names := methodNames(n)
			ok := true
			for i := 0; i < iface.NumMethods(); i++ {
				if !names[iface.Method(i).Name()] {
					ok = false
					break
				}
			}
			if !ok {
				continue
			}
		}
		out = append(out, f)
	}
	sort.Slice(out, func(i, j int) bool { return out[i].FullName() < out[j].FullName() })
	g.implMemo[m] = out
	return out
}

// methodNames: all method names reachable on *T including promoted ones.
func methodNames(n *types.Named) map[string]bool {
	out := map[string]bool{}
	ms := types.NewMethodSet(types.NewPointer(n))
	for i := 0; i < ms.Len(); i++ {
		out[ms.At(i).Obj().Name()] = true
	}
	return out
}

// Summary computes, for a local predicate on instructions, which functions may (transitively)
// execute an instruction satisfying it.
type Summary struct {
	g      *CG
	direct map[*ssa.Function]ssa.Instruction
	may    map[*ssa.Function]bool
	via    map[*ssa.Function]*ssa.Function
}

func (g *CG) Summarize(pred func(ssa.Instruction) bool) *Summary {
	s := &Summary{g: g, direct: map[*ssa.Function]ssa.Instruction{}, may: map[*ssa.Function]bool{}, via: map[*ssa.Function]*ssa.Function{}}
	var work []*ssa.Function
	for _, fn := range g.funcs {
	blocks:
		for _, b := range fn.Blocks {
			for _, in := range b.Instrs {
				if pred(in) {
					s.direct[fn] = in
					s.may[fn] = true
					work = append(work, fn)
					break blocks
				}
			}
		}
	}
	for len(work) > 0 {
		fn := work[len(work)-1]
		work = work[:len(work)-1]
		for _, caller := range g.callers[fn] {
			if !s.may[caller] {
				s.may[caller] = true
				s.via[caller] = fn
				work = append(work, caller)
			}
		}
	}
	return s
}

func (s *Summary) May(fn *ssa.Function) bool { return s.may[fn] }

// CallMay reports whether a call instruction may reach the effect, and names the witness chain.
func (s *Summary) CallMay(c *ssa.CallCommon) (bool, string) {
	for _, t := range s.g.CalleesOf(c) {
		if s.may[t] {
			return true, s.Chain(t)
		}
	}
	return false, ""
}

// Chain renders fn -> ... -> function with the direct effect.
func (s *Summary) Chain(fn *ssa.Function) string {
	out := FnName(fn)
	for n := 0; n < 12; n++ {
		if in, ok := s.direct[fn]; ok {
			if ci, ok := in.(ssa.CallInstruction); ok {
				if f, _ := calleeOf(ci.Common()); f != nil {
					out += " -> " + shortObj(f)
				}
			}
			return out
		}
		nx := s.via[fn]
		if nx == nil {
			return out
		}
		out += " -> " + FnName(nx)
		fn = nx
	}
	return out
}

// ---- bolt write primitives ---------------------------------------------------------------

const bboltPath = "go.etcd.io/bbolt"

func (p *Prog) boltWritePrims() []*types.Func {
	var out []*types.Func
	for _, m := range []string{"Put", "Delete", "CreateBucket", "CreateBucketIfNotExists", "DeleteBucket", "SetSequence", "NextSequence"} {
		out = append(out, p.ExtMethod(bboltPath, "Bucket", m))
	}
	out = append(out, p.ExtMethod(bboltPath, "Cursor", "Delete"))
	for _, m := range []string{"CreateBucket", "CreateBucketIfNotExists", "DeleteBucket"} {
		out = append(out, p.ExtMethod(bboltPath, "Tx", m))
	}
	return out
}

func (p *Prog) isBoltWrite() func(ssa.Instruction) bool {
	prims := p.boltWritePrims()
	return func(in ssa.Instruction) bool { return isCallTo(in, prims...) }
}
