package main

func init() {
	register(&Property{
		ID:        "C07",
		Title:     "Transactions are all-or-nothing and every failure reaches the caller",
		Technique: "static analysis: SSA branch-fact dataflow (no nil return under a known error), discarded-error-result rule over resolved callees, error-holder consultation on all paths, must-pass ordering in the Update/Batch closures, who-may-call rule for post-commit work",
		LevelText: "Structural necessary conditions decided for every function and path of boltz/ast/objectz/zitiql: no error is replaced by success, no error result is dropped, the ErrorHolder chain is consulted before success, pre-commit work precedes success inside the bolt closure, post-commit work is reachable only through tx.OnCommit. The rollback itself is bbolt's and is trusted.",
		LevelNote: "Trusted: Go type checker, x/tools SSA (v0.29.0), bbolt's rollback-on-error, tabled exceptions in checker/rules_errors.go. Not decided: byte-level state after rollback, failure injection at arbitrary storage calls.",
		DesignRef: "DESIGN.md C07",
		Explanation: "All non-generated functions are enumerated from SSA; each rule is applied to every function/call site and the obligations are keyed rule+construct.",
		Trusted:   []string{"go/types", "golang.org/x/tools/go/ssa v0.29.0", "bbolt transaction rollback", "exception tables in checker/"},
		Rules:     rulesC07,
		Controls: []controlExpect{
			{"C07.SWALLOW", "zzControlBad_C07_SWALLOW", true},
			{"C07.SWALLOW", "zzControlGood_C07_SWALLOW", false},
			{"C07.DROP", "zzControlBad_C07_DROP", true},
			{"C07.DROP", "zzControlGood_C07_DROP", false},
		},
	})
}

func rulesC07(c *Ctx) {
	fns := c.prodFuncs(srcPkgs...)
	ruleSwallow(c, "C07.SWALLOW", fns)
	c.Floor("C07.SWALLOW", 120)
	ruleDrop(c, "C07.DROP", fns)
	c.Floor("C07.DROP", 150)
}
