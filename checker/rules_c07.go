package main

import (
	"fmt"
	"go/token"
	"go/types"
	"strings"

	"golang.org/x/tools/go/ssa"
)

func init() {
	register(&Property{
		ID:          "C07",
		Title:       "Transactions are all-or-nothing and every failure reaches the caller",
		Technique:   "static analysis: SSA branch-fact dataflow (no nil return under a known error), discarded-error-result rule over resolved callees, error-holder consultation on all paths, must-pass ordering in the Update/Batch closures, call-graph who-may-call rule for post-commit work",
		LevelText:   "Structural necessary conditions decided for every function and path of boltz/ast/objectz/zitiql: no error is replaced by success, no error result is dropped, the ErrorHolder chain is consulted before success, pre-commit work precedes success inside the bolt closure, post-commit work is reachable only through tx.OnCommit. The rollback itself is bbolt's and is trusted. Added later: an indexing context built for a parent chain shares one holder (CHAINHOLDER); a function handed an error holder consults it before it writes (HANDEDHOLDER); results of fallible steps are looked at on every path (LOOKEDAT); a dropped error result is accepted only when the callee has also recorded it in the holder of its receiver. Added in round 9: a failure found in a child bucket is recorded in the receiver or returned on every path (CHILDERR). Added in round 11: a failed index bucket is recorded or returned (INDEXBUCKETERR); a function that queues a callback does not run it (ACTIONRUN); the persist context writes through the bucket object the indexing context records into (SAMEBUCKET). Added in round 12: the pre-commit/commit action lists are rewritten only by their registrars (ACTIONS, cross-listed). Added in round 13: every method of the system context hands the call to the wrapped context and keeps no state of its own (WRAPFORWARD); EXISTS as in C04 (a missing fk target is an error on every path).",
		LevelNote:   "Trusted: Go type checker, x/tools SSA (v0.29.0), bbolt's rollback-on-error, tabled exceptions in checker/rules_errors.go. Not decided: byte-level state after rollback, failure injection at arbitrary storage calls.",
		DesignRef:   "DESIGN.md C07",
		Explanation: "All non-generated functions of ast, boltz, objectz, zitiql are enumerated from SSA. SWALLOW: for every function with an error result, a forward must-dataflow of branch facts decides at each return whether some error value is known non-nil while nil is returned. DROP: every call whose signature has an error result must bind and use it. HOLDER: for every error-returning function, every TypedBucket/ErrorHolder that was mutated or has escaped must be consulted (HasError/GetError/.Err) on every path to a success return. TXFN: in the closures handed to bbolt DB.Update/Batch, setTx < fn(ctx) < runPreCommitActions on every path to a nil return. POSTCOMMIT: greatest fixpoint of 'reachable only via a function value registered with bbolt Tx.OnCommit' must contain every function that invokes ProcessPostCommit, runs commit actions or tx-complete listeners.",
		Trusted:     []string{"go/types", "golang.org/x/tools/go/ssa v0.29.0", "bbolt transaction rollback and OnCommit semantics", "exception tables in checker/rules_errors.go"},
		Rules:       rulesC07,
		Controls: []controlExpect{
			{"C07.SWALLOW", "zzControlBad_C07_SWALLOW", true},
			{"C07.SWALLOW", "zzControlGood_C07_SWALLOW", false},
			{"C07.DROP", "zzControlBad_C07_DROP", true},
			{"C07.DROP", "zzControlGood_C07_DROP", false},
			{"C07.HOLDER", "zzControlBad_C07_HOLDER", true},
			{"C07.HOLDER", "zzControlGood_C07_HOLDER", false},
			{"C07.POSTCOMMIT", "zzControlBad_C07_POSTCOMMIT", true},
			{"C07.INDEXBUCKETERR", "zzControlBad_C07_INDEXBUCKETERR", true},
			{"C07.INDEXBUCKETERR", "zzControlGood_C07_INDEXBUCKETERR", false},
		},
	})
}

func rulesC07(c *Ctx) {
	fns := c.prodFuncs(srcPkgs...)
	ruleSwallow(c, "C07.SWALLOW", fns)
	c.Floor("C07.SWALLOW", 120)
	ruleDrop(c, "C07.DROP", fns)
	c.Floor("C07.DROP", 150)
	ruleHolder(c, "C07.HOLDER", c.prodFuncs("boltz"), nil)
	c.Floor("C07.HOLDER", 15)
	ruleOverwrite(c, "C07.OVERWRITE", fns)
	c.Floor("C07.OVERWRITE", 8)
	ruleHolderReplaced(c, "C07.HOLDERPTR")
	ruleFirstErrorWins(c, "C07.FIRSTERR")
	ruleProceedTable(c, "C07.PROCEED")
	ruleHandledContract(c, "C07.HANDLED")
	c.Floor("C07.FIRSTERR", 8)
	ruleTxFn(c, "C07.TXFN")
	ruleIndexBucketError(c, "C07.INDEXBUCKETERR")
	ruleCallbackNotRun(c, "C07.ACTIONRUN")
	// a failing pre-commit action fails the transaction: the action lists and their runner
	c.As("C08.ACTIONS", "C07.ACTIONS", func() { ruleC08Actions(c) })
	ruleSameBucket(c, "C07.SAMEBUCKET")
	c.Floor("C07.TXFN", 8)
	rulePostCommit(c, "C07.POSTCOMMIT")
	c.Floor("C07.POSTCOMMIT", 3)
	// errors recorded while a child store persists the shared fields through the parent context
	ruleParentChain(c, "C07.CHAIN")
	ruleWrapperForwards(c, "C07.WRAPFORWARD")
	ruleFkExists(c, "C07.EXISTS")
	// a failing pre-commit action aborts only if it was appended to the list the transaction runs
	ruleCtxIdentity(c, "C07.CTXIDENTITY")
	ruleErrHolderShared(c, "C07.CHAINHOLDER")
	ruleErrorLookedAtOnEveryPath(c, "C07.LOOKEDAT", c.prodFuncs("boltz"))
	ruleChildBucketError(c, "C07.CHILDERR")
	ruleHandedHolderConsulted(c, "C07.HANDEDHOLDER")
	ruleLoopSkip(c, "C07.LOOPSKIP", c.prodFuncs("boltz", "objectz"))
	ruleRegistrationReachesPhase(c, "C07.VETOREG", "pre")
}

// ---- C07.HOLDER ------------------------------------------------------------------------------

type holderInfo struct {
	c           *Ctx
	typedBucket *types.Named
	holderImpl  *types.Named
	errField    *types.Var
	mutators    map[*types.Func]bool // TypedBucket/ErrorHolderImpl methods (no error result) that may record an error
	chainable   map[*types.Func]bool // methods returning their receiver
	consults    map[string]bool
}

func newHolderInfo(c *Ctx) *holderInfo {
	p := c.P
	h := &holderInfo{c: c, mutators: map[*types.Func]bool{}, chainable: map[*types.Func]bool{}}
	h.typedBucket = p.Named("boltz", "TypedBucket")
	h.holderImpl = p.ExtNamed("github.com/openziti/foundation/v2/errorz", "ErrorHolderImpl")
	st := h.holderImpl.Underlying().(*types.Struct)
	for i := 0; i < st.NumFields(); i++ {
		if st.Field(i).Name() == "Err" {
			h.errField = st.Field(i)
		}
	}
	if h.errField == nil {
		panic(anchorLost{"errorz.ErrorHolderImpl.Err"})
	}
	// which TypedBucket methods may record an error? fixpoint over static calls between them
	type minfo struct {
		fn    *ssa.Function
		calls []*types.Func
		sets  bool
	}
	infos := map[*types.Func]*minfo{}
	for i := 0; i < h.typedBucket.NumMethods(); i++ {
		m := h.typedBucket.Method(i)
		fn := p.SSA.FuncValue(m)
		if fn == nil || fn.Blocks == nil {
			continue
		}
		mi := &minfo{fn: fn}
		infos[m] = mi
		for _, f := range allFuncsWithAnon(fn) {
			for _, b := range f.Blocks {
				for _, in := range b.Instrs {
					switch x := in.(type) {
					case *ssa.Store:
						if fld, _ := fieldOfAddr(x.Addr); sameVar(fld, h.errField) {
							mi.sets = true
						}
					case ssa.CallInstruction:
						if cal, _ := calleeOf(x.Common()); cal != nil {
							if cal.Name() == "SetError" && namedOf(recvType(cal)) == h.holderImpl {
								mi.sets = true
							}
							mi.calls = append(mi.calls, cal)
						}
					}
				}
			}
		}
		// chainable: every return returns the receiver parameter
		if fn.Signature.Results().Len() == 1 && len(fn.Params) > 0 {
			all := true
			n := 0
			for _, r := range returnsOf(fn) {
				n++
				if len(r.Results) != 1 || r.Results[0] != ssa.Value(fn.Params[0]) {
					all = false
				}
			}
			if all && n > 0 {
				h.chainable[m] = true
			}
		}
	}
	for changed := true; changed; {
		changed = false
		for _, mi := range infos {
			if mi.sets {
				continue
			}
			for _, cal := range mi.calls {
				if o := infos[cal]; o != nil && o.sets {
					mi.sets = true
					changed = true
					break
				}
			}
		}
	}
	for m, mi := range infos {
		if mi.sets && errorResultIndex(m.Type().(*types.Signature)) < 0 {
			h.mutators[m] = true
		}
	}
	return h
}

func recvType(f *types.Func) types.Type {
	if r := f.Type().(*types.Signature).Recv(); r != nil {
		return r.Type()
	}
	return types.Typ[types.Invalid]
}

// holderBase strips the embedded *ErrorHolderImpl load: for v = *(&x.ErrorHolderImpl) returns x.
func (h *holderInfo) holderBase(v ssa.Value) ssa.Value {
	for i := 0; i < 4; i++ {
		if f, base := loadedField(v); f != nil && f.Embedded() && namedOf(f.Type()) == h.holderImpl {
			v = base
			continue
		}
		if fa, ok := v.(*ssa.FieldAddr); ok {
			if f, base := fieldOfAddr(fa); f != nil && f.Embedded() && namedOf(f.Type()) == h.holderImpl {
				v = base
				continue
			}
		}
		if ct, ok := v.(*ssa.ChangeType); ok {
			v = ct.X
			continue
		}
		if mi, ok := v.(*ssa.MakeInterface); ok {
			v = mi.X
			continue
		}
		break
	}
	return v
}

func (h *holderInfo) isHolderType(t types.Type) bool {
	n := namedOf(t)
	if n == nil {
		return false
	}
	if n == h.typedBucket || n == h.holderImpl {
		return true
	}
	return false
}

// consultOf: if instr reads the error state of a holder, return the holder base value.
func (h *holderInfo) consultOf(in ssa.Instruction) ssa.Value {
	switch x := in.(type) {
	case *ssa.UnOp:
		if f, base := loadedField(x); f != nil && sameVar(f, h.errField) {
			return h.holderBase(base)
		}
	case ssa.CallInstruction:
		cc := x.Common()
		name := ""
		if cc.IsInvoke() {
			name = cc.Method.Name()
			if name == "HasError" || name == "GetError" {
				return h.holderBase(cc.Value)
			}
			return nil
		}
		if cal, _ := calleeOf(cc); cal != nil && len(cc.Args) > 0 {
			name = cal.Name()
			if (name == "HasError" || name == "GetError") && namedOf(recvType(cal)) == h.holderImpl {
				return h.holderBase(cc.Args[0])
			}
		}
	}
	return nil
}

// ruleHolder: in every function with an error result, a holder that has been mutated (or has
// escaped and may have been mutated by a later call) must be consulted before any success return.
func ruleHolder(c *Ctx, rule string, fns []*ssa.Function, only map[string]bool) {
	h := newHolderInfo(c)
	c.Note(fmt.Sprintf("%s: %d TypedBucket methods may record an error without returning it (mutators), %d are chainable", rule, len(h.mutators), len(h.chainable)))
	for _, fn := range fns {
		ei := errorResultIndex(fn.Signature)
		if ei < 0 {
			continue
		}
		name := FnName(fn)
		if only != nil && !only[name] {
			continue
		}
		// alias classes: chainable call results alias their receiver
		alias := map[ssa.Value]ssa.Value{}
		var find func(v ssa.Value) ssa.Value
		find = func(v ssa.Value) ssa.Value {
			v = h.holderBase(v)
			for {
				n, ok := alias[v]
				if !ok || n == v {
					return v
				}
				v = h.holderBase(n)
			}
		}
		for _, ci := range callsIn(fn) {
			if call, ok := ci.(*ssa.Call); ok {
				if cal, _ := calleeOf(call.Common()); cal != nil && h.chainable[cal] && len(call.Call.Args) > 0 {
					alias[call] = call.Call.Args[0]
				}
			}
		}
		// collect holders with mutation points and retainers
		type hstate struct {
			mut []ssa.Instruction // explicit mutation points
		}
		holders := map[ssa.Value]*hstate{}
		get := func(v ssa.Value) *hstate {
			v = find(v)
			s := holders[v]
			if s == nil {
				s = &hstate{}
				holders[v] = s
			}
			return s
		}
		// derived buckets: a *TypedBucket result of a call that takes a holder as receiver/argument
		// is put in the same class (error state propagates to derived buckets at derivation time)
		for _, ci := range callsIn(fn) {
			call, ok := ci.(*ssa.Call)
			if !ok || !h.isHolderType(call.Type()) {
				continue
			}
			for _, a := range call.Call.Args {
				if h.isHolderType(a.Type()) && !isNilConst(a) {
					if cal, _ := calleeOf(call.Common()); cal != nil && cal.Name() == "NewTypedBucket" {
						continue // fresh holder; parent retained for Tx() only (checked by C07.HOLDER.PARENT)
					}
					alias[call] = a
					break
				}
			}
			if call.Call.IsInvoke() && h.isHolderType(call.Call.Value.Type()) {
				alias[call] = call.Call.Value
			}
		}
		// a join of nil and one holder (the result variable of an expanded lookup helper: nil where the lookup
		// found nothing, the derived bucket otherwise) is that holder
		for _, b := range fn.Blocks {
			for _, in := range b.Instrs {
				phi, ok := in.(*ssa.Phi)
				if !ok || !h.isHolderType(phi.Type()) {
					continue
				}
				var rep ssa.Value
				same := true
				for _, e := range phi.Edges {
					if isNilConst(e) || e == ssa.Value(phi) {
						continue
					}
					if rep == nil {
						rep = e
					} else if find(e) != find(rep) {
						same = false
					}
				}
				if rep != nil && same {
					if _, already := alias[phi]; !already && find(rep) != ssa.Value(phi) {
						alias[phi] = rep
					}
				}
			}
		}
		// field cells: a holder stored into x.f is the same holder when loaded back from x.f
		type cell struct {
			base ssa.Value
			fld  int
		}
		cells := map[cell]ssa.Value{}
		retainers := map[ssa.Value]ssa.Value{} // retaining object -> holder
		holderOperand := func(v ssa.Value) ssa.Value {
			if mi, ok := v.(*ssa.MakeInterface); ok {
				v = mi.X
			}
			if h.isHolderType(v.Type()) && !isNilConst(v) {
				return v
			}
			return nil
		}
		for _, b := range fn.Blocks {
			for _, in := range b.Instrs {
				if st, ok := in.(*ssa.Store); ok {
					if hv := holderOperand(st.Val); hv != nil {
						if fa, ok := st.Addr.(*ssa.FieldAddr); ok {
							if f, _ := fieldOfAddr(fa); f != nil && !f.Embedded() {
								cells[cell{fa.X, fa.Field}] = hv
								retainers[fa.X] = hv
							}
						}
					}
				}
			}
		}
		for _, b := range fn.Blocks {
			for _, in := range b.Instrs {
				if u, ok := in.(*ssa.UnOp); ok {
					if fa, ok := u.X.(*ssa.FieldAddr); ok {
						if hv, ok := cells[cell{fa.X, fa.Field}]; ok {
							alias[u] = hv
						}
					}
				}
			}
		}
		for _, b := range fn.Blocks {
			for _, in := range b.Instrs {
				x, ok := in.(ssa.CallInstruction)
				if !ok {
					continue
				}
				cc := x.Common()
				cal, _ := calleeOf(cc)
				args := cc.Args
				if cc.IsInvoke() {
					if cc.Method.Name() == "SetError" {
						if base := h.holderBase(cc.Value); true {
							if _, isCall := in.(*ssa.Call); isCall && hasRealReferrer(in.(*ssa.Call)) {
								// result tested by the caller: acts as a consultation
							} else if hv := holderOperand(base); hv != nil || isHolderIface(base.Type()) {
								get(base).mut = append(get(base).mut, in)
							}
						}
					}
				} else if cal != nil && len(args) > 0 && cal.Type().(*types.Signature).Recv() != nil {
					recv := args[0]
					if h.mutators[cal] && h.isHolderType(recv.Type()) {
						get(recv).mut = append(get(recv).mut, in)
					}
					if cal.Name() == "SetError" && namedOf(recvType(cal)) == h.holderImpl {
						base := h.holderBase(recv)
						if call, isCall := in.(*ssa.Call); isCall && hasRealReferrer(call) {
							// result tested by the caller: acts as a consultation
						} else if h.isHolderType(base.Type()) {
							get(base).mut = append(get(base).mut, in)
						}
					}
					args = args[1:]
				}
				if errorResultIndex(cc.Signature()) >= 0 {
					continue // the callee reports through its own error result (it is itself subject to this rule)
				}
				for _, a := range args {
					if hv := holderOperand(a); hv != nil {
						if cal != nil && cal.Name() == "NewTypedBucket" {
							continue
						}
						get(hv).mut = append(get(hv).mut, in)
						if call, ok := in.(*ssa.Call); ok && retains(call.Type()) && !h.isHolderType(call.Type()) {
							retainers[call] = hv
						}
					}
				}
				// calls on / with a retaining object may record into the holder it retains
				for i, a := range cc.Args {
					_ = i
					if hv, ok := retainers[a]; ok {
						get(hv).mut = append(get(hv).mut, in)
					}
				}
				if cc.IsInvoke() {
					if hv, ok := retainers[cc.Value]; ok {
						get(hv).mut = append(get(hv).mut, in)
					}
				}
			}
		}
		if len(holders) == 0 {
			continue
		}
		c.Analysed(name)
		fi := ComputeFacts(fn)
		for hv, st := range holders {
			if len(st.mut) == 0 {
				continue
			}
			// the receiver of a TypedBucket method is the caller's holder: its caller consults it
			// only through the returned error, so the method itself must return the holder's error.
			construct := name + ": holder " + describeValue(hv)
			isConsult := func(in ssa.Instruction) bool {
				b := h.consultOf(in)
				return b != nil && find(b) == hv
			}
			points := st.mut
			bad := false
			for _, pt := range points {
				ri := reachWithoutFrom(fn, pt, isConsult)
				for _, r := range returnsOf(fn) {
					if !ri.entryReach[r.Block()] && !(r.Block() == pt.Block() && instrIndex(r) > instrIndex(pt)) {
						continue
					}
					if r.Block() == pt.Block() && instrIndex(r) > instrIndex(pt) {
						// same block: consult between?
						blocked := false
						for i := instrIndex(pt) + 1; i < instrIndex(r); i++ {
							if isConsult(r.Block().Instrs[i]) {
								blocked = true
							}
						}
						if blocked {
							continue
						}
					} else if !ri.Reaches(r) {
						continue
					}
					k := classifyErr(fi, r.Block(), r.Results[ei], 0)
					if k == errNonNil {
						continue
					}
					if fi.HoldsWhere(r.Block(), func(f Fact) bool {
						return f.Kind == "nonnil" && !f.Pol && h.isHolderType(f.V.Type()) && find(f.V) == hv
					}) {
						continue // the (derived) holder is nil here: nothing was recorded through it
					}
					// returning the holder itself through another route (e.g. return x.Err) is a consult and was blocked above
					bad = true
					c.BadPath(rule, construct, c.P.Pos(r.Pos()),
						fmt.Sprintf("a %s return is reachable after %s without consulting the holder's error (HasError/GetError/.Err): a recorded failure would be reported as success",
							map[errKind]string{errNil: "nil-error", errMaybe: "possibly-nil"}[k], describeInstr(pt)),
						fmt.Sprintf("%s at %s -> return at %s", describeInstr(pt), c.P.Pos(pt.Pos()), c.P.Pos(r.Pos())))
					break
				}
				if bad {
					break
				}
			}
			if !bad {
				c.OK(rule, construct, c.P.Pos(fn.Pos()), fmt.Sprintf("%d mutation/escape point(s); every success return after them is preceded by a consultation of the holder", len(points)))
			}
		}
	}
}

func describeInstr(in ssa.Instruction) string {
	if ci, ok := in.(ssa.CallInstruction); ok {
		if f, _ := calleeOf(ci.Common()); f != nil {
			return "call " + shortObj(f)
		}
		return "call through " + ci.Common().Value.Name()
	}
	if _, ok := in.(*ssa.Store); ok {
		return "store"
	}
	return strings.SplitN(in.String(), "(", 2)[0]
}

// ruleFirstErrorWins: a direct assignment h.Err = ... (not through SetError) must be dominated by
// the knowledge that h.Err is nil, so that a later success cannot erase an earlier failure.
func ruleFirstErrorWins(c *Ctx, rule string) {
	h := newHolderInfo(c)
	proceed := c.P.Method("boltz", "TypedBucket", "ProceedWithSet")
	cg := c.P.CallGraph()
	type site struct {
		fn    *ssa.Function
		store *ssa.Store
		base  ssa.Value
	}
	var sites []site
	for _, fn := range c.prodFuncs("boltz") {
		for _, b := range fn.Blocks {
			for _, in := range b.Instrs {
				if st, ok := in.(*ssa.Store); ok {
					if fld, base := fieldOfAddr(st.Addr); sameVar(fld, h.errField) {
						if _, fresh := base.(*ssa.Alloc); fresh {
							continue // composite-literal initialisation of a new holder
						}
						sites = append(sites, site{fn, st, h.holderBase(base)})
					}
				}
			}
		}
	}
	// wrappers: a method whose single return is ProceedWithSet on a bucket loaded from a field of its receiver
	wrappers := map[*types.Func]*types.Var{}
	for _, fn := range c.prodFuncs("boltz") {
		rs := returnsOf(fn)
		if len(rs) != 1 || len(rs[0].Results) != 1 || len(fn.Params) == 0 || fn.Object() == nil {
			continue
		}
		if call, ok := rs[0].Results[0].(*ssa.Call); ok {
			if cal, _ := calleeOf(call.Common()); cal == proceed && len(call.Call.Args) > 0 {
				if fld, b := loadedField(call.Call.Args[0]); fld != nil && b == ssa.Value(fn.Params[0]) {
					wrappers[fn.Object().(*types.Func)] = fld
				}
			}
		}
	}
	guarded := func(fn *ssa.Function, at ssa.Instruction, base ssa.Value) (bool, string) {
		fi := ComputeFacts(fn)
		ok := fi.HoldsWhere(at.Block(), func(f Fact) bool {
			if f.Kind == "true" && f.Pol {
				if call, isCall := f.V.(*ssa.Call); isCall {
					if cal, _ := calleeOf(call.Common()); cal != nil && wrappers[cal] != nil && len(call.Call.Args) > 0 {
						if fld, b := loadedField(base); sameVar(fld, wrappers[cal]) && b == call.Call.Args[0] {
							return true
						}
					}
				}
			}
			// ProceedWithSet(...) true on the same bucket
			if f.Kind == "true" && f.Pol {
				if call, isCall := f.V.(*ssa.Call); isCall {
					if cal, _ := calleeOf(call.Common()); cal == proceed && len(call.Call.Args) > 0 && h.holderBase(call.Call.Args[0]) == base {
						return true
					}
				}
			}
			if f.Kind == "true" && !f.Pol {
				if call, isCall := f.V.(*ssa.Call); isCall {
					if b := h.consultOf(call); b != nil && b == base {
						if cal, _ := calleeOf(call.Common()); cal != nil && cal.Name() == "HasError" {
							return true
						}
					}
				}
			}
			// bucket.Err == nil
			if f.Kind == "nonnil" && !f.Pol {
				if fld, b := loadedField(f.V); sameVar(fld, h.errField) && h.holderBase(b) == base {
					return true
				}
			}
			return false
		})
		return ok, fi.Describe(at.Block())
	}
	for _, s := range sites {
		name := FnName(s.fn)
		c.Analysed(name)
		if ok, _ := guarded(s.fn, s.store, s.base); ok {
			c.OK(rule, name, c.P.Pos(s.store.Pos()), "the direct assignment to .Err is dominated by ProceedWithSet / Err == nil / !HasError on the same holder")
			continue
		}
		// callers-hold for private helpers whose receiver is the holder
		if len(s.fn.Params) > 0 && s.base == ssa.Value(s.fn.Params[0]) && !s.fn.Object().Exported() {
			all, n := true, 0
			var missing string
			for _, caller := range cg.callers[s.fn] {
				for _, ci := range callsIn(caller) {
					if cal, _ := calleeOf(ci.Common()); cal == s.fn.Object() && len(ci.Common().Args) > 0 {
						n++
						if ok, _ := guarded(caller, ci, h.holderBase(ci.Common().Args[0])); !ok {
							all = false
							missing = FnName(caller) + " at " + c.P.Pos(ci.Pos())
						}
					}
				}
			}
			if all && n > 0 {
				c.OK(rule, name, c.P.Pos(s.store.Pos()), fmt.Sprintf("private helper: all %d call sites hold the Err==nil guard (callers-hold)", n))
				continue
			}
			c.Bad(rule, name, c.P.Pos(s.store.Pos()), "direct assignment to .Err without an Err==nil guard; unguarded caller: "+missing)
			continue
		}
		c.Bad(rule, name, c.P.Pos(s.store.Pos()), "direct assignment to .Err is not dominated by ProceedWithSet / Err == nil / !HasError: a later success can erase an earlier failure")
	}
}

// ---- C07.TXFN --------------------------------------------------------------------------------

func ruleTxFn(c *Ctx, rule string) {
	p := c.P
	mc := p.Named("boltz", "MutateContext")
	setTx := p.Method("boltz", "MutateContext", "setTx")
	runPre := p.Method("boltz", "MutateContext", "runPreCommitActions")
	dbUpdate := p.ExtMethod(bboltPath, "DB", "Update")
	dbBatch := p.ExtMethod(bboltPath, "DB", "Batch")
	isFnCall := func(in ssa.Instruction) bool {
		ci, ok := in.(ssa.CallInstruction)
		if !ok || ci.Common().IsInvoke() || ci.Common().StaticCallee() != nil {
			return false
		}
		sig := ci.Common().Signature()
		return sig.Params().Len() == 1 && types.Identical(sig.Params().At(0).Type(), mc) && errorResultIndex(sig) == 0 && sig.Results().Len() == 1
	}
	_, _ = dbUpdate, dbBatch
	// every place where a bolt write transaction is entered (directly, through a function value that
	// stands for (*bbolt.DB).Update/Batch, or through a forwarding closure), with its body closure
	seenKinds := map[string]bool{}
	sites := txSites(c)
	for _, site := range sites {
		if (!site.Kinds["Update"] && !site.Kinds["Batch"]) || site.Forwarder {
			continue
		}
		for k := range site.Kinds {
			seenKinds[k] = true
		}
		outer := site.Outer
		name := FnName(outer)
		c.Analysed(name)
		boltCall := site.Call
		if len(site.Body) != 1 {
			c.Undecided(rule, name+": closure", c.P.Pos(boltCall.Pos()), "the function passed to bbolt is not a single literal closure; cannot analyse its paths")
			continue
		}
		inner := site.Body[0]
		c.Analysed(FnName(inner))
		// (1) outer: every return is preceded by the bolt call or a direct fn(ctx) (nested use)
		// (a function that chooses between db.Update and db.Batch has two such sites: either one runs it)
		ri := reachWithout(outer, func(in ssa.Instruction) bool {
			for _, other := range sites {
				if other.Outer == outer && (other.Kinds["Update"] || other.Kinds["Batch"]) && !other.Forwarder && in == ssa.Instruction(other.Call) {
					return true
				}
			}
			return in == ssa.Instruction(boltCall) || isFnCall(in)
		})
		okOuter := true
		for _, r := range returnsOf(outer) {
			if ri.Reaches(r) {
				okOuter = false
				c.BadPath(rule, name+": runs the body", c.P.Pos(r.Pos()), "a return is reachable without running the caller's function (neither inside a bolt transaction nor directly for nested use)", ri.PathTo(r))
			}
		}
		if okOuter {
			c.OK(rule, name+": runs the body", c.P.Pos(outer.Pos()), "every return is preceded by the bolt transaction or, for nested use, a direct call of fn(ctx)")
		}
		// (2) defer ctx.setTx(nil) dominates the bolt call
		hasDefer := false
		for _, ci := range callsIn(outer) {
			if d, ok := ci.(*ssa.Defer); ok && isCallTo(d, setTx) && len(d.Call.Args) == 1 && isNilConst(d.Call.Args[0]) {
				if d.Block().Dominates(boltCall.Block()) {
					hasDefer = true
				}
			}
		}
		c.Check(hasDefer, rule, name+": defer setTx(nil)", c.P.Pos(boltCall.Pos()), "deferred setTx(nil) dominates the bolt call", "no deferred ctx.setTx(nil) dominating the bolt call: the context keeps a dead transaction")
		// (3) inner ordering on all paths to a possibly-successful return
		fi := ComputeFacts(inner)
		var succ []*ssa.Return
		for _, r := range returnsOf(inner) {
			if classifyErr(fi, r.Block(), r.Results[0], 0) != errNonNil {
				succ = append(succ, r)
			}
		}
		isSetTx := func(in ssa.Instruction) bool { return isCallTo(in, setTx) }
		isRunPre := func(in ssa.Instruction) bool { return isCallTo(in, runPre) }
		check := func(what string, blocker func(ssa.Instruction) bool, targets func(ssa.Instruction) bool, okWhy, badWhy string) {
			ri := reachWithout(inner, blocker)
			bad := false
			n := 0
			for _, b := range inner.Blocks {
				for _, in := range b.Instrs {
					if targets(in) {
						n++
						if ri.Reaches(in) {
							bad = true
							c.BadPath(rule, FnName(inner)+": "+what, c.P.Pos(in.Pos()), badWhy, ri.PathTo(in))
						}
					}
				}
			}
			if n == 0 {
				c.Bad(rule, FnName(inner)+": "+what, c.P.Pos(inner.Pos()), "no such site found: "+badWhy)
			} else if !bad {
				c.OK(rule, FnName(inner)+": "+what, c.P.Pos(inner.Pos()), okWhy)
			}
		}
		isSucc := func(in ssa.Instruction) bool {
			for _, r := range succ {
				if in == ssa.Instruction(r) {
					return true
				}
			}
			return false
		}
		if strings.HasPrefix(rule, "C16.") {
			// the context fn runs with: where it is what a setTx call answered, every context kind's setTx must
			// answer with the context it was called on — a system context that answers with the ordinary context
			// it wraps runs fn (and the pre-commit actions) without system rights
			for _, b := range inner.Blocks {
				for _, in := range b.Instrs {
					ci, isCI := in.(ssa.CallInstruction)
					if !isCI || !isFnCall(in) || len(ci.Common().Args) != 1 {
						continue
					}
					arg := ci.Common().Args[0]
					if ld, isLd := arg.(*ssa.UnOp); isLd && ld.Op == token.MUL {
						if cell, isAl := ld.X.(*ssa.Alloc); isAl {
							if st := singleStoreTo(cell); st != nil {
								arg = st.Val
							}
						}
					}
					k, isCall := arg.(*ssa.Call)
					if !isCall || !isCallTo(k, setTx) {
						continue
					}
					bad := ""
					for _, impl := range c.prodFuncs("boltz") {
						if impl.Name() != setTx.Name() || impl.Signature.Recv() == nil || impl.Parent() != nil || len(impl.Params) != 2 {
							continue
						}
						for _, r := range returnsOf(impl) {
							v := r.Results[0]
							if mi, isMI := v.(*ssa.MakeInterface); isMI {
								v = mi.X
							}
							if v != ssa.Value(impl.Params[0]) {
								bad = FnName(impl) + " answers with " + describeValue(r.Results[0]) + ", not with the context it was called on"
							}
						}
					}
					c.Check(bad == "", rule, FnName(inner)+": context handed to fn", c.P.Pos(in.Pos()), "fn runs with what setTx answered, and every setTx answers with its own context", "fn runs with the context setTx answered with, and "+bad+": a transaction opened with a system context runs the caller's function, the pre-commit actions and the listeners with an ordinary context, so operations on system entities are refused")
				}
			}
		}
		check("setTx before fn", isSetTx, isFnCall, "ctx.setTx(tx) precedes fn(ctx) on every path", "fn(ctx) is reachable before ctx.setTx(tx)")
		check("fn before pre-commit", isFnCall, isRunPre, "fn(ctx) precedes runPreCommitActions on every path", "runPreCommitActions is reachable without fn(ctx)")
		check("pre-commit before success", isRunPre, isSucc, "every possibly-successful return is preceded by runPreCommitActions", "a successful return is reachable without running the pre-commit actions")
		check("fn before success", isFnCall, isSucc, "every possibly-successful return is preceded by fn(ctx)", "a successful return is reachable without running fn(ctx)")
	}
	for _, k := range []string{"Update", "Batch"} {
		c.Check(seenKinds[k], rule, "boltz: bbolt "+k+" transaction", "-", "a transaction entry running through (*bbolt.DB)."+k+" exists and was analysed", "no entry into a bbolt "+k+" transaction was found: DbImpl."+k+" does not run its function in such a transaction")
	}
}

func anonFromArg(v ssa.Value) *ssa.Function {
	switch x := v.(type) {
	case *ssa.MakeClosure:
		if f, ok := x.Fn.(*ssa.Function); ok {
			return f
		}
	case *ssa.Function:
		return x
	}
	return nil
}

// ---- C07.POSTCOMMIT --------------------------------------------------------------------------

// postCommitOnly computes the greatest set of repository functions every reference to which is
// either a registration with bbolt Tx.OnCommit or located in a function of the set.
func postCommitOnly(c *Ctx) (set map[*ssa.Function]bool, refs map[*ssa.Function][]string) {
	p := c.P
	onCommit := p.ExtMethod(bboltPath, "Tx", "OnCommit")
	cg := p.CallGraph()
	type ref struct {
		from *ssa.Function
		reg  bool
		pos  string
	}
	all := map[*ssa.Function][]ref{}
	resolve := func(f *ssa.Function) *ssa.Function {
		if f == nil {
			return nil
		}
		if f.Synthetic != "" {
			if obj, ok := f.Object().(*types.Func); ok && obj != nil {
				if r := p.SSA.FuncValue(obj.Origin()); r != nil {
					return r
				}
			}
		}
		if o := f.Origin(); o != nil {
			return o
		}
		return f
	}
	var funcs []*ssa.Function
	for _, fn := range cg.funcs {
		funcs = append(funcs, fn)
	}
	for _, fn := range funcs {
		if isControl(FnName(fn)) {
			continue // positive controls must not influence the verdict on real code
		}
		for _, b := range fn.Blocks {
			for _, in := range b.Instrs {
				// function values created here
				var operands []*ssa.Value
				operands = in.Operands(operands)
				isReg := isCallTo(in, onCommit)
				for _, op := range operands {
					if op == nil || *op == nil {
						continue
					}
					var target *ssa.Function
					switch v := (*op).(type) {
					case *ssa.Function:
						target = resolve(v)
					case *ssa.MakeClosure:
						// the closure value itself is counted where it is used
						continue
					}
					if target == nil || target.Blocks == nil {
						continue
					}
					// direct call or function value use
					_, isMk := in.(*ssa.MakeClosure)
					if isMk {
						// in is the MakeClosure; who uses it?
						mk := in.(*ssa.MakeClosure)
						reg := true
						n := 0
						for _, r := range *mk.Referrers() {
							if _, dbg := r.(*ssa.DebugRef); dbg {
								continue
							}
							n++
							if !isCallTo(r, onCommit) {
								reg = false
							}
						}
						all[target] = append(all[target], ref{fn, reg && n > 0, p.Pos(in.Pos())})
						continue
					}
					all[target] = append(all[target], ref{fn, isReg && !isCallee(in, *op), p.Pos(in.Pos())})
				}
				// interface dispatch
				if ci, ok := in.(ssa.CallInstruction); ok && ci.Common().IsInvoke() {
					for _, t := range cg.CalleesOf(ci.Common()) {
						all[t] = append(all[t], ref{fn, false, p.Pos(in.Pos())})
					}
				}
			}
		}
	}
	set = map[*ssa.Function]bool{}
	for _, fn := range funcs {
		if len(all[fn]) > 0 {
			set[fn] = true
		}
	}
	for changed := true; changed; {
		changed = false
		for fn := range set {
			for _, r := range all[fn] {
				if r.reg {
					continue
				}
				if !set[r.from] {
					delete(set, fn)
					changed = true
					break
				}
			}
		}
	}
	refs = map[*ssa.Function][]string{}
	for fn, rs := range all {
		for _, r := range rs {
			tag := "ref"
			if r.reg {
				tag = "OnCommit"
			}
			refs[fn] = append(refs[fn], fmt.Sprintf("%s in %s", tag, FnName(r.from)))
		}
	}
	return set, refs
}

func isCallee(in ssa.Instruction, v ssa.Value) bool {
	ci, ok := in.(ssa.CallInstruction)
	return ok && ci.Common().Value == v
}

func rulePostCommit(c *Ctx, rule string) {
	p := c.P
	set, refs := postCommitOnly(c)
	commitActions := p.Field("boltz", "mutateContext", "commitActions")
	mc := p.Named("boltz", "MutateContext")
	report := func(fn *ssa.Function, what string, pos string) {
		name := FnName(fn)
		c.Analysed(name)
		if set[fn] {
			c.OK(rule, name+": "+what, pos, "reachable only through a function value registered with bbolt Tx.OnCommit")
		} else {
			c.Bad(rule, name+": "+what, pos, fmt.Sprintf("post-commit work can run outside a commit hook: this function is not reachable only via tx.OnCommit registrations (references: %s)", strings.Join(refs[fn], "; ")))
		}
	}
	for _, fn := range c.prodFuncs("boltz") {
		readsCommitActions := false
		for _, b := range fn.Blocks {
			for _, in := range b.Instrs {
				if fa, ok := in.(*ssa.FieldAddr); ok {
					if f, _ := fieldOfAddr(fa); sameVar(f, commitActions) {
						readsCommitActions = true
					}
				}
			}
		}
		for _, ci := range callsIn(fn) {
			cc := ci.Common()
			if cc.IsInvoke() && cc.Method.Name() == "ProcessPostCommit" {
				report(fn, "invokes ProcessPostCommit", p.Pos(ci.Pos()))
				continue
			}
			if cc.IsInvoke() || cc.StaticCallee() != nil {
				continue
			}
			if _, isBuiltin := cc.Value.(*ssa.Builtin); isBuiltin {
				continue
			}
			sig := cc.Signature()
			// commit actions: func() values called in a function that reads mutateContext.commitActions
			if readsCommitActions && sig.Params().Len() == 0 && sig.Results().Len() == 0 {
				report(fn, "runs commit actions", p.Pos(ci.Pos()))
			}
			// tx-complete listeners: func(MutateContext) values
			if sig.Params().Len() == 1 && sig.Results().Len() == 0 && types.Identical(sig.Params().At(0).Type(), mc) {
				report(fn, "runs tx-complete listeners", p.Pos(ci.Pos()))
			}
		}
	}
}

func retains(t types.Type) bool {
	switch t.Underlying().(type) {
	case *types.Pointer, *types.Interface, *types.Struct, *types.Slice, *types.Map:
		return true
	}
	return false
}

func isHolderIface(t types.Type) bool {
	it, ok := t.Underlying().(*types.Interface)
	if !ok {
		return false
	}
	n := 0
	for i := 0; i < it.NumMethods(); i++ {
		switch it.Method(i).Name() {
		case "SetError", "HasError", "GetError":
			n++
		}
	}
	return n == 3
}

// ruleHolderReplaced: the embedded *ErrorHolderImpl of a bucket may be re-pointed only on a bucket
// created in the same function (sharing an existing holder with a fresh bucket). Re-pointing a
// bucket that came in through a parameter/receiver throws away whatever it had already recorded.
func ruleHolderReplaced(c *Ctx, rule string) {
	p := c.P
	h := newHolderInfo(c)
	n := 0
	for _, fn := range c.prodFuncs("boltz") {
		for _, b := range fn.Blocks {
			for _, in := range b.Instrs {
				st, ok := in.(*ssa.Store)
				if !ok {
					continue
				}
				f, base := fieldOfAddr(st.Addr)
				if f == nil || !f.Embedded() || namedOf(f.Type()) != h.holderImpl || namedOf(base.Type()) != h.typedBucket {
					continue
				}
				if _, isAlloc := base.(*ssa.Alloc); isAlloc {
					continue // composite literal of a new bucket
				}
				n++
				name := FnName(fn)
				c.Analysed(name)
				// the bucket being re-pointed must be fresh: a call result in this function (possibly read back from a
				// struct under construction), not something reachable from a parameter
				fresh := false
				var root func(v ssa.Value, depth int) ssa.Value
				root = func(v ssa.Value, depth int) ssa.Value {
					if depth > 6 {
						return v
					}
					switch x := v.(type) {
					case *ssa.UnOp:
						if fa, ok := x.X.(*ssa.FieldAddr); ok {
							// value read from a field: look for the store into the same cell in this function
							for _, b2 := range fn.Blocks {
								for _, in2 := range b2.Instrs {
									if st2, ok := in2.(*ssa.Store); ok {
										if fa2, ok := st2.Addr.(*ssa.FieldAddr); ok && fa2.Field == fa.Field && fa2.X == fa.X {
											return root(st2.Val, depth+1)
										}
									}
								}
							}
							return root(fa.X, depth+1)
						}
						return root(x.X, depth+1)
					case *ssa.FieldAddr:
						return root(x.X, depth+1)
					}
					return v
				}
				r := root(base, 0)
				if _, isCall := r.(*ssa.Call); isCall {
					fresh = true
				}
				if _, isAlloc := r.(*ssa.Alloc); isAlloc {
					fresh = true
				}
				c.Check(fresh, rule, name, p.Pos(st.Pos()), "the error holder is shared INTO a bucket obtained in this function", "the error holder of an existing bucket ("+describeValue(r)+") is replaced: errors it had already recorded (e.g. a constraint veto) are forgotten")
			}
		}
	}
	if n == 0 {
		c.OK(rule, "boltz", "-", "no bucket has its error holder re-pointed")
	}
}

// ruleHandledContract: BaseStore.Update reads the error of a child-store strategy only when the
// strategy says it handled the update; so a strategy must never return (false, non-nil error).
func ruleHandledContract(c *Ctx, rule string) {
	p := c.P
	cg := p.CallGraph()
	hm := p.Method("boltz", "ChildStoreStrategy", "HandleUpdate")
	// the caller side: the error is consulted only under `handled`
	up := p.SSAFunc(p.Method("boltz", "BaseStore", "Update"))
	consultsOnlyUnderHandled := false
	fi := ComputeFacts(up)
	for _, call := range callsIn(up) {
		if !invokeNamed(call, "HandleUpdate") {
			continue
		}
		for _, r := range *call.(*ssa.Call).Referrers() {
			if ex, ok := r.(*ssa.Extract); ok && ex.Index == 1 {
				for _, u := range *ex.Referrers() {
					if ret, isRet := u.(*ssa.Return); isRet {
						consultsOnlyUnderHandled = fi.HoldsWhere(ret.Block(), func(f Fact) bool {
							e2, isE := f.V.(*ssa.Extract)
							return f.Kind == "true" && f.Pol && isE && e2.Index == 0 && e2.Tuple == ex.Tuple
						})
					}
				}
			}
		}
	}
	n := 0
	for _, f := range cg.Implementers(hm) {
		fn := p.SSA.FuncValue(f)
		if fn == nil || fn.Blocks == nil || p.isTestSupport(fn.Pos()) {
			continue
		}
		n++
		name := FnName(fn)
		c.Analysed(name)
		ffi := ComputeFacts(fn)
		ok := true
		for _, r := range returnsOf(fn) {
			if b, isB := boolConst(r.Results[0]); isB && !b {
				if classifyErr(ffi, r.Block(), r.Results[1], 0) != errNil {
					ok = false
				}
			} else if !isB && consultsOnlyUnderHandled {
				// handled is computed: the error must not be returned with a possibly-false flag
				if classifyErr(ffi, r.Block(), r.Results[1], 0) != errNil {
					ok = false
				}
			}
		}
		c.Check(ok, rule, name, p.Pos(fn.Pos()), "never returns an error together with handled=false (the store reads the error only when handled)", "returns (handled=false, error): BaseStore.Update ignores the error in that case, performs its own plain update and reports success — a veto of the delegated child update is lost")
	}
	if n == 0 {
		c.Bad(rule, "boltz.ChildStoreStrategy.HandleUpdate", "-", "no implementation found")
	}
}
