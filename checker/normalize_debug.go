package main

import (
	"fmt"
	"go/ast"
	"go/printer"
	"os"
	"sort"
	"strings"
)

// dumpNormalized prints the normalised source of every function whose name contains pat, and the
// normalisation statistics.
func dumpNormalized(p *Prog, pat string) {
	for _, pk := range p.All {
		for _, f := range pk.Syntax {
			for _, d := range f.Decls {
				fd, ok := d.(*ast.FuncDecl)
				if !ok || !strings.Contains(fd.Name.Name, pat) {
					continue
				}
				fmt.Printf("// ---- %s (%s)\n", fd.Name.Name, p.Pos(fd.Pos()))
				_ = printer.Fprint(os.Stdout, p.Fset, fd)
				fmt.Println()
			}
		}
	}
	if p.Norm != nil {
		fmt.Printf("// expanded %d call sites in %d functions, reverted %d\n", p.Norm.Expanded, p.Norm.Funcs, p.Norm.Reverted)
		var hs []string
		for h, n := range p.Norm.Helpers {
			hs = append(hs, fmt.Sprintf("%s x%d", h, n))
		}
		sort.Strings(hs)
		fmt.Println("// helpers: " + strings.Join(hs, ", "))
		fmt.Printf("// not expandable: %v\n", p.Norm.SkippedWhy)
	}
}
