package main

import (
	"embed"
	"encoding/json"
	"flag"
	"fmt"
	"os"
	"path/filepath"
	"runtime/debug"
	"sort"
	"strings"
	"time"
)

//go:embed controls
var controlFS embed.FS

// Property describes one claimed property and its rule set.
type Property struct {
	ID          string
	Title       string
	Technique   string
	LevelText   string
	LevelNote   string
	DesignRef   string
	Explanation string
	Trusted     []string
	Assumptions []string
	Rules       func(c *Ctx)
	Thorough    func(c *Ctx) // extra rules for the thorough tier (may be nil)
	Controls    []controlExpect
}

var registry = map[string]*Property{}

func register(p *Property) { registry[p.ID] = p }

var globalNoNorm bool

func main() {
	prop := flag.String("prop", "", "property id (C01..C20)")
	tier := flag.String("tier", "quick", "quick|thorough")
	repo := flag.String("repo", "/repo", "repository root")
	verif := flag.String("verif", "", "verif dir (default: dir above the binary)")
	genManifest := flag.Bool("gen-manifest", false, "print MANIFEST.json")
	explain := flag.String("explain", "", "print a replay file")
	list := flag.Bool("list", false, "list properties")
	noNorm := flag.Bool("no-normalize", false, "debugging: analyse the program as written, without helper expansion")
	dumpNorm := flag.String("dump-normalized", "", "debugging: print the normalised source of the named function(s) (substring of the declaration name) and exit")
	flag.BoolVar(&debugNormalize, "debug-normalize", false, "debugging: log reverted functions")
	flag.Parse()
	globalNoNorm = *noNorm
	if *dumpNorm != "" {
		prog, err := Load(LoadOpts{Root: *repo})
		if err != nil {
			fmt.Println(err)
			os.Exit(2)
		}
		dumpNormalized(prog, *dumpNorm)
		return
	}

	if *verif == "" {
		exe, _ := os.Executable()
		*verif = filepath.Dir(filepath.Dir(exe))
		if _, err := os.Stat(filepath.Join(*verif, "properties.jsonl")); err != nil {
			*verif = "/verif"
		}
	}
	if *explain != "" {
		b, err := os.ReadFile(*explain)
		if err != nil {
			fmt.Println(err)
			os.Exit(2)
		}
		fmt.Print(string(b))
		return
	}
	if *list {
		var ids []string
		for id := range registry {
			ids = append(ids, id)
		}
		sort.Strings(ids)
		for _, id := range ids {
			fmt.Println(id, registry[id].Title)
		}
		return
	}
	if *genManifest {
		genManifestJSON(*verif)
		return
	}
	if t := os.Getenv("VERIF_TIER"); t != "" && *tier == "" {
		*tier = t
	}
	p := registry[*prop]
	if p == nil {
		fmt.Fprintf(os.Stderr, "unknown property %q\n", *prop)
		os.Exit(2)
	}
	os.Exit(run(p, *tier, *repo, *verif))
}

func controlOverlay(prop, repo string) map[string][]byte {
	ov := map[string][]byte{}
	dir := "controls/" + prop
	ents, err := controlFS.ReadDir(dir)
	if err != nil {
		return ov
	}
	for _, e := range ents {
		// file name: <pkg>__<name>.go.txt  -> /repo/<pkg>/zz_verif_control_<prop>_<name>.go
		n := e.Name()
		if !strings.HasSuffix(n, ".go.txt") {
			continue
		}
		parts := strings.SplitN(strings.TrimSuffix(n, ".go.txt"), "__", 2)
		if len(parts) != 2 {
			continue
		}
		b, _ := controlFS.ReadFile(dir + "/" + n)
		ov[filepath.Join(repo, parts[0], "zz_verif_control_"+prop+"_"+parts[1]+".go")] = b
	}
	return ov
}

func run(p *Property, tier, repo, verif string) (code int) {
	start := time.Now()
	var c *Ctx
	fail := func(rule, what, why string) int {
		// a tree the checker cannot read is never reported as "held"
		if c == nil {
			c = NewCtx(&Prog{Root: repo}, p.ID, tier)
		}
		c.Undecided(rule, what, "-", why)
		out := c.Finish(verif, nil, start, p.Explanation, p.Trusted, p.Assumptions)
		return out.ExitCode
	}
	prog, err := Load(LoadOpts{Root: repo, Whole: tier == "thorough", Overlay: controlOverlay(p.ID, repo), NoNorm: globalNoNorm})
	if err != nil {
		return fail("FRAMEWORK.LOAD", "load "+repo, err.Error())
	}
	c = NewCtx(prog, p.ID, tier)
	runRules := func(name string, f func(c *Ctx)) {
		defer func() {
			if r := recover(); r != nil {
				if al, ok := r.(anchorLost); ok {
					c.Undecided("FRAMEWORK.ANCHOR", al.what, "-", "an identifier the rules are anchored on no longer resolves ("+name+"); nothing was decided for the rules that need it")
					return
				}
				c.Undecided("FRAMEWORK.PANIC", name, "-", fmt.Sprintf("checker panic: %v\n%s", r, debug.Stack()))
			}
		}()
		f(c)
	}
	runRules(p.ID+" rules", p.Rules)
	if tier == "thorough" && p.Thorough != nil {
		runRules(p.ID+" thorough rules", p.Thorough)
	}
	if tier == "thorough" {
		// second load for the other word size: build-tag dependent files are covered too
		prog386, err := Load(LoadOpts{Root: repo, Whole: false, GoArch: "386", Overlay: controlOverlay(p.ID, repo), NoNorm: globalNoNorm})
		if err != nil {
			c.Undecided("FRAMEWORK.LOAD386", "load GOARCH=386", "-", err.Error())
		} else {
			c386 := NewCtx(prog386, p.ID, tier)
			func() {
				defer func() {
					if r := recover(); r != nil {
						c386.Undecided("FRAMEWORK.PANIC", "GOARCH=386 rules", "-", fmt.Sprint(r))
					}
				}()
				p.Rules(c386)
			}()
			// every obligation must agree
			st := map[string]Status{}
			for _, o := range c.obls {
				st[o.Key()] = o.Status
			}
			for _, o := range c386.obls {
				if o.Control {
					continue
				}
				if s, ok := st[o.Key()]; !ok || s != o.Status {
					if o.Status != Discharged {
						c.add(o.Rule, o.Construct+" [GOARCH=386]", o.Pos, o.Status, o.Why, o.Path)
					}
				}
			}
			c.Note(fmt.Sprintf("GOARCH=386 reload: %d obligations compared", len(c386.obls)))
		}
	}
	out := c.Finish(verif, p.Controls, start, p.Explanation, p.Trusted, p.Assumptions)
	return out.ExitCode
}

// ---- manifest -----------------------------------------------------------------

func genManifestJSON(verif string) {
	type lvl struct {
		Category  string `json:"category"`
		Text      string `json:"text"`
		DesignRef string `json:"design_ref,omitempty"`
	}
	type check struct {
		PropertyID string `json:"property_id"`
		Quick      string `json:"quick_cmd"`
		Thorough   string `json:"thorough_cmd"`
		Evidence   string `json:"evidence_file"`
		Replay     string `json:"replay_cmd_template"`
		Engine     string `json:"engine"`
		Level      lvl    `json:"level_claimed"`
		LevelNote  string `json:"level_note"`
		Technique  string `json:"technique"`
	}
	var ids []string
	for id := range registry {
		ids = append(ids, id)
	}
	sort.Strings(ids)
	var checks []check
	for _, id := range ids {
		p := registry[id]
		checks = append(checks, check{
			PropertyID: id,
			Quick:      "bin/storagecheck -prop " + id + " -tier quick",
			Thorough:   "bin/storagecheck -prop " + id + " -tier thorough",
			Evidence:   "evidence/" + id + ".json",
			Replay:     "bin/storagecheck -explain {path}",
			Engine:     "storagecheck",
			Level:      lvl{"other", p.LevelText, p.DesignRef},
			LevelNote:  p.LevelNote,
			Technique:  p.Technique,
		})
	}
	type na struct {
		PropertyID string `json:"property_id"`
		Reason     string `json:"reason"`
	}
	var nas []na
	// properties not (yet) claimed
	b, _ := os.ReadFile(filepath.Join(verif, "properties.jsonl"))
	naReasons := map[string]string{}
	if nb, err := os.ReadFile(filepath.Join(verif, "not_applicable.json")); err == nil {
		_ = json.Unmarshal(nb, &naReasons)
	}
	for _, line := range strings.Split(string(b), "\n") {
		if strings.TrimSpace(line) == "" {
			continue
		}
		var rec struct {
			ID string `json:"id"`
		}
		if json.Unmarshal([]byte(line), &rec) == nil && registry[rec.ID] == nil {
			r := naReasons[rec.ID]
			if r == "" {
				r = "no sound static rule built for this property yet; not claimed"
			}
			nas = append(nas, na{rec.ID, r})
		}
	}
	m := map[string]any{
		"version":   1,
		"setup_cmd": "cd /verif/checker && GOFLAGS=-mod=mod GOPROXY=off GOSUMDB=off GOTOOLCHAIN=local GOWORK=off go build -o /verif/bin/storagecheck .",
		"hooks": map[string]any{
			"guard":            "verif",
			"enable":           "none needed: static analysis reads /repo's source; no instrumentation is compiled in (the tag `verif` guards nothing)",
			"baseline_off_cmd": "cd /repo && GOFLAGS=-mod=mod go test -vet=off -count=1 -timeout 25m ./...",
			"source_commits":   []string{},
			"add_only":         true,
		},
		"engines": []map[string]any{{
			"name":              "storagecheck",
			"path":              "checker/",
			"serves_properties": ids,
			"kind_free_text":    "repository-specific static analyser (go/packages + go/types + go/ssa + CHA/VTA call graph, x/tools v0.29.0): per-property rule sets over enumerated sites, CFG must-pass/dominance facts, effect summaries, writer/reader tables, decision tables of loop-free evaluators; positive controls injected as in-memory overlay files",
		}},
		"checks":         checks,
		"not_applicable": nas,
		"notes":          "All claims are level `other`: structural necessary conditions decided from source for every path/site, not the behavioural statement itself; see DESIGN.md per property for what is and is not decided. known_findings.json lists genuine defects recorded rather than repaired.",
	}
	if nas == nil {
		m["not_applicable"] = []na{}
	}
	out, _ := json.MarshalIndent(m, "", " ")
	fmt.Println(string(out))
}
