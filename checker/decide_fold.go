package main

import (
	"fmt"
	"go/constant"
	"go/token"
	"go/types"
	"os"
	"regexp"
	"strings"

	"golang.org/x/tools/go/ssa"
)

// Constant folding for DECIDE: when every operand of a pure standard-library string function is a decided
// constant, the result is computed by the checker (the functions are deterministic and side-effect free, so
// this is ordinary constant propagation, as a compiler would do it).  The same for a package-level
// *regexp.Regexp that is compiled once from a constant pattern.

// AV kind "list": a decided slice value (of strings, or of lists); kind "regexp": Sym holds the pattern.

func avStr(s string) AV { return avConst(constant.MakeString(s)) }

func avStrList(ss []string) AV {
	if ss == nil {
		return AV{Kind: "nil"}
	}
	out := AV{Kind: "list"}
	for _, s := range ss {
		out.Tup = append(out.Tup, avStr(s))
	}
	return out
}

func avString(a AV) (string, bool) {
	if a.Kind == "const" && a.C.Kind() == constant.String {
		return constant.StringVal(a.C), true
	}
	return "", false
}

func constI(a AV) (int, bool) {
	if a.Kind == "const" && a.C.Kind() == constant.Int {
		k, ok := constant.Int64Val(a.C)
		return int(k), ok
	}
	return 0, false
}

// foldCall: the value of a call of a pure function of package strings / regexp with decided arguments.
func (r *decideRun) foldCall(x *ssa.Call) (AV, bool) {
	if x.Call.IsInvoke() {
		return AV{}, false
	}
	cal, _ := calleeOf(x.Common())
	if cal == nil || cal.Pkg() == nil {
		return AV{}, false
	}
	pkg := cal.Pkg().Path()
	if pkg != "strings" && pkg != "regexp" {
		return AV{}, false
	}
	saved := r.err
	args := make([]AV, len(x.Call.Args))
	for i, a := range x.Call.Args {
		args[i] = r.eval(a)
	}
	r.err = saved
	s := func(i int) (string, bool) {
		if i >= len(args) {
			return "", false
		}
		return avString(args[i])
	}
	if pkg == "strings" && cal.Type().(*types.Signature).Recv() != nil {
		// (*strings.Replacer).Replace on a replacer built from constant pairs
		if cal.Name() == "Replace" && len(args) == 2 && args[0].Kind == "replacer" {
			if text, ok := s(1); ok {
				var pairs []string
				for _, e := range args[0].Tup {
					str, _ := avString(e)
					pairs = append(pairs, str)
				}
				return avStr(strings.NewReplacer(pairs...).Replace(text)), true
			}
		}
		return AV{}, false
	}
	if pkg == "strings" {
		if cal.Name() == "NewReplacer" && len(x.Call.Args) == 1 {
			if pairs, ok := r.constVariadic(x.Call.Args[0]); ok && len(pairs)%2 == 0 {
				return AV{Kind: "replacer", Tup: pairs}, true
			}
			return AV{}, false
		}
		if cal.Name() == "IndexByte" && len(args) == 2 {
			if str, ok := s(0); ok {
				if k, okK := constI(args[1]); okK {
					return avInt(int64(strings.IndexByte(str, byte(k)))), true
				}
			}
			return AV{}, false
		}
		a0, ok0 := s(0)
		a1, ok1 := s(1)
		a2, ok2 := s(2)
		switch cal.Name() {
		case "TrimSpace":
			if ok0 {
				return avStr(strings.TrimSpace(a0)), true
			}
		case "ToLower":
			if ok0 {
				return avStr(strings.ToLower(a0)), true
			}
		case "ToUpper":
			if ok0 {
				return avStr(strings.ToUpper(a0)), true
			}
		case "HasPrefix":
			if ok0 && ok1 {
				return avBool(strings.HasPrefix(a0, a1)), true
			}
		case "HasSuffix":
			if ok0 && ok1 {
				return avBool(strings.HasSuffix(a0, a1)), true
			}
		case "Contains":
			if ok0 && ok1 {
				return avBool(strings.Contains(a0, a1)), true
			}
		case "Index":
			if ok0 && ok1 {
				return avInt(int64(strings.Index(a0, a1))), true
			}
		case "LastIndex":
			if ok0 && ok1 {
				return avInt(int64(strings.LastIndex(a0, a1))), true
			}
		case "Trim":
			if ok0 && ok1 {
				return avStr(strings.Trim(a0, a1)), true
			}
		case "TrimLeft":
			if ok0 && ok1 {
				return avStr(strings.TrimLeft(a0, a1)), true
			}
		case "TrimRight":
			if ok0 && ok1 {
				return avStr(strings.TrimRight(a0, a1)), true
			}
		case "TrimPrefix":
			if ok0 && ok1 {
				return avStr(strings.TrimPrefix(a0, a1)), true
			}
		case "TrimSuffix":
			if ok0 && ok1 {
				return avStr(strings.TrimSuffix(a0, a1)), true
			}
		case "ReplaceAll":
			if ok0 && ok1 && ok2 {
				return avStr(strings.ReplaceAll(a0, a1, a2)), true
			}
		case "Replace":
			if n, okN := constI(args[len(args)-1]); ok0 && ok1 && ok2 && okN && len(args) == 4 {
				return avStr(strings.Replace(a0, a1, a2, n)), true
			}
		case "Fields":
			if ok0 {
				return avStrList(strings.Fields(a0)), true
			}
		case "Split":
			if ok0 && ok1 {
				return avStrList(strings.Split(a0, a1)), true
			}
		case "Cut":
			if ok0 && ok1 {
				b, a, f := strings.Cut(a0, a1)
				return AV{Kind: "tuple", Tup: []AV{avStr(b), avStr(a), avBool(f)}}, true
			}
		case "CutPrefix":
			if ok0 && ok1 {
				a, f := strings.CutPrefix(a0, a1)
				return AV{Kind: "tuple", Tup: []AV{avStr(a), avBool(f)}}, true
			}
		case "CutSuffix":
			if ok0 && ok1 {
				a, f := strings.CutSuffix(a0, a1)
				return AV{Kind: "tuple", Tup: []AV{avStr(a), avBool(f)}}, true
			}
		case "EqualFold":
			if ok0 && ok1 {
				return avBool(strings.EqualFold(a0, a1)), true
			}
		}
		return AV{}, false
	}
	// regexp
	switch cal.Name() {
	case "MustCompile":
		if pat, ok := s(0); ok {
			if _, err := regexp.Compile(pat); err == nil {
				return AV{Kind: "regexp", Sym: pat}, true
			}
		}
		return AV{}, false
	}
	if len(args) == 0 || args[0].Kind != "regexp" {
		return AV{}, false
	}
	re, err := regexp.Compile(args[0].Sym)
	if err != nil {
		return AV{}, false
	}
	text, okT := s(1)
	switch cal.Name() {
	case "MatchString":
		if okT {
			return avBool(re.MatchString(text)), true
		}
	case "FindString":
		if okT {
			return avStr(re.FindString(text)), true
		}
	case "FindStringSubmatch":
		if okT {
			return avStrList(re.FindStringSubmatch(text)), true
		}
	case "FindAllStringSubmatch":
		if n, okN := constI(args[len(args)-1]); okT && okN {
			m := re.FindAllStringSubmatch(text, n)
			if m == nil {
				return AV{Kind: "nil"}, true
			}
			out := AV{Kind: "list"}
			for _, row := range m {
				out.Tup = append(out.Tup, avStrList(row))
			}
			return out, true
		}
	case "ReplaceAllString":
		if rep, okR := s(2); okT && okR {
			return avStr(re.ReplaceAllString(text, rep)), true
		}
	}
	return AV{}, false
}

// foldValue: other foldable values: a substring of a decided string, an element of a decided list, the length of
// either, and a package-level variable that is initialised once with a compiled constant pattern.
func (r *decideRun) foldValue(v ssa.Value) (AV, bool) {
	switch x := v.(type) {
	case *ssa.Slice:
		saved := r.err
		base := r.eval(x.X)
		r.err = saved
		lo, hi := 0, -1
		if x.Low != nil {
			a := r.eval(x.Low)
			k, ok := constI(a)
			if !ok {
				r.err = saved
				return AV{}, false
			}
			lo = k
		}
		if x.High != nil {
			a := r.eval(x.High)
			k, ok := constI(a)
			if !ok {
				r.err = saved
				return AV{}, false
			}
			hi = k
		}
		r.err = saved
		if str, ok := avString(base); ok {
			if hi < 0 {
				hi = len(str)
			}
			if lo < 0 || hi > len(str) || lo > hi {
				return AV{}, false // would panic: not a value
			}
			return avStr(str[lo:hi]), true
		}
		if base.Kind == "list" {
			if hi < 0 {
				hi = len(base.Tup)
			}
			if lo < 0 || hi > len(base.Tup) || lo > hi {
				return AV{}, false
			}
			return AV{Kind: "list", Tup: base.Tup[lo:hi]}, true
		}
	case *ssa.UnOp:
		if x.Op != token.MUL {
			return AV{}, false
		}
		switch a := x.X.(type) {
		case *ssa.IndexAddr:
			saved := r.err
			base := r.eval(a.X)
			idx := r.eval(a.Index)
			r.err = saved
			if k, ok := constI(idx); ok && base.Kind == "list" && k >= 0 && k < len(base.Tup) {
				return base.Tup[k], true
			}
		case *ssa.FieldAddr:
			// a field of a package-level struct variable that is only written by its initialiser
			if g, isG := a.X.(*ssa.Global); isG {
				if sv, ok := r.globalStructAV(g); ok {
					if fv, has := sv.Fields[fmt.Sprintf(".f%d", a.Field)]; has {
						return fv, true
					}
				}
			}
		case *ssa.Global:
			// a package-level variable of function or interface type that is assigned once, by the initialiser
			if pt, ok := a.Type().(*types.Pointer); ok {
				switch pt.Elem().Underlying().(type) {
				case *types.Signature, *types.Interface:
					v := globalInitStore(a)
					if debugDecide {
						fmt.Fprintf(os.Stderr, "decide: global %s init store = %v\n", a.Name(), v)
					}
					if v != nil {
						saved := r.err
						av := r.eval(v)
						r.err = saved
						if av.Kind != "unknown" && av.Kind != "" {
							return av, true
						}
					}
				}
			}
			if pt, ok := a.Type().(*types.Pointer); ok {
				if _, isSt := pt.Elem().Underlying().(*types.Struct); isSt {
					if sv, ok := r.globalStructAV(a); ok {
						return sv, true
					}
				}
			}
			if pt, ok := a.Type().(*types.Pointer); ok {
				if ep, isP := pt.Elem().(*types.Pointer); isP {
					if nm := namedOf(ep.Elem()); nm != nil && nm.Obj().Pkg() != nil && nm.Obj().Pkg().Path() == "regexp" && nm.Obj().Name() == "Regexp" {
						if pat, ok := globalRegexpPattern(a); ok {
							return AV{Kind: "regexp", Sym: pat}, true
						}
					}
					if nm := namedOf(ep.Elem()); nm != nil && nm.Obj().Pkg() != nil && nm.Obj().Pkg().Path() == "strings" && nm.Obj().Name() == "Replacer" {
						if call := globalInitCall(a); call != nil {
							if av, ok := r.foldCall(call); ok && av.Kind == "replacer" {
								return av, true
							}
						}
					}
				}
			}
		}
	case *ssa.Index:
		saved := r.err
		base := r.eval(x.X)
		idx := r.eval(x.Index)
		r.err = saved
		if k, ok := constI(idx); ok {
			if str, isS := avString(base); isS && k >= 0 && k < len(str) {
				return avInt(int64(str[k])), true
			}
		}
	}
	return AV{}, false
}

// globalRegexpPattern: the constant pattern of a package-level *regexp.Regexp that is assigned exactly once, in
// its package's init, from regexp.MustCompile(<constant>).
func globalRegexpPattern(g *ssa.Global) (string, bool) {
	if g.Pkg == nil {
		return "", false
	}
	n := 0
	pat := ""
	ok := false
	for _, m := range g.Pkg.Members {
		fn, isFn := m.(*ssa.Function)
		if !isFn {
			continue
		}
		for _, f := range allFuncsWithAnon(fn) {
			for _, b := range f.Blocks {
				for _, in := range b.Instrs {
					st, isSt := in.(*ssa.Store)
					if !isSt || st.Addr != ssa.Value(g) {
						continue
					}
					n++
					if call, isCall := st.Val.(*ssa.Call); isCall && f.Name() == "init" {
						if cal, _ := calleeOf(call.Common()); cal != nil && cal.Pkg() != nil && cal.Pkg().Path() == "regexp" && cal.Name() == "MustCompile" {
							if k, isK := call.Call.Args[0].(*ssa.Const); isK && k.Value != nil && k.Value.Kind() == constant.String {
								pat, ok = constant.StringVal(k.Value), true
							}
						}
					}
				}
			}
		}
	}
	return pat, ok && n == 1
}

// constVariadic: the constant elements of a variadic argument list (the slice of a local array literal).
func (r *decideRun) constVariadic(v ssa.Value) ([]AV, bool) {
	sl, ok := v.(*ssa.Slice)
	if !ok {
		return nil, false
	}
	arr, ok := sl.X.(*ssa.Alloc)
	if !ok {
		return nil, false
	}
	elems := arrayLiteralElems(arr)
	if elems == nil {
		return nil, false
	}
	var out []AV
	for _, e := range elems {
		k, isK := e.(*ssa.Const)
		if !isK || k.Value == nil {
			return nil, false
		}
		out = append(out, avConst(k.Value))
	}
	return out, true
}

// globalInitCall: the call whose result is the only value ever stored into the package-level variable g, made
// in the package initialiser.
func globalInitCall(g *ssa.Global) *ssa.Call {
	if g.Pkg == nil {
		return nil
	}
	n := 0
	var call *ssa.Call
	for _, m := range g.Pkg.Members {
		fn, isFn := m.(*ssa.Function)
		if !isFn {
			continue
		}
		for _, f := range allFuncsWithAnon(fn) {
			for _, b := range f.Blocks {
				for _, in := range b.Instrs {
					st, isSt := in.(*ssa.Store)
					if !isSt || st.Addr != ssa.Value(g) {
						continue
					}
					n++
					if cl, isCall := st.Val.(*ssa.Call); isCall && f.Name() == "init" {
						call = cl
					}
				}
			}
		}
	}
	if n != 1 {
		return nil
	}
	return call
}

// globalStructAV: the value of a package-level struct variable whose fields are written exactly once each, by
// the package initialiser (a composite-literal initialiser), and nowhere else.
func (r *decideRun) globalStructAV(g *ssa.Global) (AV, bool) {
	if g.Pkg == nil {
		return AV{}, false
	}
	pt, ok := g.Type().(*types.Pointer)
	if !ok {
		return AV{}, false
	}
	st, ok := pt.Elem().Underlying().(*types.Struct)
	if !ok {
		return AV{}, false
	}
	vals := map[int]ssa.Value{}
	okAll := true
	for _, m := range g.Pkg.Members {
		fn, isFn := m.(*ssa.Function)
		if !isFn {
			continue
		}
		for _, f := range allFuncsWithAnon(fn) {
			for _, b := range f.Blocks {
				for _, in := range b.Instrs {
					switch x := in.(type) {
					case *ssa.Store:
						if x.Addr == ssa.Value(g) {
							okAll = false // assigned whole somewhere
						}
						if fa, isFA := x.Addr.(*ssa.FieldAddr); isFA && fa.X == ssa.Value(g) {
							if f.Name() != "init" {
								okAll = false
							}
							if _, dup := vals[fa.Field]; dup {
								okAll = false
							}
							vals[fa.Field] = x.Val
						}
					case *ssa.FieldAddr:
						// the address of a field handed elsewhere
						if x.X == ssa.Value(g) {
							for _, ref := range *x.Referrers() {
								switch ref.(type) {
								case *ssa.Store, *ssa.UnOp, *ssa.DebugRef:
								default:
									okAll = false
								}
							}
						}
					}
				}
			}
		}
	}
	if !okAll {
		return AV{}, false
	}
	out := AV{Kind: "struct", Fields: map[string]AV{}}
	for i := 0; i < st.NumFields(); i++ {
		key := fmt.Sprintf(".f%d", i)
		if v, has := vals[i]; has {
			saved := r.err
			a := r.eval(v)
			r.err = saved
			if a.Kind != "unknown" && a.Kind != "" {
				out.Fields[key] = a
			}
			continue
		}
		if z, okZ := zeroAV(st.Field(i).Type()); okZ {
			out.Fields[key] = z
		}
	}
	return out, true
}

// builderStep applies, in execution order, a method call on a local strings.Builder whose arguments are decided:
// the text accumulated so far is kept in the path's memory under the builder's address.  A call with an
// undecided argument poisons the content (it stays unknown from then on).
func (r *decideRun) builderStep(x *ssa.Call) {
	if x.Call.IsInvoke() {
		return
	}
	cal, _ := calleeOf(x.Common())
	if cal == nil || cal.Pkg() == nil || cal.Pkg().Path() != "strings" {
		return
	}
	sig := cal.Type().(*types.Signature)
	if sig.Recv() == nil || len(x.Call.Args) == 0 {
		return
	}
	if nm := namedOf(sig.Recv().Type()); nm == nil || nm.Obj().Name() != "Builder" {
		return
	}
	key, ok := r.addrKey(x.Call.Args[0])
	if !ok {
		return
	}
	key += ".builder"
	if r.mem == nil {
		r.mem = map[string]AV{}
	}
	cur, has := r.mem[key]
	if !has {
		if !r.liveBase(strings.TrimSuffix(key, ".builder")) {
			return
		}
		cur = avStr("")
	}
	curS, known := avString(cur)
	saved := r.err
	arg := func(i int) AV {
		if i >= len(x.Call.Args) {
			return AV{Kind: "unknown"}
		}
		return r.eval(x.Call.Args[i])
	}
	poison := func() { r.mem[key] = AV{Kind: "unknown"} }
	switch cal.Name() {
	case "Grow", "Reset":
		if cal.Name() == "Reset" {
			r.mem[key] = avStr("")
		} else if !has {
			r.mem[key] = cur
		}
	case "WriteByte":
		if k, okK := constI(arg(1)); okK && known {
			r.mem[key] = avStr(curS + string([]byte{byte(k)}))
			r.memo[x] = AV{Kind: "nil"}
		} else {
			poison()
		}
	case "WriteRune":
		if k, okK := constI(arg(1)); okK && known {
			r.mem[key] = avStr(curS + string(rune(k)))
			r.memo[x] = AV{Kind: "tuple", Tup: []AV{avInt(int64(len(string(rune(k))))), {Kind: "nil"}}}
		} else {
			poison()
		}
	case "WriteString":
		if str, okS := avString(arg(1)); okS && known {
			r.mem[key] = avStr(curS + str)
			r.memo[x] = AV{Kind: "tuple", Tup: []AV{avInt(int64(len(str))), {Kind: "nil"}}}
		} else {
			poison()
		}
	case "String":
		if known {
			r.memo[x] = avStr(curS)
		}
	case "Len":
		if known {
			r.memo[x] = avInt(int64(len(curS)))
		}
	default:
		poison()
	}
	r.err = saved
}

// globalInitStore: the value stored into package-level variable g by its only store, which is in the package
// initialiser; nil when g is written anywhere else (or its address is handed out).
func globalInitStore(g *ssa.Global) ssa.Value {
	if g.Pkg == nil {
		return nil
	}
	var val ssa.Value
	n := 0
	bad := false
	for _, m := range g.Pkg.Members {
		fn, isFn := m.(*ssa.Function)
		if !isFn {
			continue
		}
		for _, f := range allFuncsWithAnon(fn) {
			for _, b := range f.Blocks {
				for _, in := range b.Instrs {
					for _, op := range in.Operands(nil) {
						if *op != ssa.Value(g) {
							continue
						}
						switch x := in.(type) {
						case *ssa.Store:
							if x.Addr == ssa.Value(g) {
								n++
								if f.Name() == "init" {
									val = x.Val
								} else {
									bad = true
								}
							} else {
								bad = true
							}
						case *ssa.UnOp:
						default:
							bad = true
						}
					}
				}
			}
		}
	}
	if bad || n != 1 {
		return nil
	}
	return val
}

// initAllocs: address key -> the Alloc, for objects allocated in a package initialiser.
var initAllocCache = map[string]*ssa.Alloc{}

// initObjectPart: the value of a part (field path below address key) of an object allocated in a package
// initialiser, when that part is stored exactly once there and the object is never written elsewhere.
func (r *decideRun) initObjectPart(key string) (AV, bool) {
	i := strings.Index(key, ".f")
	if i < 0 {
		return AV{}, false
	}
	base, path := key[:i], key[i:]
	root := r
	for root.parent != nil {
		root = root.parent
	}
	al := root.allocs["alloc:"+strings.TrimPrefix(base, "a")]
	if al == nil || al.Parent() == nil || al.Parent().Name() != "init" {
		return AV{}, false
	}
	// single-level field paths only
	var fidx int
	if _, err := fmt.Sscanf(path, ".f%d", &fidx); err != nil || path != fmt.Sprintf(".f%d", fidx) {
		return AV{}, false
	}
	var val ssa.Value
	n := 0
	for _, ref := range *al.Referrers() {
		switch x := ref.(type) {
		case *ssa.FieldAddr:
			for _, fr := range *x.Referrers() {
				if st, isSt := fr.(*ssa.Store); isSt && st.Addr == ssa.Value(x) && x.Field == fidx {
					n++
					val = st.Val
				}
			}
		}
	}
	if n != 1 {
		if n == 0 {
			if st, isSt := derefType(al.Type()).Underlying().(*types.Struct); isSt && fidx < st.NumFields() {
				return zeroAV(st.Field(fidx).Type())
			}
		}
		return AV{}, false
	}
	saved := r.err
	av := r.eval(val)
	r.err = saved
	if av.Kind == "unknown" || av.Kind == "" {
		return AV{}, false
	}
	return av, true
}
