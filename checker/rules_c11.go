package main

import (
	"fmt"
	"go/constant"
	"go/token"
	"go/types"
	"os"
	"path/filepath"
	"regexp"
	"sort"
	"strings"

	"golang.org/x/tools/go/ssa"
)

func init() {
	register(&Property{
		ID:          "C11",
		Title:       "String literals denote exactly the intended string",
		Technique:   "static analysis: shape classification of the literal decoder as a pipeline of string transformers extracted from SSA; single-pass replacer table compared with the escape set read out of ZitiQl.g4; for multi-pass chains an exhaustive critical-pair computation on the extracted pairs (bounded words) against the single-pass reading; provenance rule from the STRING token to StringConstNode.value; verbatim-input rule (lexer reads the caller's text; ast.Parse answers only through the grammar)",
		LevelText:   "Decides that the decoder of string literals is a single left-to-right pass over exactly the escape pairs the grammar allows (or, for a chain of replace passes, that the chain is equivalent to such a pass on all words up to length 6 over the escape alphabet, naming a witness otherwise), that exactly one leading and one trailing quote are stripped, and that nothing else rewrites the value between the lexer token and the constant node. Does not decide that the generated lexer accepts exactly the grammar's STRING language (no ANTLR tool to regenerate) nor Unicode normalisation. The text given to antlr.NewInputStream is the caller's text handed through unchanged from the exported entry points, and every query ast.Parse returns has passed the zitiql parser (empty filter excepted). Qualified in round 8: the constant-propagation reading is a verdict only for decoders that rewrite the text once; two rewriting passes are UNDECIDED unless the structural reading recognises them. Added in round 11: an empty string stored in the database decodes as the empty string (EMPTYDECODE = C13.NIL cross-listed). Added in round 12: a string literal's value is never parsed into another type (NORECAST). Added in round 13: the fields of constant nodes are written only while the node is made (CONSTIMMUTABLE); INEXACT as in C01.",
		LevelNote:   "Trusted: go/types, x/tools SSA, strings.Replacer semantics (leftmost, argument-order priority, single pass), the generated lexer.",
		DesignRef:   "DESIGN.md C11",
		Explanation: "Sites: zitiql.ParseZqlString (located by provenance from the STRING case of ToBoltListener.VisitTerminal), the package-level replacer it uses, the ESC fragment of zitiql/ZitiQl.g4.",
		Trusted:     []string{"go/types", "golang.org/x/tools/go/ssa v0.29.0", "strings.Replacer", "generated ZitiQl lexer"},
		Rules:       rulesC11,
	})
}

type strStage struct {
	kind  string // trimprefix | trimsuffix | replace | replacer
	a, b  string
	pairs [][2]string
	pos   token.Pos
}

func constString(v ssa.Value) (string, bool) {
	k, ok := v.(*ssa.Const)
	if !ok || k.Value == nil || k.Value.Kind() != constant.String {
		return "", false
	}
	return constant.StringVal(k.Value), true
}

func rulesC11(c *Ctx) {
	p := c.P
	ruleC11Verbatim(c)
	ruleC11Unescape(c)
	ruleC11Fold(c)
	// the value the literal "" is compared with: an empty string stored in the database decodes as "", not as null
	c.As("C13.NIL", "C11.EMPTYDECODE", func() { ruleC13Nil(c) })
	ruleLiteralNotRecast(c, "C11.NORECAST")
	ruleConstNodesImmutable(c, "C11.CONSTIMMUTABLE")
	ruleInArrayExact(c, "C11.INEXACT")
	// --- grammar table -------------------------------------------------------------------
	g4, err := os.ReadFile(filepath.Join(p.Root, "zitiql", "ZitiQl.g4"))
	if err != nil {
		c.Undecided("C11.TABLE", "zitiql/ZitiQl.g4", "-", "cannot read the grammar: "+err.Error())
		return
	}
	re := regexp.MustCompile(`(?m)^\s*fragment\s+ESC\s*:\s*'\\\\'\s*\[((?:\\.|[^\]\\])*)\]\s*;`)
	m := re.FindSubmatch(g4)
	if m == nil {
		c.Undecided("C11.TABLE", "zitiql/ZitiQl.g4: fragment ESC", "-", "the ESC fragment is no longer of the form '\\\\' [set]; cannot derive the escape table")
		return
	}
	var escChars []byte
	set := string(m[1])
	for i := 0; i < len(set); i++ {
		ch := set[i]
		if ch == '\\' && i+1 < len(set) {
			i++
			ch = set[i]
		}
		escChars = append(escChars, ch)
	}
	meaning := map[byte]string{'"': `"`, '\\': `\`, 'f': "\f", 'n': "\n", 'r': "\r", 't': "\t", 'b': "\b", '/': "/"}
	want := map[string]string{}
	for _, ch := range escChars {
		mv, ok := meaning[ch]
		if !ok {
			c.Undecided("C11.TABLE", "zitiql/ZitiQl.g4: fragment ESC", "-", fmt.Sprintf("escape character %q has no known meaning", ch))
			return
		}
		want[`\`+string(ch)] = mv
	}
	c.Note(fmt.Sprintf("grammar escape set: %q", string(escChars)))
	// unescaped characters: SAFECODEPOINT must exclude the quote, the backslash and control characters,
	// otherwise `\\"` is ambiguous (escaped backslash + closing quote vs backslash + escaped quote)
	reSafe := regexp.MustCompile(`(?m)^\s*fragment\s+SAFECODEPOINT\s*:\s*~\s*\[((?:\\.|[^\]\\])*)\]\s*;`)
	if ms := reSafe.FindSubmatch(g4); ms == nil {
		c.Undecided("C11.TABLE", "zitiql/ZitiQl.g4: fragment SAFECODEPOINT", "-", "SAFECODEPOINT is no longer a negated character set; cannot check which characters need escaping")
	} else {
		body := string(ms[1])
		hasQuote := strings.Contains(body, `"`)
		hasBackslash := strings.Contains(body, `\\`)
		hasCtl := strings.Contains(strings.ToUpper(body), `\U0000-\U001F`)
		c.Check(hasQuote && hasBackslash && hasCtl, "C11.TABLE", "zitiql/ZitiQl.g4: SAFECODEPOINT", "-", "unescaped string characters exclude the double quote, the backslash and control characters", "SAFECODEPOINT admits a quote, backslash or control character unescaped ("+body+"): literals containing them become ambiguous or run into the following literal")
	}
	ruleC01Seek(c)
	// a contains literal denotes its own text: the case-sensitive operators compare the operands as written
	ruleC01Ops(c)

	// --- locate the decoder: what turns the STRING token's text into a constant's value --------
	// (in the listener itself or in a free function it hands the token text to)
	vt := p.SSAFunc(p.Method("ast", "ToBoltListener", "VisitTerminal"))
	c.Analysed(FnName(vt))
	strConst := p.Named("ast", "StringConstNode")
	var decoder *ssa.Function
	okProv := false
	lfs := listenerFuncs(c)
	isTokenText := func(fn *ssa.Function, v ssa.Value) bool {
		if gt, ok := v.(*ssa.Call); ok && gt.Call.IsInvoke() && gt.Call.Method.Name() == "GetText" {
			return true
		}
		// a parameter of a free decoder function: every caller hands it the token text
		prm, isParam := v.(*ssa.Parameter)
		if !isParam || fn.Signature.Recv() != nil {
			return false
		}
		idx := -1
		for i, q := range fn.Params {
			if q == prm {
				idx = i
			}
		}
		n := 0
		for _, caller := range lfs {
			for _, call := range callsIn(caller) {
				if call.Common().StaticCallee() != fn || idx < 0 || idx >= len(call.Common().Args) {
					continue
				}
				n++
				if gt, ok := call.Common().Args[idx].(*ssa.Call); !ok || !gt.Call.IsInvoke() || gt.Call.Method.Name() != "GetText" {
					return false
				}
			}
		}
		return n > 0
	}
	for _, fn := range lfs {
		for _, b := range fn.Blocks {
			for _, in := range b.Instrs {
				st, ok := in.(*ssa.Store)
				if !ok {
					continue
				}
				f, base := fieldOfAddr(st.Addr)
				if f == nil || f.Name() != "value" || namedOf(base.Type()) != strConst {
					continue
				}
				if call, ok := st.Val.(*ssa.Call); ok {
					if sc := call.Call.StaticCallee(); sc != nil && len(call.Call.Args) == 1 && isTokenText(fn, call.Call.Args[0]) {
						decoder = sc
						okProv = true
					}
				}
			}
		}
	}
	provText := "the constant's value is exactly decoder(token text): nothing else rewrites it"
	if !okProv {
		// wherever the STRING case is written (a dispatch table, a handler built by a factory, a method of the
		// listener handed the text): decided by running VisitTerminal for the STRING token with a given token
		// text and looking at the constant it pushes
		if okD, decided := c11StringTokenDecided(c, vt, want); decided {
			okProv = okD
			provText = "running VisitTerminal for a STRING token pushes a string constant whose value is the decoded token text (decided for three token texts)"
			decoder = p.SSAFunc(p.Func("zitiql", "ParseZqlString"))
		}
	}
	c.Check(okProv, "C11.NOREWRITE", "(*ast.ToBoltListener).VisitTerminal: STRING", p.Pos(vt.Pos()), provText, "the STRING token text does not flow through a single decoder call into StringConstNode.value")
	if decoder == nil {
		return
	}
	if decoder.Blocks == nil {
		decoder = p.SSAFunc(p.Func("zitiql", "ParseZqlString"))
	}
	name := FnName(decoder)
	c.Analysed(name)

	// --- by constant propagation ------------------------------------------------------------------
	// whatever the decoder's shape, it is evaluated on every literal made of up to three atoms (plain characters,
	// each escape of the grammar, a multi-byte character) and compared with the single-pass reading of the
	// grammar's table.  Where this decides every literal it is the verdict; the structural reading below adds
	// the table comparison and the critical-pair argument when the decoder has a shape it recognises.
	cpDecided, cpBad := c11ConstProp(decoder, want)
	if cpDecided {
		c.Check(cpBad == "", "C11.UNESCAPE", name+": decoded literals", p.Pos(decoder.Pos()), "every literal of up to three atoms over the grammar's escapes decodes to the single-pass reading (decided by constant propagation through the decoder)", cpBad)
	}
	// constant propagation settles the decoder on literals of up to three atoms; that is a verdict for a decoder
	// that rewrites the text once.  Two rewriting passes in a row (a replacer, then a regular-expression pass
	// over its output) interact on inputs longer than that (`\\u0041`: the first pass produces the text the
	// second one decodes again), so for those the samples decide nothing
	passes := rewritingPasses(decoder)
	und := func(pos token.Pos, msg string) {
		if cpDecided && passes > 1 {
			c.Undecided("C11.UNESCAPE", name, p.Pos(pos), msg+fmt.Sprintf("; the decoder makes %d rewriting passes over the text, and what one pass produces the next can decode again: not settled by sample literals", passes))
			return
		}
		if cpDecided {
			c.OK("C11.UNESCAPE", name+": shape", p.Pos(pos), "shape not recognised by the structural reading ("+msg+"); decided by constant propagation instead")
			c.OK("C11.TABLE", name+": escape pairs", p.Pos(pos), "every escape of the grammar decodes to its meaning (by constant propagation)")
			c.Floor("C11.UNESCAPE", 2)
			c.Floor("C11.TABLE", 1)
			c.Floor("C11.NOREWRITE", 1)
			return
		}
		c.Undecided("C11.UNESCAPE", name, p.Pos(pos), msg)
	}
	// --- pipeline -------------------------------------------------------------------------------
	if len(decoder.Blocks) != 1 {
		// a hand-written scan loop over the literal body: decided iteration-wise
		if scannerDecoder(c, name, decoder, want) {
			return
		}
		und(decoder.Pos(), "the decoder is neither a straight-line pipeline of string transformers nor a single scan loop over the literal body")
		return
	}
	rets := returnsOf(decoder)
	var stages []strStage
	v := rets[0].Results[0]
	for steps := 0; v != ssa.Value(decoder.Params[0]); steps++ {
		call, ok := v.(*ssa.Call)
		if !ok || steps > 32 {
			und(decoder.Pos(), "unrecognised transformer in the decoder pipeline: "+v.String())
			return
		}
		cal, _ := calleeOf(call.Common())
		if cal == nil || cal.Pkg() == nil || cal.Pkg().Path() != "strings" {
			und(call.Pos(), "unrecognised transformer in the decoder pipeline: "+call.String())
			return
		}
		args := call.Call.Args
		isMethod := cal.Type().(*types.Signature).Recv() != nil
		switch {
		case !isMethod && (cal.Name() == "TrimPrefix" || cal.Name() == "TrimSuffix"):
			sv, ok := constString(args[1])
			if !ok {
				und(call.Pos(), "non-constant trim argument")
				return
			}
			stages = append(stages, strStage{kind: strings.ToLower(cal.Name()), a: sv, pos: call.Pos()})
			v = args[0]
		case !isMethod && (cal.Name() == "Replace" || cal.Name() == "ReplaceAll"):
			av, ok1 := constString(args[1])
			bv, ok2 := constString(args[2])
			all := cal.Name() == "ReplaceAll"
			if !all && len(args) == 4 {
				if k, ok := args[3].(*ssa.Const); ok && k.Value != nil && constant.Sign(k.Value) < 0 {
					all = true
				}
			}
			if !ok1 || !ok2 || !all {
				und(call.Pos(), "replace pass with non-constant or bounded arguments")
				return
			}
			stages = append(stages, strStage{kind: "replace", a: av, b: bv, pos: call.Pos()})
			v = args[0]
		case isMethod && cal.Name() == "Replace" && len(args) == 2:
			// (*strings.Replacer).Replace: the replacer must be a package-level variable built by
			// strings.NewReplacer from constant pairs
			pairs, why := replacerPairs(c, args[0])
			if pairs == nil {
				und(call.Pos(), "cannot read the replacer's pair table: "+why)
				return
			}
			stages = append(stages, strStage{kind: "replacer", pairs: pairs, pos: call.Pos()})
			v = args[1]
		default:
			und(call.Pos(), "unrecognised strings function "+cal.Name())
			return
		}
	}
	// reverse into execution order
	for i, j := 0, len(stages)-1; i < j; i, j = i+1, j-1 {
		stages[i], stages[j] = stages[j], stages[i]
	}
	finishC11(c, name, decoder, stages, want)
}

func finishC11(c *Ctx, name string, decoder *ssa.Function, stages []strStage, want map[string]string) {
	p := c.P
	c.Floor("C11.UNESCAPE", 2)
	c.Floor("C11.TABLE", 1)
	c.Floor("C11.NOREWRITE", 1)
	// quote stripping: exactly one TrimPrefix(`"`) and one TrimSuffix(`"`), before any replacement
	nPre, nSuf := 0, 0
	seenReplace := false
	okQuotes := true
	for _, s := range stages {
		switch s.kind {
		case "trimprefix":
			nPre++
			if s.a != `"` || seenReplace {
				okQuotes = false
			}
		case "trimsuffix":
			nSuf++
			if s.a != `"` || seenReplace {
				okQuotes = false
			}
		default:
			seenReplace = true
		}
	}
	c.Check(okQuotes && nPre == 1 && nSuf == 1, "C11.UNESCAPE", name+": quotes", p.Pos(decoder.Pos()), "exactly one leading and one trailing double quote are stripped, before unescaping", "quote stripping is not exactly one TrimPrefix and one TrimSuffix of `\"` ahead of the unescape step")
	var pairs [][2]string
	single := false
	for _, s := range stages {
		if s.kind == "replace" {
			pairs = append(pairs, [2]string{s.a, s.b})
		}
		if s.kind == "replacer" {
			pairs = s.pairs
			single = true
		}
	}
	describe := func(ps [][2]string) string {
		var ss []string
		for _, pr := range ps {
			ss = append(ss, fmt.Sprintf("%q→%q", pr[0], pr[1]))
		}
		return strings.Join(ss, ", ")
	}
	// table: set of pairs == grammar table
	got := map[string]string{}
	for _, pr := range pairs {
		got[pr[0]] = pr[1]
	}
	okTable := len(got) == len(want)
	for k, v := range want {
		if got[k] != v {
			okTable = false
		}
	}
	var wk []string
	for k := range want {
		wk = append(wk, fmt.Sprintf("%q→%q", k, want[k]))
	}
	sort.Strings(wk)
	c.Check(okTable, "C11.TABLE", name+": escape pairs", p.Pos(decoder.Pos()), "decoder pairs equal the grammar's ESC set: "+strings.Join(wk, ", "), "decoder pairs {"+describe(pairs)+"} differ from the grammar's escape table {"+strings.Join(wk, ", ")+"}")
	if single {
		// strings.Replacer: single pass, leftmost match; all patterns are distinct 2-byte escapes
		ok := true
		for _, pr := range pairs {
			if len(pr[0]) != 2 || pr[0][0] != '\\' {
				ok = false
			}
		}
		c.Check(ok, "C11.UNESCAPE", name+": single pass", p.Pos(decoder.Pos()), "one strings.Replacer pass over distinct two-byte escapes: an escaped backslash can never be re-read as the start of another escape", "replacer patterns are not all two-byte backslash escapes")
		return
	}
	// multi-pass chain: exhaustive comparison with the single-pass reading on bounded words
	alphabet := []byte{'\\', '"', 'x'}
	seen := map[byte]bool{'\\': true, '"': true, 'x': true}
	for k := range want {
		if !seen[k[1]] {
			seen[k[1]] = true
			alphabet = append(alphabet, k[1])
		}
	}
	reference := func(s string) (string, bool) {
		var sb strings.Builder
		for i := 0; i < len(s); i++ {
			if s[i] == '\\' {
				if i+1 >= len(s) {
					return "", false // not a valid literal body
				}
				v, ok := want[s[i:i+2]]
				if !ok {
					return "", false
				}
				sb.WriteString(v)
				i++
				continue
			}
			if s[i] == '"' {
				return "", false
			}
			sb.WriteByte(s[i])
		}
		return sb.String(), true
	}
	chain := func(s string) string {
		for _, pr := range pairs {
			s = strings.ReplaceAll(s, pr[0], pr[1])
		}
		return s
	}
	witness := ""
	var wantOut, gotOut string
	var gen func(prefix []byte, depth int)
	count := 0
	gen = func(prefix []byte, depth int) {
		if witness != "" {
			return
		}
		s := string(prefix)
		if ref, ok := reference(s); ok {
			count++
			if out := chain(s); out != ref {
				witness, wantOut, gotOut = s, ref, out
				return
			}
		}
		if depth == 0 {
			return
		}
		for _, ch := range alphabet {
			gen(append(prefix, ch), depth-1)
		}
	}
	gen(nil, 6)
	if witness == "" {
		c.OK("C11.UNESCAPE", name+": pass chain", p.Pos(decoder.Pos()), fmt.Sprintf("the %d-pass chain equals the single-pass reading on all %d valid literal bodies up to length 6 over %q", len(pairs), count, string(alphabet)))
	} else {
		c.Bad("C11.UNESCAPE", name+": pass chain", p.Pos(decoder.Pos()),
			fmt.Sprintf("the decoder applies %d sequential replace passes {%s}; they are not equivalent to one left-to-right pass: literal body %q must denote %q but decodes to %q (an escaped backslash is re-read as the start of another escape)", len(pairs), describe(pairs), witness, wantOut, gotOut))
	}
}

// replacerPairs extracts the constant old/new pairs of a package-level *strings.Replacer.
func replacerPairs(c *Ctx, recv ssa.Value) ([][2]string, string) {
	u, ok := recv.(*ssa.UnOp)
	if !ok {
		return nil, "replacer is not loaded from a package-level variable"
	}
	g, ok := u.X.(*ssa.Global)
	if !ok {
		return nil, "replacer is not a package-level variable"
	}
	// the variable must be written only in package init
	initFn := g.Pkg.Func("init")
	var mk *ssa.Call
	for _, fn := range c.P.SrcFuncs("zitiql") {
		if c.P.isGenerated(fn.Pos()) {
			continue
		}
		for _, b := range fn.Blocks {
			for _, in := range b.Instrs {
				if st, ok := in.(*ssa.Store); ok && st.Addr == ssa.Value(g) {
					if !isInitFn(fn) {
						return nil, "replacer variable is reassigned outside init"
					}
				}
			}
		}
	}
	for _, b := range initFn.Blocks {
		for _, in := range b.Instrs {
			if st, ok := in.(*ssa.Store); ok && st.Addr == ssa.Value(g) {
				if call, ok := st.Val.(*ssa.Call); ok {
					if cal, _ := calleeOf(call.Common()); cal != nil && cal.Name() == "NewReplacer" && cal.Pkg().Path() == "strings" {
						mk = call
					}
				}
			}
		}
	}
	if mk == nil {
		return nil, "no strings.NewReplacer initialiser found"
	}
	sl, ok := mk.Call.Args[0].(*ssa.Slice)
	if !ok {
		return nil, "NewReplacer arguments are not a literal list"
	}
	alloc, ok := sl.X.(*ssa.Alloc)
	if !ok {
		return nil, "NewReplacer arguments are not a literal list"
	}
	vals := map[int64]string{}
	for _, r := range *alloc.Referrers() {
		ia, ok := r.(*ssa.IndexAddr)
		if !ok {
			continue
		}
		ic, ok := ia.Index.(*ssa.Const)
		if !ok {
			return nil, "non-constant index"
		}
		idx, _ := constant.Int64Val(ic.Value)
		for _, r2 := range *ia.Referrers() {
			if st, ok := r2.(*ssa.Store); ok {
				sv, ok := constString(st.Val)
				if !ok {
					return nil, "non-constant replacer argument"
				}
				vals[idx] = sv
			}
		}
	}
	if len(vals) == 0 || len(vals)%2 != 0 {
		return nil, "odd number of replacer arguments"
	}
	var pairs [][2]string
	for i := int64(0); i < int64(len(vals)); i += 2 {
		pairs = append(pairs, [2]string{vals[i], vals[i+1]})
	}
	return pairs, ""
}

// ruleC11Verbatim: (a) the text the lexer reads is the text the caller passed: the argument of
// antlr.NewInputStream is a parameter handed through, unchanged, from the exported entry points
// (nothing rewrites the query text — whitespace inside string literals is part of the literal);
// (b) ast.Parse produces a query only through the grammar: every successful return has passed the
// call of the zitiql parser, except for the empty filter.
func ruleC11Verbatim(c *Ctx) {
	p := c.P
	cg := p.CallGraph()
	newInput := p.ExtFunc("github.com/antlr4-go/antlr/v4", "NewInputStream")
	n := 0
	var verbatim func(fn *ssa.Function, v ssa.Value, depth int) (bool, string)
	verbatim = func(fn *ssa.Function, v ssa.Value, depth int) (bool, string) {
		// the text travelling in a field of a parameter object (a request struct handed in by pointer): what
		// every caller put into that field
		if f, base := loadedField(v); f != nil && depth <= 5 {
			if bp, isBP := base.(*ssa.Parameter); isBP {
				bidx := -1
				for i, q := range fn.Params {
					if q == bp {
						bidx = i
					}
				}
				nCallers := 0
				for _, caller := range cg.callers[fn] {
					if strings.HasPrefix(caller.Name(), "zzControl") {
						continue
					}
					for _, call := range callsIn(caller) {
						if call.Common().StaticCallee() != fn || bidx < 0 || bidx >= len(call.Common().Args) {
							continue
						}
						nCallers++
						al, isAl := call.Common().Args[bidx].(*ssa.Alloc)
						if !isAl {
							return false, FnName(caller) + " hands over a request object it did not build itself"
						}
						var stored ssa.Value
						ns := 0
						for _, r := range *al.Referrers() {
							if fa, isFA := r.(*ssa.FieldAddr); isFA {
								if ff, _ := fieldOfAddr(fa); sameVar(ff, f) {
									for _, r2 := range *fa.Referrers() {
										if st, isSt := r2.(*ssa.Store); isSt && st.Addr == ssa.Value(fa) {
											ns++
											stored = st.Val
										}
									}
								}
							}
						}
						if ns != 1 {
							return false, FnName(caller) + " does not set the text of the request exactly once"
						}
						if ok, why := verbatim(caller, stored, depth+1); !ok {
							return false, why
						}
					}
				}
				if nCallers > 0 {
					return true, ""
				}
			}
		}
		prm, isParam := v.(*ssa.Parameter)
		if !isParam {
			return false, FnName(fn) + " passes " + describeValue(v) + " instead of the text it was given"
		}
		if depth > 5 {
			return true, ""
		}
		idx := -1
		for i, q := range fn.Params {
			if q == prm {
				idx = i
			}
		}
		for _, caller := range cg.callers[fn] {
			if strings.HasPrefix(caller.Name(), "zzControl") {
				continue
			}
			for _, call := range callsIn(caller) {
				if call.Common().StaticCallee() != fn || idx >= len(call.Common().Args) {
					continue
				}
				if ok, why := verbatim(caller, call.Common().Args[idx], depth+1); !ok {
					return false, why
				}
			}
		}
		return true, ""
	}
	for _, fn := range c.prodFuncs("zitiql", "ast") {
		for _, call := range callsIn(fn) {
			if !isCallTo(call, newInput) {
				continue
			}
			n++
			c.Analysed(FnName(fn))
			ok, why := verbatim(fn, call.Common().Args[0], 0)
			c.Check(ok, "C11.VERBATIM", FnName(fn)+": lexer input", p.Pos(call.Pos()), "the lexer reads exactly the text given to the exported parse functions", "the query text is rewritten before it reaches the lexer: "+why+" (a transformation of the whole text also changes the inside of string literals)")
		}
	}
	c.Floor("C11.VERBATIM", 1)
	// (b)
	parse := p.SSAFunc(p.Func("ast", "Parse"))
	c.Analysed(FnName(parse))
	fi := factsOf(parse)
	isGrammar := func(in ssa.Instruction) bool {
		cal, _ := calleeOf2(in)
		return cal != nil && cal.Pkg() != nil && cal.Pkg().Path() == modPath+"/zitiql" && strings.HasPrefix(cal.Name(), "Parse") && cal.Name() != "ParseZqlString" && cal.Name() != "ParseZqlDatetime"
	}
	emptyEdge := func(from, to *ssa.BasicBlock) bool {
		for f := range fi.edgeFacts(from, to) {
			bo, isB := f.V.(*ssa.BinOp)
			if !isB || f.Kind != "true" {
				continue
			}
			k, isK := bo.Y.(*ssa.Const)
			if !isK || k.Value == nil || k.Value.Kind() != constant.String || constant.StringVal(k.Value) != "" {
				continue
			}
			if _, isPrm := bo.X.(*ssa.Parameter); !isPrm {
				continue
			}
			if (bo.Op == token.EQL && f.Pol) || (bo.Op == token.NEQ && !f.Pol) {
				return true
			}
		}
		return false
	}
	ok := noPathAvoidingSuccess(parse, fi, isGrammar, emptyEdge)
	c.Check(ok, "C11.VERBATIM", FnName(parse)+": only through the grammar", p.Pos(parse.Pos()), "every query ast.Parse returns was produced by the zitiql parser (the empty filter excepted)", "ast.Parse can return a query without running the zitiql parser: a shortcut that interprets filter text itself does not decode string literals the way the grammar does")
	// (c) ... and rejects only what the grammar rejects: no return at all (also no error) comes before the
	// parser has seen the text — a pre-check that scans for quotes or brackets itself has its own idea of where
	// a string literal ends (an escaped backslash before the closing quote)
	okAll := noPathAvoiding(parse, isGrammar, emptyEdge)
	c.Check(okAll, "C11.VERBATIM", FnName(parse)+": rejected only by the grammar", p.Pos(parse.Pos()), "every return of ast.Parse — success or error — comes after the zitiql parser ran (the empty filter excepted)", "ast.Parse can return (an error) before the zitiql parser has seen the text: a hand-written pre-check decides which texts are acceptable, and its reading of string literals is not the grammar's")
}

func calleeOf2(in ssa.Instruction) (*types.Func, bool) {
	call, ok := in.(ssa.CallInstruction)
	if !ok {
		return nil, false
	}
	return calleeOf(call.Common())
}

// ruleC11Unescape: a string literal denotes the same string wherever it is written: every string constant
// the parse listener builds holds what zitiql.ParseZqlString made of the token text (quotes removed,
// escapes resolved) — in a comparison as well as inside an array.
func ruleC11Unescape(c *Ctx) {
	p := c.P
	lst := p.Named("ast", "ToBoltListener")
	valFld := p.Field("ast", "StringConstNode", "value")
	unesc := p.Func("zitiql", "ParseZqlString")
	n := 0
	_ = lst
	for _, fn := range listenerFuncs(c) {
		for _, b := range fn.Blocks {
			for _, in := range b.Instrs {
				st, ok := in.(*ssa.Store)
				if !ok {
					continue
				}
				if f, _ := fieldOfAddr(st.Addr); !sameVar(f, valFld) {
					continue
				}
				n++
				call, isCall := st.Val.(*ssa.Call)
				viaValue := false
				if isCall && !isCallTo(call, unesc) && call.Call.StaticCallee() == nil && !call.Call.IsInvoke() {
					// through a function value that can only denote the decoder (a variable initialised with it)
					ts := p.FuncFlow().Resolve(call.Call.Value, 0)
					viaValue = len(ts) > 0
					for _, t := range ts {
						if methodOf(t) != unesc {
							viaValue = false
						}
					}
				}
				c.Check(isCall && (isCallTo(call, unesc) || viaValue), "C11.CONSTVALUE", FnName(fn)+": string constant", p.Pos(st.Pos()),
					"the constant holds what ParseZqlString made of the literal", "the listener builds a string constant from "+describeValue(st.Val)+" instead of the result of zitiql.ParseZqlString: in this position escape sequences of the literal are not resolved, so the same literal denotes a different string here than as a comparison operand")
			}
		}
	}
	c.CallSites(n)
	c.Floor("C11.CONSTVALUE", 1)
}

// ruleC11Fold: where the type transform folds a constant operand into a new constant (icontains upper-cases
// a constant pattern once), the new constant is built from the operand's String().  That is only the
// denoted string as long as StringConstNode.String() returns the value itself — not a display form
// (re-escaped, quoted, truncated).
func ruleC11Fold(c *Ctx) {
	p := c.P
	valFld := p.Field("ast", "StringConstNode", "value")
	var fromString func(v ssa.Value, depth int) bool
	fromString = func(v ssa.Value, depth int) bool {
		if v == nil || depth > 5 {
			return false
		}
		call, ok := v.(*ssa.Call)
		if !ok {
			return false
		}
		if call.Call.IsInvoke() && call.Call.Method.Name() == "String" {
			return true
		}
		for _, a := range call.Call.Args {
			if fromString(a, depth+1) {
				return true
			}
		}
		return false
	}
	var folds []*ssa.Store
	for _, fn := range c.prodFuncs("ast") {
		for _, b := range fn.Blocks {
			for _, in := range b.Instrs {
				if st, ok := in.(*ssa.Store); ok {
					if f, _ := fieldOfAddr(st.Addr); sameVar(f, valFld) && fromString(st.Val, 0) {
						folds = append(folds, st)
					}
				}
			}
		}
	}
	if len(folds) == 0 {
		c.OK("C11.FOLD", "ast: constant folding", "-", "no constant is built from another node's String()")
		return
	}
	sf := p.SSAFunc(p.Method("ast", "StringConstNode", "String"))
	c.Analysed(FnName(sf))
	raw := true
	for _, r := range returnsOf(sf) {
		f, base := loadedField(r.Results[0])
		if !sameVar(f, valFld) || base != ssa.Value(sf.Params[0]) {
			raw = false
		}
	}
	for _, st := range folds {
		c.Check(raw, "C11.FOLD", FnName(st.Parent())+": folds a constant through String()", p.Pos(st.Pos()), "StringConstNode.String() returns the value unchanged, so the folded constant denotes the same string", "a constant is folded from the operand's String(), but StringConstNode.String() does not return the value unchanged (a display form): the folded pattern denotes a different string than the literal the user wrote")
	}
	c.CallSites(len(folds))
}

// scannerDecoder: the decoder is a hand-written single pass over the literal body —
//
//	body := TrimSuffix(TrimPrefix(text, `"`), `"`)            (quote stripping, as in the pipeline form)
//	[if the body has no backslash: return body]
//	for i := 0; i < len(body); i++ { ... append / WriteByte ... }
//	return string(buf) / builder.String()
//
// It is decided by evaluating ONE iteration of the loop for every combination of (current byte is a
// backslash or not, another byte follows or not, which byte follows): the iteration must emit exactly the
// escape's meaning and step over two bytes when a grammar escape starts here, and emit the current byte and
// step over one otherwise.  That is the single left-to-right pass of the reference reading; nothing is
// re-read, so an escaped backslash cannot start another escape.
func scannerDecoder(c *Ctx, name string, decoder *ssa.Function, want map[string]string) bool {
	p := c.P
	loops := loopsOf(decoder)
	if len(loops) != 1 {
		return false
	}
	l := loops[0]
	// the index: a header phi starting at 0
	var idx *ssa.Phi
	var startAt *ssa.Call // strings.IndexByte(body, '\\') when the scan starts at the first backslash
	var otherPhis []*ssa.Phi
	for _, in := range l.Header.Instrs {
		phi, ok := in.(*ssa.Phi)
		if !ok {
			break
		}
		isIdx := false
		if bt, isB := phi.Type().Underlying().(*types.Basic); isB && bt.Info()&types.IsInteger != 0 {
			for i, e := range phi.Edges {
				if l.Blocks[phi.Block().Preds[i]] {
					continue
				}
				if k, isK := e.(*ssa.Const); isK && k.Value != nil && constant.Sign(k.Value) == 0 {
					isIdx = true
				}
				// ... or at the first backslash, the part before it having been copied as it is
				if call, isCall := e.(*ssa.Call); isCall {
					if cal, _ := calleeOf(call.Common()); cal != nil && cal.Pkg() != nil && cal.Pkg().Path() == "strings" && cal.Name() == "IndexByte" && len(call.Call.Args) == 2 {
						if k, isK := call.Call.Args[1].(*ssa.Const); isK && k.Value != nil {
							if n, _ := constant.Int64Val(k.Value); n == '\\' {
								startAt = call
								isIdx = true
							}
						}
					}
				}
			}
		}
		if isIdx && idx == nil {
			idx = phi
		} else {
			otherPhis = append(otherPhis, phi)
		}
	}
	if idx == nil {
		return false
	}
	// the scanned string: what the loop bound takes the length of
	var body ssa.Value
	for b := range l.Blocks {
		for _, in := range b.Instrs {
			if call, ok := in.(*ssa.Call); ok {
				if bi, isB := call.Call.Value.(*ssa.Builtin); isB && bi.Name() == "len" && len(call.Call.Args) == 1 {
					if bt, isS := call.Call.Args[0].Type().Underlying().(*types.Basic); isS && bt.Info()&types.IsString != 0 {
						if body == nil {
							body = call.Call.Args[0]
						} else if body != call.Call.Args[0] {
							return false
						}
					}
				}
			}
		}
	}
	if body == nil {
		return false
	}
	if startAt != nil {
		// the skipped prefix (which holds no backslash) must have been copied to the output unchanged
		if startAt.Call.Args[0] != body {
			return false
		}
		copied := false
		for _, b := range decoder.Blocks {
			if l.Blocks[b] {
				continue
			}
			for _, in := range b.Instrs {
				call, ok := in.(*ssa.Call)
				if !ok {
					continue
				}
				for _, a := range call.Call.Args {
					if sl, isSl := a.(*ssa.Slice); isSl && sl.X == body && sl.Low == nil && sl.High == ssa.Value(startAt) {
						copied = true
					}
					if cv, isCv := a.(*ssa.Convert); isCv {
						if sl, isSl := cv.X.(*ssa.Slice); isSl && sl.X == body && sl.Low == nil && sl.High == ssa.Value(startAt) {
							copied = true
						}
					}
				}
			}
		}
		if !copied {
			c.Bad("C11.UNESCAPE", name+": prefix", p.Pos(decoder.Pos()), "the scan starts at the first backslash but the part of the literal before it is not copied to the result")
		}
	}
	// quote stripping ahead of the loop: body = TrimSuffix(TrimPrefix(param, `"`), `"`) in either order
	var stages []strStage
	v := body
	for steps := 0; v != ssa.Value(decoder.Params[0]) && steps < 4; steps++ {
		call, ok := v.(*ssa.Call)
		if !ok {
			return false
		}
		cal, _ := calleeOf(call.Common())
		if cal == nil || cal.Pkg() == nil || cal.Pkg().Path() != "strings" || (cal.Name() != "TrimPrefix" && cal.Name() != "TrimSuffix") {
			return false
		}
		sv, okS := constString(call.Call.Args[1])
		if !okS {
			return false
		}
		stages = append(stages, strStage{kind: strings.ToLower(cal.Name()), a: sv, pos: call.Pos()})
		v = call.Call.Args[0]
	}
	if v != ssa.Value(decoder.Params[0]) {
		return false
	}
	nPre, nSuf, okQ := 0, 0, true
	for _, s := range stages {
		if s.a != `"` {
			okQ = false
		}
		if s.kind == "trimprefix" {
			nPre++
		} else {
			nSuf++
		}
	}
	c.Check(okQ && nPre == 1 && nSuf == 1, "C11.UNESCAPE", name+": quotes", p.Pos(decoder.Pos()), "exactly one leading and one trailing double quote are stripped, before unescaping", "quote stripping is not exactly one TrimPrefix and one TrimSuffix of `\"` ahead of the unescape step")
	// returns: the body itself where it has no backslash, or what the loop produced
	fi := factsOf(decoder)
	okRet, whyRet := true, ""
	for _, r := range returnsOf(decoder) {
		if l.Blocks[r.Block()] {
			okRet, whyRet = false, "the loop returns from inside an iteration"
			continue
		}
		if r.Results[0] == body {
			noEsc := fi.HoldsWhere(r.Block(), func(f Fact) bool {
				call, isCall := f.V.(*ssa.Call)
				if isCall && f.Kind == "true" && !f.Pol {
					if cal, _ := calleeOf(call.Common()); cal != nil && cal.Pkg() != nil && cal.Pkg().Path() == "strings" && (cal.Name() == "Contains" || cal.Name() == "ContainsRune" || cal.Name() == "ContainsAny") && call.Call.Args[0] == body {
						if s, okS := constString(call.Call.Args[1]); okS && s == `\` {
							return true
						}
						if k, isK := call.Call.Args[1].(*ssa.Const); isK && k.Value != nil && k.Value.Kind() == constant.Int {
							if n, _ := constant.Int64Val(k.Value); n == '\\' {
								return true
							}
						}
					}
				}
				if bo, isB := f.V.(*ssa.BinOp); isB && f.Kind == "true" && f.Pol && bo.Op == token.LSS {
					if call, isCall := bo.X.(*ssa.Call); isCall {
						if cal, _ := calleeOf(call.Common()); cal != nil && (cal.Name() == "IndexByte" || cal.Name() == "Index") && call.Call.Args[0] == body {
							if k, isK := bo.Y.(*ssa.Const); isK && k.Value != nil && constant.Sign(k.Value) == 0 {
								return true
							}
						}
					}
				}
				return false
			})
			if !noEsc {
				okRet, whyRet = false, "the body is returned as is on a path where it may contain a backslash"
			}
			continue
		}
		// otherwise the result must be produced after the loop ran to its end: the return is not reachable
		// from the entry without passing the loop header
		ri := reachWithout(decoder, func(in ssa.Instruction) bool { return in.Block() == l.Header })
		if ri.Reaches(r) {
			okRet, whyRet = false, "a result other than the untouched body is returned without running the scan"
		}
	}
	c.Check(okRet, "C11.UNESCAPE", name+": results", p.Pos(decoder.Pos()), "the function returns the body itself only where it has no backslash, otherwise what the scan produced", whyRet)

	// ---- one iteration, every case ----
	isOut := func(ci ssa.CallInstruction) bool {
		cc := ci.Common()
		if bi, isB := cc.Value.(*ssa.Builtin); isB && bi.Name() == "append" {
			return true
		}
		if cal, _ := calleeOf(cc); cal != nil && cal.Pkg() != nil && cal.Pkg().Path() == "strings" {
			switch cal.Name() {
			case "WriteByte", "WriteRune", "WriteString":
				return true
			}
		}
		return false
	}
	indexRole := func(v ssa.Value) int { // 0: body[i], 1: body[i+1], -1: something else
		if v == ssa.Value(idx) {
			return 0
		}
		if bo, ok := v.(*ssa.BinOp); ok && bo.Op == token.ADD {
			if k, isK := bo.Y.(*ssa.Const); isK && bo.X == ssa.Value(idx) && k.Value != nil {
				if n, _ := constant.Int64Val(k.Value); n == 1 {
					return 1
				}
			}
		}
		return -1
	}
	var escChars []byte
	for k := range want {
		escChars = append(escChars, k[1])
	}
	sort.Slice(escChars, func(i, j int) bool { return escChars[i] < escChars[j] })
	followers := append(append([]byte{}, escChars...), 'x')
	okIter, whyIter, undecided := true, "", ""
	rows := 0
	for _, b0 := range []byte{'\\', 'a'} {
		for _, hasNext := range []bool{true, false} {
			fs := followers
			if !hasNext || b0 != '\\' {
				fs = []byte{'x'}
			}
			for _, b1 := range fs {
				rows++
				decideSymCompare = func(a, b AV, tok token.Token) (bool, bool) {
					// i+k against n = len(body): this iteration exists (i < n); i+1 < n iff another byte follows
					pos := func(x AV) (int64, bool) { return x.Off, x.Sym == "i" }
					cmp := func(k int64) int { // sign of (i+k) - n
						switch {
						case k <= 0:
							return -1
						case k == 1:
							if hasNext {
								return -1
							}
							return 0
						default:
							return 1 // beyond what this iteration may look at
						}
					}
					var d int
					switch {
					case a.Sym == "i" && b.Sym == "n" && b.Off == 0:
						k, _ := pos(a)
						d = cmp(k)
					case a.Sym == "n" && a.Off == 0 && b.Sym == "i":
						k, _ := pos(b)
						d = -cmp(k)
					default:
						return false, false
					}
					switch tok {
					case token.LSS:
						return d < 0, true
					case token.LEQ:
						return d <= 0, true
					case token.GTR:
						return d > 0, true
					case token.GEQ:
						return d >= 0, true
					case token.EQL:
						return d == 0, true
					case token.NEQ:
						return d != 0, true
					}
					return false, false
				}
				oracle := func(v ssa.Value) (AV, bool) {
					switch x := v.(type) {
					case *ssa.Phi:
						if x == idx {
							return AV{Kind: "sym", Sym: "i"}, true
						}
						for _, o := range otherPhis {
							if x == o {
								return AV{Kind: "sym", Sym: "acc:" + x.Name()}, true
							}
						}
					case *ssa.Call:
						if bi, isB := x.Call.Value.(*ssa.Builtin); isB && bi.Name() == "len" && len(x.Call.Args) == 1 && x.Call.Args[0] == body {
							return AV{Kind: "sym", Sym: "n"}, true
						}
						if bi, isB := x.Call.Value.(*ssa.Builtin); isB && bi.Name() == "append" {
							return AV{Kind: "sym", Sym: "acc:append"}, true
						}
					case *ssa.Lookup:
						if x.X == body {
							switch indexRole(x.Index) {
							case 0:
								return avInt(int64(b0)), true
							case 1:
								return avInt(int64(b1)), true
							}
						}
					case *ssa.Index:
						if x.X == body {
							switch indexRole(x.Index) {
							case 0:
								return avInt(int64(b0)), true
							case 1:
								return avInt(int64(b1)), true
							}
						}
					}
					return AV{}, false
				}
				evs, next, exited, err := DecideIteration(decoder, l, oracle, isOut)
				decideSymCompare = nil
				if err != "" {
					undecided = err
					continue
				}
				if exited {
					okIter, whyIter = false, fmt.Sprintf("the scan is left in the middle of the body (current byte %q, following byte %q)", b0, b1)
					continue
				}
				// what was emitted
				var out []int64
				okOut := true
				for _, ev := range evs {
					a := ev.Args[len(ev.Args)-1]
					if a.Kind != "const" {
						okOut = false
						continue
					}
					n, _ := constant.Int64Val(a.C)
					out = append(out, n)
				}
				step := int64(-1)
				if nv, has := next[idx]; has && nv.Kind == "sym" && nv.Sym == "i" {
					step = nv.Off
				}
				wantOut, wantStep := []int64{int64(b0)}, int64(1)
				if b0 == '\\' && hasNext {
					if m, isEsc := want[`\`+string(b1)]; isEsc {
						wantOut, wantStep = []int64{int64(m[0])}, 2
					}
				}
				same := okOut && len(out) == len(wantOut)
				for i := range wantOut {
					if same && out[i] != wantOut[i] {
						same = false
					}
				}
				if !same || step != wantStep {
					okIter = false
					whyIter = fmt.Sprintf("with the current byte %q%s the iteration emits %v and advances by %d; the reference reading emits %v and advances by %d", b0, map[bool]string{true: fmt.Sprintf(" followed by %q", b1), false: " at the end of the body"}[hasNext], out, step, wantOut, wantStep)
				}
			}
		}
	}
	if okIter && undecided != "" {
		c.Undecided("C11.UNESCAPE", name+": single pass", p.Pos(decoder.Pos()), "the scan loop could not be evaluated iteration-wise: "+undecided)
		return true
	}
	c.Check(okIter, "C11.UNESCAPE", name+": single pass", p.Pos(decoder.Pos()), fmt.Sprintf("one left-to-right scan: each iteration emits the meaning of the grammar escape starting here and steps over both bytes, or emits the current byte and steps over one (%d cases)", rows), whyIter)
	c.Check(okIter, "C11.TABLE", name+": escape pairs", p.Pos(decoder.Pos()), "the scan's escape table equals the grammar's ESC set", "the scan decodes an escape differently from the grammar's table: "+whyIter)
	c.Floor("C11.UNESCAPE", 2)
	c.Floor("C11.TABLE", 1)
	c.Floor("C11.NOREWRITE", 1)
	return true
}

// c11ConstProp evaluates the literal decoder by constant propagation on every literal of up to three atoms and
// compares with the single-pass reading of the escape table.  decided is false when some literal could not be
// evaluated (a construct the propagation does not model).
func c11ConstProp(decoder *ssa.Function, want map[string]string) (decided bool, bad string) {
	if len(decoder.Params) != 1 {
		return false, ""
	}
	type atom struct{ raw, val string }
	atoms := []atom{{"a", "a"}, {"n", "n"}, {"é", "é"}, {" ", " "}}
	var keys []string
	for k := range want {
		keys = append(keys, k)
	}
	sort.Strings(keys)
	for _, k := range keys {
		atoms = append(atoms, atom{k, want[k]})
	}
	var run func(prefixRaw, prefixVal string, depth int) bool
	checked := 0
	run = func(raw, val string, depth int) bool {
		text := `"` + raw + `"`
		oracle := func(v ssa.Value) (AV, bool) {
			if prm, isPrm := v.(*ssa.Parameter); isPrm && prm == decoder.Params[0] {
				return avStr(text), true
			}
			return AV{}, false
		}
		res, err := Decide(decoder, oracle, nil)
		if err != "" || len(res) != 1 {
			return false
		}
		got, isS := avString(res[0])
		if !isS {
			return false
		}
		checked++
		if got != val && bad == "" {
			bad = fmt.Sprintf("the literal %s decodes to %q, the grammar's escape table read in a single pass gives %q: the literal does not denote the intended string", text, got, val)
		}
		if depth == 3 {
			return true
		}
		for _, a := range atoms {
			if !run(raw+a.raw, val+a.val, depth+1) {
				return false
			}
		}
		return true
	}
	if !run("", "", 0) {
		return false, ""
	}
	return checked > 0, bad
}

// c11StringTokenDecided runs VisitTerminal for the STRING token with a few token texts and compares the value of
// the string constant it pushes with the single-pass reading of the escape table.
func c11StringTokenDecided(c *Ctx, vt *ssa.Function, want map[string]string) (ok bool, decided bool) {
	p := c.P
	push := p.Method("ast", "ToBoltListener", "pushStack")
	strConst := p.Named("ast", "StringConstNode")
	tok := constInt(p.Obj("zitiql", "ZitiQlLexerSTRING"))
	valueIdx := ".f?"
	if st, isSt := strConst.Underlying().(*types.Struct); isSt {
		for i := 0; i < st.NumFields(); i++ {
			if st.Field(i).Name() == "value" {
				valueIdx = fmt.Sprintf(".f%d", i)
			}
		}
	}
	type sample struct{ raw, val string }
	samples := []sample{{"plain text", "plain text"}, {" spaced  ", " spaced  "}}
	var keys []string
	for k := range want {
		keys = append(keys, k)
	}
	sort.Strings(keys)
	raw, val := "x", "x"
	for _, k := range keys {
		raw += k + "n"
		val += want[k] + "n"
	}
	samples = append(samples, sample{raw, val})
	ok = true
	for _, sm := range samples {
		text := `"` + sm.raw + `"`
		oracle := func(v ssa.Value) (AV, bool) {
			if call, isCall := v.(*ssa.Call); isCall {
				switch {
				case invokeNamed(call, "GetTokenType"):
					return avInt(tok), true
				case invokeNamed(call, "GetText"):
					return avStr(text), true
				case invokeNamed(call, "HasError"):
					return avBool(false), true
				}
				if cal, _ := calleeOf(call.Common()); cal != nil && cal.Name() == "HasError" {
					return avBool(false), true
				}
			}
			if u, isU := v.(*ssa.UnOp); isU && u.Op == token.MUL {
				if f, base := loadedField(u); f != nil && base == ssa.Value(vt.Params[0]) {
					if bt, isB := f.Type().Underlying().(*types.Basic); isB && bt.Kind() == types.Bool {
						return avBool(false), true
					}
				}
			}
			return AV{}, false
		}
		evs, err := DecideCalls(vt, oracle, func(ci ssa.CallInstruction) bool { return isCallTo(ci, push) })
		if err != "" || len(evs) != 1 {
			return false, false
		}
		ev := evs[0]
		last := len(ev.Args) - 1
		if last < 0 || ev.ArgTypes[last] == nil || namedOf(ev.ArgTypes[last]) != strConst {
			return false, false
		}
		got, isS := avString(ev.ArgFields[last][valueIdx])
		if !isS {
			return false, false
		}
		if got != sm.val {
			ok = false
		}
	}
	return ok, true
}

// rewritingPasses: how many calls in the decoder (and the module functions it calls) rewrite a whole string:
// Replacer.Replace, strings.Replace/ReplaceAll/Map, regexp ReplaceAll*, strconv.Unquote.
func rewritingPasses(fn *ssa.Function) int {
	seen := map[*ssa.Function]bool{}
	var count func(f *ssa.Function, depth int) int
	count = func(f *ssa.Function, depth int) int {
		if f == nil || f.Blocks == nil || seen[f] || depth > 3 {
			return 0
		}
		seen[f] = true
		n := 0
		for _, call := range callsIn(f) {
			cal, _ := calleeOf(call.Common())
			if cal == nil || cal.Pkg() == nil {
				continue
			}
			switch cal.Pkg().Path() {
			case "strings":
				switch cal.Name() {
				case "Replace", "ReplaceAll", "Map":
					n++
				}
			case "regexp":
				if strings.HasPrefix(cal.Name(), "ReplaceAll") {
					n++
				}
			case "strconv":
				if strings.HasPrefix(cal.Name(), "Unquote") {
					n++
				}
			}
			if sc := call.Common().StaticCallee(); sc != nil && inModule(sc) {
				n += count(sc, depth+1)
			}
		}
		for _, a := range f.AnonFuncs {
			n += count(a, depth+1)
		}
		return n
	}
	return count(fn, 0)
}
