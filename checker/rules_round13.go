package main

import (
	"fmt"
	"go/constant"
	"go/types"
	"sort"
	"strings"

	"golang.org/x/tools/go/ssa"
)

// Rules added after round 13 of the seeded changes.

// operandKey names the operand an SSA value stands for, when it is an input of the function: a
// parameter, a field of one, or an element of one at a constant index ("" otherwise). Interface
// conversions and type assertions keep the operand.
func operandKey(v ssa.Value) string {
	for i := 0; i < 10; i++ {
		switch x := v.(type) {
		case *ssa.MakeInterface:
			v = x.X
		case *ssa.ChangeInterface:
			v = x.X
		case *ssa.ChangeType:
			v = x.X
		case *ssa.TypeAssert:
			v = x.X
		case *ssa.Extract:
			if ta, ok := x.Tuple.(*ssa.TypeAssert); ok && x.Index == 0 {
				v = ta.X
			} else {
				return ""
			}
		case *ssa.Parameter:
			return "param:" + x.Name()
		case *ssa.UnOp:
			if x.Op.String() != "*" {
				return ""
			}
			switch a := x.X.(type) {
			case *ssa.IndexAddr:
				k, ok := a.Index.(*ssa.Const)
				if !ok || k.Value == nil || k.Value.Kind() != constant.Int {
					return ""
				}
				base := operandKey(a.X)
				if base == "" {
					return ""
				}
				return base + "[" + k.Value.ExactString() + "]"
			case *ssa.FieldAddr:
				base := operandKey(a.X)
				if base == "" {
					return ""
				}
				st, _ := deref(a.X.Type()).Underlying().(*types.Struct)
				if st == nil {
					return ""
				}
				return base + "." + st.Field(a.Field).Name()
			}
			return ""
		default:
			return ""
		}
	}
	return ""
}

func deref(t types.Type) types.Type {
	if p, ok := t.Underlying().(*types.Pointer); ok {
		return p.Elem()
	}
	return t
}

// paramsAskedIsConst: indexes of the parameters of g on which g calls IsConst().
func paramsAskedIsConst(g *ssa.Function) map[int]bool {
	out := map[int]bool{}
	if g == nil {
		return out
	}
	if o := g.Origin(); o != nil {
		g = o
	}
	for _, fn := range allFuncsWithAnon(g) {
		for _, call := range callsIn(fn) {
			cc := call.Common()
			if !cc.IsInvoke() || cc.Method.Name() != "IsConst" {
				continue
			}
			k := operandKey(cc.Value)
			for i, prm := range g.Params {
				if k == "param:"+prm.Name() {
					out[i] = true
				}
			}
		}
	}
	return out
}

// ruleOperandNotFolded (C20.OPERANDKEPT): a function of package ast that on one path builds a node
// holding one of its operands and on another path answers a constant bool node has asked that operand
// whether it is constant. Otherwise an operand that may be a symbol disappears from the typed tree
// (the validator walks the typed tree: the symbol is never shown to it). A fold over operands that
// were all asked is left alone.
func ruleOperandNotFolded(c *Ctx, rule string) {
	p := c.P
	nodeIface := p.Iface("ast", "Node")
	constT := p.Named("ast", "BoolConstNode")
	if nodeIface == nil || constT == nil {
		c.Undecided(rule, "ast.BoolConstNode", "-", "anchor not found")
		return
	}
	// functions that do nothing but make the constant node
	makers := map[*ssa.Function]bool{}
	for _, fn := range c.prodFuncs("ast") {
		if len(fn.Blocks) != 1 {
			continue
		}
		for _, in := range fn.Blocks[0].Instrs {
			if ret, ok := in.(*ssa.Return); ok && len(ret.Results) == 1 {
				v := ret.Results[0]
				if mi, isMi := v.(*ssa.MakeInterface); isMi {
					v = mi.X
				}
				if al, isAl := v.(*ssa.Alloc); isAl && types.Identical(deref(al.Type()), constT) {
					makers[fn] = true
				}
			}
		}
	}
	n, fired := 0, 0
	for _, fn := range c.prodFuncs("ast") {
		var consts []ssa.Instruction
		kept := map[string]ssa.Instruction{}
		asked := map[string]bool{}
		for _, b := range fn.Blocks {
			for _, in := range b.Instrs {
				switch x := in.(type) {
				case *ssa.Alloc:
					if types.Identical(deref(x.Type()), constT) && !makers[fn] {
						consts = append(consts, x)
					}
				case *ssa.UnOp:
					if g, ok := x.X.(*ssa.Global); ok && x.Op.String() == "*" && g.Pkg == fn.Pkg && strings.HasPrefix(g.Name(), "BoolNode") {
						consts = append(consts, x)
					}
				case *ssa.Store:
					fa, ok := x.Addr.(*ssa.FieldAddr)
					if !ok {
						continue
					}
					al, ok := fa.X.(*ssa.Alloc)
					if !ok {
						continue
					}
					et := deref(al.Type())
					if types.Identical(et, constT) {
						continue
					}
					if !types.Implements(types.NewPointer(et), nodeIface) && !types.Implements(et, nodeIface) {
						continue
					}
					if !types.Implements(x.Val.Type(), nodeIface) {
						continue
					}
					if k := operandKey(x.Val); k != "" {
						if _, dup := kept[k]; !dup {
							kept[k] = x
						}
					}
				}
				if call, ok := in.(ssa.CallInstruction); ok {
					cc := call.Common()
					if cc.IsInvoke() && cc.Method.Name() == "IsConst" {
						if k := operandKey(cc.Value); k != "" {
							asked[k] = true
						}
						continue
					}
					if sc := cc.StaticCallee(); sc != nil {
						g := sc
						if o := g.Origin(); o != nil {
							g = o
						}
						if makers[g] {
							consts = append(consts, in)
							continue
						}
						if g.Pkg == fn.Pkg {
							pa := paramsAskedIsConst(g)
							for i, a := range cc.Args {
								if pa[i] {
									if k := operandKey(a); k != "" {
										asked[k] = true
									}
								}
							}
						}
					}
				}
			}
		}
		if len(consts) == 0 || len(kept) == 0 {
			continue
		}
		n++
		c.Analysed(FnName(fn))
		var missing []string
		for k := range kept {
			if !asked[k] {
				missing = append(missing, strings.TrimPrefix(k, "param:"))
			}
		}
		sortStrings(missing)
		if len(missing) > 0 {
			fired++
		}
		c.Check(len(missing) == 0, rule, FnName(fn)+": constant answer next to a node holding "+strings.Join(keysOf(kept), ", "), p.Pos(consts[0].Pos()),
			"every operand the built node holds was asked IsConst() before the constant answer",
			fmt.Sprintf("answers a constant bool node on one path and a node holding %s on another without asking %s whether it is constant: an operand that is a symbol disappears from the typed tree, and the public-symbol validator, which walks the typed tree, never sees it", strings.Join(keysOf(kept), ", "), strings.Join(missing, ", ")))
	}
	if fired == 0 {
		c.OK(rule, "ast: constant answers of node builders", "-", fmt.Sprintf("%d functions answer a constant next to a node holding an operand; none without asking the operand", n))
	}
	c.CallSites(n)
}

func keysOf(m map[string]ssa.Instruction) []string {
	var out []string
	for k := range m {
		out = append(out, strings.TrimPrefix(k, "param:"))
	}
	sortStrings(out)
	return out
}

func sortStrings(s []string) { sort.Strings(s) }

// ruleLinkOwnStore (C05/C06.LINKSTORE): the two sides of a link find an entity's bucket the same way
// — through the symbol's own store. No method of the link collection types, nor a same-package helper
// it calls, asks for the parent store: a local side written below the parent's bucket is not where
// the other side's RemoveLink looks when the related entity is deleted.
func ruleLinkOwnStore(c *Ctx, rule string) {
	p := c.P
	owners := map[*types.Named]bool{}
	for _, n := range []string{"linkCollectionImpl", "rcLinkCollectionImpl", "LinkedSetSymbol", "RefCountedLinkedSetSymbol"} {
		if t := p.Named("boltz", n); t != nil {
			owners[t] = true
		}
	}
	if len(owners) < 4 {
		c.Undecided(rule, "boltz link collection types", "-", fmt.Sprintf("only %d of the 4 link collection types found", len(owners)))
		return
	}
	isStoreFn := func(fn *ssa.Function) bool {
		if fn.Signature.Recv() == nil {
			return false
		}
		t := namedOf(fn.Signature.Recv().Type())
		return t != nil && t.Obj().Name() == "BaseStore"
	}
	n, bad := 0, 0
	for _, fn := range c.prodFuncs("boltz") {
		if fn.Signature.Recv() == nil || !owners[namedOf(fn.Signature.Recv().Type())] {
			continue
		}
		n++
		c.Analysed(FnName(fn))
		seen := map[*ssa.Function]bool{}
		found, foundPos := "", "-"
		var walk func(f *ssa.Function, depth int, via string)
		walk = func(f *ssa.Function, depth int, via string) {
			if seen[f] || depth > 4 || found != "" {
				return
			}
			seen[f] = true
			for _, g := range allFuncsWithAnon(f) {
				for _, call := range callsIn(g) {
					cc := call.Common()
					cal, _ := calleeOf(cc)
					if cal != nil && (cal.Name() == "GetParentStore" || cal.Name() == "getEntityBucketForLoad" || cal.Name() == "GetParentContext") {
						if found == "" {
							found, foundPos = cal.Name()+via, p.Pos(call.Pos())
						}
						continue
					}
					if sc := cc.StaticCallee(); sc != nil && sc.Pkg == fn.Pkg && len(sc.Blocks) > 0 && !isStoreFn(sc) {
						walk(sc, depth+1, via+" (via "+FnName(sc)+")")
					}
				}
			}
		}
		walk(fn, 0, "")
		pos := p.Pos(fn.Pos())
		if found != "" {
			bad++
			pos = foundPos
		}
		c.Check(found == "", rule, FnName(fn), pos, "finds entities through the symbol's own store only", "a link collection method reaches for the parent store ("+found+"): the two sides of a link find an entity through the symbol's own store — a link list written below the parent's bucket for an entity without child data is not where the other side's RemoveLink looks, so deleting the related entity leaves its id behind in that list")
	}
	_ = bad
	c.CallSites(n)
	c.Floor(rule, 30)
}
