package main

import (
	"fmt"
	"go/constant"
	"go/types"
	"sort"
	"strings"

	"golang.org/x/tools/go/ssa"
)

// Rules added after round 13 of the seeded changes.

// operandKey names the operand an SSA value stands for, when it is an input of the function: a
// parameter, a field of one, or an element of one at a constant index ("" otherwise). Interface
// conversions and type assertions keep the operand.
func operandKey(v ssa.Value) string {
	for i := 0; i < 10; i++ {
		switch x := v.(type) {
		case *ssa.MakeInterface:
			v = x.X
		case *ssa.ChangeInterface:
			v = x.X
		case *ssa.ChangeType:
			v = x.X
		case *ssa.TypeAssert:
			v = x.X
		case *ssa.Extract:
			if ta, ok := x.Tuple.(*ssa.TypeAssert); ok && x.Index == 0 {
				v = ta.X
			} else {
				return ""
			}
		case *ssa.Parameter:
			return "param:" + x.Name()
		case *ssa.UnOp:
			if x.Op.String() != "*" {
				return ""
			}
			switch a := x.X.(type) {
			case *ssa.IndexAddr:
				k, ok := a.Index.(*ssa.Const)
				if !ok || k.Value == nil || k.Value.Kind() != constant.Int {
					return ""
				}
				base := operandKey(a.X)
				if base == "" {
					return ""
				}
				return base + "[" + k.Value.ExactString() + "]"
			case *ssa.FieldAddr:
				base := operandKey(a.X)
				if base == "" {
					return ""
				}
				st, _ := deref(a.X.Type()).Underlying().(*types.Struct)
				if st == nil {
					return ""
				}
				return base + "." + st.Field(a.Field).Name()
			}
			return ""
		default:
			return ""
		}
	}
	return ""
}

func deref(t types.Type) types.Type {
	if p, ok := t.Underlying().(*types.Pointer); ok {
		return p.Elem()
	}
	return t
}

// paramsAskedIsConst: indexes of the parameters of g on which g calls IsConst().
func paramsAskedIsConst(g *ssa.Function) map[int]bool {
	out := map[int]bool{}
	if g == nil {
		return out
	}
	if o := g.Origin(); o != nil {
		g = o
	}
	for _, fn := range allFuncsWithAnon(g) {
		for _, call := range callsIn(fn) {
			cc := call.Common()
			if !cc.IsInvoke() || cc.Method.Name() != "IsConst" {
				continue
			}
			k := operandKey(cc.Value)
			for i, prm := range g.Params {
				if k == "param:"+prm.Name() {
					out[i] = true
				}
			}
		}
	}
	return out
}

// ruleOperandNotFolded (C20.OPERANDKEPT): a function of package ast that on one path builds a node
// holding one of its operands and on another path answers a constant bool node has asked that operand
// whether it is constant. Otherwise an operand that may be a symbol disappears from the typed tree
// (the validator walks the typed tree: the symbol is never shown to it). A fold over operands that
// were all asked is left alone.
func ruleOperandNotFolded(c *Ctx, rule string) {
	p := c.P
	nodeIface := p.Iface("ast", "Node")
	constT := p.Named("ast", "BoolConstNode")
	if nodeIface == nil || constT == nil {
		c.Undecided(rule, "ast.BoolConstNode", "-", "anchor not found")
		return
	}
	// functions that do nothing but make the constant node
	makers := map[*ssa.Function]bool{}
	for _, fn := range c.prodFuncs("ast") {
		if len(fn.Blocks) != 1 {
			continue
		}
		for _, in := range fn.Blocks[0].Instrs {
			if ret, ok := in.(*ssa.Return); ok && len(ret.Results) == 1 {
				v := ret.Results[0]
				if mi, isMi := v.(*ssa.MakeInterface); isMi {
					v = mi.X
				}
				if al, isAl := v.(*ssa.Alloc); isAl && types.Identical(deref(al.Type()), constT) {
					makers[fn] = true
				}
			}
		}
	}
	n, fired := 0, 0
	for _, fn := range c.prodFuncs("ast") {
		var consts []ssa.Instruction
		kept := map[string]ssa.Instruction{}
		asked := map[string]bool{}
		for _, b := range fn.Blocks {
			for _, in := range b.Instrs {
				switch x := in.(type) {
				case *ssa.Alloc:
					if types.Identical(deref(x.Type()), constT) && !makers[fn] {
						consts = append(consts, x)
					}
				case *ssa.UnOp:
					if g, ok := x.X.(*ssa.Global); ok && x.Op.String() == "*" && g.Pkg == fn.Pkg && strings.HasPrefix(g.Name(), "BoolNode") {
						consts = append(consts, x)
					}
				case *ssa.Store:
					fa, ok := x.Addr.(*ssa.FieldAddr)
					if !ok {
						continue
					}
					al, ok := fa.X.(*ssa.Alloc)
					if !ok {
						continue
					}
					et := deref(al.Type())
					if types.Identical(et, constT) {
						continue
					}
					if !types.Implements(types.NewPointer(et), nodeIface) && !types.Implements(et, nodeIface) {
						continue
					}
					if !types.Implements(x.Val.Type(), nodeIface) {
						continue
					}
					if k := operandKey(x.Val); k != "" {
						if _, dup := kept[k]; !dup {
							kept[k] = x
						}
					}
				}
				if call, ok := in.(ssa.CallInstruction); ok {
					cc := call.Common()
					if cc.IsInvoke() && cc.Method.Name() == "IsConst" {
						if k := operandKey(cc.Value); k != "" {
							asked[k] = true
						}
						continue
					}
					if sc := cc.StaticCallee(); sc != nil {
						g := sc
						if o := g.Origin(); o != nil {
							g = o
						}
						if makers[g] {
							consts = append(consts, in)
							continue
						}
						if g.Pkg == fn.Pkg {
							pa := paramsAskedIsConst(g)
							for i, a := range cc.Args {
								if pa[i] {
									if k := operandKey(a); k != "" {
										asked[k] = true
									}
								}
							}
						}
					}
				}
			}
		}
		if len(consts) == 0 || len(kept) == 0 {
			continue
		}
		n++
		c.Analysed(FnName(fn))
		var missing []string
		for k := range kept {
			if !asked[k] {
				missing = append(missing, strings.TrimPrefix(k, "param:"))
			}
		}
		sortStrings(missing)
		if len(missing) > 0 {
			fired++
		}
		c.Check(len(missing) == 0, rule, FnName(fn)+": constant answer next to a node holding "+strings.Join(keysOf(kept), ", "), p.Pos(consts[0].Pos()),
			"every operand the built node holds was asked IsConst() before the constant answer",
			fmt.Sprintf("answers a constant bool node on one path and a node holding %s on another without asking %s whether it is constant: an operand that is a symbol disappears from the typed tree, and the public-symbol validator, which walks the typed tree, never sees it", strings.Join(keysOf(kept), ", "), strings.Join(missing, ", ")))
	}
	if fired == 0 {
		c.OK(rule, "ast: constant answers of node builders", "-", fmt.Sprintf("%d functions answer a constant next to a node holding an operand; none without asking the operand", n))
	}
	c.CallSites(n)
}

func keysOf(m map[string]ssa.Instruction) []string {
	var out []string
	for k := range m {
		out = append(out, strings.TrimPrefix(k, "param:"))
	}
	sortStrings(out)
	return out
}

func sortStrings(s []string) { sort.Strings(s) }

// ruleLinkOwnStore (C05/C06.LINKSTORE): the two sides of a link find an entity's bucket the same way
// — through the symbol's own store. No method of the link collection types, nor a same-package helper
// it calls, asks for the parent store: a local side written below the parent's bucket is not where
// the other side's RemoveLink looks when the related entity is deleted.
func ruleLinkOwnStore(c *Ctx, rule string) {
	p := c.P
	owners := map[*types.Named]bool{}
	for _, n := range []string{"linkCollectionImpl", "rcLinkCollectionImpl", "LinkedSetSymbol", "RefCountedLinkedSetSymbol"} {
		if t := p.Named("boltz", n); t != nil {
			owners[t] = true
		}
	}
	if len(owners) < 4 {
		c.Undecided(rule, "boltz link collection types", "-", fmt.Sprintf("only %d of the 4 link collection types found", len(owners)))
		return
	}
	isStoreFn := func(fn *ssa.Function) bool {
		if fn.Signature.Recv() == nil {
			return false
		}
		t := namedOf(fn.Signature.Recv().Type())
		return t != nil && t.Obj().Name() == "BaseStore"
	}
	n, bad := 0, 0
	for _, fn := range c.prodFuncs("boltz") {
		if fn.Signature.Recv() == nil || !owners[namedOf(fn.Signature.Recv().Type())] {
			continue
		}
		n++
		c.Analysed(FnName(fn))
		seen := map[*ssa.Function]bool{}
		found, foundPos := "", "-"
		var walk func(f *ssa.Function, depth int, via string)
		walk = func(f *ssa.Function, depth int, via string) {
			if seen[f] || depth > 4 || found != "" {
				return
			}
			seen[f] = true
			for _, g := range allFuncsWithAnon(f) {
				for _, call := range callsIn(g) {
					cc := call.Common()
					cal, _ := calleeOf(cc)
					if cal != nil && (cal.Name() == "GetParentStore" || cal.Name() == "getEntityBucketForLoad" || cal.Name() == "GetParentContext") {
						if found == "" {
							found, foundPos = cal.Name()+via, p.Pos(call.Pos())
						}
						continue
					}
					if sc := cc.StaticCallee(); sc != nil && sc.Pkg == fn.Pkg && len(sc.Blocks) > 0 && !isStoreFn(sc) {
						walk(sc, depth+1, via+" (via "+FnName(sc)+")")
					}
				}
			}
		}
		walk(fn, 0, "")
		pos := p.Pos(fn.Pos())
		if found != "" {
			bad++
			pos = foundPos
		}
		c.Check(found == "", rule, FnName(fn), pos, "finds entities through the symbol's own store only", "a link collection method reaches for the parent store ("+found+"): the two sides of a link find an entity through the symbol's own store — a link list written below the parent's bucket for an entity without child data is not where the other side's RemoveLink looks, so deleting the related entity leaves its id behind in that list")
	}
	_ = bad
	c.CallSites(n)
	c.Floor(rule, 30)
}

// ruleNoAliasingAppend (ALIASAPPEND): the result of append(x.f, …) on a slice held in a field is stored back
// into that very field (growing the field) and nowhere else. Handing the result out, or keeping it in another
// variable, shares the field's backing array whenever it has spare capacity: the next append through the field
// overwrites what was handed out — between two indexes of one store, or between two goroutines using one store.
func ruleNoAliasingAppend(c *Ctx, rule string, pkgs ...string) {
	p := c.P
	n, bad := 0, 0
	for _, fn := range c.prodFuncs(pkgs...) {
		for _, f := range allFuncsWithAnon(fn) {
			for _, b := range f.Blocks {
				for _, in := range b.Instrs {
					call, ok := in.(*ssa.Call)
					if !ok || len(call.Call.Args) == 0 {
						continue
					}
					if bi, isB := call.Call.Value.(*ssa.Builtin); !isB || bi.Name() != "append" {
						continue
					}
					src := call.Call.Args[0]
					if sl, isSl := src.(*ssa.Slice); isSl && sl.Low == nil && sl.Max == nil {
						if _, isArr := deref(sl.X.Type()).Underlying().(*types.Array); !isArr {
							src = sl.X // x.f[:n] keeps the array
						}
					}
					ld, ok := src.(*ssa.UnOp)
					if !ok || ld.Op.String() != "*" {
						continue
					}
					fa, ok := ld.X.(*ssa.FieldAddr)
					if !ok {
						continue
					}
					if _, local := fa.X.(*ssa.Alloc); local {
						if al := fa.X.(*ssa.Alloc); !al.Heap {
							continue // a struct on this function's own stack
						}
					}
					fld, _ := fieldOfAddr(fa)
					n++
					// every use of the result: a store into the same field of the same object
					okUse := true
					var where ssa.Instruction = call
					if refs := call.Referrers(); refs != nil {
						for _, r := range *refs {
							if _, isDbg := r.(*ssa.DebugRef); isDbg {
								continue
							}
							st, isSt := r.(*ssa.Store)
							if isSt && st.Val == ssa.Value(call) {
								if fa2, isFa := st.Addr.(*ssa.FieldAddr); isFa {
									if f2, _ := fieldOfAddr(fa2); sameVar(f2, fld) && fa2.X == fa.X {
										continue
									}
								}
							}
							okUse = false
							where = r
						}
					}
					name := "?"
					if fld != nil {
						name = fld.Name()
					}
					if !okUse {
						bad++
					}
					c.Analysed(FnName(fn))
					c.Check(okUse, rule, FnName(f)+": append(…."+name+", …)", p.Pos(call.Pos()), "the grown slice is stored back into the field it was read from and used nowhere else",
						"the result of appending to the slice held in field "+name+" is used elsewhere ("+describeInstr(where)+") instead of being stored back: with spare capacity in the field's backing array the value handed out is overwritten by the next append through the field — different users of the same object (two indexes of a store, two goroutines reading one store) see each other's elements")
				}
			}
		}
	}
	_ = bad
	c.CallSites(n)
}

// ruleConstNodesImmutable (C11.CONSTIMMUTABLE): the fields of the constant nodes are written only while the node
// is being made (a store into an object allocated by the same function). A constant node may be shared — by an
// interning listener, by a cached query, between the typed and the untyped tree — so rewriting one in place
// (upper-casing a literal for icontains) changes what every other use of that literal denotes.
func ruleConstNodesImmutable(c *Ctx, rule string) {
	p := c.P
	n, bad := 0, 0
	for _, fn := range c.prodFuncs("ast") {
		for _, f := range allFuncsWithAnon(fn) {
			for _, b := range f.Blocks {
				for _, in := range b.Instrs {
					st, ok := in.(*ssa.Store)
					if !ok {
						continue
					}
					fa, ok := st.Addr.(*ssa.FieldAddr)
					if !ok {
						continue
					}
					nm := namedOf(deref(fa.X.Type()))
					if nm == nil || !strings.HasSuffix(nm.Obj().Name(), "ConstNode") || nm.Obj().Pkg() == nil || nm.Obj().Pkg().Name() != "ast" {
						continue
					}
					n++
					base := fa.X
					for {
						inner, isFa := base.(*ssa.FieldAddr) // a constant node embedded in the node being made
						if !isFa {
							break
						}
						base = inner.X
					}
					_, fresh := base.(*ssa.Alloc)
					if !fresh {
						bad++
					}
					fld, _ := fieldOfAddr(fa)
					fname := "?"
					if fld != nil {
						fname = fld.Name()
					}
					c.Analysed(FnName(fn))
					c.Check(fresh, rule, FnName(f)+": write of "+nm.Obj().Name()+"."+fname, p.Pos(st.Pos()), "written while the node is being made", "a field of an existing constant node is overwritten: the node may be shared by other uses of the same literal (an interned literal, a cached query), which then denote the rewritten value, not the string that was written")
				}
			}
		}
	}
	_ = bad
	c.CallSites(n)
}

// ruleInArrayExact (INEXACT): membership in an array literal is element equality. The evaluators of the `in`
// nodes (and what they call in the package) use no substring or join primitive: a joined haystack with a
// separator is only equality while neither side can contain the separator, and every character can be written
// through an escape.
func ruleInArrayExact(c *Ctx, rule string) {
	p := c.P
	n := 0
	for _, fn := range c.prodFuncs("ast") {
		if fn.Signature.Recv() == nil || fn.Name() != "EvalBool" {
			continue
		}
		nm := namedOf(fn.Signature.Recv().Type())
		if nm == nil || !strings.HasPrefix(nm.Obj().Name(), "In") || !strings.Contains(nm.Obj().Name(), "Array") {
			continue
		}
		n++
		c.Analysed(FnName(fn))
		found, pos := "", p.Pos(fn.Pos())
		seen := map[*ssa.Function]bool{}
		var walk func(f *ssa.Function, d int)
		walk = func(f *ssa.Function, d int) {
			if seen[f] || d > 3 || found != "" {
				return
			}
			seen[f] = true
			for _, g := range allFuncsWithAnon(f) {
				for _, call := range callsIn(g) {
					cal, _ := calleeOf(call.Common())
					if cal != nil && cal.Pkg() != nil && (cal.Pkg().Path() == "strings" || cal.Pkg().Path() == "bytes") {
						switch cal.Name() {
						case "Contains", "Index", "HasPrefix", "HasSuffix", "ContainsAny", "Join", "Count", "LastIndex", "Cut":
							if found == "" {
								found, pos = cal.Pkg().Name()+"."+cal.Name(), p.Pos(call.Pos())
							}
						}
					}
					if sc := call.Common().StaticCallee(); sc != nil && sc.Pkg == fn.Pkg && len(sc.Blocks) > 0 {
						walk(sc, d+1)
					}
				}
			}
		}
		walk(fn, 0)
		// fields of the node filled by a join at construction time are seen through the constructor: any function
		// of the package that stores into a field of this node type a value computed by strings.Join / a Builder
		if found == "" {
			for _, g := range c.prodFuncs("ast") {
				for _, b := range g.Blocks {
					for _, in := range b.Instrs {
						st, ok := in.(*ssa.Store)
						if !ok {
							continue
						}
						fa, ok := st.Addr.(*ssa.FieldAddr)
						if !ok || namedOf(deref(fa.X.Type())) != nm {
							continue
						}
						if k, isCall := st.Val.(*ssa.Call); isCall {
							if cal, _ := calleeOf(&k.Call); cal != nil && cal.Pkg() != nil && (cal.Pkg().Path() == "strings" || cal.Pkg().Path() == "bytes") {
								found, pos = "a field filled by "+cal.Pkg().Name()+"."+cal.Name()+" in "+FnName(g), p.Pos(st.Pos())
							}
						}
					}
				}
			}
		}
		c.Check(found == "", rule, FnName(fn), pos, "membership is decided element by element, with no substring or join primitive", "the `in` evaluator decides membership through "+found+": a substring test over joined elements is element equality only while no element and no field value can contain the separator — every character, line feed included, can be written in a literal through an escape and stored in a field")
	}
	c.CallSites(n)
	c.Floor(rule, 3)
}

// ruleBucketMemoInvalidated (BUCKETMEMO): a struct of package boltz that remembers resolved child buckets in a
// map drops the entry wherever one of its methods deletes a nested bucket — bbolt's DeleteBucket leaves earlier
// handles to that bucket pointing at freed pages, so a remembered handle enumerates the elements the bucket had
// before it was replaced (SetStringList, PutMap and PutList replace by delete-and-recreate).
func ruleBucketMemoInvalidated(c *Ctx, rule string) {
	p := c.P
	pkg := p.pkg("boltz")
	if pkg == nil {
		c.Undecided(rule, "boltz", "-", "package not loaded")
		return
	}
	isBucketPtr := func(t types.Type) bool {
		nm := namedOf(deref(t))
		return nm != nil && (nm.Obj().Name() == "TypedBucket" || nm.Obj().Name() == "Bucket")
	}
	scope := pkg.Types.Scope()
	n := 0
	for _, name := range scope.Names() {
		tn, ok := scope.Lookup(name).(*types.TypeName)
		if !ok {
			continue
		}
		named, ok := tn.Type().(*types.Named)
		if !ok {
			continue
		}
		st, ok := named.Underlying().(*types.Struct)
		if !ok {
			continue
		}
		var memo []*types.Var
		for i := 0; i < st.NumFields(); i++ {
			if m, isMap := st.Field(i).Type().Underlying().(*types.Map); isMap && isBucketPtr(m.Elem()) {
				memo = append(memo, st.Field(i))
			}
		}
		if len(memo) == 0 {
			continue
		}
		for _, fn := range c.prodFuncs("boltz") {
			if fn.Signature.Recv() == nil || namedOf(fn.Signature.Recv().Type()) == nil || namedOf(fn.Signature.Recv().Type()).Origin() != named.Origin() {
				continue
			}
			deletes := ssa.Instruction(nil)
			for _, call := range callsIn(fn) {
				if cal, _ := calleeOf(call.Common()); cal != nil && cal.Name() == "DeleteBucket" {
					deletes = call
				}
			}
			if deletes == nil {
				continue
			}
			n++
			c.Analysed(FnName(fn))
			touched := false
			for _, b := range fn.Blocks {
				for _, in := range b.Instrs {
					var m ssa.Value
					switch x := in.(type) {
					case *ssa.MapUpdate:
						m = x.Map
					case *ssa.Call:
						if bi, isB := x.Call.Value.(*ssa.Builtin); isB && (bi.Name() == "delete" || bi.Name() == "clear") && len(x.Call.Args) > 0 {
							m = x.Call.Args[0]
						}
					case *ssa.Store:
						if f, _ := fieldOfAddr(x.Addr); f != nil {
							for _, mf := range memo {
								if sameVar(f, mf) {
									touched = true
								}
							}
						}
					}
					if m != nil {
						if f, _ := loadedField(m); f != nil {
							for _, mf := range memo {
								if sameVar(f, mf) {
									touched = true
								}
							}
						}
					}
				}
			}
			c.Check(touched, rule, FnName(fn)+": DeleteBucket with remembered children in "+named.Obj().Name()+"."+memo[0].Name(), p.Pos(deletes.Pos()), "the remembered handle is dropped where the nested bucket is deleted", "a nested bucket is deleted while "+named.Obj().Name()+"."+memo[0].Name()+" still remembers handles of resolved children and is not touched here: a later lookup through the same handle answers the deleted bucket, and a cursor opened on it enumerates the elements the set had before it was replaced")
		}
	}
	if n == 0 {
		c.OK(rule, "boltz: structs remembering child buckets", "-", "no struct of boltz remembers resolved child buckets in a map")
	}
	c.CallSites(n)
}

// ruleFreshIndexingContext (FRESHCTX): an indexing context is made for one entity. One made outside a loop is
// not used inside it: the per-constraint state it carries (AtomStates, the old values the before-hooks
// remembered) belongs to the previous entity, and the after-hook of the next one removes the index entry that
// was just written for the previous.
func ruleFreshIndexingContext(c *Ctx, rule string) {
	p := c.P
	n := 0
	for _, fn := range c.prodFuncs("boltz") {
		for _, f := range allFuncsWithAnon(fn) {
			loops := loopsOf(f)
			for _, call := range callsIn(f) {
				cv, isVal := call.(*ssa.Call)
				if !isVal {
					continue
				}
				cal, _ := calleeOf(call.Common())
				if cal == nil || cal.Name() != "newIndexingContext" {
					continue
				}
				n++
				c.Analysed(FnName(fn))
				var badUse ssa.Instruction
				seen := map[ssa.Value]bool{}
				var follow func(v ssa.Value, d int)
				follow = func(v ssa.Value, d int) {
					if seen[v] || d > 4 || v.Referrers() == nil {
						return
					}
					seen[v] = true
					for _, r := range *v.Referrers() {
						if _, isDbg := r.(*ssa.DebugRef); isDbg {
							continue
						}
						if phi, isPhi := r.(*ssa.Phi); isPhi {
							follow(phi, d+1)
							continue
						}
						for _, l := range loops {
							if l.Blocks[r.Block()] && !l.Blocks[cv.Block()] && badUse == nil {
								badUse = r
							}
						}
					}
				}
				follow(cv, 0)
				pos := p.Pos(call.Pos())
				why := ""
				if badUse != nil {
					why = "the indexing context made here is used inside a loop it was made outside of (" + describeInstr(badUse) + " at " + p.Pos(badUse.Pos()) + "): the state the constraints keep in it (AtomStates: the old values remembered by the before-hooks) is carried from one entity to the next — repairing the second entity removes the index entry just written for the first"
				}
				c.Check(badUse == nil, rule, FnName(f)+": "+describeInstr(call), pos, "the indexing context is made in the iteration that uses it (or used outside any loop)", why)
			}
		}
	}
	c.CallSites(n)
	c.Floor(rule, 3)
}
