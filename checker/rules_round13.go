package main

import (
	"fmt"
	"go/constant"
	"go/types"
	"sort"
	"strings"

	"golang.org/x/tools/go/ssa"
)

// Rules added after round 13 of the seeded changes.

// operandKey names the operand an SSA value stands for, when it is an input of the function: a
// parameter, a field of one, or an element of one at a constant index ("" otherwise). Interface
// conversions and type assertions keep the operand.
func operandKey(v ssa.Value) string { return operandKeyX(v, false) }

// operandKeyX: with calls, the result of a call also names an operand (the typed form of a child).
func operandKeyX(v ssa.Value, calls bool) string {
	for i := 0; i < 10; i++ {
		switch x := v.(type) {
		case *ssa.MakeInterface:
			v = x.X
		case *ssa.ChangeInterface:
			v = x.X
		case *ssa.ChangeType:
			v = x.X
		case *ssa.TypeAssert:
			v = x.X
		case *ssa.Extract:
			if ta, ok := x.Tuple.(*ssa.TypeAssert); ok && x.Index == 0 {
				v = ta.X
			} else if k, ok := x.Tuple.(*ssa.Call); ok && x.Index == 0 && calls {
				return "param:result of " + k.Name()
			} else {
				return ""
			}
		case *ssa.Parameter:
			return "param:" + x.Name()
		case *ssa.Call:
			if !calls {
				return ""
			}
			return "param:result of " + x.Name() // an operand obtained from a call (the typed form of a child)
		case *ssa.UnOp:
			if x.Op.String() != "*" {
				return ""
			}
			switch a := x.X.(type) {
			case *ssa.IndexAddr:
				k, ok := a.Index.(*ssa.Const)
				if !ok || k.Value == nil || k.Value.Kind() != constant.Int {
					return ""
				}
				base := operandKeyX(a.X, calls)
				if base == "" {
					return ""
				}
				return base + "[" + k.Value.ExactString() + "]"
			case *ssa.FieldAddr:
				base := operandKey(a.X)
				if base == "" {
					return ""
				}
				st, _ := deref(a.X.Type()).Underlying().(*types.Struct)
				if st == nil {
					return ""
				}
				return base + "." + st.Field(a.Field).Name()
			}
			return ""
		default:
			return ""
		}
	}
	return ""
}

func deref(t types.Type) types.Type {
	if p, ok := t.Underlying().(*types.Pointer); ok {
		return p.Elem()
	}
	return t
}

// paramsAskedIsConst: indexes of the parameters of g on which g calls IsConst().
func paramsAskedIsConst(g *ssa.Function) map[int]bool {
	out := map[int]bool{}
	if g == nil {
		return out
	}
	if o := g.Origin(); o != nil {
		g = o
	}
	for _, fn := range allFuncsWithAnon(g) {
		for _, call := range callsIn(fn) {
			cc := call.Common()
			if !cc.IsInvoke() || cc.Method.Name() != "IsConst" {
				continue
			}
			k := operandKey(cc.Value)
			for i, prm := range g.Params {
				if k == "param:"+prm.Name() {
					out[i] = true
				}
			}
		}
	}
	return out
}

// ruleOperandNotFolded (C20.OPERANDKEPT): a function of package ast that on one path builds a node
// holding one of its operands and on another path answers a constant bool node has asked that operand
// whether it is constant. Otherwise an operand that may be a symbol disappears from the typed tree
// (the validator walks the typed tree: the symbol is never shown to it). A fold over operands that
// were all asked is left alone.
func ruleOperandNotFolded(c *Ctx, rule string) {
	p := c.P
	nodeIface := p.Iface("ast", "Node")
	constT := p.Named("ast", "BoolConstNode")
	if nodeIface == nil || constT == nil {
		c.Undecided(rule, "ast.BoolConstNode", "-", "anchor not found")
		return
	}
	// functions that do nothing but make the constant node
	makers := map[*ssa.Function]bool{}
	for _, fn := range c.prodFuncs("ast") {
		if len(fn.Blocks) != 1 {
			continue
		}
		for _, in := range fn.Blocks[0].Instrs {
			if ret, ok := in.(*ssa.Return); ok && len(ret.Results) == 1 {
				v := ret.Results[0]
				if mi, isMi := v.(*ssa.MakeInterface); isMi {
					v = mi.X
				}
				if al, isAl := v.(*ssa.Alloc); isAl && types.Identical(deref(al.Type()), constT) {
					makers[fn] = true
				}
			}
		}
	}
	n, fired := 0, 0
	for _, fn := range c.prodFuncs("ast") {
		var consts []ssa.Instruction
		kept := map[string]ssa.Instruction{}
		asked := map[string]bool{}
		for _, b := range fn.Blocks {
			for _, in := range b.Instrs {
				switch x := in.(type) {
				case *ssa.Alloc:
					if types.Identical(deref(x.Type()), constT) && !makers[fn] {
						consts = append(consts, x)
					}
				case *ssa.UnOp:
					if g, ok := x.X.(*ssa.Global); ok && x.Op.String() == "*" && g.Pkg == fn.Pkg && strings.HasPrefix(g.Name(), "BoolNode") {
						consts = append(consts, x)
					}
				case *ssa.Store:
					fa, ok := x.Addr.(*ssa.FieldAddr)
					if !ok {
						continue
					}
					al, ok := fa.X.(*ssa.Alloc)
					if !ok {
						continue
					}
					et := deref(al.Type())
					if types.Identical(et, constT) {
						continue
					}
					if !types.Implements(types.NewPointer(et), nodeIface) && !types.Implements(et, nodeIface) {
						continue
					}
					if !types.Implements(x.Val.Type(), nodeIface) {
						continue
					}
					if k := operandKey(x.Val); k != "" {
						if _, dup := kept[k]; !dup {
							kept[k] = x
						}
					}
				}
				if call, ok := in.(ssa.CallInstruction); ok {
					cc := call.Common()
					if cc.IsInvoke() && cc.Method.Name() == "IsConst" {
						if k := operandKey(cc.Value); k != "" {
							asked[k] = true
						}
						continue
					}
					if sc := cc.StaticCallee(); sc != nil {
						g := sc
						if o := g.Origin(); o != nil {
							g = o
						}
						if makers[g] {
							consts = append(consts, in)
							continue
						}
						if g.Pkg == fn.Pkg {
							pa := paramsAskedIsConst(g)
							for i, a := range cc.Args {
								if pa[i] {
									if k := operandKey(a); k != "" {
										asked[k] = true
									}
								}
							}
						}
					}
				}
			}
		}
		if len(consts) == 0 || len(kept) == 0 {
			continue
		}
		n++
		c.Analysed(FnName(fn))
		var missing []string
		for k := range kept {
			if !asked[k] {
				missing = append(missing, strings.TrimPrefix(k, "param:"))
			}
		}
		sortStrings(missing)
		if len(missing) > 0 {
			fired++
		}
		c.Check(len(missing) == 0, rule, FnName(fn)+": constant answer next to a node holding "+strings.Join(keysOf(kept), ", "), p.Pos(consts[0].Pos()),
			"every operand the built node holds was asked IsConst() before the constant answer",
			fmt.Sprintf("answers a constant bool node on one path and a node holding %s on another without asking %s whether it is constant: an operand that is a symbol disappears from the typed tree, and the public-symbol validator, which walks the typed tree, never sees it", strings.Join(keysOf(kept), ", "), strings.Join(missing, ", ")))
	}
	// (b) a function that is handed two or more operands and answers one of them in place of a node holding them:
	// on the path to that answer every operand it leaves out was found to be constant (IsConst() answered true,
	// or an assertion to a constant node type held)
	for _, fn := range c.prodFuncs("ast") {
		if fn.Signature.Results().Len() == 0 || !types.Implements(fn.Signature.Results().At(0).Type(), nodeIface) {
			continue
		}
		cands := map[string]bool{}
		for _, prm := range fn.Params {
			if _, isIface := prm.Type().Underlying().(*types.Interface); isIface && types.Implements(prm.Type(), nodeIface) {
				cands["param:"+prm.Name()] = true
			}
		}
		evidence := map[string][]ssa.Value{}       // operand -> bools that say "is constant" when true
		asserted := map[string][]*ssa.BasicBlock{} // operand -> blocks after an unconditional assertion to a constant node
		for _, b := range fn.Blocks {
			for _, in := range b.Instrs {
				switch x := in.(type) {
				case *ssa.Store:
					if fa, ok := x.Addr.(*ssa.FieldAddr); ok {
						if al, isAl := fa.X.(*ssa.Alloc); isAl && !types.Identical(deref(al.Type()), constT) && types.Implements(x.Val.Type(), nodeIface) {
							if k := operandKeyX(x.Val, true); k != "" {
								cands[k] = true
							}
						}
					}
				case *ssa.TypeAssert:
					if nm := namedOf(x.AssertedType); nm != nil && strings.HasSuffix(nm.Obj().Name(), "ConstNode") {
						if k := operandKeyX(x.X, true); k != "" {
							if !x.CommaOk {
								asserted[k] = append(asserted[k], b)
							} else if refs := x.Referrers(); refs != nil {
								for _, r := range *refs {
									if ex, isEx := r.(*ssa.Extract); isEx && ex.Index == 1 {
										evidence[k] = append(evidence[k], ex)
									}
								}
							}
						}
					}
				}
				if call, ok := in.(ssa.CallInstruction); ok {
					cc := call.Common()
					if cv, isVal := call.(*ssa.Call); isVal && cc.IsInvoke() && cc.Method.Name() == "IsConst" {
						if k := operandKeyX(cc.Value, true); k != "" {
							evidence[k] = append(evidence[k], cv)
						}
					}
					// operands handed to a constructor of the package that answers a node
					if sc := cc.StaticCallee(); sc != nil && sc.Pkg == fn.Pkg && sc.Signature.Recv() == nil && sc.Signature.Results().Len() >= 1 {
						if _, isPtr := sc.Signature.Results().At(0).Type().Underlying().(*types.Pointer); isPtr && types.Implements(sc.Signature.Results().At(0).Type(), nodeIface) {
							for _, a := range cc.Args {
								if types.Implements(a.Type(), nodeIface) {
									if k := operandKeyX(a, true); k != "" {
										cands[k] = true
									}
								}
							}
						}
					}
				}
			}
		}
		if len(cands) < 2 {
			continue
		}
		fi := ComputeFacts(fn)
		knownConst := func(o string, blk *ssa.BasicBlock) bool {
			for _, e := range evidence[o] {
				if fi.Holds(blk, Fact{"true", e, true}) {
					return true
				}
			}
			for _, ab := range asserted[o] {
				if ab == blk || ab.Dominates(blk) {
					return true
				}
			}
			return false
		}
		type rv struct {
			v   ssa.Value
			blk *ssa.BasicBlock
		}
		for _, r := range returnsOf(fn) {
			if len(r.Results) == 0 {
				continue
			}
			var vals []rv
			var flat func(v ssa.Value, blk *ssa.BasicBlock, d int)
			flat = func(v ssa.Value, blk *ssa.BasicBlock, d int) {
				if phi, isPhi := v.(*ssa.Phi); isPhi && d < 4 {
					for i, e := range phi.Edges {
						flat(e, phi.Block().Preds[i], d+1)
					}
					return
				}
				vals = append(vals, rv{v, blk})
			}
			flat(r.Results[0], r.Block(), 0)
			for _, x := range vals {
				k := operandKeyX(x.v, true)
				if k == "" || !cands[k] {
					continue
				}
				if _, isAlloc := x.v.(*ssa.Alloc); isAlloc {
					continue
				}
				var missing []string
				for o := range cands {
					if o != k && !knownConst(o, x.blk) {
						missing = append(missing, strings.TrimPrefix(o, "param:"))
					}
				}
				sortStrings(missing)
				n++
				if len(missing) > 0 {
					fired++
				}
				c.Analysed(FnName(fn))
				c.Check(len(missing) == 0, rule, FnName(fn)+": answers operand "+strings.TrimPrefix(k, "param:")+" itself", p.Pos(r.Pos()),
					"every operand left out is known to be constant on that path",
					"answers the operand "+strings.TrimPrefix(k, "param:")+" in place of a node holding all operands, leaving out "+strings.Join(missing, ", ")+" without having found it constant on that path: a symbol in the operand left out disappears from the typed tree, and the public-symbol validator never sees it (`false and secret = \"x\"` is accepted)")
			}
		}
	}
	if fired == 0 {
		c.OK(rule, "ast: constant answers of node builders", "-", fmt.Sprintf("%d functions answer a constant next to a node holding an operand; none without asking the operand", n))
	}
	c.CallSites(n)
}

func keysOf(m map[string]ssa.Instruction) []string {
	var out []string
	for k := range m {
		out = append(out, strings.TrimPrefix(k, "param:"))
	}
	sortStrings(out)
	return out
}

func sortStrings(s []string) { sort.Strings(s) }

// ruleLinkOwnStore (C05/C06.LINKSTORE): the two sides of a link find an entity's bucket the same way
// — through the symbol's own store. No method of the link collection types, nor a same-package helper
// it calls, asks for the parent store: a local side written below the parent's bucket is not where
// the other side's RemoveLink looks when the related entity is deleted.
func ruleLinkOwnStore(c *Ctx, rule string) {
	p := c.P
	owners := map[*types.Named]bool{}
	for _, n := range []string{"linkCollectionImpl", "rcLinkCollectionImpl", "LinkedSetSymbol", "RefCountedLinkedSetSymbol"} {
		if t := p.Named("boltz", n); t != nil {
			owners[t] = true
		}
	}
	if len(owners) < 4 {
		c.Undecided(rule, "boltz link collection types", "-", fmt.Sprintf("only %d of the 4 link collection types found", len(owners)))
		return
	}
	isStoreFn := func(fn *ssa.Function) bool {
		if fn.Signature.Recv() == nil {
			return false
		}
		t := namedOf(fn.Signature.Recv().Type())
		return t != nil && t.Obj().Name() == "BaseStore"
	}
	n, bad := 0, 0
	for _, fn := range c.prodFuncs("boltz") {
		if fn.Signature.Recv() == nil || !owners[namedOf(fn.Signature.Recv().Type())] {
			continue
		}
		n++
		c.Analysed(FnName(fn))
		seen := map[*ssa.Function]bool{}
		found, foundPos := "", "-"
		var walk func(f *ssa.Function, depth int, via string)
		walk = func(f *ssa.Function, depth int, via string) {
			if seen[f] || depth > 4 || found != "" {
				return
			}
			seen[f] = true
			for _, g := range allFuncsWithAnon(f) {
				for _, call := range callsIn(g) {
					cc := call.Common()
					cal, _ := calleeOf(cc)
					if cal != nil && (cal.Name() == "GetParentStore" || cal.Name() == "getEntityBucketForLoad" || cal.Name() == "GetParentContext") {
						if found == "" {
							found, foundPos = cal.Name()+via, p.Pos(call.Pos())
						}
						continue
					}
					if sc := cc.StaticCallee(); sc != nil && sc.Pkg == fn.Pkg && len(sc.Blocks) > 0 && !isStoreFn(sc) {
						walk(sc, depth+1, via+" (via "+FnName(sc)+")")
					}
				}
			}
		}
		walk(fn, 0, "")
		pos := p.Pos(fn.Pos())
		if found != "" {
			bad++
			pos = foundPos
		}
		c.Check(found == "", rule, FnName(fn), pos, "finds entities through the symbol's own store only", "a link collection method reaches for the parent store ("+found+"): the two sides of a link find an entity through the symbol's own store — a link list written below the parent's bucket for an entity without child data is not where the other side's RemoveLink looks, so deleting the related entity leaves its id behind in that list")
	}
	_ = bad
	c.CallSites(n)
	c.Floor(rule, 15)
}

// ruleNoAliasingAppend (ALIASAPPEND): the result of append(x.f, …) on a slice held in a field is stored back
// into that very field (growing the field) and nowhere else. Handing the result out, or keeping it in another
// variable, shares the field's backing array whenever it has spare capacity: the next append through the field
// overwrites what was handed out — between two indexes of one store, or between two goroutines using one store.
func ruleNoAliasingAppend(c *Ctx, rule string, pkgs ...string) {
	p := c.P
	n, bad := 0, 0
	for _, fn := range c.prodFuncs(pkgs...) {
		for _, f := range allFuncsWithAnon(fn) {
			for _, b := range f.Blocks {
				for _, in := range b.Instrs {
					call, ok := in.(*ssa.Call)
					if !ok || len(call.Call.Args) == 0 {
						continue
					}
					if bi, isB := call.Call.Value.(*ssa.Builtin); !isB || bi.Name() != "append" {
						continue
					}
					src := call.Call.Args[0]
					if sl, isSl := src.(*ssa.Slice); isSl && sl.Low == nil && sl.Max == nil {
						if _, isArr := deref(sl.X.Type()).Underlying().(*types.Array); !isArr {
							src = sl.X // x.f[:n] keeps the array
						}
					}
					ld, ok := src.(*ssa.UnOp)
					if !ok || ld.Op.String() != "*" {
						continue
					}
					fa, ok := ld.X.(*ssa.FieldAddr)
					if !ok {
						continue
					}
					if _, local := fa.X.(*ssa.Alloc); local {
						if al := fa.X.(*ssa.Alloc); !al.Heap {
							continue // a struct on this function's own stack
						}
					}
					fld, _ := fieldOfAddr(fa)
					n++
					// every use of the result: a store into the same field of the same object
					okUse := true
					var where ssa.Instruction = call
					if refs := call.Referrers(); refs != nil {
						for _, r := range *refs {
							if _, isDbg := r.(*ssa.DebugRef); isDbg {
								continue
							}
							st, isSt := r.(*ssa.Store)
							if isSt && st.Val == ssa.Value(call) {
								if fa2, isFa := st.Addr.(*ssa.FieldAddr); isFa {
									if f2, _ := fieldOfAddr(fa2); sameVar(f2, fld) && fa2.X == fa.X {
										continue
									}
								}
							}
							okUse = false
							where = r
						}
					}
					name := "?"
					if fld != nil {
						name = fld.Name()
					}
					if !okUse {
						bad++
					}
					c.Analysed(FnName(fn))
					c.Check(okUse, rule, FnName(f)+": append(…."+name+", …)", p.Pos(call.Pos()), "the grown slice is stored back into the field it was read from and used nowhere else",
						"the result of appending to the slice held in field "+name+" is used elsewhere ("+describeInstr(where)+") instead of being stored back: with spare capacity in the field's backing array the value handed out is overwritten by the next append through the field — different users of the same object (two indexes of a store, two goroutines reading one store) see each other's elements")
				}
			}
		}
	}
	_ = bad
	c.CallSites(n)
}

// ruleConstNodesImmutable (C11.CONSTIMMUTABLE): the fields of the constant nodes are written only while the node
// is being made (a store into an object allocated by the same function). A constant node may be shared — by an
// interning listener, by a cached query, between the typed and the untyped tree — so rewriting one in place
// (upper-casing a literal for icontains) changes what every other use of that literal denotes.
func ruleConstNodesImmutable(c *Ctx, rule string) {
	p := c.P
	n, bad := 0, 0
	for _, fn := range c.prodFuncs("ast") {
		for _, f := range allFuncsWithAnon(fn) {
			for _, b := range f.Blocks {
				for _, in := range b.Instrs {
					st, ok := in.(*ssa.Store)
					if !ok {
						continue
					}
					fa, ok := st.Addr.(*ssa.FieldAddr)
					if !ok {
						continue
					}
					nm := namedOf(deref(fa.X.Type()))
					if nm == nil || !strings.HasSuffix(nm.Obj().Name(), "ConstNode") || nm.Obj().Pkg() == nil || nm.Obj().Pkg().Name() != "ast" {
						continue
					}
					n++
					base := fa.X
					for {
						inner, isFa := base.(*ssa.FieldAddr) // a constant node embedded in the node being made
						if !isFa {
							break
						}
						base = inner.X
					}
					_, fresh := base.(*ssa.Alloc)
					if !fresh {
						bad++
					}
					fld, _ := fieldOfAddr(fa)
					fname := "?"
					if fld != nil {
						fname = fld.Name()
					}
					c.Analysed(FnName(fn))
					c.Check(fresh, rule, FnName(f)+": write of "+nm.Obj().Name()+"."+fname, p.Pos(st.Pos()), "written while the node is being made", "a field of an existing constant node is overwritten: the node may be shared by other uses of the same literal (an interned literal, a cached query), which then denote the rewritten value, not the string that was written")
				}
			}
		}
	}
	_ = bad
	c.CallSites(n)
}

// ruleInArrayExact (INEXACT): membership in an array literal is element equality. The evaluators of the `in`
// nodes (and what they call in the package) use no substring or join primitive: a joined haystack with a
// separator is only equality while neither side can contain the separator, and every character can be written
// through an escape.
func ruleInArrayExact(c *Ctx, rule string) {
	p := c.P
	n := 0
	for _, fn := range c.prodFuncs("ast") {
		if fn.Signature.Recv() == nil || fn.Name() != "EvalBool" {
			continue
		}
		nm := namedOf(fn.Signature.Recv().Type())
		if nm == nil || !strings.HasPrefix(nm.Obj().Name(), "In") || !strings.Contains(nm.Obj().Name(), "Array") {
			continue
		}
		n++
		c.Analysed(FnName(fn))
		found, pos := "", p.Pos(fn.Pos())
		seen := map[*ssa.Function]bool{}
		var walk func(f *ssa.Function, d int)
		walk = func(f *ssa.Function, d int) {
			if seen[f] || d > 3 || found != "" {
				return
			}
			seen[f] = true
			for _, g := range allFuncsWithAnon(f) {
				for _, call := range callsIn(g) {
					cal, _ := calleeOf(call.Common())
					if cal != nil && cal.Pkg() != nil && (cal.Pkg().Path() == "strings" || cal.Pkg().Path() == "bytes") {
						switch cal.Name() {
						case "Contains", "Index", "HasPrefix", "HasSuffix", "ContainsAny", "Join", "Count", "LastIndex", "Cut":
							if found == "" {
								found, pos = cal.Pkg().Name()+"."+cal.Name(), p.Pos(call.Pos())
							}
						}
					}
					if sc := call.Common().StaticCallee(); sc != nil && sc.Pkg == fn.Pkg && len(sc.Blocks) > 0 {
						walk(sc, d+1)
					}
				}
			}
		}
		walk(fn, 0)
		// fields of the node filled by a join at construction time are seen through the constructor: any function
		// of the package that stores into a field of this node type a value computed by strings.Join / a Builder
		if found == "" {
			for _, g := range c.prodFuncs("ast") {
				for _, b := range g.Blocks {
					for _, in := range b.Instrs {
						st, ok := in.(*ssa.Store)
						if !ok {
							continue
						}
						fa, ok := st.Addr.(*ssa.FieldAddr)
						if !ok || namedOf(deref(fa.X.Type())) != nm {
							continue
						}
						if k, isCall := st.Val.(*ssa.Call); isCall {
							if cal, _ := calleeOf(&k.Call); cal != nil && cal.Pkg() != nil && (cal.Pkg().Path() == "strings" || cal.Pkg().Path() == "bytes") {
								found, pos = "a field filled by "+cal.Pkg().Name()+"."+cal.Name()+" in "+FnName(g), p.Pos(st.Pos())
							}
						}
					}
				}
			}
		}
		c.Check(found == "", rule, FnName(fn), pos, "membership is decided element by element, with no substring or join primitive", "the `in` evaluator decides membership through "+found+": a substring test over joined elements is element equality only while no element and no field value can contain the separator — every character, line feed included, can be written in a literal through an escape and stored in a field")
	}
	c.CallSites(n)
	c.Floor(rule, 3)
}

// ruleBucketMemoInvalidated (BUCKETMEMO): a struct of package boltz that remembers resolved child buckets in a
// map drops the entry wherever one of its methods deletes a nested bucket — bbolt's DeleteBucket leaves earlier
// handles to that bucket pointing at freed pages, so a remembered handle enumerates the elements the bucket had
// before it was replaced (SetStringList, PutMap and PutList replace by delete-and-recreate).
func ruleBucketMemoInvalidated(c *Ctx, rule string) {
	p := c.P
	pkg := p.pkg("boltz")
	if pkg == nil {
		c.Undecided(rule, "boltz", "-", "package not loaded")
		return
	}
	isBucketPtr := func(t types.Type) bool {
		nm := namedOf(deref(t))
		return nm != nil && (nm.Obj().Name() == "TypedBucket" || nm.Obj().Name() == "Bucket")
	}
	scope := pkg.Types.Scope()
	n := 0
	for _, name := range scope.Names() {
		tn, ok := scope.Lookup(name).(*types.TypeName)
		if !ok {
			continue
		}
		named, ok := tn.Type().(*types.Named)
		if !ok {
			continue
		}
		st, ok := named.Underlying().(*types.Struct)
		if !ok {
			continue
		}
		var memo []*types.Var
		for i := 0; i < st.NumFields(); i++ {
			if m, isMap := st.Field(i).Type().Underlying().(*types.Map); isMap && isBucketPtr(m.Elem()) {
				memo = append(memo, st.Field(i))
			}
		}
		if len(memo) == 0 {
			continue
		}
		for _, fn := range c.prodFuncs("boltz") {
			if fn.Signature.Recv() == nil || namedOf(fn.Signature.Recv().Type()) == nil || namedOf(fn.Signature.Recv().Type()).Origin() != named.Origin() {
				continue
			}
			deletes := ssa.Instruction(nil)
			for _, call := range callsIn(fn) {
				if cal, _ := calleeOf(call.Common()); cal != nil && cal.Name() == "DeleteBucket" {
					deletes = call
				}
			}
			if deletes == nil {
				continue
			}
			n++
			c.Analysed(FnName(fn))
			touched := false
			for _, b := range fn.Blocks {
				for _, in := range b.Instrs {
					var m ssa.Value
					switch x := in.(type) {
					case *ssa.MapUpdate:
						m = x.Map
					case *ssa.Call:
						if bi, isB := x.Call.Value.(*ssa.Builtin); isB && (bi.Name() == "delete" || bi.Name() == "clear") && len(x.Call.Args) > 0 {
							m = x.Call.Args[0]
						}
					case *ssa.Store:
						if f, _ := fieldOfAddr(x.Addr); f != nil {
							for _, mf := range memo {
								if sameVar(f, mf) {
									touched = true
								}
							}
						}
					}
					if m != nil {
						if f, _ := loadedField(m); f != nil {
							for _, mf := range memo {
								if sameVar(f, mf) {
									touched = true
								}
							}
						}
					}
				}
			}
			c.Check(touched, rule, FnName(fn)+": DeleteBucket with remembered children in "+named.Obj().Name()+"."+memo[0].Name(), p.Pos(deletes.Pos()), "the remembered handle is dropped where the nested bucket is deleted", "a nested bucket is deleted while "+named.Obj().Name()+"."+memo[0].Name()+" still remembers handles of resolved children and is not touched here: a later lookup through the same handle answers the deleted bucket, and a cursor opened on it enumerates the elements the set had before it was replaced")
		}
	}
	if n == 0 {
		c.OK(rule, "boltz: structs remembering child buckets", "-", "no struct of boltz remembers resolved child buckets in a map")
	}
	c.CallSites(n)
}

// ruleFreshIndexingContext (FRESHCTX): an indexing context is made for one entity. One made outside a loop is
// not used inside it: the per-constraint state it carries (AtomStates, the old values the before-hooks
// remembered) belongs to the previous entity, and the after-hook of the next one removes the index entry that
// was just written for the previous.
func ruleFreshIndexingContext(c *Ctx, rule string) {
	p := c.P
	ictx := p.Named("boltz", "IndexingContext")
	n := 0
	for _, fn := range c.prodFuncs("boltz") {
		for _, f := range allFuncsWithAnon(fn) {
			loops := loopsOf(f)
			for _, call := range callsIn(f) {
				cv, isVal := call.(*ssa.Call)
				if !isVal {
					continue
				}
				// the context constructor, by what it answers (naming it here would make it an anchor the
				// normaliser no longer expands, and CREATECTX reads through it)
				if _, isPtr := cv.Type().Underlying().(*types.Pointer); !isPtr || namedOf(cv.Type()) != ictx {
					continue
				}
				n++
				c.Analysed(FnName(fn))
				var badUse ssa.Instruction
				seen := map[ssa.Value]bool{}
				var follow func(v ssa.Value, d int)
				follow = func(v ssa.Value, d int) {
					if seen[v] || d > 4 || v.Referrers() == nil {
						return
					}
					seen[v] = true
					for _, r := range *v.Referrers() {
						if _, isDbg := r.(*ssa.DebugRef); isDbg {
							continue
						}
						if phi, isPhi := r.(*ssa.Phi); isPhi {
							follow(phi, d+1)
							continue
						}
						for _, l := range loops {
							if l.Blocks[r.Block()] && !l.Blocks[cv.Block()] && badUse == nil {
								badUse = r
							}
						}
					}
				}
				follow(cv, 0)
				pos := p.Pos(call.Pos())
				why := ""
				if badUse != nil {
					why = "the indexing context made here is used inside a loop it was made outside of (" + describeInstr(badUse) + " at " + p.Pos(badUse.Pos()) + "): the state the constraints keep in it (AtomStates: the old values remembered by the before-hooks) is carried from one entity to the next — repairing the second entity removes the index entry just written for the first"
				}
				c.Check(badUse == nil, rule, FnName(f)+": "+describeInstr(call), pos, "the indexing context is made in the iteration that uses it (or used outside any loop)", why)
			}
		}
	}
	c.CallSites(n)
	c.Floor(rule, 3)
}

// reachesStatic walks the static callees of fn inside its package (depth-bounded) and returns the first call
// for which hit answers a non-empty description.
func reachesStatic(fn *ssa.Function, depth int, hit func(call ssa.CallInstruction) string) (string, ssa.CallInstruction, string) {
	seen := map[*ssa.Function]bool{}
	var res string
	var at ssa.CallInstruction
	var via string
	var walk func(f *ssa.Function, d int, v string)
	walk = func(f *ssa.Function, d int, v string) {
		if seen[f] || d > depth || res != "" {
			return
		}
		seen[f] = true
		for _, g := range allFuncsWithAnon(f) {
			for _, call := range callsIn(g) {
				if res != "" {
					return
				}
				if h := hit(call); h != "" {
					res, at, via = h, call, v
					return
				}
				if sc := call.Common().StaticCallee(); sc != nil && sc.Pkg == fn.Pkg && len(sc.Blocks) > 0 {
					walk(sc, d+1, v+" via "+FnName(sc))
				}
			}
		}
	}
	walk(fn, 0, "")
	return res, at, via
}

// ruleReadIndexNoCreate (READNOCREATE): the read side of an index (the methods of ReadIndex / SetReadIndex:
// Read, ReadKeys, OpenValueCursor, OpenKeyCursor) never reaches a bbolt write. A lookup that goes through the
// get-or-create helper of the write side leaves an empty bucket behind for every value that was asked for in a
// writable transaction, and the key cursor then enumerates keys no entity has.
func ruleReadIndexNoCreate(c *Ctx, rule string) {
	p := c.P
	names := map[string]bool{"Read": true, "ReadKeys": true, "OpenValueCursor": true, "OpenKeyCursor": true}
	n := 0
	for _, fn := range c.prodFuncs("boltz") {
		if fn.Signature.Recv() == nil || !names[fn.Name()] {
			continue
		}
		nm := namedOf(fn.Signature.Recv().Type())
		if nm == nil || !strings.HasSuffix(strings.ToLower(nm.Obj().Name()), "index") {
			continue
		}
		n++
		c.Analysed(FnName(fn))
		what, at, via := reachesStatic(fn, 5, func(call ssa.CallInstruction) string {
			cal, _ := calleeOf(call.Common())
			if cal == nil || cal.Pkg() == nil || !strings.HasSuffix(cal.Pkg().Path(), "bbolt") {
				return ""
			}
			switch cal.Name() {
			case "CreateBucket", "CreateBucketIfNotExists", "Put", "Delete", "DeleteBucket":
				return "bbolt " + cal.Name()
			}
			return ""
		})
		pos := p.Pos(fn.Pos())
		if at != nil {
			pos = p.Pos(at.Pos())
		}
		c.Check(what == "", rule, FnName(fn), pos, "the read side of the index reaches no bbolt write", "a read method of the index reaches "+what+via+": looking a value up in a writable transaction creates (or changes) index buckets — an empty bucket is left behind for every value asked for, and the key cursor enumerates keys no entity has")
	}
	c.CallSites(n)
	c.Floor(rule, 4)
}

// ruleCursorValidity (VALIDNIL / VALIDSRC): a cursor's IsValid distinguishes "no element" from "the element is
// the empty string" — the position it tests is compared with nil, never measured with len(), and the field it
// tests is never filled from the decoded value GetTypeAndValue answers (nil for a tag-only key, i.e. for "").
func ruleCursorValidity(c *Ctx, ruleNil, ruleSrc string, pkgs ...string) {
	p := c.P
	tested := map[*types.Var]*ssa.Function{}
	n := 0
	for _, fn := range c.prodFuncs(pkgs...) {
		if fn.Name() != "IsValid" || fn.Signature.Recv() == nil || fn.Signature.Params().Len() != 0 {
			continue
		}
		// only fields holding bytes
		usesLen := ssa.Instruction(nil)
		any := false
		for _, b := range fn.Blocks {
			for _, in := range b.Instrs {
				switch x := in.(type) {
				case *ssa.Call:
					if bi, isB := x.Call.Value.(*ssa.Builtin); isB && bi.Name() == "len" && len(x.Call.Args) == 1 {
						if f, _ := loadedField(x.Call.Args[0]); f != nil {
							if sl, isSl := f.Type().Underlying().(*types.Slice); isSl && types.Identical(sl.Elem(), types.Typ[types.Byte]) {
								usesLen = x
								any = true
							}
						}
					}
				case *ssa.BinOp:
					for _, o := range []ssa.Value{x.X, x.Y} {
						if f, _ := loadedField(o); f != nil {
							if sl, isSl := f.Type().Underlying().(*types.Slice); isSl && types.Identical(sl.Elem(), types.Typ[types.Byte]) {
								tested[f] = fn
								any = true
							}
						}
					}
				}
			}
		}
		if !any {
			continue
		}
		n++
		c.Analysed(FnName(fn))
		pos := p.Pos(fn.Pos())
		if usesLen != nil {
			pos = p.Pos(usesLen.Pos())
		}
		c.Check(usesLen == nil, ruleNil, FnName(fn), pos, "validity compares the position with nil", "validity is decided by the length of the position: an element that is the empty string (a tag-only key, stripped to an empty non-nil slice) reads as the end of the set — and it sorts first, so the whole set reads as empty")
	}
	c.Floor(ruleNil, 3)
	// stores into the tested fields
	m := 0
	for _, fn := range c.prodFuncs(pkgs...) {
		for _, b := range fn.Blocks {
			for _, in := range b.Instrs {
				st, ok := in.(*ssa.Store)
				if !ok {
					continue
				}
				f, _ := fieldOfAddr(st.Addr)
				if f == nil {
					continue
				}
				var isv *ssa.Function
				for tf, tfn := range tested {
					if sameVar(tf, f) {
						isv = tfn
					}
				}
				if isv == nil {
					continue
				}
				m++
				v := st.Val
				for i := 0; i < 4; i++ {
					if phi, isPhi := v.(*ssa.Phi); isPhi && len(phi.Edges) > 0 {
						v = phi.Edges[len(phi.Edges)-1]
					}
				}
				bad := false
				if ex, isEx := v.(*ssa.Extract); isEx && ex.Index == 1 {
					if k, isCall := ex.Tuple.(*ssa.Call); isCall {
						if cal, _ := calleeOf(&k.Call); cal != nil && cal.Name() == "GetTypeAndValue" {
							bad = true
						}
					}
				}
				c.Check(!bad, ruleSrc, FnName(fn)+": fills "+f.Name()+" (tested by "+FnName(isv)+")", p.Pos(st.Pos()), "the position tested for validity is not the decoded value", "the field "+FnName(isv)+" compares with nil is filled with the value GetTypeAndValue decoded: that is nil for a tag-only key, so a cursor standing on the element \"\" reports the end of the set — the element sorts first, the set reads as empty, and an index maintained from it loses every value of the entity")
			}
		}
	}
	c.CallSites(n + m)
}

// ruleTreeExtremeNilChecked (LLRBNIL): llrb's Max()/Min() answer nil on an empty tree; the answer is not
// asserted or compared through before it was tested.
func ruleTreeExtremeNilChecked(c *Ctx, rule string, pkgs ...string) {
	p := c.P
	n := 0
	for _, fn := range c.prodFuncs(pkgs...) {
		for _, f := range allFuncsWithAnon(fn) {
			fi := ComputeFacts(f)
			for _, call := range callsIn(f) {
				cv, isVal := call.(*ssa.Call)
				if !isVal {
					continue
				}
				cal, _ := calleeOf(call.Common())
				if cal == nil || (cal.Name() != "Max" && cal.Name() != "Min") {
					continue
				}
				sig, _ := cal.Type().(*types.Signature)
				if sig == nil || sig.Recv() == nil || !isLLRB(sig.Recv().Type()) {
					continue
				}
				n++
				c.Analysed(FnName(fn))
				var bad ssa.Instruction
				if refs := cv.Referrers(); refs != nil {
					for _, r := range *refs {
						guarded := fi.Holds(r.Block(), Fact{"nonnil", cv, true})
						switch x := r.(type) {
						case *ssa.TypeAssert:
							if !x.CommaOk && !guarded {
								bad = r
							}
						case ssa.CallInstruction:
							if !guarded {
								bad = r
							}
						}
					}
				}
				why := ""
				if bad != nil {
					why = "the answer of " + cal.Name() + "() is used (" + describeInstr(bad) + ") without having been tested: on an empty tree it is nil — a page of size zero (limit 0, or skip+limit 0) asks before anything was inserted, and the query panics"
				}
				c.Check(bad == nil, rule, FnName(f)+": "+describeInstr(call), p.Pos(call.Pos()), "tested for nil before use", why)
			}
		}
	}
	if n == 0 {
		c.OK(rule, "llrb Max()/Min() answers", "-", "no production function asks an llrb tree for its extreme element")
	}
	c.CallSites(n)
}

// ruleParserEntry (C12.ENTRY): hand-written code enters the generated parser only at the start rule. Any other
// rule does not demand EOF: what follows the first sentence of that rule is dropped without an error.
func ruleParserEntry(c *Ctx, rule string) {
	p := c.P
	parser := p.Named("zitiql", "ZitiQlParser")
	if parser == nil {
		c.Undecided(rule, "zitiql.ZitiQlParser", "-", "anchor not found")
		return
	}
	n := 0
	for _, fn := range c.prodFuncs("zitiql", "ast", "boltz", "objectz") {
		for _, f := range allFuncsWithAnon(fn) {
			for _, call := range callsIn(f) {
				cal, _ := calleeOf(call.Common())
				if cal == nil {
					continue
				}
				sig, _ := cal.Type().(*types.Signature)
				if sig == nil || sig.Recv() == nil || namedOf(sig.Recv().Type()) != parser || sig.Results().Len() != 1 {
					continue
				}
				rn := namedOf(sig.Results().At(0).Type())
				if rn == nil || !strings.HasSuffix(rn.Obj().Name(), "Context") {
					continue
				}
				n++
				c.Analysed(FnName(fn))
				c.Check(cal.Name() == "Start_", rule, FnName(f)+": enters the parser at "+cal.Name(), p.Pos(call.Pos()), "the parser is entered at the start rule, which demands EOF", "hand-written code enters the generated parser at rule "+cal.Name()+" instead of the start rule: that rule does not demand EOF, so whatever follows its first sentence — a connective spelled with a tab or a line feed, a second clause — is dropped without an error")
			}
		}
	}
	c.CallSites(n)
	c.Floor(rule, 1)
}

// ruleSentSliceNotReused (SENTSLICE): a slice sent on a channel belongs to the receiver; the sender does not
// cut it back to length zero to fill it again (the receiver is still reading the same array).
func ruleSentSliceNotReused(c *Ctx, rule string, pkgs ...string) {
	p := c.P
	n := 0
	for _, fn := range c.prodFuncs(pkgs...) {
		for _, f := range allFuncsWithAnon(fn) {
			for _, b := range f.Blocks {
				for _, in := range b.Instrs {
					snd, ok := in.(*ssa.Send)
					if !ok {
						continue
					}
					if _, isSl := snd.X.Type().Underlying().(*types.Slice); !isSl {
						continue
					}
					n++
					c.Analysed(FnName(fn))
					var reuse ssa.Instruction
					if refs := snd.X.Referrers(); refs != nil {
						for _, r := range *refs {
							if sl, isS := r.(*ssa.Slice); isS && sl.X == snd.X {
								reuse = r
							}
						}
					}
					why := ""
					if reuse != nil {
						why = "the slice sent on the channel is cut back and refilled by the sender (" + p.Pos(reuse.Pos()) + ") while the receiver may still be reading the same array: elements are seen twice and others never — only once a collection is larger than one chunk"
					}
					c.Check(reuse == nil, rule, FnName(f)+": send of a slice", p.Pos(snd.Pos()), "the slice handed to the receiver is not reused by the sender", why)
				}
			}
		}
	}
	if n == 0 {
		c.OK(rule, "sends of slices", "-", "no slice is sent on a channel")
	}
	c.CallSites(n)
}

// ruleWrapperForwards (WRAPFORWARD): the system context is a view of the context it wraps — every method other
// than the two that make it a system context hands the call to the same method of the wrapped context and keeps
// no state of its own (GetSystemContext makes a new wrapper on every call: state kept in one is lost).
func ruleWrapperForwards(c *Ctx, rule string) {
	p := c.P
	w := p.Named("boltz", "systemMutateContext")
	if w == nil {
		c.Undecided(rule, "boltz.systemMutateContext", "-", "anchor not found")
		return
	}
	st, _ := w.Underlying().(*types.Struct)
	if st != nil && st.NumFields() != 1 {
		var extra []string
		for i := 0; i < st.NumFields(); i++ {
			extra = append(extra, st.Field(i).Name())
		}
		c.Bad(rule, "boltz.systemMutateContext: fields "+strings.Join(extra, ", "), p.Pos(w.Obj().Pos()), "the system context keeps state of its own besides the context it wraps: GetSystemContext makes a new wrapper on every call and the database runs the pre-commit actions of the context it was given, so whatever is registered in a wrapper made inside the transaction never runs — a failing pre-commit action no longer aborts the transaction")
	}
	n := 0
	for _, fn := range c.prodFuncs("boltz") {
		if fn.Signature.Recv() == nil || namedOf(fn.Signature.Recv().Type()) != w {
			continue
		}
		if fn.Name() == "IsSystemContext" || fn.Name() == "GetSystemContext" {
			continue
		}
		n++
		c.Analysed(FnName(fn))
		forwards := false
		for _, call := range callsIn(fn) {
			cc := call.Common()
			if cc.IsInvoke() && cc.Method.Name() == fn.Name() {
				if f, _ := loadedField(cc.Value); f != nil && f.Name() == st.Field(0).Name() {
					forwards = true
				}
			}
		}
		c.Check(forwards, rule, FnName(fn), p.Pos(fn.Pos()), "hands the call to the same method of the wrapped context", "does not hand the call to "+fn.Name()+" of the wrapped context: what is registered through a system context made inside the transaction is not seen by the context the database runs")
	}
	// methods the wrapper does not declare: promoted from the wrapped context where that is embedded
	if st != nil && st.NumFields() == 1 && st.Field(0).Embedded() {
		if it, ok := st.Field(0).Type().Underlying().(*types.Interface); ok {
			declared := map[string]bool{}
			for i := 0; i < w.NumMethods(); i++ {
				declared[w.Method(i).Name()] = true
			}
			for i := 0; i < it.NumMethods(); i++ {
				if m := it.Method(i); !declared[m.Name()] {
					n++
					c.OK(rule, "(*boltz.systemMutateContext)."+m.Name()+" (promoted)", p.Pos(w.Obj().Pos()), "promoted from the embedded wrapped context")
				}
			}
		}
	}
	c.CallSites(n)
	c.Floor(rule, 5)
}

// ruleNoTxStateInStores (NOTXSTATE): the objects that outlive a transaction — stores, indexes, symbols, link
// collections — hold nothing that belongs to one: no bbolt transaction, bucket or cursor and no TypedBucket,
// directly or inside a remembered struct. A bucket handle is only good until the bucket is deleted or the
// transaction ends; one remembered in the store is handed out again after the entity was deleted in the same
// transaction (the entity still counts as present, a link to it is accepted, the write goes through freed pages).
func ruleNoTxStateInStores(c *Ctx, rule string) {
	p := c.P
	pkg := p.pkg("boltz")
	if pkg == nil {
		c.Undecided(rule, "boltz", "-", "package not loaded")
		return
	}
	long := map[string]bool{"BaseStore": true, "uniqueIndex": true, "setIndex": true, "fkIndex": true, "Indexer": true,
		"linkCollectionImpl": true, "rcLinkCollectionImpl": true, "entitySymbol": true, "entitySetSymbolImpl": true,
		"LinkedSetSymbol": true, "RefCountedLinkedSetSymbol": true, "fkConstraint": true, "fkDeleteConstraint": true, "fkDeleteCascadeConstraint": true}
	var holdsTx func(t types.Type, d int, seen map[types.Type]bool) string
	holdsTx = func(t types.Type, d int, seen map[types.Type]bool) string {
		if d > 4 || seen[t] {
			return ""
		}
		seen[t] = true
		if nm := namedOf(deref(t)); nm != nil && nm.Obj().Pkg() != nil {
			path, name := nm.Obj().Pkg().Path(), nm.Obj().Name()
			if strings.HasSuffix(path, "bbolt") && (name == "Tx" || name == "Bucket" || name == "Cursor") {
				return "bbolt." + name
			}
			if nm.Obj().Pkg().Name() == "boltz" && name == "TypedBucket" {
				return "boltz.TypedBucket"
			}
			var ta *types.TypeList
			if inst, isN := deref(t).(*types.Named); isN {
				ta = inst.TypeArgs() // (namedOf answers the generic origin, which has none)
			}
			if ta != nil {
				for i := 0; i < ta.Len(); i++ {
					if h := holdsTx(ta.At(i), d+1, seen); h != "" {
						return h
					}
				}
			}
			if nm.Obj().Pkg().Name() != "boltz" {
				return ""
			}
		}
		switch u := deref(t).Underlying().(type) {
		case *types.Struct:
			for i := 0; i < u.NumFields(); i++ {
				if h := holdsTx(u.Field(i).Type(), d+1, seen); h != "" {
					return h
				}
			}
		case *types.Slice:
			return holdsTx(u.Elem(), d+1, seen)
		case *types.Array:
			return holdsTx(u.Elem(), d+1, seen)
		case *types.Map:
			if h := holdsTx(u.Key(), d+1, seen); h != "" {
				return h
			}
			return holdsTx(u.Elem(), d+1, seen)
		case *types.Pointer:
			return holdsTx(u.Elem(), d+1, seen)
		}
		return ""
	}
	n := 0
	scope := pkg.Types.Scope()
	for _, name := range scope.Names() {
		if !long[name] {
			continue
		}
		tn, ok := scope.Lookup(name).(*types.TypeName)
		if !ok {
			continue
		}
		st, ok := tn.Type().Underlying().(*types.Struct)
		if !ok {
			continue
		}
		n++
		bad, badF := "", ""
		for i := 0; i < st.NumFields(); i++ {
			f := st.Field(i)
			if _, isIface := f.Type().Underlying().(*types.Interface); isIface {
				continue
			}
			if nm := namedOf(deref(f.Type())); nm != nil && long[nm.Obj().Name()] {
				continue // another long-lived object, checked itself
			}
			if h := holdsTx(f.Type(), 0, map[types.Type]bool{}); h != "" && bad == "" {
				bad, badF = h, f.Name()
			}
		}
		c.Check(bad == "", rule, "boltz."+name, p.Pos(tn.Pos()), "holds nothing that belongs to a transaction", "field "+badF+" of the long-lived "+name+" holds a "+bad+": a handle that belongs to one transaction (and dies with the bucket it names) is remembered across lookups — after the entity is deleted in the same transaction the remembered bucket still answers for its id, so the entity counts as present, a link to it is accepted and written through freed pages")
	}
	c.CallSites(n)
	c.Floor(rule, 8)
}

// ruleDeleteMembership (DELETEMEMBER): on the delete path membership of an entity in a store is what FindById
// says (for an extended store a row without child data is still an entity of the store). The functions that run
// a store's delete constraints do not sort entities out by IsEntityPresent, which only looks for the store's own
// bucket: the store's delete constraints — the system-entity guard among them — would be skipped for base-only
// rows of an extended store.
func ruleDeleteMembership(c *Ctx, rule string) {
	p := c.P
	n := 0
	for _, mname := range []string{"processDeleteConstraints", "DeleteById"} {
		m := p.MethodOpt("boltz", "BaseStore", mname)
		if m == nil {
			continue
		}
		fn := p.SSAFunc(m)
		if fn == nil {
			continue
		}
		n++
		c.Analysed(FnName(fn))
		asksExtended := false
		what, at, via := reachesStatic(fn, 3, func(call ssa.CallInstruction) string {
			cal, _ := calleeOf(call.Common())
			if cal == nil {
				return ""
			}
			if cal.Name() == "IsExtended" {
				asksExtended = true
			}
			if cal.Name() == "IsEntityPresent" {
				// only a question about this very store's entity (the receiver), not about a referenced store
				cc := call.Common()
				recv := cc.Value
				if !cc.IsInvoke() && len(cc.Args) > 0 {
					recv = cc.Args[0]
				}
				if f, _ := loadedField(recv); f != nil {
					return "" // a store reached through a field (a referenced store)
				}
				return "IsEntityPresent"
			}
			return ""
		})
		pos := p.Pos(fn.Pos())
		if at != nil {
			pos = p.Pos(at.Pos())
		}
		bad := what != "" && !asksExtended
		c.Check(!bad, rule, FnName(fn), pos, "membership on the delete path is decided by the load (FindById), not by the presence of the store's own bucket", "the delete path sorts entities out by "+what+via+" without asking whether the store is extended: a row of an extended store that has no child data is still an entity of that store (FindById answers it), but its delete constraints are skipped — a system entity of an extended store is deleted from an ordinary context")
	}
	c.CallSites(n)
	c.Floor(rule, 2)
}

// ruleStampOnlyMeta (C17.STAMPONLY): the transaction that stamps the snapshot copy touches nothing but the
// metadata bucket — whatever it is handed of the transaction goes to the path lookup of that bucket and nowhere
// else. Anything else it creates in the copy did not exist when the snapshot was taken.
// ruleResetFlagOnce (C17.RESETONCE): "reset the timeline" is asked for only by the stamp; it is set to true
// nowhere else (a second asker makes the restored database take a fresh timeline id twice).
func ruleSnapshotStamp(c *Ctx, ruleStamp, ruleReset string) {
	p := c.P
	mark := p.SSAFunc(p.Method("boltz", "DbImpl", "MarkAsSnapshot"))
	c.Analysed(FnName(mark))
	n := 0
	for _, f := range allFuncsWithAnon(mark) {
		if f == mark {
			continue
		}
		for _, call := range callsIn(f) {
			cv, ok := call.(*ssa.Call)
			if !ok || !cv.Call.IsInvoke() || cv.Call.Method.Name() != "Tx" {
				continue
			}
			n++
			var bad ssa.Instruction
			if refs := cv.Referrers(); refs != nil {
				for _, r := range *refs {
					if _, isDbg := r.(*ssa.DebugRef); isDbg {
						continue
					}
					okUse := false
					if k, isCall := r.(ssa.CallInstruction); isCall {
						if cal, _ := calleeOf(k.Common()); cal != nil && cal.Pkg() != nil && cal.Pkg().Name() == "boltz" && (cal.Name() == "GetOrCreatePath" || cal.Name() == "Path") && len(k.Common().Args) > 0 && k.Common().Args[0] == ssa.Value(cv) {
							okUse = true
						}
					}
					if !okUse && bad == nil {
						bad = r
					}
				}
			}
			why := ""
			if bad != nil {
				why = "the transaction of the stamp is handed to something other than the lookup of the metadata bucket (" + describeInstr(bad) + " at " + p.Pos(bad.Pos()) + "): whatever that creates or changes in the copy — a root bucket made on demand — was not in the database when the snapshot was taken, and is there after the restore"
			}
			c.Check(bad == nil, ruleStamp, FnName(f)+": transaction of the stamp", p.Pos(cv.Pos()), "the stamp's transaction is only used to find the metadata bucket", why)
		}
	}
	c.Floor(ruleStamp, 1)
	// RESETONCE
	var key string
	if k, ok := p.Obj("boltz", "ResetTimeline").(*types.Const); ok {
		key = constant.StringVal(k.Val())
	}
	m := 0
	for _, fn := range c.prodFuncs("boltz") {
		for _, call := range callsIn(fn) {
			cal, _ := calleeOf(call.Common())
			if cal == nil || cal.Name() != "SetBool" {
				continue
			}
			args := call.Common().Args
			if len(args) < 3 {
				continue
			}
			kc, isK := args[1].(*ssa.Const)
			if !isK || kc.Value == nil || kc.Value.Kind() != constant.String || constant.StringVal(kc.Value) != key {
				continue
			}
			vc, isV := args[2].(*ssa.Const)
			if isV && vc.Value != nil && vc.Value.Kind() == constant.Bool && !constant.BoolVal(vc.Value) {
				continue // clearing the flag
			}
			m++
			inMark := false
			for g := fn; g != nil; g = g.Parent() {
				if g == mark {
					inMark = true
				}
			}
			c.Check(inMark, ruleReset, FnName(fn)+": sets "+key, p.Pos(call.Pos()), "the reset of the timeline is asked for by the snapshot stamp only", "the timeline reset flag is set outside the snapshot stamp: after a restore the flag the stamp left is consumed by the first GetTimelineId, and a second asker (a restore listener, running later) sets it again — the restored database takes a fresh timeline id twice")
		}
	}
	c.CallSites(n + m)
	c.Floor(ruleReset, 1)
}

// ruleChildCreateAsksParent (C15.PARENTROW): Create through a child store asks whether the parent's row for the
// id already exists before it writes. It tests only the store's own bucket today, so a child created over the
// id of an existing parent-only entity rewrites the parent's fields and runs the parent's constraints as a
// create: the old values are never read, the parent's unique and set indexes keep them as well, and a later
// delete leaves them behind. (Genuine defect on the pinned tree, listed in known_findings.json.)
func ruleChildCreateAsksParent(c *Ctx, rule string) {
	p := c.P
	fn := p.SSAFunc(p.Method("boltz", "BaseStore", "Create"))
	c.Analysed(FnName(fn))
	parentFld := p.Field("boltz", "BaseStore", "parent")
	asks := false
	seen := map[*ssa.Function]bool{}
	var walk func(f *ssa.Function, d int)
	walk = func(f *ssa.Function, d int) {
		if seen[f] || d > 2 {
			return
		}
		seen[f] = true
		for _, g := range allFuncsWithAnon(f) {
			for _, call := range callsIn(g) {
				cc := call.Common()
				if cc.IsInvoke() {
					switch cc.Method.Name() {
					case "IsEntityPresent", "FindById", "GetEntityBucket", "LoadEntity", "LoadById":
						if fld, _ := loadedField(cc.Value); sameVar(fld, parentFld) {
							asks = true
						}
					}
					continue
				}
				if sc := cc.StaticCallee(); sc != nil && sc.Pkg == fn.Pkg && len(sc.Blocks) > 0 {
					walk(sc, d+1)
				}
			}
		}
	}
	walk(fn, 0)
	c.Check(asks, rule, FnName(fn)+": parent row of a child create", p.Pos(fn.Pos()), "a create through a child store asks whether the parent's row already exists", "Create tests only the store's own bucket for the id and hands create=true to the parent's indexing context: a child created over the id of an existing parent-only entity rewrites the parent's fields without the old values ever being read, so the parent's unique and set indexes keep the old entries as well (CheckIntegrity: `references <id> for value <old> which should be <new>`) and a later delete leaves them behind (ValidateDeleted finds the id under the old index value)")
}

// ruleLoopFlowKept (C08.FLOWKEPT): what an iteration of a loop on the delete path was answered by a store's
// delete-constraint step (its change flow: the events to fire) is kept — appended, or used in that iteration —
// and not merely left in a variable that the next iteration overwrites: with two child stores the flow of the
// store the entity lives in is wiped by the nil answer of a later sibling, and that store's delete event and
// pre-commit constraints never run.
func ruleLoopFlowKept(c *Ctx, rule string) {
	p := c.P
	root := p.SSAFunc(p.Method("boltz", "BaseStore", "DeleteById"))
	flowT := p.Named("boltz", "entityChangeFlow")
	var fns []*ssa.Function
	seen := map[*ssa.Function]bool{}
	var collect func(f *ssa.Function, d int)
	collect = func(f *ssa.Function, d int) {
		if seen[f] || d > 2 {
			return
		}
		seen[f] = true
		fns = append(fns, f)
		for _, call := range callsIn(f) {
			if sc := call.Common().StaticCallee(); sc != nil && sc.Pkg == root.Pkg && len(sc.Blocks) > 0 {
				collect(sc, d+1)
			}
		}
	}
	collect(root, 0)
	n := 0
	for _, fn := range fns {
		for _, l := range loopsOf(fn) {
			for b := range l.Blocks {
				for _, in := range b.Instrs {
					cv, ok := in.(*ssa.Call)
					if !ok {
						continue
					}
					// the flow value of the call: the call itself or the first element of its tuple
					var flows []ssa.Value
					if namedOf(cv.Type()) == flowT && flowT != nil {
						flows = append(flows, cv)
					}
					if tup, isT := cv.Type().(*types.Tuple); isT && tup.Len() > 0 && namedOf(tup.At(0).Type()) == flowT && flowT != nil {
						if refs := cv.Referrers(); refs != nil {
							for _, r := range *refs {
								if ex, isEx := r.(*ssa.Extract); isEx && ex.Index == 0 {
									flows = append(flows, ex)
								}
							}
						}
					}
					for _, v := range flows {
						n++
						c.Analysed(FnName(fn))
						var lost *ssa.Phi
						for _, hin := range l.Header.Instrs {
							phi, isPhi := hin.(*ssa.Phi)
							if !isPhi {
								break
							}
							carried := false
							for i, e := range phi.Edges {
								if l.Blocks[l.Header.Preds[i]] && e == v {
									carried = true // the back edge carries this iteration's answer as it is
								}
							}
							if !carried {
								continue
							}
							usedInside := false
							if refs := phi.Referrers(); refs != nil {
								for _, r := range *refs {
									if _, isDbg := r.(*ssa.DebugRef); !isDbg && l.Blocks[r.Block()] && r != ssa.Instruction(phi) {
										usedInside = true
									}
								}
							}
							if !usedInside {
								lost = phi
							}
						}
						c.Check(lost == nil, rule, FnName(fn)+": "+describeInstr(cv)+" in a loop", p.Pos(cv.Pos()), "the answer of an iteration is kept (appended or used in that iteration)", "the change flow an iteration is answered is only left in a variable that the next iteration overwrites unconditionally: with two child stores the flow of the store the entity lives in is wiped by the nil answer of a later sibling — that store's delete event and its pre-commit constraints never run")
					}
				}
			}
		}
	}
	c.CallSites(n)
	c.Floor(rule, 1)
}

// ruleNilFieldBelief (C10.NILFIELD): a contradiction rule. Where some function treats a bbolt handle kept in a
// struct field as possibly absent — it compares the value it stores there, or the field itself, with nil — every
// call through that field is made where the field is known to be non-nil. One method tolerating a nil cursor
// and a sibling using it unconditionally means one of them is wrong; on the query path the wrong one panics.
func ruleNilFieldBelief(c *Ctx, rule string) {
	p := c.P
	isHandle := func(t types.Type) bool {
		pt, ok := t.Underlying().(*types.Pointer)
		if !ok {
			return false
		}
		// cursors only: the bucket inside a TypedBucket is absent exactly when the bucket carries an error, and its
		// methods answer for that through the error state (read before arming: 40 unguarded uses, all behind HasError)
		nm := namedOf(pt.Elem())
		return nm != nil && nm.Obj().Pkg() != nil && strings.HasSuffix(nm.Obj().Pkg().Path(), "bbolt") && nm.Obj().Name() == "Cursor"
	}
	believed := map[*types.Var]string{} // field -> where the belief is stated
	fns := c.prodFuncs("boltz")
	for _, fn := range fns {
		for _, b := range fn.Blocks {
			for _, in := range b.Instrs {
				switch x := in.(type) {
				case *ssa.Store:
					f, _ := fieldOfAddr(x.Addr)
					if f == nil || !isHandle(f.Type()) {
						continue
					}
					if k, isK := x.Val.(*ssa.Const); isK && k.IsNil() {
						believed[f] = FnName(fn) + " stores nil"
						continue
					}
					if refs := x.Val.Referrers(); refs != nil {
						for _, r := range *refs {
							if bo, isB := r.(*ssa.BinOp); isB {
								if k, isK := bo.Y.(*ssa.Const); isK && k.IsNil() {
									believed[f] = FnName(fn) + " tests the value it stores"
								}
							}
						}
					}
				case *ssa.BinOp:
					if k, isK := x.Y.(*ssa.Const); isK && k.IsNil() {
						if f, _ := loadedField(x.X); f != nil && isHandle(f.Type()) {
							believed[f] = FnName(fn) + " tests the field"
						}
					}
				}
			}
		}
	}
	n := 0
	for _, fn := range fns {
		var fi *FactInfo
		for _, call := range callsIn(fn) {
			cc := call.Common()
			if cc.IsInvoke() || len(cc.Args) == 0 {
				continue
			}
			f, _ := loadedField(cc.Args[0])
			if f == nil {
				continue
			}
			var where string
			for bf, w := range believed {
				if sameVar(bf, f) {
					where = w
				}
			}
			if where == "" {
				continue
			}
			cal, _ := calleeOf(cc)
			if cal == nil {
				continue
			}
			if sig, _ := cal.Type().(*types.Signature); sig == nil || sig.Recv() == nil {
				continue // handed on as an argument, not called through
			}
			n++
			c.Analysed(FnName(fn))
			if fi == nil {
				fi = ComputeFacts(fn)
			}
			guarded := fi.HoldsWhere(call.Block(), func(ft Fact) bool {
				if ft.Kind != "nonnil" || !ft.Pol {
					return false
				}
				lf, _ := loadedField(ft.V)
				return sameVar(lf, f)
			})
			c.Check(guarded, rule, FnName(fn)+": "+describeInstr(call)+" through field "+f.Name(), p.Pos(call.Pos()), "called where the field is known to be non-nil", "the bbolt handle in field "+f.Name()+" is treated as possibly absent elsewhere ("+where+") but is called through here without a nil test: a set symbol opened on a row that has no bucket for the field holds no cursor, and the seek shortcut of `anyOf(set) = \"v\"` panics on it")
		}
	}
	if n == 0 {
		c.OK(rule, "boltz: bbolt handles kept in fields", "-", "no field holding a bbolt handle is treated as possibly absent")
	}
	c.CallSites(n)
}

// ruleDeleteHooksIdempotent (C15.IDEMPOTENT): the delete-side hooks of the constraints take entries out with
// the unconditional removers. DeleteById runs the parent's delete constraints twice for an entity that has child
// data (once through the child's chained indexing context, once for the parent itself): a hook that asks
// "was it there?" (CheckAndDelete…) and reports "no" as an error makes the delete of every such entity fail.
func ruleDeleteHooksIdempotent(c *Ctx, rule string) {
	p := c.P
	n := 0
	for _, fn := range c.prodFuncs("boltz") {
		if fn.Name() != "ProcessBeforeDelete" || fn.Signature.Recv() == nil {
			continue
		}
		n++
		c.Analysed(FnName(fn))
		what, at, via := reachesStatic(fn, 2, func(call ssa.CallInstruction) string {
			cal, _ := calleeOf(call.Common())
			if cal != nil && strings.HasPrefix(cal.Name(), "CheckAndDelete") {
				return cal.Name()
			}
			return ""
		})
		pos := p.Pos(fn.Pos())
		if at != nil {
			pos = p.Pos(at.Pos())
		}
		c.Check(what == "", rule, FnName(fn), pos, "entries are taken out with the unconditional removers", "a delete hook removes its entry through "+what+via+", which answers whether the entry was there: the parent's delete constraints run twice for an entity with child data, the second run finds the entry gone, and a hook that reports that as an error makes the delete of every such child entity fail (through either store)")
	}
	c.CallSites(n)
	c.Floor(rule, 5)
}
