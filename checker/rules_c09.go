package main

import (
	"fmt"
	"go/token"
	"go/types"
	"strings"

	"golang.org/x/tools/go/ssa"
)

func init() {
	register(&Property{
		ID:          "C09",
		Title:       "Integrity check: sound, complete, read-only in check mode, convergent in fix",
		Technique:   "static analysis: may-write-bolt effect summaries over the call graph + SSA dominance by the `fix` guard for every write reachable from each CheckIntegrity; must-follow rule pairing every repair with a report; full-range fan-out and two-direction scan shape checks; re-evaluation must be tested on every path; no shortcut around the store-level fan-out; presence of nil-valued entries decided by key",
		LevelText:   "Decides for every path of every CheckIntegrity implementation (and everything it can reach through the repository's call graph) that no bolt write (including get-or-create bucket accessors) can execute unless the `fix` parameter is true; that every repair site is followed by an errorSink report before the next iteration/return and that the reported `fixed` flag is false or implied by `fix`; that the store-level check visits every link collection and every constraint; and that each index checker scans both directions. It does NOT decide completeness on arbitrary corruption sets or one-pass convergence of fix mode (data dependent). The value re-evaluated for an index entry is tested on every path before the scan moves on; BaseStore.CheckIntegrity reaches success only through both fan-out loops; entry presence is decided by seeking the key (entries carry nil values). Added in rounds 8-9: no reference is decided by the value, as the maintenance does (EMPTYREF); IsEntityPresent answers for the store's own entities (PRESENT, cross-listed); closures of a checker are decided on their own paths. Added in round 10: a reference read through a symbol is not looked up in that symbol's own store (REFSTORE). Added in round 11: the path of an entity symbol ends in its key (SYMPATH). Added in round 12: a tag-only payload decodes to a nil value (TAGONLYNIL). Added in round 13: an indexing context is not carried from one iteration to the next (FRESHCTX); the result of appending to a slice held in a field is stored back into that field only (ALIASAPPEND).",
		LevelNote:   "Trusted: go/types, x/tools SSA, the name-and-shape CHA used for interface dispatch (over-approximates callees: sound for may-write), bbolt primitives list in checker/effects.go. Calls through caller-supplied function values (errorSink, external symbols) are assumed effect-free.",
		DesignRef:   "DESIGN.md C09",
		Explanation: "Sites: all implementers of Checkable.CheckIntegrity in boltz. For each, every call instruction whose callee may (transitively, via static calls, closures and interface dispatch resolved over the repository) reach a bbolt write primitive is an obligation discharged only by the branch fact fix==true (through && chains and derived flags such as tryFix) or by iterating a collection whose every append is so guarded.",
		Trusted:     []string{"go/types", "golang.org/x/tools/go/ssa v0.29.0", "bbolt write-primitive list (checker/effects.go)", "caller-supplied callbacks assumed effect-free"},
		Rules:       rulesC09,
		Controls: []controlExpect{
			{"C09.READONLY", "zzControlBadC09", true},
			{"C09.READONLY", "zzControlGoodC09", false},
			{"C09.REPORT", "zzControlBadC09", true},
		},
	})
}

type checkIntegrityImpl struct {
	fn   *ssa.Function
	fix  *ssa.Parameter
	sink *ssa.Parameter
}

func checkIntegrityImpls(c *Ctx) []checkIntegrityImpl {
	p := c.P
	cg := p.CallGraph()
	m := p.Method("boltz", "Checkable", "CheckIntegrity")
	var out []checkIntegrityImpl
	for _, f := range cg.Implementers(m) {
		fn := p.SSA.FuncValue(f)
		if fn == nil || fn.Blocks == nil || p.isTestSupport(fn.Pos()) {
			continue
		}
		if len(fn.Params) != 4 {
			continue
		}
		out = append(out, checkIntegrityImpl{fn, fn.Params[2], fn.Params[3]})
	}
	return out
}

func rulesC09(c *Ctx) {
	p := c.P
	cg := p.CallGraph()
	isW := p.isBoltWrite()
	sum := cg.Summarize(isW)
	impls := checkIntegrityImpls(c)
	c.Note(fmt.Sprintf("CheckIntegrity implementations: %d; unresolved function-value calls assumed effect-free: %d", len(impls), cg.UnresolvedFuncValues))

	// site collection: every call in the body (and its closures) that may write
	type wsite struct {
		in    ssa.CallInstruction
		chain string
	}
	for _, ci := range impls {
		name := FnName(ci.fn)
		c.Analysed(name)
		fi := ComputeFacts(ci.fn)
		loops := loopsOf(ci.fn)
		fixTrue := Fact{"true", ci.fix, true}
		var writes []wsite
		for _, call := range callsIn(ci.fn) {
			if isW(call) {
				f, _ := calleeOf(call.Common())
				writes = append(writes, wsite{call, shortObj(f)})
				continue
			}
			if may, chain := sum.CallMay(call.Common()); may {
				writes = append(writes, wsite{call, chain})
			}
		}
		c.CallSites(len(callsIn(ci.fn)))
		// closures of the checker that may write (a per-reference callback handed to a shared scan): decided on
		// their own paths, with the fix flag and the sink as they captured them
		guardedClosure := map[*ssa.Function]bool{}
		if len(ci.fn.AnonFuncs) > 0 {
			for _, a := range ci.fn.AnonFuncs {
				if !sum.May(a) {
					continue
				}
				if ok, why := closureWritesGuarded(c, ci, a, isW, sum); ok {
					guardedClosure[a] = true
					c.OK("C09.READONLY", name+": closure "+FnName(a), p.Pos(a.Pos()), why)
					continue
				}
				c.Undecided("C09.READONLY", name+": closure "+FnName(a), p.Pos(a.Pos()), "a closure inside CheckIntegrity may write and its writes are not all under the captured fix flag")
			}
		}
		ff := p.FuncFlow()
		// a reporter: a closure built here (directly or by a factory handed the sink) that cannot return
		// without having called the sink it captured
		reporter := func(f *ssa.Function) bool {
			if f == nil || f.Blocks == nil {
				return false
			}
			var captured []*ssa.FreeVar
			for _, fv := range f.FreeVars {
				b := ff.binding[fv]
				for i := 0; i < 4 && b != nil; i++ {
					if b == ssa.Value(ci.sink) {
						captured = append(captured, fv)
						break
					}
					// a variable captured by reference: its single store
					if al, isAl := b.(*ssa.Alloc); isAl {
						var sv ssa.Value
						n := 0
						for _, r := range *al.Referrers() {
							if st, isSt := r.(*ssa.Store); isSt && st.Addr == ssa.Value(al) {
								n++
								sv = st.Val
							}
						}
						if n != 1 {
							break
						}
						b = sv
						continue
					}
					// handed through the factory's own parameter
					prm, isPrm := b.(*ssa.Parameter)
					if !isPrm {
						break
					}
					b = nil
					for k, q := range prm.Parent().Params {
						if q == prm {
							for _, a := range ff.paramArgs[prm.Parent()][k] {
								if a == ssa.Value(ci.sink) {
									b = a
								}
							}
						}
					}
				}
			}
			if len(captured) == 0 {
				return false
			}
			calls := func(in ssa.Instruction) bool {
				call, ok := in.(ssa.CallInstruction)
				if !ok {
					return false
				}
				v := call.Common().Value
				if ld, isLd := v.(*ssa.UnOp); isLd && ld.Op == token.MUL {
					v = ld.X
				}
				for _, fv := range captured {
					if v == ssa.Value(fv) {
						return true
					}
				}
				return false
			}
			return noPathAvoiding(f, calls, nil)
		}
		isSink := func(in ssa.Instruction) bool {
			call, ok := in.(ssa.CallInstruction)
			if !ok {
				return false
			}
			if call.Common().Value == ssa.Value(ci.sink) || fi.canon(call.Common().Value) == ssa.Value(ci.sink) {
				return true
			}
			if call.Common().IsInvoke() {
				return false
			}
			if sc := call.Common().StaticCallee(); sc != nil {
				// a closure called directly
				return sc.Parent() != nil && reporter(sc)
			}
			targets := ff.Resolve(call.Common().Value, 0)
			if len(targets) == 0 {
				return false
			}
			for _, t := range targets {
				if !reporter(t) {
					return false
				}
			}
			return true
		}
		nGuarded := 0
		for _, w := range writes {
			construct := name + ": " + describeInstr(w.in) + " [" + w.chain + "]"
			if fi.Holds(w.in.Block(), fixTrue) {
				nGuarded++
				c.OK("C09.READONLY", construct, p.Pos(w.in.Pos()), "dominated by fix==true ("+fi.Describe(w.in.Block())+")")
				// C09.REPORT (b): the repair is followed by a report before the next iteration / success return
				ri := reachWithoutFrom(ci.fn, w.in, isSink)
				missed := ""
				// sink later in the same block?
				sameBlockSink := false
				for i := instrIndex(w.in) + 1; i < len(w.in.Block().Instrs); i++ {
					if isSink(w.in.Block().Instrs[i]) {
						sameBlockSink = true
					}
				}
				if !sameBlockSink {
					if ri.entryReach[w.in.Block()] {
						missed = "the enclosing loop can start its next iteration"
					}
					for _, r := range returnsOf(ci.fn) {
						if ri.ReachesSuccess(r, 0) {
							missed = "a successful return at " + p.Pos(r.Pos()) + " is reachable"
						}
					}
				}
				if missed == "" {
					c.OK("C09.REPORT", construct, p.Pos(w.in.Pos()), "every continuation of this repair reaches an errorSink call before the next iteration or a successful return")
				} else if why, ok := reportExceptions[reportKey(name, w.in)]; ok {
					c.OK("C09.REPORT", construct, p.Pos(w.in.Pos()), "tabled exception: "+why)
				} else {
					c.Bad("C09.REPORT", construct, p.Pos(w.in.Pos()), "a repair is made but "+missed+" without reporting it through errorSink")
				}
				continue
			}
			// guarded collection: loop over a slice whose every append is fix-guarded
			if l := innermostLoop(loops, w.in.Block()); l != nil {
				if ok, why := loopOverGuardedCollection(fi, l, fixTrue); ok {
					c.OK("C09.READONLY", construct, p.Pos(w.in.Pos()), why)
					if why2, ok := reportExceptions[reportKey(name, w.in)]; ok {
						c.OK("C09.REPORT", construct, p.Pos(w.in.Pos()), "tabled exception: "+why2)
					} else {
						c.Bad("C09.REPORT", construct, p.Pos(w.in.Pos()), "deferred repair loop without a report and without a tabled reason")
					}
					continue
				}
			}
			// a call of one of this checker's own closures, decided above
			if !w.in.Common().IsInvoke() {
				if targets := p.FuncFlow().Resolve(w.in.Common().Value, 0); len(targets) > 0 {
					all := true
					for _, t := range targets {
						if !guardedClosure[t] {
							all = false
						}
					}
					if all {
						c.OK("C09.READONLY", construct, p.Pos(w.in.Pos()), "calls a closure of this checker whose writes are all under the captured fix flag")
						c.OK("C09.REPORT", construct, p.Pos(w.in.Pos()), "repair made and reported inside the closure")
						continue
					}
				}
			}
			// helper that receives the fix flag: decided inside the helper (one level of inlining per call,
			// depth-bounded), so extracting a guarded repair into a function does not change the verdict
			if ok, why := helperGuardsWrites(p, cg, sum, isW, w.in, ci.fix, fi, 0); ok {
				c.OK("C09.READONLY", construct, p.Pos(w.in.Pos()), why)
				c.OK("C09.REPORT", construct, p.Pos(w.in.Pos()), "repair delegated to a helper that receives the fix flag")
				continue
			}
			c.Bad("C09.READONLY", construct, p.Pos(w.in.Pos()),
				"a call that may write to the database ("+w.chain+") is not dominated by the fix guard; facts here: "+fi.Describe(w.in.Block()))
		}
		if len(writes) == 0 {
			c.OK("C09.READONLY", name, p.Pos(ci.fn.Pos()), "no call in this checker can reach a bolt write primitive")
		}
		// C09.REPORT (a): the flag passed to errorSink is false or implied by fix
		for _, call := range callsIn(ci.fn) {
			if !isSink(call) || len(call.Common().Args) != 2 {
				continue
			}
			flag := call.Common().Args[1]
			construct := name + ": errorSink flag"
			if b, ok := boolConst(flag); ok && !b {
				c.OK("C09.REPORT", construct, p.Pos(call.Pos()), "reports fixed=false")
				continue
			}
			if fi.implied(flag, true)[fixTrue] || fi.Holds(call.Block(), fixTrue) {
				c.OK("C09.REPORT", construct, p.Pos(call.Pos()), "the fixed flag is true only if fix is true")
				continue
			}
			c.Bad("C09.REPORT", construct, p.Pos(call.Pos()), "errorSink is told `fixed` although that does not imply the fix parameter: a check-only run would claim a repair")
		}
	}
	c.Floor("C09.READONLY", 10)
	c.Floor("C09.REPORT", 20)
	ruleC09Fanout(c, cg, sum)
	ruleC09TwoWay(c, impls)
	ruleC09Recheck(c, impls)
	// the checks decide presence of nil-valued entries through TypedBucket.IsKeyPresent
	ruleKeyPresence(c, "C09.PRESENCE")
	ruleFreshIndexingContext(c, "C09.FRESHCTX")
	ruleNoAliasingAppend(c, "C09.ALIASAPPEND", "boltz")
	ruleC09FanoutAlways(c)
	ruleC09Dangling(c)
	// "no reference" is decided by the value, as the index maintenance does
	ruleEmptyRef(c, "C09.EMPTYREF")
	ruleRefStore(c, "C09.REFSTORE")
	ruleSymbolPathKey(c, "C09.SYMPATH")
	ruleTagOnlyNil(c, "C09.TAGONLYNIL")
	// every entity scan of the checks iterates the VALID ids of the store (for an extended child store:
	// only entities that have child data), otherwise parent-only entities are reported as broken
	ruleValidIds(c, "C09.VALIDIDS")
	// what the check compares against: the entity scans see exactly the store's own entities, and an index is
	// registered with the nullability its constructor's name promises (a non-nullable index registered as
	// nullable makes the check accept nil values and "repair" dangling references by nulling them)
	ruleIdCursorFiltered(c, "C09.IDCURSOR")
	ruleFkWiring(c, "C09.WIRING")
	// what the checks compare against: IsEntityPresent answers for the store's OWN entities (a child store: those
	// with child data)
	ruleOwnPresence(c, "C09.PRESENT")
	ruleC09Phases(c, cg, impls)
	ruleReseek(c, "C09.RESEEK", c.prodFuncs("boltz"))
}

func reportKey(fn string, in ssa.Instruction) string { return fn + ": " + describeInstr(in) }

// reportExceptions: repair sites that need no report of their own.
var reportExceptions = map[string]string{
	"(*boltz.setIndex).CheckIntegrity: call (*go.etcd.io/bbolt.Bucket).DeleteBucket": "flush of index keys emptied during the scan: every removed reference was reported individually and the never-referenced key is reported at the !hadRefs branch; the list is only appended to under fix (checked as guarded collection)",
}

// loopOverGuardedCollection: l iterates (by index) over a slice all of whose appends hold fixTrue.
func loopOverGuardedCollection(fi *FactInfo, l *Loop, fixTrue Fact) (bool, string) {
	h := l.Header
	if len(h.Instrs) == 0 {
		return false, ""
	}
	iff, ok := h.Instrs[len(h.Instrs)-1].(*ssa.If)
	if !ok {
		return false, ""
	}
	cmp, ok := iff.Cond.(*ssa.BinOp)
	if !ok {
		return false, ""
	}
	lenCall, ok := cmp.Y.(*ssa.Call)
	if !ok {
		return false, ""
	}
	if b, ok := lenCall.Call.Value.(*ssa.Builtin); !ok || b.Name() != "len" {
		return false, ""
	}
	// trace the slice back through phis and appends
	seen := map[ssa.Value]bool{}
	nApp := 0
	var walk func(v ssa.Value) bool
	walk = func(v ssa.Value) bool {
		if seen[v] {
			return true
		}
		seen[v] = true
		switch x := v.(type) {
		case *ssa.Const:
			return x.IsNil()
		case *ssa.Phi:
			for _, e := range x.Edges {
				if !walk(e) {
					return false
				}
			}
			return true
		case *ssa.Call:
			if b, ok := x.Call.Value.(*ssa.Builtin); ok && b.Name() == "append" {
				nApp++
				if !fi.Holds(x.Block(), fixTrue) {
					return false
				}
				return walk(x.Call.Args[0])
			}
		}
		return false
	}
	if !walk(lenCall.Call.Args[0]) || nApp == 0 {
		return false, ""
	}
	return true, fmt.Sprintf("inside a loop over a slice that starts nil and whose %d append site(s) are all dominated by fix==true: the loop body cannot run in check mode", nApp)
}

// ---- FANOUT ----------------------------------------------------------------------------------

// fanoutSites: per collection field of the store, the CheckIntegrity call that visits its elements (filled by
// ruleC09Fanout, read by ruleC09FanoutAlways).
var fanoutSites = map[*types.Var]ssa.CallInstruction{}

func ruleC09Fanout(c *Ctx, cg *CG, sum *Summary) {
	p := c.P
	fanoutSites = map[*types.Var]ssa.CallInstruction{}
	fn := p.SSAFunc(p.Method("boltz", "BaseStore", "CheckIntegrity"))
	name := FnName(fn)
	c.Analysed(name)
	fi := ComputeFacts(fn)
	loops := loopsOf(fn)
	links := p.Field("boltz", "BaseStore", "links")
	constraints := p.Field("boltz", "Indexer", "constraints")
	for _, want := range []struct {
		fld  *types.Var
		what string
	}{{links, "link collections (store.links)"}, {constraints, "constraints (Indexer.constraints)"}} {
		construct := name + ": fan-out over " + want.what
		// find the CheckIntegrity invoke whose receiver derives from the field
		var site ssa.CallInstruction
		for _, call := range callsIn(fn) {
			cc := call.Common()
			if cc.IsInvoke() && cc.Method.Name() == "CheckIntegrity" && derivesFromField(cc.Value, want.fld, 0) {
				site = call
			}
		}
		if site == nil {
			// gathered first (the elements, or small structs holding them, put into a local list in a loop over the
			// field), then visited in one loop over that list
			for _, g := range gatheredFrom(fn, want.fld) {
				for _, call := range callsIn(fn) {
					cc := call.Common()
					if cc.IsInvoke() && cc.Method.Name() == "CheckIntegrity" && fromGathered(cc.Value, g, 0) {
						site = call
					}
				}
			}
		}
		if site == nil {
			c.Bad("C09.FANOUT", construct, p.Pos(fn.Pos()), "no CheckIntegrity call on the elements of this collection")
			continue
		}
		fanoutSites[want.fld] = site
		l := innermostLoop(loops, site.Block())
		if l == nil {
			c.Bad("C09.FANOUT", construct, p.Pos(site.Pos()), "the element check is not inside a loop over the collection")
			continue
		}
		// the loop is left only by exhaustion (from the header) or by a failing return
		ok := true
		why := ""
		for b := range l.Blocks {
			for _, s := range b.Succs {
				if l.Blocks[s] {
					continue
				}
				if b == l.Header {
					continue
				}
				if !edgeLeadsOnlyToFailure(fi, b, s, 0) {
					ok = false
					why = "the loop can be left early at " + p.Pos(lastPos(b)) + " without returning an error"
				}
			}
		}
		// passes the same fix and sink
		args := site.Common().Args
		if len(args) == 3 {
			if args[1] != ssa.Value(fn.Params[2]) || args[2] != ssa.Value(fn.Params[3]) {
				ok = false
				why = "fix / errorSink are not forwarded unchanged"
			}
		}
		c.Check(ok, "C09.FANOUT", construct, p.Pos(site.Pos()), "every element is checked (loop exits only by exhaustion or a failing return), fix and errorSink forwarded", why)
	}
	// every constraint type that writes on update has a non-trivial checker
	after := p.Method("boltz", "Constraint", "ProcessAfterUpdate")
	n := 0
	for _, f := range cg.Implementers(after) {
		afn := p.SSA.FuncValue(f)
		if afn == nil || p.isTestSupport(afn.Pos()) || !sum.May(afn) {
			continue
		}
		recv := namedOf(recvType(f))
		if recv == nil {
			continue
		}
		n++
		construct := "boltz." + recv.Obj().Name() + ": writer has a checker"
		var chk *ssa.Function
		for i := 0; i < recv.NumMethods(); i++ {
			if recv.Method(i).Name() == "CheckIntegrity" {
				chk = p.SSA.FuncValue(recv.Method(i))
			}
		}
		if chk == nil {
			c.Bad("C09.FANOUT", construct, p.Pos(afn.Pos()), "constraint writes index data on update but has no CheckIntegrity")
			continue
		}
		c.Check(len(callsIn(chk)) > 0 && len(loopsOf(chk)) > 0, "C09.FANOUT", construct, p.Pos(chk.Pos()), "its CheckIntegrity scans (contains loops and calls)", "its CheckIntegrity is trivial although ProcessAfterUpdate maintains index data")
	}
	c.Floor("C09.FANOUT", 5)
}

func lastPos(b *ssa.BasicBlock) token.Pos {
	for i := len(b.Instrs) - 1; i >= 0; i-- {
		if b.Instrs[i].Pos().IsValid() {
			return b.Instrs[i].Pos()
		}
	}
	return 0
}

func leadsOnlyToFailure(fi *FactInfo, b *ssa.BasicBlock, ei int, seen map[*ssa.BasicBlock]bool) bool {
	if seen[b] {
		return true
	}
	seen[b] = true
	if len(b.Succs) == 0 {
		return blockEndsInFailure(fi, b, ei)
	}
	for _, s := range b.Succs {
		if !leadsOnlyToFailure(fi, s, ei, seen) {
			return false
		}
	}
	return true
}

// derivesFromField: v is loaded (possibly via range/index/next/extract) from field fld.
func derivesFromField(v ssa.Value, fld *types.Var, depth int) bool {
	if depth > 8 || v == nil {
		return false
	}
	switch x := v.(type) {
	case *ssa.UnOp:
		if f, _ := loadedField(x); sameVar(f, fld) {
			return true
		}
		return derivesFromField(x.X, fld, depth+1)
	case *ssa.FieldAddr:
		if f, _ := fieldOfAddr(x); sameVar(f, fld) {
			return true
		}
		return derivesFromField(x.X, fld, depth+1)
	case *ssa.IndexAddr:
		return derivesFromField(x.X, fld, depth+1)
	case *ssa.Extract:
		return derivesFromField(x.Tuple, fld, depth+1)
	case *ssa.Next:
		return derivesFromField(x.Iter, fld, depth+1)
	case *ssa.Range:
		return derivesFromField(x.X, fld, depth+1)
	case *ssa.Lookup:
		return derivesFromField(x.X, fld, depth+1)
	case *ssa.Phi:
		for _, e := range x.Edges {
			if derivesFromField(e, fld, depth+1) {
				return true
			}
		}
	case *ssa.Call:
		// value obtained through an accessor on the field (e.g. CopyOnWriteSlice.Value())
		for _, a := range x.Call.Args {
			if derivesFromField(a, fld, depth+1) {
				return true
			}
		}
		if x.Call.IsInvoke() {
			return derivesFromField(x.Call.Value, fld, depth+1)
		}
	case *ssa.Slice:
		return derivesFromField(x.X, fld, depth+1)
	case *ssa.MakeInterface:
		return derivesFromField(x.X, fld, depth+1)
	case *ssa.ChangeInterface:
		return derivesFromField(x.X, fld, depth+1)
	}
	return false
}

// ---- TWO-WAY ---------------------------------------------------------------------------------

func ruleC09TwoWay(c *Ctx, impls []checkIntegrityImpl) {
	p := c.P
	first := p.ExtMethod(bboltPath, "Cursor", "First")
	iterValid := p.Method("boltz", "Store", "IterateValidIds")
	for _, ci := range impls {
		recv := namedOf(recvType(ci.fn.Object().(*types.Func)))
		if recv == nil {
			continue
		}
		switch recv.Obj().Name() {
		case "uniqueIndex", "setIndex", "fkIndex":
		default:
			continue
		}
		name := FnName(ci.fn)
		nIdx, nEnt := 0, 0
		loops := loopsOf(ci.fn)
		for _, call := range callsIn(ci.fn) {
			if isCallTo(call, first) {
				nIdx++
			}
			if isCallTo(call, iterValid) {
				nEnt++
			}
		}
		c.Check(nIdx >= 1 && nEnt >= 1 && len(loops) >= 2, "C09.TWOWAY", name, p.Pos(ci.fn.Pos()),
			fmt.Sprintf("scans the index side (%d bolt cursor scan(s)) and the entity side (%d IterateValidIds scan(s))", nIdx, nEnt),
			fmt.Sprintf("an index checker must scan both directions: index->entity scans=%d, entity->index scans=%d, loops=%d", nIdx, nEnt, len(loops)))
	}
	c.Floor("C09.TWOWAY", 3)
	_ = strings.TrimSpace
}

// ---- PHASES: in an index checker, every removal happens before any (re)creation ---------------

func ruleC09Phases(c *Ctx, cg *CG, impls []checkIntegrityImpl) {
	p := c.P
	var dels, puts []*types.Func
	for _, m := range []string{"Delete", "DeleteBucket"} {
		dels = append(dels, p.ExtMethod(bboltPath, "Bucket", m))
	}
	dels = append(dels, p.ExtMethod(bboltPath, "Cursor", "Delete"), p.ExtMethod(bboltPath, "Tx", "DeleteBucket"))
	for _, m := range []string{"Put", "CreateBucket", "CreateBucketIfNotExists"} {
		puts = append(puts, p.ExtMethod(bboltPath, "Bucket", m))
	}
	puts = append(puts, p.ExtMethod(bboltPath, "Tx", "CreateBucket"), p.ExtMethod(bboltPath, "Tx", "CreateBucketIfNotExists"))
	sumDel := cg.Summarize(func(in ssa.Instruction) bool { return isCallTo(in, dels...) })
	sumPut := cg.Summarize(func(in ssa.Instruction) bool { return isCallTo(in, puts...) })
	for _, ci := range impls {
		recv := namedOf(recvType(ci.fn.Object().(*types.Func)))
		if recv == nil {
			continue
		}
		switch recv.Obj().Name() {
		case "uniqueIndex", "setIndex", "fkIndex":
		default:
			continue
		}
		name := FnName(ci.fn)
		var putSites, delSites []ssa.CallInstruction
		for _, call := range callsIn(ci.fn) {
			if isCallTo(call, puts...) {
				putSites = append(putSites, call)
				continue
			}
			if isCallTo(call, dels...) {
				delSites = append(delSites, call)
				continue
			}
			if may, _ := sumPut.CallMay(call.Common()); may {
				putSites = append(putSites, call)
				continue
			}
			if may, _ := sumDel.CallMay(call.Common()); may {
				delSites = append(delSites, call)
			}
		}
		bad := ""
		for _, ps := range putSites {
			ri := reachWithoutFrom(ci.fn, ps, func(ssa.Instruction) bool { return false })
			for _, d := range delSites {
				if ri.entryReach[d.Block()] || (d.Block() == ps.Block() && instrIndex(d) > instrIndex(ps)) {
					bad = fmt.Sprintf("%s at %s can still run after %s at %s", describeInstr(d), p.Pos(d.Pos()), describeInstr(ps), p.Pos(ps.Pos()))
				}
			}
		}
		c.Check(bad == "", "C09.PHASES", name, p.Pos(ci.fn.Pos()), fmt.Sprintf("all %d removal site(s) complete before any of the %d (re)creation site(s): a repaired entry cannot be deleted again in the same run", len(delSites), len(putSites)),
			"a removal can run after entries were (re)created in the same run ("+bad+"): fix mode may delete what it has just repaired and the immediate re-check is not clean")
	}
	c.Floor("C09.PHASES", 3)
}

// ruleReseek: inside a loop that advances cursor X with X.Next(), calling X.Seek(...) re-positions
// the cursor so that the following Next() skips an element.
func ruleReseek(c *Ctx, rule string, fns []*ssa.Function) {
	p := c.P
	n := 0
	for _, fn := range fns {
		loops := loopsOf(fn)
		if len(loops) == 0 {
			continue
		}
		for _, l := range loops {
			var nexts, seeks []ssa.CallInstruction
			for b := range l.Blocks {
				for _, in := range b.Instrs {
					call, ok := in.(ssa.CallInstruction)
					if !ok || !call.Common().IsInvoke() {
						continue
					}
					switch call.Common().Method.Name() {
					case "Next":
						nexts = append(nexts, call)
					case "Seek":
						seeks = append(seeks, call)
					}
				}
			}
			if len(nexts) == 0 {
				continue
			}
			n++
			bad := false
			for _, s := range seeks {
				for _, nx := range nexts {
					if s.Common().Value == nx.Common().Value {
						bad = true
						c.Bad(rule, FnName(fn)+": cursor "+describeValue(s.Common().Value), p.Pos(s.Pos()), "the loop advances this cursor with Next() but its body also re-seeks it: after the Seek the Next() steps over the element the cursor was placed on (an entry is skipped)")
					}
				}
			}
			if !bad {
				c.Analysed(FnName(fn))
			}
		}
	}
	c.OK(rule, "boltz cursor loops", "-", fmt.Sprintf("%d loop(s) advancing a cursor with Next() examined", n))
}

// helperGuardsWrites: the call passes a value implied by `fix` to a bool parameter of a repository
// function in which every may-write call is dominated by that parameter being true.
func helperGuardsWrites(p *Prog, cg *CG, sum *Summary, isW func(ssa.Instruction) bool, call ssa.CallInstruction, fix ssa.Value, fi *FactInfo, depth int) (bool, string) {
	if depth > 2 {
		return false, ""
	}
	ts := cg.CalleesOf(call.Common())
	if len(ts) != 1 || call.Common().IsInvoke() {
		return false, ""
	}
	callee := ts[0]
	args := call.Common().Args
	for i, prm := range callee.Params {
		if i >= len(args) || !types.Identical(prm.Type(), types.Typ[types.Bool]) {
			continue
		}
		a := args[i]
		if a != fix && !fi.implied(a, true)[Fact{"true", fix, true}] {
			continue
		}
		cfi := ComputeFacts(callee)
		want := Fact{"true", prm, true}
		all := true
		n := 0
		for _, k := range callsIn(callee) {
			may := isW(k)
			if !may {
				may, _ = sum.CallMay(k.Common())
			}
			if !may {
				continue
			}
			n++
			if cfi.Holds(k.Block(), want) {
				continue
			}
			if ok, _ := helperGuardsWrites(p, cg, sum, isW, k, prm, cfi, depth+1); ok {
				continue
			}
			all = false
		}
		if all && n > 0 {
			return true, fmt.Sprintf("delegates to %s, passing the fix flag; all %d write(s) inside it are dominated by that parameter", FnName(callee), n)
		}
	}
	return false, ""
}

// ruleC09Recheck: in the index -> entity direction an index entry (read from a bolt cursor) is
// validated by re-evaluating the indexed symbol on the referenced entity.  The recomputed value must
// be tested on EVERY path before the scan moves on: a path that skips the comparison (for any reason
// that does not itself depend on the recomputed value) lets a stale entry go unreported.
func ruleC09Recheck(c *Ctx, impls []checkIntegrityImpl) {
	p := c.P
	boltCursor := map[*types.Func]bool{}
	for _, m := range []string{"First", "Next", "Seek", "Last", "Prev"} {
		boltCursor[p.ExtMethod(bboltPath, "Cursor", m)] = true
	}
	var fromIndex func(v ssa.Value, seen map[ssa.Value]bool) bool
	fromIndex = func(v ssa.Value, seen map[ssa.Value]bool) bool {
		if v == nil || seen[v] {
			return false
		}
		seen[v] = true
		switch x := v.(type) {
		case *ssa.Extract:
			return fromIndex(x.Tuple, seen)
		case *ssa.Phi:
			for _, e := range x.Edges {
				if fromIndex(e, seen) {
					return true
				}
			}
		case *ssa.Slice:
			return fromIndex(x.X, seen)
		case *ssa.Convert:
			return fromIndex(x.X, seen)
		case *ssa.ChangeType:
			return fromIndex(x.X, seen)
		case *ssa.Call:
			cal, _ := calleeOf(x.Common())
			if cal == nil {
				return false
			}
			if boltCursor[cal] {
				return true
			}
			if cal.Name() == "GetTypeAndValue" {
				for _, a := range x.Call.Args {
					if fromIndex(a, seen) {
						return true
					}
				}
			}
		}
		return false
	}
	var dependsOn func(v ssa.Value, src map[ssa.Value]bool, depth int) bool
	dependsOn = func(v ssa.Value, src map[ssa.Value]bool, depth int) bool {
		if v == nil || depth > 8 {
			return false
		}
		if src[v] {
			return true
		}
		in, ok := v.(ssa.Instruction)
		if !ok {
			return false
		}
		for _, op := range in.Operands(nil) {
			if op != nil && *op != nil && dependsOn(*op, src, depth+1) {
				return true
			}
		}
		return false
	}
	n := 0
	for _, ci := range impls {
		fn := ci.fn
		loops := loopsOf(fn)
		for _, call := range callsIn(fn) {
			cc := call.Common()
			if !cc.IsInvoke() || cc.Method.Name() != "Eval" || len(cc.Args) != 2 {
				continue
			}
			cv, ok := call.(*ssa.Call)
			if !ok || !fromIndex(cc.Args[1], map[ssa.Value]bool{}) {
				continue
			}
			n++
			construct := FnName(fn) + ": re-evaluation " + describeInstr(call)
			src := map[ssa.Value]bool{}
			for _, r := range *cv.Referrers() {
				if ex, ok := r.(*ssa.Extract); ok && ex.Index == 1 {
					src[ex] = true
				}
			}
			if len(src) == 0 {
				c.Bad("C09.RECHECK", construct, p.Pos(call.Pos()), "the value recomputed from the referenced entity is discarded: the index entry is never compared with it")
				continue
			}
			tests := func(in ssa.Instruction) bool {
				iff, ok := in.(*ssa.If)
				return ok && dependsOn(iff.Cond, src, 0)
			}
			ri := reachWithoutFrom(fn, call, tests)
			escape := ""
			if l := innermostLoop(loops, call.Block()); l != nil {
				// leaving the iteration: the header again, or any block outside the loop
				for _, b := range fn.Blocks {
					if (b == l.Header || !l.Blocks[b]) && len(b.Instrs) > 0 && ri.entryReach[b] {
						escape = "the next iteration / loop exit at " + p.Pos(lastPos(b))
						break
					}
				}
			} else {
				for _, r := range returnsOf(fn) {
					if ri.Reaches(r) {
						escape = "the return at " + p.Pos(r.Pos())
					}
				}
			}
			c.Check(escape == "", "C09.RECHECK", construct, p.Pos(call.Pos()), "every path from the re-evaluation tests the recomputed value before the scan moves on", "a path from the re-evaluation reaches "+escape+" without any test of the recomputed value: a stale index entry on that path is neither reported nor repaired")
		}
	}
	c.Floor("C09.RECHECK", 3)
}

// ruleC09FanoutAlways: BaseStore.CheckIntegrity reaches a successful return only after it has entered
// both fan-out loops (link collections and constraints): a store without entities can still hold stale
// index entries, so no shortcut may skip them.
func ruleC09FanoutAlways(c *Ctx) {
	p := c.P
	fn := p.SSAFunc(p.Method("boltz", "BaseStore", "CheckIntegrity"))
	name := FnName(fn)
	c.Analysed(name)
	loops := loopsOf(fn)
	var fanLoops []*Loop
	for _, call := range callsIn(fn) {
		if call.Common().IsInvoke() && call.Common().Method.Name() == "CheckIntegrity" {
			if l := innermostLoop(loops, call.Block()); l != nil {
				dup := false
				for _, x := range fanLoops {
					if x == l {
						dup = true
					}
				}
				if !dup {
					fanLoops = append(fanLoops, l)
				}
			}
		}
	}
	ok := len(fanoutSites) >= 2
	why := fmt.Sprintf("expected a fan-out over both the link collections and the constraints, found %d", len(fanoutSites))
	for _, l := range fanLoops {
		hdr := l.Header
		ri := reachWithout(fn, func(in ssa.Instruction) bool { return in.Block() == hdr })
		for _, r := range returnsOf(fn) {
			if ri.ReachesSuccess(r, 0) {
				ok = false
				why = "a successful return at " + p.Pos(r.Pos()) + " is reachable without entering the fan-out loop at " + p.Pos(lastPos(hdr)) + ": stale index entries of that store go unreported"
			}
		}
	}
	c.Check(ok, "C09.FANOUT", name+": no shortcut around the fan-out", p.Pos(fn.Pos()), "every successful return has entered both fan-out loops", why)
}

// ruleC09Dangling: the foreign-key check changes the REFERENCING entity (clears its fk field) only for a
// dangling reference, and "dangling" is decided by asking the referenced store whether the entity is
// present — not by a proxy such as a missing back-reference bucket, which is also what a referenced
// entity that nothing pointed at yet looks like (that case is a repairable missing back-reference).
func ruleC09Dangling(c *Ctx) {
	p := c.P
	fn := p.SSAFunc(p.Method("boltz", "fkIndex", "CheckIntegrity"))
	name := FnName(fn)
	c.Analysed(name)
	fi := factsOf(fn)
	isW := p.isBoltWrite()
	sum := p.CallGraph().Summarize(isW)
	n := 0
	for _, call := range callsIn(fn) {
		recv := callRecv(call.Common())
		if recv == nil {
			continue
		}
		// the receiver is the entity bucket itself or something embedded in it (promoted bbolt methods)
		for i := 0; i < 4; i++ {
			switch x := recv.(type) {
			case *ssa.UnOp:
				recv = x.X
			case *ssa.FieldAddr:
				recv = x.X
			case *ssa.Field:
				recv = x.X
			}
		}
		src, ok := recv.(*ssa.Call)
		if !ok || !invokeNamed(src, "GetEntityBucket") {
			continue
		}
		// ... of the REFERENCING store (index.symbol's): the bucket of the referenced entity (index.fkSymbol's
		// store) is where a missing back-reference is repaired, which is the right thing to do for a present target
		if st, isCall := src.Call.Value.(*ssa.Call); isCall && invokeNamed(st, "GetStore") {
			if f, _ := loadedField(st.Call.Value); f != nil && f.Name() == "fkSymbol" {
				continue
			}
		}
		may := isW(call)
		if !may {
			may, _ = sum.CallMay(call.Common())
		}
		if !may {
			continue
		}
		n++
		absent := fi.HoldsWhere(call.Block(), func(f Fact) bool {
			if f.Kind != "true" || f.Pol {
				return false
			}
			pc, isCall := f.V.(*ssa.Call)
			return isCall && invokeNamed(pc, "IsEntityPresent")
		})
		construct := name + ": " + describeInstr(call)
		c.Check(absent, "C09.DANGLING", construct, p.Pos(call.Pos()), "the referencing entity is changed only where IsEntityPresent said the referenced entity is absent ("+fi.Describe(call.Block())+")",
			"the referencing entity's field is rewritten on a path where the referenced entity was not established to be absent by IsEntityPresent (facts: "+fi.Describe(call.Block())+"): a reference to an existing entity that merely lacks its back-reference is destroyed instead of repaired")
	}
	c.CallSites(n)
	c.Floor("C09.DANGLING", 1)
}

// closureWritesGuarded: every call in closure a (a closure of checker ci) that may write is dominated by the
// captured fix flag being true, and every continuation of such a repair reaches a call of the captured sink
// before the closure returns successfully.
func closureWritesGuarded(c *Ctx, ci checkIntegrityImpl, a *ssa.Function, isW func(ssa.Instruction) bool, sum *Summary) (bool, string) {
	// which free variables stand for the checker's fix flag / sink
	capturedAs := func(target ssa.Value) map[*ssa.FreeVar]bool {
		out := map[*ssa.FreeVar]bool{}
		for _, b := range ci.fn.Blocks {
			for _, in := range b.Instrs {
				mk, ok := in.(*ssa.MakeClosure)
				if !ok || mk.Fn != ssa.Value(a) {
					continue
				}
				for i, bv := range mk.Bindings {
					if i >= len(a.FreeVars) {
						continue
					}
					if bv == target {
						out[a.FreeVars[i]] = true
						continue
					}
					if al, isAl := bv.(*ssa.Alloc); isAl && al.Referrers() != nil {
						n, from := 0, false
						for _, r := range *al.Referrers() {
							if st, isSt := r.(*ssa.Store); isSt && st.Addr == ssa.Value(al) {
								n++
								from = st.Val == target
							}
						}
						if n == 1 && from {
							out[a.FreeVars[i]] = true
						}
					}
				}
			}
		}
		return out
	}
	fixVars, sinkVars := capturedAs(ci.fix), capturedAs(ci.sink)
	if len(fixVars) == 0 {
		return false, ""
	}
	isVar := func(v ssa.Value, set map[*ssa.FreeVar]bool) bool {
		if fv, ok := v.(*ssa.FreeVar); ok {
			return set[fv]
		}
		if ld, ok := v.(*ssa.UnOp); ok && ld.Op == token.MUL {
			if fv, ok := ld.X.(*ssa.FreeVar); ok {
				return set[fv]
			}
		}
		return false
	}
	fi := ComputeFacts(a)
	isSink := func(in ssa.Instruction) bool {
		call, ok := in.(ssa.CallInstruction)
		return ok && isVar(call.Common().Value, sinkVars)
	}
	ei := errorResultIndex(a.Signature)
	n := 0
	for _, call := range callsIn(a) {
		may := isW(call)
		if !may {
			may, _ = sum.CallMay(call.Common())
		}
		if !may {
			continue
		}
		n++
		if !fi.HoldsWhere(call.Block(), func(f Fact) bool { return f.Kind == "true" && f.Pol && isVar(f.V, fixVars) }) {
			return false, ""
		}
		ri := reachWithoutFrom(a, call, isSink)
		sameBlock := false
		for i := instrIndex(call) + 1; i < len(call.Block().Instrs); i++ {
			if isSink(call.Block().Instrs[i]) {
				sameBlock = true
			}
		}
		if !sameBlock && ei >= 0 {
			for _, r := range returnsOf(a) {
				if ri.ReachesSuccess(r, ei) {
					return false, ""
				}
			}
		}
	}
	if len(a.AnonFuncs) > 0 {
		for _, inner := range a.AnonFuncs {
			if sum.May(inner) {
				return false, ""
			}
		}
	}
	c.Analysed(FnName(a))
	return true, fmt.Sprintf("all %d write(s) in the closure are dominated by the captured fix flag and followed by a report through the captured sink", n)
}
