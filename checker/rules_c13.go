package main

import (
	"fmt"
	"go/constant"
	"go/token"
	"go/types"
	"sort"
	"strings"

	"golang.org/x/tools/go/ssa"
)

func init() {
	register(&Property{
		ID:          "C13",
		Title:       "Stored values and compound keys round-trip",
		Technique:   "static analysis: writer/reader table extraction from SSA constants (tag byte, payload width, codec, byte order) with per-tag partial evaluation of the reader dispatch; dominance of every bolt write in checker-taking setters by ProceedWithSet(name, checker); structural checks of the nil encoding, the compound-key codec bounds and the list rewrite order; field-checker immutability; empty-payload rule for tag-dispatching decoders; evident-room rule for every PutUvarint",
		LevelText:   "Decides agreement of what the code itself embodies: for every fixed-width type tag the setter's tag byte, payload width, integer codec and byte order equal what every reader reached under that tag requires; every write in a field-checker-taking setter happens only under ProceedWithSet with the method's own name and checker (and PersistContext forwards its own checker); null is encoded as the single TypeNil byte and decoded distinctly from the empty string; the compound-key encoder and decoder use the matching varint primitives, the same bound and in-bounds slices; string lists are emptied before being rewritten. Value equality for arbitrary payloads (special floats, time zones, nested containers) rests on the standard library codecs and is not decided. Field checkers are never modified by their own methods (they are shared between child and parent contexts); a decoder does not turn an empty payload into nil while the tag may still be TypeString; every PutUvarint writes into a buffer with a constant reserve sufficient for the longest prefix (a hand-computed size is UNDECIDED). Added later: patch-style writers (UpdateBaseValues, PutMap) write a field only when the field checker admits it, tabled exception updatedAt (PATCHSCOPE); a nil entry of a map or list is stored under the nil tag, never skipped (NILENTRY); writer rows are recognised in both buffer forms (tag slot reserved, or payload array tagged by PrependFieldType). Added in rounds 8-9: PUTFRESH and NOSTATS cross-listed (the value handed to bbolt is not a reused buffer; 'is the container empty' is not asked of bbolt's page statistics). Added in round 10: the (name, default) getters answer the default only where the typed read answered nil (DEFAULT); the decoder does not bound the whole key unless the encoder does (CODEC). Added in round 11: nothing taken from a sync.Pool and given back escapes (POOL = C18.POOL cross-listed). Added in round 12: PutMap/PutList make the container's bucket on every path on which the write proceeds (EMPTYCONTAINER). Added in round 13: a struct remembering child buckets drops the entry where a nested bucket is deleted (BUCKETMEMO); CHAIN as in C15 (the parent persist context carries the field checker); VALIDNIL/VALIDSRC as in C14.",
		LevelNote:   "Trusted: go/types, x/tools SSA, encoding/binary, time.MarshalBinary/UnmarshalBinary, bbolt.",
		DesignRef:   "DESIGN.md C13",
		Explanation: "Writer rows: every function that builds a make([]byte,N) buffer with a constant tag in byte 0. Reader rows: every BytesTo* style function with a length guard and a binary codec call. Dispatch: each FieldType-switching function is partially evaluated for each of the 7 tag constants.",
		Trusted:     []string{"go/types", "golang.org/x/tools/go/ssa v0.29.0", "encoding/binary", "time binary marshalling"},
		Rules:       rulesC13,
		Controls: []controlExpect{
			{"C13.CHECKER", "zzControlBad_C13", true},
			{"C13.CHECKER", "zzControlGood_C13", false},
		},
	})
}

func rulesC13(c *Ctx) {
	rulePutFresh(c, "C13.PUTFRESH")
	ruleWithDefault(c, "C13.DEFAULT")
	ruleEmptyContainerWritten(c, "C13.EMPTYCONTAINER")
	// an encoded key handed out is the caller's own memory: nothing taken from a pool and given back escapes
	c.As("C18.POOL", "C13.POOL", func() { ruleC18Pool(c) })
	// a container written twice in one transaction is replaced, not merged: "is it empty" is not asked of bbolt's
	// page statistics (they do not see the transaction's own writes)
	ruleNoStats(c, "C13.NOSTATS")
	ruleC13Width(c)
	ruleC13Checker(c)
	ruleC13Nil(c)
	ruleC13Codec(c)
	ruleBucketMemoInvalidated(c, "C13.BUCKETMEMO")
	ruleParentChain(c, "C13.CHAIN")
	ruleCursorValidity(c, "C13.VALIDNIL", "C13.VALIDSRC", "boltz", "ast")
	ruleC13List(c)
	ruleC13ListMark(c)
	ruleProceedTable(c, "C13.PROCEED")
	ruleC13CheckerImmutable(c)
	ruleC13EmptyString(c)
	ruleC13OverrideLayers(c)
	rulePatchScope(c, "C13.PATCHSCOPE")
	ruleNilEntryMarked(c, "C13.NILENTRY")
}

// ruleC13OverrideLayers: field overrides are layered (child store first, parent store on top) and resolve
// transitively: label -> displayName -> name asks the caller's checker about name.  WithFieldOverrides
// therefore wraps the context's CURRENT checker, whatever it is; it never looks inside an earlier layer
// to build a one-step table (which resolves label -> displayName only).
func ruleC13OverrideLayers(c *Ctx) {
	p := c.P
	fn := p.SSAFunc(p.Method("boltz", "PersistContext", "WithFieldOverrides"))
	name := FnName(fn)
	c.Analysed(name)
	fcFld := p.Field("boltz", "PersistContext", "FieldChecker")
	n := 0
	for _, b := range fn.Blocks {
		for _, in := range b.Instrs {
			st, ok := in.(*ssa.Store)
			if !ok {
				continue
			}
			f, base := fieldOfAddr(st.Addr)
			if !sameVar(f, fcFld) {
				continue
			}
			n++
			good, why := false, "the new checker is "+describeValue(st.Val)
			v := st.Val
			if mi, isMI := v.(*ssa.MakeInterface); isMI {
				v = mi.X
			}
			if call, isCall := v.(*ssa.Call); isCall && len(call.Call.Args) >= 2 {
				inner := call.Call.Args[0]
				if f2, base2 := loadedField(inner); sameVar(f2, fcFld) && base2 == base {
					if _, isParam := call.Call.Args[1].(*ssa.Parameter); isParam {
						good = true
					} else {
						why = "the mappings handed to the new layer are " + describeValue(call.Call.Args[1]) + ", not the overrides given"
					}
				} else {
					why = "the new layer wraps " + describeValue(inner) + " instead of the context's current checker"
				}
			}
			c.Check(good, "C13.OVERRIDES", name+": new checker", p.Pos(st.Pos()), "the new layer wraps the context's current checker with exactly the overrides given: layers resolve transitively",
				why+": overrides of an earlier layer are no longer applied after this one's (a chain label -> displayName -> name resolves one step only), so a restricted update skips a selected field or writes an unselected one")
		}
	}
	c.CallSites(n)
	c.Floor("C13.OVERRIDES", 1)
}

// ruleC13CheckerImmutable: a field checker decides which fields an update may write, and the same
// checker object is shared between the child and the parent persist context: its methods never
// modify it (no store to its fields, no update of a map or slice it holds).
func ruleC13CheckerImmutable(c *Ctx) {
	p := c.P
	fcI := p.Iface("boltz", "FieldChecker")
	n := 0
	for _, fn := range c.prodFuncs("boltz") {
		if fn.Signature.Recv() == nil || len(fn.Params) == 0 {
			continue
		}
		rt := fn.Signature.Recv().Type()
		if !types.Implements(rt, fcI) && !types.Implements(types.NewPointer(rt), fcI) {
			continue
		}
		if _, isIface := rt.Underlying().(*types.Interface); isIface {
			continue
		}
		n++
		c.Analysed(FnName(fn))
		recv := ssa.Value(fn.Params[0])
		bad := ""
		for _, b := range fn.Blocks {
			for _, in := range b.Instrs {
				switch x := in.(type) {
				case *ssa.Store:
					if _, base := fieldOfAddr(x.Addr); base == recv {
						bad = "stores into a field of the checker at " + p.Pos(x.Pos())
					}
				case *ssa.MapUpdate:
					if _, base := loadedField(x.Map); base == recv || x.Map == recv {
						bad = "updates a map held by the checker at " + p.Pos(x.Pos())
					}
				}
			}
		}
		c.Check(bad == "", "C13.CHECKER.IMMUTABLE", FnName(fn), p.Pos(fn.Pos()), "does not modify the checker it is called on", bad+": the checker is shared by reference between the child and the parent persist context (and with the caller's map), so one context's overrides leak into the other and a field-restricted update writes fields it must not")
	}
	c.Floor("C13.CHECKER.IMMUTABLE", 2)
}

// ruleC13EmptyString: an empty string is stored as a bare type tag; decoders that dispatch on the tag
// must not turn "no payload bytes" into nil before the tag has excluded strings.
func ruleC13EmptyString(c *Ctx) {
	p := c.P
	fieldType := p.Named("boltz", "FieldType")
	strTag := constInt(p.Obj("boltz", "TypeString"))
	n := 0
	for _, fn := range c.prodFuncs("boltz") {
		// functions that compare a FieldType value with the tag constants (tag dispatchers)
		var tagVal ssa.Value
		for _, b := range fn.Blocks {
			for _, in := range b.Instrs {
				if bo, ok := in.(*ssa.BinOp); ok && bo.Op == token.EQL && namedOf(bo.X.Type()) == fieldType {
					if _, isK := bo.Y.(*ssa.Const); isK {
						tagVal = bo.X
					}
				}
			}
		}
		if tagVal == nil {
			continue
		}
		fi := factsOf(fn)
		for _, b := range fn.Blocks {
			for _, in := range b.Instrs {
				bo, ok := in.(*ssa.BinOp)
				if !ok || (bo.Op != token.EQL && bo.Op != token.NEQ) {
					continue
				}
				// len(payload) == 0
				lc, isLen := bo.X.(*ssa.Call)
				k, isK := bo.Y.(*ssa.Const)
				if !isLen || !isK || k.Value == nil || k.Value.ExactString() != "0" {
					continue
				}
				bi, isBi := lc.Call.Value.(*ssa.Builtin)
				if !isBi || bi.Name() != "len" {
					continue
				}
				if sl, isSl := lc.Call.Args[0].Type().Underlying().(*types.Slice); !isSl || !isByte(sl.Elem()) {
					continue
				}
				for _, r := range *bo.Referrers() {
					iff, isIf := r.(*ssa.If)
					if !isIf {
						continue
					}
					empty := iff.Block().Succs[0]
					if bo.Op == token.NEQ {
						empty = iff.Block().Succs[1]
					}
					// does the tag still admit TypeString where the emptiness is tested?
					excluded := fi.HoldsWhere(iff.Block(), func(f Fact) bool {
						fb, isB := f.V.(*ssa.BinOp)
						if !isB || f.Kind != "true" || fb.X != tagVal {
							return false
						}
						fk, isFK := fb.Y.(*ssa.Const)
						if !isFK || fk.Value == nil {
							return false
						}
						kv, _ := constant.Int64Val(fk.Value)
						return (fb.Op == token.EQL && f.Pol && kv != strTag) || (fb.Op == token.NEQ && f.Pol && kv == strTag) || (fb.Op == token.EQL && !f.Pol && kv == strTag)
					})
					if excluded {
						continue
					}
					// on the empty side: is a nil result returned?
					ps := &pathSearch{fn: fn, fi: fi, start: empty, startKnow: stepKnow(fi, iff.Block(), empty, knowMap{})}
					ps.atReturn = func(ret *ssa.Return, kk knowMap) bool {
						return len(ret.Results) > 0 && isNilConst(ret.Results[0])
					}
					n++
					found := ps.run()
					c.Check(!found, "C13.EMPTYSTR", FnName(fn)+": empty payload", p.Pos(bo.Pos()), "an empty payload is not turned into nil while the tag may still be TypeString", "a value with no payload bytes is decoded as nil before the type tag has excluded strings: the empty string (stored as a bare tag) reads back as nil inside maps and lists")
				}
			}
		}
	}
	c.Note(fmt.Sprintf("C13.EMPTYSTR: %d payload-emptiness tests in tag-dispatching decoders", n))
}

func isByte(t types.Type) bool {
	b, ok := t.Underlying().(*types.Basic)
	return ok && (b.Kind() == types.Byte || b.Kind() == types.Uint8)
}

func unusedC13() {
}

// ruleC13ListMark: PutList always writes the size marker (also for an empty list) and the reader
// recognises a list by the PRESENCE of that marker, not by its value.
func ruleC13ListMark(c *Ctx) {
	p := c.P
	marker := constStr(p, "ListSizeKeyName")
	hasMarkerArg := func(call ssa.CallInstruction) bool {
		for _, a := range call.Common().Args {
			if s, ok := constString(a); ok && s == marker {
				return true
			}
		}
		return false
	}
	pl := p.SSAFunc(p.Method("boltz", "TypedBucket", "PutList"))
	c.Analysed(FnName(pl))
	fi := ComputeFacts(pl)
	var wr ssa.CallInstruction
	for _, call := range callsIn(pl) {
		if cal, _ := calleeOf(call.Common()); cal != nil && strings.HasPrefix(cal.Name(), "SetInt") && hasMarkerArg(call) {
			wr = call
		}
	}
	ok := wr != nil
	if ok {
		// written on every path that emptied the bucket successfully: not inside the element loop, not under a length test
		if innermostLoop(loopsOf(pl), wr.Block()) != nil {
			ok = false
		}
		if fi.HoldsWhere(wr.Block(), func(f Fact) bool {
			bo, isB := f.V.(*ssa.BinOp)
			if !isB {
				return false
			}
			_, xl := bo.X.(*ssa.Call)
			return xl && (bo.Op == token.GTR || bo.Op == token.NEQ)
		}) {
			ok = false
		}
	}
	c.Check(ok, "C13.LISTMARK", FnName(pl), p.Pos(pl.Pos()), "the list-size marker is written unconditionally (also for an empty list)", "the list-size marker is not always written: an empty list would read back as a map")
	gm := p.SSAFunc(p.Method("boltz", "TypedBucket", "getMarshaled"))
	c.Analysed(FnName(gm))
	fi2 := ComputeFacts(gm)
	getList := p.Method("boltz", "TypedBucket", "GetList")
	okR := false
	readsList := func(call ssa.CallInstruction) bool {
		if isCallTo(call, getList) {
			return true
		}
		// a helper of the package that reads the bucket back as a list
		if sc := call.Common().StaticCallee(); sc != nil && sc.Pkg == gm.Pkg && sc.Signature.Recv() != nil {
			if rs := sc.Signature.Results(); rs.Len() == 1 {
				if sl, isSl := rs.At(0).Type().Underlying().(*types.Slice); isSl {
					_, isI := sl.Elem().Underlying().(*types.Interface)
					return isI
				}
			}
		}
		return false
	}
	for _, call := range callsIn(gm) {
		if readsList(call) {
			okR = fi2.HoldsWhere(call.Block(), func(f Fact) bool {
				k, isCall := f.V.(*ssa.Call)
				return f.Kind == "nonnil" && f.Pol && isCall && hasMarkerArg(k)
			})
		}
	}
	c.Check(okR, "C13.LISTMARK", FnName(gm), p.Pos(gm.Pos()), "a nested bucket is read as a list exactly when the size marker is present", "the list/map distinction does not test the PRESENCE of the size marker (e.g. tests its value): an empty nested list reads back as a map containing the marker key")
	ruleC13ListOrder(c)
}

// ruleC13ListOrder: list elements are stored under the encoded index (Int32ToBytes(i), little endian:
// bucket key order is NOT index order beyond 256 elements).  The reader therefore fetches element i by
// the key the writer used for i, or places a fetched element at the index decoded from its key; it never
// takes the order of the result from the order in which the bucket yields keys.
func ruleC13ListOrder(c *Ctx) {
	p := c.P
	gl := p.SSAFunc(p.Method("boltz", "TypedBucket", "GetList"))
	gm := p.Method("boltz", "TypedBucket", "getMarshaled")
	enc := p.Func("boltz", "Int32ToBytes")
	dec := p.Func("boltz", "BytesToInt32")
	name := FnName(gl)
	c.Analysed(name)
	var derives func(v ssa.Value, f *types.Func, depth int) bool
	derives = func(v ssa.Value, f *types.Func, depth int) bool {
		if v == nil || depth > 6 {
			return false
		}
		switch x := v.(type) {
		case *ssa.Call:
			if isCallTo(x, f) {
				return true
			}
			return false
		case *ssa.Convert:
			return derives(x.X, f, depth+1)
		case *ssa.ChangeType:
			return derives(x.X, f, depth+1)
		case *ssa.Slice:
			return derives(x.X, f, depth+1)
		case *ssa.UnOp:
			return derives(x.X, f, depth+1)
		case *ssa.Extract:
			return derives(x.Tuple, f, depth+1)
		}
		return false
	}
	n := 0
	// the element loop may live in a helper GetList hands the bucket to
	scan := allFuncsWithAnon(gl)
	for _, call := range callsIn(gl) {
		if sc := call.Common().StaticCallee(); sc != nil && sc.Pkg == gl.Pkg && len(sc.Blocks) > 0 && sc != p.SSAFunc(gm) {
			if rs := sc.Signature.Results(); rs.Len() == 1 {
				if sl, isSl := rs.At(0).Type().Underlying().(*types.Slice); isSl {
					if _, isI := sl.Elem().Underlying().(*types.Interface); isI {
						scan = append(scan, allFuncsWithAnon(sc)...)
					}
				}
			}
		}
	}
	for _, fn := range scan {
		for _, call := range callsIn(fn) {
			if !isCallTo(call, gm) || len(call.Common().Args) < 2 {
				continue
			}
			n++
			key := call.Common().Args[1]
			ok := derives(key, enc, 0)
			if !ok {
				// placed at the index decoded from the key?
				if v, isV := call.(ssa.Value); isV {
					for _, r := range *v.Referrers() {
						st, isSt := r.(*ssa.Store)
						if !isSt {
							continue
						}
						if ia, isIA := st.Addr.(*ssa.IndexAddr); isIA && derives(ia.Index, dec, 0) {
							ok = true
						}
					}
				}
			}
			c.Check(ok, "C13.LISTORDER", name+": "+describeInstr(call), p.Pos(call.Pos()), "element i is fetched by the key the writer stored it under (Int32ToBytes(i)) or placed at the index decoded from its key",
				"the element key "+describeValue(key)+" is not the encoded index and the element is not placed at an index decoded from it: the order of the list read back follows the bucket's key order (little-endian index bytes), which differs from the index order once the list has more than 256 elements")
		}
	}
	c.CallSites(n)
	c.Floor("C13.LISTORDER", 1)
}

// ---- WIDTH -----------------------------------------------------------------------------------

type wrow struct {
	fn     *ssa.Function
	tag    int64
	width  int64
	codec  string // PutUint32 / PutUint64 / byte
	order  string
	offset int64
}

type rrow struct {
	fn    *ssa.Function
	width int64 // -1: any non-empty
	codec string
	order string
}

func codecCall(in ssa.Instruction) (name, order string, args []ssa.Value, ok bool) {
	call, isCall := in.(*ssa.Call)
	if !isCall {
		return
	}
	cal, _ := calleeOf(call.Common())
	if cal == nil || cal.Pkg() == nil || cal.Pkg().Path() != "encoding/binary" {
		return
	}
	switch cal.Name() {
	case "PutUint16", "PutUint32", "PutUint64", "Uint16", "Uint32", "Uint64":
	default:
		return
	}
	recv := call.Call.Args[0]
	if call.Call.IsInvoke() {
		recv = call.Call.Value
		args = call.Call.Args
	} else {
		args = call.Call.Args[1:]
	}
	order = "?"
	if u, isLoad := recv.(*ssa.UnOp); isLoad {
		if g, isG := u.X.(*ssa.Global); isG {
			order = g.Name()
		}
	}
	return cal.Name(), order, args, true
}

func ruleC13Width(c *Ctx) { ruleDecodeWidth(c, "C13.WIDTH") }

func ruleDecodeWidth(c *Ctx, rule string) {
	p := c.P
	fieldType := p.Named("boltz", "FieldType")
	tagName := map[int64]string{}
	for _, n := range []string{"TypeBool", "TypeInt32", "TypeInt64", "TypeFloat64", "TypeString", "TypeTime", "TypeNil"} {
		tagName[constInt(p.Obj("boltz", n))] = n
	}
	fns := c.prodFuncs("boltz")
	prepend := p.Func("boltz", "PrependFieldType")
	// writer rows
	var writers []wrow
	for _, fn := range fns {
		for _, b := range fn.Blocks {
			for _, in := range b.Instrs {
				al, ok := in.(*ssa.Alloc)
				if !ok {
					continue
				}
				arr, ok := derefType(al.Type()).Underlying().(*types.Array)
				if !ok || !types.Identical(arr.Elem(), types.Typ[types.Byte]) {
					continue
				}
				// the slice of it
				var sl *ssa.Slice
				for _, r := range *al.Referrers() {
					if s, ok := r.(*ssa.Slice); ok {
						sl = s
					}
				}
				if sl == nil {
					continue
				}
				row := wrow{fn: fn, tag: -1, width: arr.Len() - 1, codec: "", order: ""}
				for _, r := range *sl.Referrers() {
					switch x := r.(type) {
					case *ssa.IndexAddr:
						ic, ok := x.Index.(*ssa.Const)
						if !ok || ic.Value == nil {
							continue
						}
						idx, _ := constant.Int64Val(ic.Value)
						for _, r2 := range *x.Referrers() {
							if st, ok := r2.(*ssa.Store); ok {
								if idx == 0 {
									v := st.Val
									if cv, ok := v.(*ssa.Convert); ok {
										v = cv.X
									}
									if k, ok := v.(*ssa.Const); ok && k.Value != nil {
										row.tag, _ = constant.Int64Val(k.Value)
									}
								} else if row.codec == "" {
									row.codec = "byte"
									row.offset = idx
								}
							}
						}
					case *ssa.Slice:
						// buf[1:] handed to a codec
						lo := int64(0)
						if lc, ok := x.Low.(*ssa.Const); ok && lc.Value != nil {
							lo, _ = constant.Int64Val(lc.Value)
						}
						for _, r2 := range *x.Referrers() {
							if name, order, _, ok := codecCall(r2); ok {
								row.codec, row.order, row.offset = name, order, lo
							}
						}
					}
				}
				if row.tag >= 0 && tagName[row.tag] != "" && arr.Len() >= 2 {
					writers = append(writers, row)
					continue
				}
				// second form: the array holds the payload only and the tag is put in front of it by
				// PrependFieldType(tag, payload[:]) — payload offset in the stored value is 1, width the
				// whole array
				if row.tag < 0 {
					prow := wrow{fn: fn, tag: -1, width: arr.Len(), codec: "", order: "", offset: 1}
					for _, r := range *al.Referrers() {
						switch x := r.(type) {
						case *ssa.IndexAddr:
							// payload[0] = 1
							if ic, isK := x.Index.(*ssa.Const); isK && ic.Value != nil {
								for _, r2 := range *x.Referrers() {
									if _, isSt := r2.(*ssa.Store); isSt && prow.codec == "" {
										idx, _ := constant.Int64Val(ic.Value)
										prow.codec, prow.offset = "byte", idx+1
									}
								}
							}
						case *ssa.Slice:
							lo := int64(0)
							if lc, isK := x.Low.(*ssa.Const); isK && lc.Value != nil {
								lo, _ = constant.Int64Val(lc.Value)
							}
							for _, r2 := range *x.Referrers() {
								if name, order, _, isCodec := codecCall(r2); isCodec {
									prow.codec, prow.order, prow.offset = name, order, lo+1
								}
								if call, isCall := r2.(*ssa.Call); isCall && isCallTo(call, prepend) && len(call.Call.Args) == 2 && call.Call.Args[1] == ssa.Value(x) && lo == 0 && x.High == nil {
									v := call.Call.Args[0]
									if cv, isCv := v.(*ssa.Convert); isCv {
										v = cv.X
									}
									if k, isK := v.(*ssa.Const); isK && k.Value != nil {
										prow.tag, _ = constant.Int64Val(k.Value)
									}
								}
							}
						}
					}
					if prow.tag >= 0 && tagName[prow.tag] != "" && arr.Len() >= 1 {
						if prow.codec == "" && arr.Len() == 1 {
							prow.codec, prow.offset = "byte", 1 // a one-byte payload left at its zero value on some path
						}
						writers = append(writers, prow)
					}
				}
			}
		}
	}
	// reader sites: every codec read call, with the length guard that dominates it and the first
	// conversion applied to its result
	type rsite struct {
		fn     *ssa.Function
		call   *ssa.Call
		width  int64
		codec  string
		order  string
		convOK bool
		conv   string
	}
	siteOf := map[*ssa.Call]*rsite{}
	sitesIn := map[*ssa.Function][]*rsite{}
	bits := map[string]int64{"Uint16": 16, "Uint32": 32, "Uint64": 64}
	for _, fn := range fns {
		var fi *FactInfo
		for _, b := range fn.Blocks {
			for _, in := range b.Instrs {
				name, order, args, ok := codecCall(in)
				if !ok || !strings.HasPrefix(name, "Uint") || len(args) < 1 {
					continue
				}
				call := in.(*ssa.Call)
				if fi == nil {
					fi = ComputeFacts(fn)
				}
				rs := &rsite{fn: fn, call: call, width: -2, codec: name, order: order, convOK: true}
				buf := args[0]
				for f := range fi.At(b) {
					if f.Kind != "true" {
						continue
					}
					bo, ok := f.V.(*ssa.BinOp)
					if !ok {
						continue
					}
					lc, ok := bo.X.(*ssa.Call)
					if !ok {
						continue
					}
					if bi, ok := lc.Call.Value.(*ssa.Builtin); !ok || bi.Name() != "len" || lc.Call.Args[0] != buf {
						continue
					}
					if k, ok := bo.Y.(*ssa.Const); ok && k.Value != nil {
						w, _ := constant.Int64Val(k.Value)
						if (bo.Op == token.NEQ && !f.Pol) || (bo.Op == token.EQL && f.Pol) {
							rs.width = w
						}
					}
				}
				// first conversion of the raw unsigned value must keep its width (sign is re-attached
				// at the same size before any widening)
				for _, r := range *call.Referrers() {
					switch x := r.(type) {
					case *ssa.Convert:
						bt, ok := x.Type().Underlying().(*types.Basic)
						if !ok || p.sizeofBasic(bt)*8 != bits[name] {
							rs.convOK = false
							rs.conv = "converted directly to " + x.Type().String()
						}
					case *ssa.Call:
						if f, _ := calleeOf(x.Common()); f == nil || f.Pkg() == nil || f.Pkg().Path() != "math" {
							rs.convOK = false
							rs.conv = "passed to " + x.String()
						}
					}
				}
				siteOf[call] = rs
				sitesIn[fn] = append(sitesIn[fn], rs)
			}
		}
	}
	// byte readers (bool): value[0] == 1 after a non-empty test
	readers := map[*ssa.Function]bool{}
	for fn := range sitesIn {
		readers[fn] = true
	}
	byteReader := map[*ssa.Function]bool{}
	for _, fn := range fns {
		if fn.Signature.Recv() != nil || len(fn.Params) != 1 || fn.Signature.Results().Len() != 1 {
			continue
		}
		if _, ok := fn.Signature.Results().At(0).Type().Underlying().(*types.Pointer); !ok {
			continue
		}
		if pt, ok := fn.Signature.Results().At(0).Type().Underlying().(*types.Pointer); !ok || !types.Identical(pt.Elem(), types.Typ[types.Bool]) {
			continue
		}
		for _, b := range fn.Blocks {
			for _, in := range b.Instrs {
				if ia, ok := in.(*ssa.IndexAddr); ok && ia.X == ssa.Value(fn.Params[0]) {
					if ic, ok := ia.Index.(*ssa.Const); ok && ic.Value != nil && constant.Sign(ic.Value) == 0 {
						byteReader[fn] = true
					}
				}
			}
		}
	}
	// dispatch: partial evaluation per tag
	isTagCmp := func(v ssa.Value) (int64, bool) {
		bo, ok := v.(*ssa.BinOp)
		if !ok || bo.Op != token.EQL || !types.Identical(bo.X.Type(), fieldType) {
			return 0, false
		}
		k, ok := bo.Y.(*ssa.Const)
		if !ok || k.Value == nil {
			return 0, false
		}
		n, _ := constant.Int64Val(k.Value)
		return n, true
	}
	dispatches := func(fn *ssa.Function) bool {
		for _, b := range fn.Blocks {
			if len(b.Instrs) == 0 {
				continue
			}
			if iff, ok := b.Instrs[len(b.Instrs)-1].(*ssa.If); ok {
				if _, isCmp := isTagCmp(iff.Cond); isCmp {
					return true
				}
			}
		}
		return false
	}
	type found struct {
		sites map[*rsite]bool
		bytes map[*ssa.Function]bool
	}
	var reach func(fn *ssa.Function, tag int64, depth int, acc *found)
	reach = func(fn *ssa.Function, tag int64, depth int, acc *found) {
		if depth > 4 || len(fn.Blocks) == 0 {
			return
		}
		seen := map[*ssa.BasicBlock]bool{}
		var walk func(b *ssa.BasicBlock)
		walk = func(b *ssa.BasicBlock) {
			if seen[b] {
				return
			}
			seen[b] = true
			for _, in := range b.Instrs {
				call, ok := in.(*ssa.Call)
				if !ok {
					continue
				}
				if rs := siteOf[call]; rs != nil {
					acc.sites[rs] = true
					continue
				}
				if sc := call.Call.StaticCallee(); sc != nil && sc.Blocks != nil && sc.Pkg == fn.Pkg {
					if byteReader[sc] {
						acc.bytes[sc] = true
					}
					if readers[sc] || passesTag(call, fieldType) || dispatches(sc) {
						reach(sc, tag, depth+1, acc)
					}
				}
			}
			if iff, ok := b.Instrs[len(b.Instrs)-1].(*ssa.If); ok {
				if k, isCmp := isTagCmp(iff.Cond); isCmp {
					if k == tag {
						walk(b.Succs[0])
					} else {
						walk(b.Succs[1])
					}
					return
				}
			}
			for _, s := range b.Succs {
				walk(s)
			}
		}
		walk(fn.Blocks[0])
	}
	var entries []*ssa.Function
	for _, fn := range fns {
		if dispatches(fn) {
			entries = append(entries, fn)
		}
	}
	c.Note(fmt.Sprintf("%s: %d writer rows, %d codec read sites, %d tag-dispatching functions", rule, len(writers), len(siteOf), len(entries)))
	sort.Slice(writers, func(i, j int) bool { return FnName(writers[i].fn) < FnName(writers[j].fn) })
	pair := map[string]string{"PutUint16": "Uint16", "PutUint32": "Uint32", "PutUint64": "Uint64", "byte": "byte"}
	for _, w := range writers {
		c.Analysed(FnName(w.fn))
		nReaders := 0
		for _, e := range entries {
			acc := &found{sites: map[*rsite]bool{}, bytes: map[*ssa.Function]bool{}}
			reach(e, w.tag, 0, acc)
			if w.codec == "byte" {
				for r := range acc.bytes {
					nReaders++
					construct := fmt.Sprintf("%s writes %s -> read by %s via %s", FnName(w.fn), tagName[w.tag], FnName(r), FnName(e))
					c.Check(w.width >= 1 && w.offset == 1, rule, construct, c.P.Pos(w.fn.Pos()), "one payload byte at offset 1, read as byte 0 of the value", "bool payload is not a single byte at offset 1")
				}
				continue
			}
			for rs := range acc.sites {
				nReaders++
				construct := fmt.Sprintf("%s writes %s -> read by %s via %s", FnName(w.fn), tagName[w.tag], FnName(rs.fn), FnName(e))
				ok := pair[w.codec] == rs.codec && rs.width == w.width && w.order == rs.order && w.offset == 1 && rs.convOK
				c.Check(ok, rule, construct, c.P.Pos(rs.call.Pos()),
					fmt.Sprintf("payload %d byte(s) at offset 1, %s/%s, order %s on both sides, width-preserving first conversion", w.width, w.codec, rs.codec, w.order),
					fmt.Sprintf("writer: %d payload byte(s) at offset %d via %s (%s); reader requires %d byte(s) via %s (%s) %s: the value does not read back (width, codec, byte order or sign is lost)", w.width, w.offset, w.codec, w.order, rs.width, rs.codec, rs.order, rs.conv))
			}
		}
		if nReaders == 0 {
			c.Bad(rule, FnName(w.fn)+" writes "+tagName[w.tag], c.P.Pos(w.fn.Pos()), "no reader is reached under this tag: the value cannot be read back")
		}
	}
	c.Floor(rule, 6)
}

func passesTag(call *ssa.Call, fieldType *types.Named) bool {
	for _, a := range call.Call.Args {
		if types.Identical(a.Type(), fieldType) {
			return true
		}
	}
	return false
}

// ---- CHECKER -----------------------------------------------------------------------------------

func ruleC13Checker(c *Ctx) {
	p := c.P
	cg := p.CallGraph()
	isW := p.isBoltWrite()
	sum := cg.Summarize(isW)
	checkerT := p.Named("boltz", "FieldChecker")
	proceed := p.Method("boltz", "TypedBucket", "ProceedWithSet")
	pcProceed := p.Method("boltz", "PersistContext", "ProceedWithSet")
	pcChecker := p.Field("boltz", "PersistContext", "FieldChecker")
	tb := p.Named("boltz", "TypedBucket")
	pc := p.Named("boltz", "PersistContext")
	takesChecker := func(f *types.Func) (nameIdx, chkIdx int) {
		nameIdx, chkIdx = -1, -1
		sig := f.Type().(*types.Signature)
		for i := 0; i < sig.Params().Len(); i++ {
			t := sig.Params().At(i).Type()
			if types.Identical(t, checkerT) {
				chkIdx = i
			}
			if nameIdx < 0 && types.Identical(t, types.Typ[types.String]) {
				nameIdx = i
			}
		}
		return
	}
	for _, fn := range c.prodFuncs("boltz") {
		obj, _ := fn.Object().(*types.Func)
		if obj == nil || fn.Signature.Recv() == nil {
			continue
		}
		recvN := namedOf(fn.Signature.Recv().Type())
		if recvN != tb && recvN != pc {
			continue
		}
		nameIdx, chkIdx := takesChecker(obj)
		isPC := recvN == pc
		if !isPC && chkIdx < 0 {
			continue
		}
		if obj == proceed || obj == pcProceed {
			continue
		}
		if isPC && nameIdx < 0 {
			continue
		}
		name := FnName(fn)
		c.Analysed(name)
		fi := ComputeFacts(fn)
		var nameP, chkP ssa.Value
		if nameIdx >= 0 {
			nameP = fn.Params[nameIdx+1]
		}
		if chkIdx >= 0 {
			chkP = fn.Params[chkIdx+1]
		}
		guarded := func(b *ssa.BasicBlock) bool {
			return fi.HoldsWhere(b, func(f Fact) bool {
				if f.Kind != "true" || !f.Pol {
					return false
				}
				call, ok := f.V.(*ssa.Call)
				if !ok {
					return false
				}
				cal, _ := calleeOf(call.Common())
				if cal == proceed && len(call.Call.Args) == 3 {
					if call.Call.Args[1] != nameP {
						return false
					}
					if isPC {
						f2, base := loadedField(call.Call.Args[2])
						return sameVar(f2, pcChecker) && base == ssa.Value(fn.Params[0])
					}
					return call.Call.Args[2] == chkP && call.Call.Args[0] == ssa.Value(fn.Params[0])
				}
				if isPC && cal == pcProceed && len(call.Call.Args) == 2 {
					return call.Call.Args[0] == ssa.Value(fn.Params[0]) && call.Call.Args[1] == nameP
				}
				return false
			})
		}
		nW, bad := 0, 0
		for _, call := range callsIn(fn) {
			may := isW(call)
			chain := ""
			if !may {
				may, chain = sum.CallMay(call.Common())
			}
			if !may {
				continue
			}
			nW++
			cal, _ := calleeOf(call.Common())
			// forwarding to a checker-taking setter with own name and own checker
			if cal != nil {
				ni, ci := takesChecker(cal)
				if ci >= 0 && ni >= 0 && cal.Type().(*types.Signature).Recv() != nil {
					args := call.Common().Args[1:]
					if ni < len(args) && ci < len(args) && args[ni] == nameP {
						if !isPC && args[ci] == chkP {
							continue
						}
						if isPC {
							if f2, base := loadedField(args[ci]); sameVar(f2, pcChecker) && base == ssa.Value(fn.Params[0]) {
								continue
							}
						}
					}
				}
			}
			if guarded(call.Block()) {
				continue
			}
			bad++
			c.Bad("C13.CHECKER", name+": "+describeInstr(call), p.Pos(call.Pos()), "a write ("+chain+") is neither under ProceedWithSet(name, checker) with this method's own field name and checker nor forwarded to a setter with them: a field-restricted update can touch an unselected field")
		}
		if nW > 0 && bad == 0 {
			c.OK("C13.CHECKER", name, p.Pos(fn.Pos()), fmt.Sprintf("%d write site(s), all under ProceedWithSet(own name, own checker) or forwarded with them", nW))
		}
	}
	c.Floor("C13.CHECKER", 18)
}

// ---- NIL ---------------------------------------------------------------------------------------

func ruleC13Nil(c *Ctx) {
	p := c.P
	typeNil := constInt(p.Obj("boltz", "TypeNil"))
	typeString := constInt(p.Obj("boltz", "TypeString"))
	// GetTypeAndValue
	g := p.SSAFunc(p.Func("boltz", "GetTypeAndValue"))
	c.Analysed(FnName(g))
	fi := ComputeFacts(g)
	okG := true
	why := ""
	for _, r := range returnsOf(g) {
		t, v := r.Results[0], r.Results[1]
		if k, isK := t.(*ssa.Const); isK {
			n, _ := constant.Int64Val(k.Value)
			if n != typeNil || !isNilConst(v) {
				okG, why = false, "a constant tag other than (TypeNil, nil) is returned"
			}
			continue
		}
		// tag must be byte 0 of the input; value nil or input[1:]
		if !isNilConst(v) {
			sl, isS := v.(*ssa.Slice)
			lo := int64(-1)
			if isS {
				if lc, ok := sl.Low.(*ssa.Const); ok && lc.Value != nil {
					lo, _ = constant.Int64Val(lc.Value)
				}
			}
			if !isS || sl.X != ssa.Value(g.Params[0]) || lo != 1 || sl.High != nil {
				okG, why = false, "the value is not input[1:]"
			}
		}
	}
	_ = fi
	c.Check(okG, "C13.NIL", "boltz.GetTypeAndValue", p.Pos(g.Pos()), "empty input decodes to (TypeNil,nil); otherwise tag = byte 0 and value = input[1:] or nil", why)

	// setTyped: TypeNil byte exactly when fieldType == TypeNil || value == nil
	put := p.ExtMethod(bboltPath, "Bucket", "Put")
	prepend := p.Func("boltz", "PrependFieldType")
	// the typed writer: by name, or — when that helper was renamed and reshaped — the method of the typed bucket
	// that takes a type tag and a value and stores PrependFieldType(tag, value)
	var st *ssa.Function
	if m := p.MethodOpt("boltz", "TypedBucket", "setTyped"); m != nil {
		st = p.SSAFunc(m)
	} else {
		tb := p.Named("boltz", "TypedBucket")
		for mi := 0; mi < tb.NumMethods(); mi++ {
			// (the helper itself, also when every call of it was expanded in place)
			fn := p.SSA.FuncValue(tb.Method(mi))
			if fn == nil || fn.Blocks == nil || len(fn.Params) < 3 || len(fn.Params) > 4 {
				continue
			}
			var tp, vp *ssa.Parameter
			for _, prm := range fn.Params[1:] {
				if n := namedOf(prm.Type()); n != nil && n.Obj().Name() == "FieldType" {
					tp = prm
				}
				if sl, isSl := prm.Type().Underlying().(*types.Slice); isSl && types.Identical(sl.Elem(), types.Typ[types.Byte]) {
					vp = prm
				}
			}
			if tp == nil || vp == nil {
				continue
			}
			var tagged ssa.Value
			for _, call := range callsIn(fn) {
				if isCallTo(call, prepend) && len(call.Common().Args) == 2 && call.Common().Args[0] == ssa.Value(tp) && call.Common().Args[1] == ssa.Value(vp) {
					tagged, _ = call.(ssa.Value)
				}
			}
			if tagged == nil {
				continue
			}
			for _, call := range callsIn(fn) {
				if !isCallTo(call, put) || len(call.Common().Args) != 3 {
					continue
				}
				for _, leaf := range phiLeaves(call.Common().Args[2]) {
					if leaf == tagged && st == nil {
						st = fn
					}
				}
			}
		}
		if st == nil {
			c.Undecided("C13.NIL", "boltz.TypedBucket: typed writer", "-", "no method of the typed bucket stores PrependFieldType(tag, value) for a tag and a value it is given")
			return
		}
		c.Note("C13.NIL: the typed writer is " + FnName(st) + " (found by what it does)")
	}
	c.Analysed(FnName(st))
	fi2 := ComputeFacts(st)
	// the type tag parameter and the value parameter, by type (their position is not fixed)
	var typePrm, valuePrm *ssa.Parameter
	for _, prm := range st.Params {
		if n := namedOf(prm.Type()); n != nil && n.Obj().Name() == "FieldType" {
			typePrm = prm
		}
		if sl, isSl := prm.Type().Underlying().(*types.Slice); isSl && types.Identical(sl.Elem(), types.Typ[types.Byte]) {
			valuePrm = prm
		}
	}
	if typePrm == nil || valuePrm == nil {
		c.Undecided("C13.NIL", "boltz.TypedBucket.setTyped", p.Pos(st.Pos()), "setTyped no longer takes a FieldType and a []byte value")
		return
	}
	okS, whyS := true, ""
	nPut := 0
	for _, call := range callsIn(st) {
		if !isCallTo(call, put) {
			continue
		}
		// the encodings written here: the value itself, or — when one Put writes a value chosen earlier —
		// each alternative together with the facts of the edge it arrives on
		type enc struct {
			val   ssa.Value
			facts factSet
		}
		var encs []enc
		if phi, isPhi := call.Common().Args[2].(*ssa.Phi); isPhi {
			for i, e := range phi.Edges {
				encs = append(encs, enc{e, fi2.outFacts(phi.Block().Preds[i], phi.Block())})
			}
		} else {
			encs = append(encs, enc{call.Common().Args[2], fi2.At(call.Block())})
		}
		for _, e := range encs {
			nPut++
			val := e.val
			nilEnc := false
			if sl, ok := val.(*ssa.Slice); ok {
				if al, ok := sl.X.(*ssa.Alloc); ok {
					if arr, ok := derefType(al.Type()).Underlying().(*types.Array); ok && arr.Len() == 1 {
						nilEnc = true
					}
				}
			}
			valueNonNil := e.facts[Fact{"nonnil", valuePrm, true}]
			typeNotNil := false
			for f := range e.facts {
				if f.Kind != "true" {
					continue
				}
				if bo, ok := f.V.(*ssa.BinOp); ok && bo.X == ssa.Value(typePrm) && ((bo.Op == token.EQL && !f.Pol) || (bo.Op == token.NEQ && f.Pol)) {
					typeNotNil = true
				}
			}
			if nilEnc {
				if valueNonNil && typeNotNil {
					okS, whyS = false, "the nil encoding is written although the value is non-nil and the type is not TypeNil"
				}
			} else {
				pc, ok := val.(*ssa.Call)
				if !ok || !isCallTo(pc, prepend) || pc.Call.Args[0] != ssa.Value(typePrm) || pc.Call.Args[1] != ssa.Value(valuePrm) {
					okS, whyS = false, "a non-nil value is not written as PrependFieldType(fieldType, value)"
				} else if !valueNonNil {
					okS, whyS = false, "PrependFieldType encoding is used on a path where value may be nil (null would be stored as an empty value of the type)"
				}
			}
		}
	}
	if nPut < 2 {
		okS, whyS = false, "expected two encodings (nil / tagged)"
	}
	c.Check(okS, "C13.NIL", "boltz.TypedBucket.setTyped", p.Pos(st.Pos()), "null is the single TypeNil byte; everything else is tag+value, used only when value != nil", whyS)

	// FieldToString: TypeString -> non-nil pointer (BytesToString never returns nil); TypeNil -> nil
	bts := p.SSAFunc(p.Func("boltz", "BytesToString"))
	okB := true
	for _, r := range returnsOf(bts) {
		if _, isAlloc := r.Results[0].(*ssa.Alloc); !isAlloc {
			okB = false
		}
	}
	c.Check(okB, "C13.NIL", "boltz.BytesToString", p.Pos(bts.Pos()), "always returns a non-nil pointer, so an empty string stays distinct from null", "may return nil: the empty string would read back as null")
	fts := p.SSAFunc(p.Func("boltz", "FieldToString"))
	okF, whyF := false, "no BytesToString call under fieldType == TypeString"
	for _, b := range fts.Blocks {
		for _, in := range b.Instrs {
			if call, ok := in.(*ssa.Call); ok && isCallTo(call, bts.Object().(*types.Func)) {
				// reached when tag == TypeString under partial evaluation
				if reachableUnderTag(fts, typeString, call) {
					okF = true
				}
			}
		}
	}
	if !okF {
		// whatever the dispatch looks like (a table of per-type functions indexed by the tag): decided by running
		// FieldToString with the tag TypeString and looking at what it returns
		res, derr := Decide(fts, func(v ssa.Value) (AV, bool) {
			if len(fts.Params) == 2 {
				if v == ssa.Value(fts.Params[0]) {
					return avInt(typeString), true
				}
				if v == ssa.Value(fts.Params[1]) {
					return AV{Kind: "nonnil", Sym: "payload"}, true
				}
			}
			return AV{}, false
		}, nil)
		if derr == "" && len(res) == 1 && res[0].Kind == "nonnil" {
			okF = true
		} else if derr != "" {
			whyF += " (and the function could not be evaluated for that tag: " + derr + ")"
		}
	}
	c.Check(okF, "C13.NIL", "boltz.FieldToString", p.Pos(fts.Pos()), "TypeString decodes through BytesToString (non-nil)", whyF)
	_ = strings.TrimSpace
}

// reachableUnderTag: partial evaluation of fn's tag comparisons with the given tag reaches instr.
func reachableUnderTag(fn *ssa.Function, tag int64, target ssa.Instruction) bool {
	seen := map[*ssa.BasicBlock]bool{}
	found := false
	var walk func(b *ssa.BasicBlock)
	walk = func(b *ssa.BasicBlock) {
		if seen[b] || found {
			return
		}
		seen[b] = true
		for _, in := range b.Instrs {
			if in == target {
				found = true
				return
			}
		}
		if iff, ok := b.Instrs[len(b.Instrs)-1].(*ssa.If); ok {
			if bo, ok := iff.Cond.(*ssa.BinOp); ok && bo.Op == token.EQL {
				if k, ok := bo.Y.(*ssa.Const); ok && k.Value != nil && bo.X == ssa.Value(fn.Params[0]) {
					n, _ := constant.Int64Val(k.Value)
					if n == tag {
						walk(b.Succs[0])
					} else {
						walk(b.Succs[1])
					}
					return
				}
			}
		}
		for _, s := range b.Succs {
			walk(s)
		}
	}
	walk(fn.Blocks[0])
	return found
}

// ---- CODEC -------------------------------------------------------------------------------------

func ruleC13Codec(c *Ctx) {
	p := c.P
	maxK := constInt(p.Obj("boltz", "MaxLinkedSetKeySize"))
	enc := p.SSAFunc(p.Func("boltz", "EncodeByteSlice"))
	dec := p.SSAFunc(p.Func("boltz", "DecodeNext"))
	c.Analysed(FnName(enc))
	c.Analysed(FnName(dec))
	hasCall := func(fn *ssa.Function, pkg, name string) bool {
		for _, call := range callsIn(fn) {
			if cal, _ := calleeOf(call.Common()); cal != nil && cal.Pkg() != nil && cal.Pkg().Path() == pkg && cal.Name() == name {
				return true
			}
		}
		return false
	}
	boundUsed := func(fn *ssa.Function) bool {
		for _, b := range fn.Blocks {
			for _, in := range b.Instrs {
				if bo, ok := in.(*ssa.BinOp); ok && (bo.Op == token.GTR || bo.Op == token.GEQ) {
					if k, ok := bo.Y.(*ssa.Const); ok && k.Value != nil {
						if n, _ := constant.Int64Val(k.Value); n == maxK {
							return true
						}
					}
				}
			}
		}
		return false
	}
	// the encoder's buffer has room for the longest length prefix the bound allows, and the payload
	// is appended in full
	{
		need := int64(1)
		for v := maxK; v >= 0x80; v >>= 7 {
			need++
		}
		okBuf, whyBuf := false, "no make([]byte, k+len(value)) buffer found"
		for _, b := range enc.Blocks {
			for _, in := range b.Instrs {
				ms, isMS := in.(*ssa.MakeSlice)
				if !isMS {
					continue
				}
				if bo, isB := ms.Len.(*ssa.BinOp); isB && bo.Op == token.ADD {
					for _, pair := range [][2]ssa.Value{{bo.X, bo.Y}, {bo.Y, bo.X}} {
						if k, isK := pair[0].(*ssa.Const); isK && k.Value != nil {
							if n, _ := constant.Int64Val(k.Value); n >= need {
								okBuf = true
							} else {
								whyBuf = fmt.Sprintf("the buffer reserves %d byte(s) for the length prefix but values up to MaxLinkedSetKeySize=%d need %d: the tail of long components is cut off", n, maxK, need)
							}
						}
					}
				}
			}
		}
		// ... or the prefix is written into an array of its own (and appended afterwards: append grows as needed)
		for _, call := range callsIn(enc) {
			cal, _ := calleeOf(call.Common())
			if cal == nil || cal.Pkg() == nil || cal.Pkg().Path() != "encoding/binary" || cal.Name() != "PutUvarint" {
				continue
			}
			if n, isArr := byteArrayLen(call.Common().Args[0]); isArr {
				if n >= need {
					okBuf = true
				} else {
					whyBuf = fmt.Sprintf("the length prefix is written into an array of %d byte(s) but values up to MaxLinkedSetKeySize=%d need %d", n, maxK, need)
				}
			}
		}
		// ... or appended outright (binary.AppendUvarint grows the destination as needed)
		if hasCall(enc, "encoding/binary", "AppendUvarint") && !hasCall(enc, "encoding/binary", "PutUvarint") {
			okBuf = true
		}
		c.Check(okBuf, "C13.CODEC", "boltz.EncodeByteSlice: prefix room", p.Pos(enc.Pos()), fmt.Sprintf("the buffer reserves at least %d byte(s) for the uvarint length prefix", need), whyBuf)
	}
	// every PutUvarint in the package writes into a buffer whose room for the prefix is evident
	{
		need := int64(1)
		for v := maxK; v >= 0x80; v >>= 7 {
			need++
		}
		for _, fn := range c.prodFuncs("boltz") {
			for _, call := range callsIn(fn) {
				cal, _ := calleeOf(call.Common())
				if cal == nil || cal.Pkg() == nil || cal.Pkg().Path() != "encoding/binary" || cal.Name() != "PutUvarint" {
					continue
				}
				dst := call.Common().Args[0]
				for i := 0; i < 4; i++ {
					if sl, isSl := dst.(*ssa.Slice); isSl {
						dst = sl.X
					}
				}
				construct := FnName(fn) + ": PutUvarint destination"
				if n, isArr := byteArrayLen(call.Common().Args[0]); isArr {
					c.Check(n >= need, "C13.CODEC", construct, p.Pos(call.Pos()), "written into a local array that is long enough for the longest prefix", fmt.Sprintf("the length prefix is written into an array of %d byte(s); %d are needed for lengths up to the bound", n, need))
					continue
				}
				ms, isMS := dst.(*ssa.MakeSlice)
				if !isMS {
					c.Undecided("C13.CODEC", construct, p.Pos(call.Pos()), "the destination of the length prefix is not a buffer made in this function: its room for the prefix cannot be established")
					continue
				}
				okRoom := false
				if k, isK := ms.Len.(*ssa.Const); isK && k.Value != nil {
					if n, _ := constant.Int64Val(k.Value); n >= 10 {
						okRoom = true
					}
				}
				if bo, isB := ms.Len.(*ssa.BinOp); isB && bo.Op == token.ADD {
					for _, v := range []ssa.Value{bo.X, bo.Y} {
						if k, isK := v.(*ssa.Const); isK && k.Value != nil {
							if n, _ := constant.Int64Val(k.Value); n >= need {
								okRoom = true
							}
						}
					}
				}
				if okRoom {
					c.OK("C13.CODEC", construct, p.Pos(call.Pos()), "written into a buffer that reserves a constant number of bytes sufficient for the longest prefix")
				} else {
					c.Undecided("C13.CODEC", construct, p.Pos(call.Pos()), "the buffer size is computed by hand ("+describeValue(ms.Len)+"): that it leaves room for the uvarint prefix of every admissible length (1 byte below 128, 2 bytes from 128 on) is an arithmetic fact this checker does not decide")
				}
			}
		}
	}
	c.Check((hasCall(enc, "encoding/binary", "PutUvarint") || hasCall(enc, "encoding/binary", "AppendUvarint")) && hasCall(dec, "encoding/binary", "Uvarint"), "C13.CODEC", "boltz compound key: varint pair", p.Pos(enc.Pos()), "encoder writes the length with PutUvarint/AppendUvarint, decoder reads it with Uvarint", "length prefix encoder/decoder primitives do not match")
	c.Check(boundUsed(enc) && boundUsed(dec), "C13.CODEC", "boltz compound key: shared bound", p.Pos(dec.Pos()), "both sides compare against MaxLinkedSetKeySize", "encoder and decoder do not enforce the same MaxLinkedSetKeySize bound")
	// slices in DecodeNext are dominated by the tests that make them in-bounds
	fi := ComputeFacts(dec)
	for _, b := range dec.Blocks {
		for _, in := range b.Instrs {
			sl, ok := in.(*ssa.Slice)
			if !ok {
				continue
			}
			if bs, isBytes := sl.X.Type().Underlying().(*types.Slice); !isBytes || !types.Identical(bs.Elem(), types.Typ[types.Byte]) {
				continue // varargs packaging, not a slice of the key
			}
			construct := "boltz.DecodeNext: slice " + sl.Name()
			guard := fi.HoldsWhere(b, func(f Fact) bool {
				if f.Kind != "true" || f.Pol {
					return false
				}
				bo, ok := f.V.(*ssa.BinOp)
				return ok && bo.Op == token.LSS
			})
			c.Check(guard, "C13.CODEC", construct, p.Pos(sl.Pos()), "slice expression is on the not-less-than side of a length/count test", "a slice expression is not dominated by the test that keeps it in bounds (truncated key ⇒ panic)")
		}
	}
	// DecodeStringSlice loops until the input is empty and fails on any error
	dss := p.SSAFunc(p.Func("boltz", "DecodeStringSlice"))
	ok := len(loopsOf(dss)) == 1
	c.Check(ok, "C13.CODEC", "boltz.DecodeStringSlice", p.Pos(dss.Pos()), "decodes in a loop until the input is consumed", "does not loop over the whole input")
	// the bound is per component: the encoder joins any number of components, so the decoder must not refuse a key
	// for its total length (unless the encoder refuses to produce it)
	totalBound := func(fn *ssa.Function) (token.Pos, bool) {
		for _, b := range fn.Blocks {
			for _, in := range b.Instrs {
				bo, isBo := in.(*ssa.BinOp)
				if !isBo {
					continue
				}
				l, r, op := bo.X, bo.Y, bo.Op
				if _, isK := intConst(l); isK {
					l, r = r, l
					switch op {
					case token.LSS:
						op = token.GTR
					case token.LEQ:
						op = token.GEQ
					default:
						op = token.ILLEGAL
					}
				}
				k, isK := intConst(r)
				x := lenOf(l)
				if !isK || k < 1 || x == nil || (op != token.GTR && op != token.GEQ) {
					continue
				}
				// the whole input: a []byte parameter, or the loop variable that starts as one / an accumulated output
				whole := false
				seen := map[ssa.Value]bool{}
				var walk func(v ssa.Value, d int)
				walk = func(v ssa.Value, d int) {
					if v == nil || seen[v] || d > 4 {
						return
					}
					seen[v] = true
					switch y := v.(type) {
					case *ssa.Parameter:
						if sl, isSl := y.Type().Underlying().(*types.Slice); isSl && types.Identical(sl.Elem(), types.Typ[types.Byte]) {
							whole = true
						}
					case *ssa.Phi:
						for _, e := range y.Edges {
							walk(e, d+1)
						}
					}
				}
				walk(x, 0)
				if whole {
					return bo.Pos(), true
				}
			}
		}
		return token.NoPos, false
	}
	es := p.SSAFunc(p.Func("boltz", "EncodeStringSlice"))
	encBounded := false
	for _, b := range es.Blocks {
		for _, in := range b.Instrs {
			if bo, isBo := in.(*ssa.BinOp); isBo && (bo.Op == token.GTR || bo.Op == token.GEQ || bo.Op == token.LSS || bo.Op == token.LEQ) {
				if (lenOf(bo.X) != nil || lenOf(bo.Y) != nil) && !func() bool { _, a := intConst(bo.X); _, b := intConst(bo.Y); return !a && !b }() {
					if kx, isK := intConst(bo.Y); isK && kx >= 1 {
						encBounded = true
					}
				}
			}
		}
	}
	if !encBounded {
		for _, fn := range []*ssa.Function{dss, dec} {
			pos, has := totalBound(fn)
			c.Check(!has, "C13.CODEC", FnName(fn)+": no bound on the whole key", p.Pos(fn.Pos()), "the decoder compares only component lengths against a bound", "the decoder refuses a key by the length of its whole input (at "+p.Pos(pos)+"): the encoder bounds each component but joins any number of them, so a list it encodes without error does not decode")
		}
	}
	c.Floor("C13.CODEC", 5)
}

// ---- LIST --------------------------------------------------------------------------------------

func ruleC13List(c *Ctx) {
	p := c.P
	empty := p.Method("boltz", "TypedBucket", "EmptyBucket")
	setEntry := p.Method("boltz", "TypedBucket", "SetListEntry")
	for _, m := range []string{"SetStringList", "GetAndSetStringList"} {
		fn := p.SSAFunc(p.Method("boltz", "TypedBucket", m))
		c.Analysed(FnName(fn))
		ri := reachWithout(fn, func(in ssa.Instruction) bool { return isCallTo(in, empty) })
		ok, n := true, 0
		for _, call := range callsIn(fn) {
			if isCallTo(call, setEntry) {
				n++
				if ri.Reaches(call) {
					ok = false
				}
				// entries go into the emptied bucket
				if ex, isEx := call.Common().Args[0].(*ssa.Extract); !isEx || !isCallTo(ex.Tuple.(ssa.Instruction), empty) {
					ok = false
				}
			}
		}
		c.Check(ok && n > 0, "C13.LIST", FnName(fn), p.Pos(fn.Pos()), "the list bucket is emptied before the new entries are written into it", "entries are written without first emptying the list bucket (stale elements survive)")
	}
}

// byteArrayLen: v is a slice of a whole local byte array ([N]byte, sliced from 0); returns N.
func byteArrayLen(v ssa.Value) (int64, bool) {
	sl, ok := v.(*ssa.Slice)
	if !ok {
		return 0, false
	}
	if sl.Low != nil {
		if k, isK := sl.Low.(*ssa.Const); !isK || k.Value == nil || k.Int64() != 0 {
			return 0, false
		}
	}
	if sl.High != nil {
		return 0, false
	}
	al, ok := sl.X.(*ssa.Alloc)
	if !ok {
		return 0, false
	}
	arr, ok := derefType(al.Type()).Underlying().(*types.Array)
	if !ok || !types.Identical(arr.Elem(), types.Typ[types.Byte]) {
		return 0, false
	}
	return arr.Len(), true
}
