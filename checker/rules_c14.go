package main

import (
	"fmt"
	"go/constant"
	"go/token"
	"go/types"
	"sort"
	"strings"

	"golang.org/x/tools/go/ssa"
)

func init() {
	register(&Property{
		ID:          "C14",
		Title:       "Every set cursor enumerates its set exactly, in order, and seeks correctly",
		Technique:   "static analysis: key-provenance dataflow (raw tagged key / nil-safe stripped / nil-unsafe stripped / derived) over every store to a cursor's position field, seek-argument tag rule, nil-guard rule for llrb nodes, forward/reverse constructor-primitive agreement table; complete decision table of the union cursor",
		LevelText:   "Decides, for every cursor type in boltz and ast, structural necessary conditions of the contract: a typed cursor never exposes a storage type tag and never confuses a present element with exhaustion (position field provenance), Seek prepends the tag exactly when Current strips it, tree cursors never dereference an absent node, and forward/reverse variants use the matching bbolt primitives and are selected by the matching flag value. Exact enumeration on real buckets, bbolt's Seek semantics and llrb ordering are trusted, not decided. unionSetCursor.Next is decided over (first valid, second valid, compare result, direction): which element becomes current and which inputs advance. Added later: IterateIds hands out only the filtering scanner or, without a bucket, the empty cursor (IDCURSOR); a reverse cursor's Seek is decided for the three answers bbolt's Seek can give (past the end, later key, exact) and must step back in the first two and only there. Added in round 9: OpenSetCursor/OpenSetCursorForQuery hand out an object made by this very call (FRESHCURSOR). Added in round 10: a forward Seek is decided for bbolt's answers and must not move again; a reverse Seek stepping back through Next() needs Next() to step unconditionally; cursor families with the direction kept as a flag in a field are decided under the constructor's constant (DIRECTION); a function handing out a set cursor looks at its direction parameter (DIRPARAM). Added in round 11: ENTITYBUCKET as in C05 (related-entity cursors of child stores). Added in round 12: DIRPARAM also reads function literals. Added in round 13: BUCKETMEMO as in C13; the read side of an index reaches no bbolt write (READNOCREATE); IsValid compares the position with nil and the position is not the decoded value (VALIDNIL, VALIDSRC); NOTXSTATE as in C05; DIRPARAM is decided per handed-out cursor.",
		LevelNote:   "Trusted: go/types, x/tools SSA, bbolt cursor semantics (keys non-empty, nil at end), llrb. Provenance depth is bounded (4 levels through fields/returns); anything deeper is reported as undecided, never assumed.",
		DesignRef:   "DESIGN.md C14",
		Explanation: "Sites: every named struct type in boltz/ast with Next/IsValid/Current methods; every store to its position field; every call of bbolt Cursor.Seek inside its Seek methods; every dereference of an llrb node pointer in ast; every function that chooses a cursor constructor by a boolean direction flag.",
		Trusted:     []string{"go/types", "golang.org/x/tools/go/ssa v0.29.0", "bbolt cursor semantics", "github.com/biogo/store/llrb"},
		Rules:       rulesC14,
		Controls: []controlExpect{
			{"C14.POSITION", "zzControlBadCursorC14", true},
			{"C14.POSITION", "zzControlGoodCursorC14", false},
			{"C14.SEEKTAG", "zzControlBadCursorC14", true},
			{"C14.DIRCMP", "zzControlBad_C14_DIRCMP", true},
			{"C14.DIRCMP", "zzControlGood_C14_DIRCMP", false},
		},
	})
}

type kclass int

const (
	kNil kclass = 1 << iota
	kRaw
	kStripSafe
	kStripUnsafe
	kDerived
	kUnknown
)

func (k kclass) String() string {
	var s []string
	for _, x := range []struct {
		b kclass
		n string
	}{{kNil, "nil"}, {kRaw, "raw tagged key"}, {kStripSafe, "tag stripped (non-nil for every present key)"}, {kStripUnsafe, "GetTypeAndValue value (nil for a one-byte key)"}, {kDerived, "another cursor's Current()"}, {kUnknown, "unknown origin"}} {
		if k&x.b != 0 {
			s = append(s, x.n)
		}
	}
	return strings.Join(s, " | ")
}

type keyProv struct {
	c        *Ctx
	cg       *CG
	cursorFn map[*types.Func]bool
	getTV    *types.Func
	prepend  *types.Func
	fieldMem map[*types.Var]kclass
	busyF    map[*types.Var]bool
	busyP    map[*ssa.Parameter]bool
	stores   map[*types.Var][]*ssa.Store
}

func newKeyProv(c *Ctx) *keyProv {
	p := c.P
	k := &keyProv{c: c, cg: p.CallGraph(), cursorFn: map[*types.Func]bool{}, fieldMem: map[*types.Var]kclass{}, busyF: map[*types.Var]bool{}, busyP: map[*ssa.Parameter]bool{}, stores: map[*types.Var][]*ssa.Store{}}
	for _, m := range []string{"First", "Last", "Next", "Prev", "Seek"} {
		k.cursorFn[p.ExtMethod(bboltPath, "Cursor", m)] = true
	}
	k.getTV = p.Func("boltz", "GetTypeAndValue")
	k.prepend = p.Func("boltz", "PrependFieldType")
	for _, fn := range c.prodFuncs("boltz", "ast") {
		for _, b := range fn.Blocks {
			for _, in := range b.Instrs {
				if st, ok := in.(*ssa.Store); ok {
					if f, _ := fieldOfAddr(st.Addr); f != nil {
						k.stores[f.Origin()] = append(k.stores[f.Origin()], st)
					}
				}
			}
		}
	}
	return k
}

func (k *keyProv) classify(v ssa.Value, env map[ssa.Value]kclass, depth int) kclass {
	if depth > 5 {
		return kUnknown
	}
	if e, ok := env[v]; ok {
		return e
	}
	switch x := v.(type) {
	case *ssa.Const:
		if x.IsNil() {
			return kNil
		}
		return kUnknown
	case *ssa.Phi:
		var r kclass
		for _, e := range x.Edges {
			if e == v {
				continue
			}
			r |= k.classify(e, env, depth+1)
		}
		return r
	case *ssa.Slice:
		if x.Low != nil && x.High == nil {
			if lc, ok := x.Low.(*ssa.Const); ok && lc.Value != nil && constant.Sign(lc.Value) > 0 {
				if k.classify(x.X, env, depth+1)&kRaw != 0 {
					return kStripSafe
				}
			}
		}
		return kUnknown
	case *ssa.Extract:
		call, ok := x.Tuple.(*ssa.Call)
		if !ok {
			return kUnknown
		}
		return k.classifyCall(call, x.Index, env, depth)
	case *ssa.Call:
		return k.classifyCall(x, 0, env, depth)
	case *ssa.UnOp:
		if x.Op != token.MUL {
			return kUnknown
		}
		if f, _ := fieldOfAddr(x.X); f != nil {
			return k.fieldClass(f, depth)
		}
		return kUnknown
	case *ssa.Parameter:
		// unexported function: every caller is in the repository; union over the actual arguments
		fn := x.Parent()
		if fn == nil || fn.Object() == nil || fn.Object().Exported() || k.busyP[x] {
			return kUnknown
		}
		idx := -1
		for i, prm := range fn.Params {
			if prm == x {
				idx = i
			}
		}
		k.busyP[x] = true
		defer delete(k.busyP, x)
		var r kclass
		n := 0
		for _, caller := range k.cg.callers[fn] {
			for _, call := range callsIn(caller) {
				if cal, _ := calleeOf(call.Common()); cal == nil || cal != fn.Object() {
					continue
				}
				if idx < len(call.Common().Args) {
					n++
					r |= k.classify(call.Common().Args[idx], nil, depth+1)
				}
			}
		}
		if n == 0 {
			return kUnknown
		}
		return r
	}
	return kUnknown
}

func (k *keyProv) fieldClass(f *types.Var, depth int) kclass {
	f = f.Origin()
	if r, ok := k.fieldMem[f]; ok {
		return r
	}
	if k.busyF[f] {
		return 0
	}
	k.busyF[f] = true
	defer delete(k.busyF, f)
	var r kclass
	if len(k.stores[f]) == 0 {
		r = kNil
	}
	for _, st := range k.stores[f] {
		r |= k.classify(st.Val, nil, depth+1)
	}
	k.fieldMem[f] = r
	return r
}

func (k *keyProv) classifyCall(call *ssa.Call, idx int, env map[ssa.Value]kclass, depth int) kclass {
	cc := call.Common()
	cal, _ := calleeOf(cc)
	if cal != nil {
		if k.cursorFn[cal] {
			if idx == 0 {
				return kRaw | kNil
			}
			return kUnknown
		}
		if cal == k.prepend {
			return kRaw
		}
		if cal == k.getTV && idx == 1 {
			if k.classify(cc.Args[0], env, depth+1)&kRaw != 0 {
				return kStripUnsafe | kNil
			}
			return kUnknown
		}
		if cal.Name() == "Current" && idx == 0 {
			return kDerived
		}
	}
	// a positioning primitive kept as a bound method value in a field (advance: cursor.Next): every value the field
	// is ever given is such a primitive
	if cal == nil && !cc.IsInvoke() {
		if f, _ := loadedField(cc.Value); f != nil && len(k.stores[f.Origin()]) > 0 {
			all := true
			for _, st := range k.stores[f.Origin()] {
				v := st.Val
				if ct, isCT := v.(*ssa.ChangeType); isCT {
					v = ct.X
				}
				mc, isMC := v.(*ssa.MakeClosure)
				if !isMC {
					all = false
					break
				}
				bf, _ := mc.Fn.(*ssa.Function)
				obj, _ := func() (*types.Func, bool) {
					if bf == nil || !strings.HasSuffix(bf.Name(), "$bound") {
						return nil, false
					}
					o, ok := bf.Object().(*types.Func)
					return o, ok
				}()
				if obj == nil || !k.cursorFn[obj] {
					all = false
					break
				}
			}
			if all {
				if idx == 0 {
					return kRaw | kNil
				}
				return kUnknown
			}
		}
	}
	// repository callee(s): union over their returns, parameters bound to the actual classes
	var r kclass
	targets := k.cg.CalleesOf(cc)
	if len(targets) == 0 {
		return kUnknown
	}
	for _, t := range targets {
		env2 := map[ssa.Value]kclass{}
		args := cc.Args
		if cc.IsInvoke() {
			args = append([]ssa.Value{cc.Value}, args...)
		}
		for i, prm := range t.Params {
			if i < len(args) {
				if _, isBytes := prm.Type().Underlying().(*types.Slice); isBytes {
					env2[prm] = k.classify(args[i], env, depth+1)
				}
			}
		}
		for _, ret := range returnsOf(t) {
			if idx < len(ret.Results) {
				r |= k.classify(ret.Results[idx], env2, depth+1)
			}
		}
	}
	return r
}

type cursorType struct {
	named    *types.Named
	validFld *types.Var // field tested by IsValid (nil: delegating / length based)
	formB    bool       // Current strips the tag from validFld
	formA    bool       // Current returns validFld as is
	typed    bool       // has a FieldType field
}

func (c *Ctx) cursorTypes() []cursorType {
	p := c.P
	var out []cursorType
	fieldType := p.Named("boltz", "FieldType")
	getTV := p.Func("boltz", "GetTypeAndValue")
	for _, short := range []string{"boltz", "ast"} {
		scope := p.pkg(short).Types.Scope()
		names := scope.Names()
		sort.Strings(names)
		for _, n := range names {
			tn, ok := scope.Lookup(n).(*types.TypeName)
			if !ok {
				continue
			}
			named, ok := tn.Type().(*types.Named)
			if !ok {
				continue
			}
			st, ok := named.Underlying().(*types.Struct)
			if !ok {
				continue
			}
			ms := types.NewMethodSet(types.NewPointer(named))
			find := func(name string) *types.Func {
				if s := ms.Lookup(p.pkg(short).Types, name); s != nil {
					f, _ := s.Obj().(*types.Func)
					return f
				}
				return nil
			}
			next, valid, cur := find("Next"), find("IsValid"), find("Current")
			if next == nil || valid == nil || cur == nil {
				continue
			}
			if cur.Type().(*types.Signature).Results().Len() != 1 {
				continue
			}
			if sl, ok := cur.Type().(*types.Signature).Results().At(0).Type().Underlying().(*types.Slice); !ok || !types.Identical(sl.Elem(), types.Typ[types.Byte]) {
				continue
			}
			ct := cursorType{named: named}
			for i := 0; i < st.NumFields(); i++ {
				if types.Identical(st.Field(i).Type(), fieldType) {
					ct.typed = true
				}
			}
			vfn := p.SSA.FuncValue(valid)
			if vfn != nil && vfn.Blocks != nil {
				for _, r := range returnsOf(vfn) {
					if bo, ok := r.Results[0].(*ssa.BinOp); ok && bo.Op == token.NEQ && isNilConst(bo.Y) {
						if f, _ := loadedField(bo.X); f != nil {
							ct.validFld = f.Origin()
						}
					}
				}
			}
			cfn := p.SSA.FuncValue(cur)
			if cfn != nil && cfn.Blocks != nil && ct.validFld != nil {
				for _, r := range returnsOf(cfn) {
					v := r.Results[0]
					if f, _ := loadedField(v); sameVar(f, ct.validFld) {
						ct.formA = true
					}
					if ex, ok := v.(*ssa.Extract); ok && ex.Index == 1 {
						if call, ok := ex.Tuple.(*ssa.Call); ok && isCallTo(call, getTV) {
							if f, _ := loadedField(call.Call.Args[0]); sameVar(f, ct.validFld) {
								ct.formB = true
							}
						}
					}
				}
			}
			out = append(out, ct)
		}
	}
	return out
}

// ownerOf: the cursor type whose object the address chain is rooted in.
func ownerOf(addr ssa.Value, cts map[*types.Named]bool) *types.Named {
	for i := 0; i < 6 && addr != nil; i++ {
		if n := namedOf(addr.Type()); n != nil && cts[n] {
			// prefer the outermost cursor type (embedding struct)
			if fa, ok := addr.(*ssa.FieldAddr); ok {
				if outer := ownerOf(fa.X, cts); outer != nil {
					return outer
				}
			}
			return n
		}
		switch a := addr.(type) {
		case *ssa.FieldAddr:
			addr = a.X
		case *ssa.UnOp:
			addr = a.X
		default:
			return nil
		}
	}
	return nil
}

func rulesC14(c *Ctx) {
	p := c.P
	ruleC14Thread(c)
	ruleSeekAbsolute(c, "C14.SEEKABSOLUTE")
	ruleC14DirCompare(c)
	ruleIdCursorFiltered(c, "C14.IDCURSOR")
	cts := c.cursorTypes()
	c.Note(fmt.Sprintf("cursor types found: %d", len(cts)))
	kp := newKeyProv(c)
	isCT := map[*types.Named]bool{}
	byName := map[*types.Named]cursorType{}
	for _, ct := range cts {
		isCT[ct.named] = true
		byName[ct.named] = ct
	}
	// a type embedding a cursor type inherits its validity field (BaseBoltCursor)
	eff := func(n *types.Named) cursorType {
		ct := byName[n]
		if ct.validFld == nil || (!ct.formA && !ct.formB) {
			return ct
		}
		return ct
	}
	// ---- POSITION: provenance of every store to the validity field -----------------------
	type key struct {
		t *types.Named
		f string
	}
	results := map[key][]string{}
	bad := map[key][]string{}
	posOf := map[key]string{}
	for _, fn := range c.prodFuncs("boltz", "ast") {
		for _, b := range fn.Blocks {
			for _, in := range b.Instrs {
				st, ok := in.(*ssa.Store)
				if !ok {
					continue
				}
				fld, _ := fieldOfAddr(st.Addr)
				if fld == nil {
					continue
				}
				owner := ownerOf(st.Addr, isCT)
				if owner == nil {
					continue
				}
				ct := eff(owner)
				if ct.validFld == nil || !sameVar(fld, ct.validFld) {
					continue
				}
				c.Analysed(FnName(fn))
				cls := kp.classify(st.Val, nil, 0)
				k := key{owner, FnName(fn)}
				posOf[k] = p.Pos(st.Pos())
				var allowed kclass
				var rule string
				switch {
				case ct.formB:
					allowed = kNil | kRaw
					rule = "Current() strips the tag, so the position field must hold the raw key (nil only at the end)"
				case ct.formA && ct.typed:
					allowed = kNil | kStripSafe
					rule = "typed cursor returning its position field: it must hold the key without its tag, and be nil only at the end"
				case ct.formA:
					allowed = kNil | kRaw | kDerived
					rule = "untyped cursor: position field holds the bolt key or another cursor's element"
				default:
					continue
				}
				if cls&^allowed == 0 {
					results[k] = append(results[k], cls.String())
				} else {
					why := fmt.Sprintf("stores %s into the position field; %s", (cls &^ allowed).String(), rule)
					if cls&kStripUnsafe != 0 {
						why += " — a present empty-string element becomes indistinguishable from exhaustion"
					}
					if cls&kRaw != 0 && ct.typed {
						why += " — Current() would expose the storage type tag"
					}
					bad[k] = append(bad[k], why)
				}
			}
		}
	}
	var keys []key
	seenK := map[key]bool{}
	for k := range results {
		if !seenK[k] {
			seenK[k] = true
			keys = append(keys, k)
		}
	}
	for k := range bad {
		if !seenK[k] {
			seenK[k] = true
			keys = append(keys, k)
		}
	}
	sort.Slice(keys, func(i, j int) bool {
		if keys[i].t.Obj().Name() != keys[j].t.Obj().Name() {
			return keys[i].t.Obj().Name() < keys[j].t.Obj().Name()
		}
		return keys[i].f < keys[j].f
	})
	for _, k := range keys {
		construct := k.t.Obj().Pkg().Name() + "." + k.t.Obj().Name() + " position set in " + k.f
		if len(bad[k]) > 0 {
			c.Bad("C14.POSITION", construct, posOf[k], strings.Join(bad[k], "; "))
		} else {
			c.OK("C14.POSITION", construct, posOf[k], "stores: "+strings.Join(results[k], ", "))
		}
	}
	c.Floor("C14.POSITION", 12)

	// ---- SEEKTAG ---------------------------------------------------------------------------
	seek := p.ExtMethod(bboltPath, "Cursor", "Seek")
	for _, ct := range cts {
		for i := 0; i < ct.named.NumMethods(); i++ {
			m := ct.named.Method(i)
			if m.Name() != "Seek" && m.Name() != "SeekToString" {
				continue
			}
			fn := p.SSA.FuncValue(m)
			if fn == nil || fn.Blocks == nil {
				continue
			}
			for _, call := range callsIn(fn) {
				if !isCallTo(call, seek) {
					continue
				}
				c.Analysed(FnName(fn))
				construct := FnName(fn)
				arg := call.Common().Args[1]
				tagged := kp.classify(arg, nil, 0) == kRaw
				fromParam := derivesFromParam(arg, fn.Params[1], 0)
				wantTag := ct.formB || (ct.formA && ct.typed)
				switch {
				case ct.validFld == nil:
					c.OK("C14.SEEKTAG", construct, p.Pos(call.Pos()), "delegating cursor")
				case wantTag && tagged && fromParam:
					c.OK("C14.SEEKTAG", construct, p.Pos(call.Pos()), "keys carry a type tag (Current strips it) and the seek target is PrependFieldType(tag, value)")
				case !wantTag && arg == ssa.Value(fn.Params[1]):
					c.OK("C14.SEEKTAG", construct, p.Pos(call.Pos()), "untyped keys: the seek target is passed unchanged")
				case wantTag:
					c.Bad("C14.SEEKTAG", construct, p.Pos(call.Pos()), "elements are returned without their storage tag but the seek target is not PrependFieldType(tag, value): the cursor lands on the wrong element")
				default:
					c.Bad("C14.SEEKTAG", construct, p.Pos(call.Pos()), "untyped cursor seeks with a transformed value")
				}
			}
		}
	}
	c.Floor("C14.SEEKTAG", 6)

	ruleC14Reposition(c, cts, isCT)
	ruleFreshSetCursor(c, "C14.FRESHCURSOR", "boltz", "objectz")
	ruleC14Union(c)
	ruleC14Empty(c)
	ruleC14Direction(c, cts)
	ruleEntityBucketDescent(c, "C14.ENTITYBUCKET")
	ruleBucketMemoInvalidated(c, "C14.BUCKETMEMO")
	ruleReadIndexNoCreate(c, "C14.READNOCREATE")
	ruleNoTxStateInStores(c, "C14.NOTXSTATE")
	ruleCursorValidity(c, "C14.VALIDNIL", "C14.VALIDSRC", "boltz", "ast")
	ruleC14Wrap(c)
}

func kpClassify(c *Ctx, v ssa.Value) kclass {
	return newKeyProv(c).classify(v, nil, 0)
}

func derivesFromParam(v ssa.Value, prm ssa.Value, depth int) bool {
	if depth > 5 {
		return false
	}
	if v == prm {
		return true
	}
	switch x := v.(type) {
	case *ssa.Call:
		for _, a := range x.Call.Args {
			if derivesFromParam(a, prm, depth+1) {
				return true
			}
		}
	case *ssa.Convert:
		return derivesFromParam(x.X, prm, depth+1)
	case *ssa.ChangeType:
		return derivesFromParam(x.X, prm, depth+1)
	case *ssa.Slice:
		return derivesFromParam(x.X, prm, depth+1)
	}
	return false
}

// ---- EMPTY: llrb node pointers are nil-tested before use -------------------------------------

func ruleC14Empty(c *Ctx) {
	p := c.P
	nodeT := p.ExtNamed("github.com/biogo/store/llrb", "Node")
	isNodePtr := func(t types.Type) bool {
		pt, ok := t.(*types.Pointer)
		return ok && namedOf(pt.Elem()) == nodeT
	}
	cg := p.CallGraph()
	// functions dereferencing a *llrb.Node parameter without a guard
	unguardedParam := map[*ssa.Function]map[int]bool{}
	fns := c.prodFuncs("ast", "boltz", "objectz")
	derefs := func(fn *ssa.Function, v ssa.Value) []ssa.Instruction {
		var out []ssa.Instruction
		for _, r := range *v.Referrers() {
			switch x := r.(type) {
			case *ssa.FieldAddr:
				if x.X == v {
					out = append(out, x)
				}
			case *ssa.UnOp:
				if x.Op == token.MUL && x.X == v {
					out = append(out, x)
				}
			}
		}
		return out
	}
	for _, fn := range fns {
		fi := ComputeFacts(fn)
		for i, prm := range fn.Params {
			if !isNodePtr(prm.Type()) {
				continue
			}
			for _, d := range derefs(fn, prm) {
				if !fi.Holds(d.Block(), Fact{"nonnil", prm, true}) {
					if unguardedParam[fn] == nil {
						unguardedParam[fn] = map[int]bool{}
					}
					unguardedParam[fn][i] = true
				}
			}
		}
	}
	n := 0
	delegated := false // while true, a *llrb.Node parameter counts as guarded (the callers' obligation, checked at (2))
	var guardedAt func(fi *FactInfo, fs factSet, v ssa.Value, depth int) bool
	guardedAt = func(fi *FactInfo, fs factSet, v ssa.Value, depth int) bool {
		for f := range fs {
			if f.Kind == "nonnil" && f.Pol && sameAddr(f.V, v) {
				return true
			}
		}
		if _, isParam := v.(*ssa.Parameter); isParam && delegated {
			return true
		}
		// a join: non-nil when it is non-nil on every incoming edge (loop-carried values included)
		if phi, isPhi := v.(*ssa.Phi); isPhi && depth < 3 {
			for i, e := range phi.Edges {
				if e == ssa.Value(phi) {
					continue
				}
				pred := phi.Block().Preds[i]
				if !guardedAt(fi, fi.outFacts(pred, phi.Block()), e, depth+1) {
					return false
				}
			}
			return true
		}
		return false
	}
	guardedBy := func(fi *FactInfo, b *ssa.BasicBlock, v ssa.Value) bool {
		return guardedAt(fi, fi.At(b), v, 0)
	}
	// derefsDeep: dereferences of v itself or of a join that v flows into (with the value dereferenced)
	type derefSite struct {
		in  ssa.Instruction
		val ssa.Value
	}
	var derefsDeep func(fn *ssa.Function, v ssa.Value, seen map[ssa.Value]bool) []derefSite
	derefsDeep = func(fn *ssa.Function, v ssa.Value, seen map[ssa.Value]bool) []derefSite {
		if seen[v] {
			return nil
		}
		seen[v] = true
		var out []derefSite
		for _, d := range derefs(fn, v) {
			out = append(out, derefSite{d, v})
		}
		for _, r := range *v.Referrers() {
			if phi, ok := r.(*ssa.Phi); ok {
				out = append(out, derefsDeep(fn, phi, seen)...)
			}
		}
		return out
	}
	for _, fn := range fns {
		fi := ComputeFacts(fn)
		for i, prm := range fn.Params {
			if !isNodePtr(prm.Type()) {
				continue
			}
			for _, ds := range derefsDeep(fn, prm, map[ssa.Value]bool{}) {
				if !guardedBy(fi, ds.in.Block(), ds.val) {
					if unguardedParam[fn] == nil {
						unguardedParam[fn] = map[int]bool{}
					}
					unguardedParam[fn][i] = true
				}
			}
		}
	}
	delegated = true
	for _, fn := range fns {
		var fi *FactInfo
		for _, b := range fn.Blocks {
			for _, in := range b.Instrs {
				// (1) loads of node-pointer fields that are dereferenced directly
				if u, ok := in.(*ssa.UnOp); ok && u.Op == token.MUL && isNodePtr(u.Type()) {
					if fa, isField := u.X.(*ssa.FieldAddr); isField && isLLRB(fa.X.Type()) {
						for _, ds := range derefsDeep(fn, u, map[ssa.Value]bool{}) {
							d := ds.in
							if fi == nil {
								fi = ComputeFacts(fn)
							}
							n++
							construct := FnName(fn) + ": " + describeValue(u)
							c.Check(guardedBy(fi, d.Block(), ds.val), "C14.EMPTY", construct, p.Pos(d.Pos()), "node pointer is nil-tested before it is dereferenced", "an llrb node pointer read from a tree/cursor field is dereferenced without a nil test (empty tree / exhausted cursor ⇒ panic)")
						}
					}
				}
				// (2) node pointers passed to functions that dereference their parameter unguarded
				call, ok := in.(ssa.CallInstruction)
				if !ok {
					continue
				}
				for _, t := range cg.CalleesOf(call.Common()) {
					idxs := unguardedParam[t]
					if len(idxs) == 0 {
						continue
					}
					args := call.Common().Args
					for i := range idxs {
						if i >= len(args) {
							continue
						}
						if fi == nil {
							fi = ComputeFacts(fn)
						}
						n++
						c.Analysed(FnName(fn))
						construct := FnName(fn) + " -> " + FnName(t) + ": " + describeValue(args[i])
						c.Check(guardedBy(fi, b, args[i]), "C14.EMPTY", construct, p.Pos(call.Pos()), "the callee dereferences its node parameter; the argument is nil-tested at this call site", "passes a possibly-nil llrb node to a function that dereferences it unconditionally (empty set ⇒ panic)")
					}
				}
			}
		}
	}
	c.Floor("C14.EMPTY", 1)
}

// ---- DIRECTION -------------------------------------------------------------------------------

func ruleC14Direction(c *Ctx, cts []cursorType) {
	ruleCursorDirection(c, cts, "C14.DIRECTION", "C14.DIRPARAM")
}

func ruleCursorDirection(c *Ctx, cts []cursorType, rule, paramRule string) {
	p := c.P
	first := p.ExtMethod(bboltPath, "Cursor", "First")
	last := p.ExtMethod(bboltPath, "Cursor", "Last")
	next := p.ExtMethod(bboltPath, "Cursor", "Next")
	prev := p.ExtMethod(bboltPath, "Cursor", "Prev")
	cg := p.CallGraph()
	usesFirst := cg.Summarize(func(in ssa.Instruction) bool { return isCallTo(in, first) })
	usesLast := cg.Summarize(func(in ssa.Instruction) bool { return isCallTo(in, last) })
	// constructor direction by primitives
	dirOf := func(ctor *ssa.Function) string {
		f, l := false, false
		for _, call := range callsIn(ctor) {
			if isCallTo(call, first) {
				f = true
			}
			if isCallTo(call, last) {
				l = true
			}
			for _, t := range cg.CalleesOf(call.Common()) {
				if usesFirst.May(t) {
					f = true
				}
				if usesLast.May(t) {
					l = true
				}
			}
		}
		switch {
		case f && !l:
			return "forward"
		case l && !f:
			return "reverse"
		case f && l:
			return "both"
		}
		return ""
	}
	// a positioning primitive kept as a bound method value in a field (advance: cursor.Next), filled by the
	// constructor: a call through that field is a call of the primitive
	fieldPrims := func(ctor *ssa.Function) map[*types.Var]*types.Func {
		out := map[*types.Var]*types.Func{}
		for _, b := range ctor.Blocks {
			for _, in := range b.Instrs {
				st, isSt := in.(*ssa.Store)
				if !isSt {
					continue
				}
				f, _ := fieldOfAddr(st.Addr)
				if f == nil {
					continue
				}
				v := st.Val
				if ct, isCT := v.(*ssa.ChangeType); isCT {
					v = ct.X
				}
				mc, isMC := v.(*ssa.MakeClosure)
				if !isMC {
					continue
				}
				bf, _ := mc.Fn.(*ssa.Function)
				if bf == nil || !strings.HasSuffix(bf.Name(), "$bound") {
					continue
				}
				if obj, isF := bf.Object().(*types.Func); isF {
					if prev0, dup := out[f.Origin()]; dup && prev0 != obj {
						out[f.Origin()] = nil // two different primitives on different paths: not a constant of the type
					} else {
						out[f.Origin()] = obj
					}
				}
			}
		}
		return out
	}
	callsPrim := func(ci ssa.Instruction, prims map[*types.Var]*types.Func, prim *types.Func) bool {
		if isCallTo(ci, prim) {
			return true
		}
		call, isCall := ci.(ssa.CallInstruction)
		if !isCall || call.Common().IsInvoke() || call.Common().StaticCallee() != nil {
			return false
		}
		if f, _ := loadedField(call.Common().Value); f != nil {
			return prims[f.Origin()] == prim && prim != nil
		}
		return false
	}
	// (1) per cursor type: constructor primitive and Next primitive agree
	decidedDir := map[*ssa.Function]string{}
	dirOf2 := func(ctor *ssa.Function) string {
		if d, has := decidedDir[ctor]; has {
			return d
		}
		return dirOf(ctor)
	}
	for _, fn := range c.prodFuncs("boltz") {
		if fn.Parent() != nil || fn.Signature.Recv() != nil || !strings.HasPrefix(fn.Name(), "New") {
			continue
		}
		d := dirOf(fn)
		if d != "forward" && d != "reverse" && d != "both" {
			continue
		}
		// the type it builds
		var built *types.Named
		for _, b := range fn.Blocks {
			for _, in := range b.Instrs {
				if a, ok := in.(*ssa.Alloc); ok {
					if n := namedOf(a.Type()); n != nil {
						for _, ct := range cts {
							if ct.named == n {
								built = n
							}
						}
					}
				}
			}
		}
		if built == nil {
			continue
		}
		var nextFn, seekFn *ssa.Function
		for i := 0; i < built.NumMethods(); i++ {
			switch built.Method(i).Name() {
			case "Next":
				nextFn = p.SSA.FuncValue(built.Method(i))
			case "Seek":
				seekFn = p.SSA.FuncValue(built.Method(i))
			}
		}
		construct := "boltz." + built.Obj().Name() + " built by " + fn.Name()
		prims := fieldPrims(fn)
		var flagOracle Oracle
		if d == "both" {
			// the direction kept as a flag in a field the constructor fills with a constant: the shared code is
			// decided under that constant
			consts := map[*types.Var]AV{}
			for _, b := range fn.Blocks {
				for _, in := range b.Instrs {
					st, isSt := in.(*ssa.Store)
					if !isSt {
						continue
					}
					k, isK := st.Val.(*ssa.Const)
					f, _ := fieldOfAddr(st.Addr)
					if isK && k.Value != nil && f != nil && k.Value.Kind() == constant.Bool {
						consts[f.Origin()] = avBool(constant.BoolVal(k.Value))
					}
				}
			}
			if len(consts) == 0 {
				continue
			}
			flagOracle = func(v ssa.Value) (AV, bool) {
				if f, _ := loadedField(v); f != nil {
					if av, has := consts[f.Origin()]; has {
						return av, true
					}
				}
				if prm, isPrm := v.(*ssa.Parameter); isPrm {
					return AV{Kind: "nonnil", Sym: "param:" + prm.Name()}, true
				}
				// the bolt cursor answers with some key
				if call, isCall := v.(*ssa.Call); isCall {
					if isCallTo(call, first) || isCallTo(call, last) || isCallTo(call, next) || isCallTo(call, prev) {
						return AV{Kind: "tuple", Tup: []AV{{Kind: "nonnil", Sym: "key"}, {Kind: "nonnil", Sym: "val"}}}, true
					}
					if bi, isB := call.Call.Value.(*ssa.Builtin); isB && bi.Name() == "len" && len(call.Call.Args) == 1 {
						x := call.Call.Args[0]
						for i := 0; i < 4; i++ {
							if phi, isPhi := x.(*ssa.Phi); isPhi && len(phi.Edges) > 0 {
								x = phi.Edges[0]
							}
						}
						if ex, isEx := x.(*ssa.Extract); isEx && ex.Index == 0 {
							if src, isSrc := ex.Tuple.(*ssa.Call); isSrc && (isCallTo(src, first) || isCallTo(src, last) || isCallTo(src, next) || isCallTo(src, prev)) {
								return avInt(5), true
							}
						}
					}
				}
				return AV{}, false
			}
			evs, err := DecideCalls(fn, flagOracle, func(ci ssa.CallInstruction) bool { return isCallTo(ci, first) || isCallTo(ci, last) })
			if err != "" || len(evs) != 1 {
				continue // cannot be decided under the constants: as before, not a cursor this rule speaks about
			}
			if isCallTo(evs[0].Call, first) {
				d = "forward"
			} else {
				d = "reverse"
			}
			decidedDir[fn] = d
			if nextFn != nil {
				nevs, nerr := DecideCalls(nextFn, flagOracle, func(ci ssa.CallInstruction) bool { return isCallTo(ci, next) || isCallTo(ci, prev) })
				if nerr != "" {
					continue
				}
				wrong := len(nevs) != 1
				if !wrong {
					wrong = (d == "forward") != isCallTo(nevs[0].Call, next)
				}
				if wrong {
					c.Check(false, rule, construct, p.Pos(fn.Pos()), "", "under the direction flag its constructor sets, Next() does not step the bolt cursor exactly once in the direction the constructor positioned it for")
					continue
				}
			}
			if seekFn != nil {
				bad := decideSeek(c, seekFn, nextFn, flagOracle, d == "forward", nil)
				c.Check(bad == "", rule, construct, p.Pos(fn.Pos()), d+" cursor (direction kept as a flag): constructor, Next and Seek decided under the flag's constant", bad)
			} else {
				c.OK(rule, construct, p.Pos(fn.Pos()), d+" cursor (direction kept as a flag): constructor and Next decided under the flag's constant")
			}
			continue
		}
		if nextFn == nil {
			c.Undecided(rule, construct, p.Pos(fn.Pos()), "no Next method found")
			continue
		}
		usesNext, usesPrev := false, false
		for _, call := range callsIn(nextFn) {
			if callsPrim(call, prims, next) {
				usesNext = true
			}
			if callsPrim(call, prims, prev) {
				usesPrev = true
			}
		}
		ok := (d == "forward" && usesNext && !usesPrev) || (d == "reverse" && usesPrev && !usesNext)
		why := fmt.Sprintf("constructor positions with %s but Next() steps with Next=%v Prev=%v", map[string]string{"forward": "First", "reverse": "Last"}[d], usesNext, usesPrev)
		// reverse Seek must be able to step back when it lands past the target
		if ok && d == "reverse" && seekFn != nil {
			back := false
			for _, call := range callsIn(seekFn) {
				if callsPrim(call, prims, prev) {
					back = true
				}
				if cal, _ := calleeOf(call.Common()); cal != nil && cal == nextFn.Object() {
					back = true
				}
			}
			if !back {
				ok = false
				why = "reverse Seek never steps back: landing after the target must move to the previous key"
			} else {
				// the step back must also happen when bbolt's Seek ran off the end (nil key): then the
				// last element is the answer
				sfi := ComputeFacts(seekFn)
				for _, call := range callsIn(seekFn) {
					isBack := callsPrim(call, prims, prev)
					if cal, _ := calleeOf(call.Common()); cal != nil && cal == nextFn.Object() {
						isBack = true
					}
					if !isBack {
						continue
					}
					if sfi.HoldsWhere(call.Block(), func(f Fact) bool {
						if f.Kind != "nonnil" || !f.Pol {
							return false
						}
						return kpClassify(c, f.V)&kRaw != 0
					}) {
						ok = false
						why = "reverse Seek steps back only when bbolt's Seek returned a key: seeking past the last element must land on the last element, not report exhaustion"
					}
				}
			}
		}
		if ok && d == "reverse" && seekFn != nil {
			// ... decided: the reverse Seek is run for the three ways bbolt's Seek can answer — past the last
			// key (nil), on a later key, exactly on the target — and must step back in the first two and only
			// there (whatever test it uses: bytes.Equal, bytes.Compare, a nil test)
			if bad := decideSeek(c, seekFn, nextFn, nil, false, func(ci ssa.CallInstruction, prim *types.Func) bool { return callsPrim(ci, prims, prim) }); bad != "" {
				ok, why = false, bad
			}
		}
		if ok && d == "reverse" && seekFn != nil {
			// a Seek that steps back through the type's own Next() relies on Next() moving the bolt cursor whatever
			// the cursor's state was before the Seek (the remembered key is the one from BEFORE the seek)
			viaNext := false
			for _, call := range callsIn(seekFn) {
				if cal, _ := calleeOf(call.Common()); cal != nil && cal == nextFn.Object() {
					viaNext = true
				}
			}
			if viaNext && !noPathAvoiding(nextFn, func(in ssa.Instruction) bool {
				call, isCall := in.(ssa.CallInstruction)
				return isCall && callsPrim(call, prims, prev)
			}, nil) {
				ok = false
				why = "reverse Seek steps back through Next(), but Next() does not move the bolt cursor on every path (it looks at the state remembered from before the Seek): a Seek on an exhausted cursor stays invalid although an element <= target exists"
			}
		}
		if ok && d == "forward" && seekFn != nil {
			for _, call := range callsIn(seekFn) {
				if callsPrim(call, prims, prev) {
					ok = false
					why = "forward Seek steps backwards"
				}
			}
			if ok {
				if bad := decideSeek(c, seekFn, nextFn, nil, true, func(ci ssa.CallInstruction, prim *types.Func) bool { return callsPrim(ci, prims, prim) }); bad != "" {
					ok, why = false, bad
				}
			}
		}
		c.Check(ok, rule, construct, p.Pos(fn.Pos()), d+" cursor: constructor, Next and Seek use the matching bbolt primitives", why)
	}
	// (2) selection sites: under forward==true the forward constructor is chosen
	for _, fn := range c.prodFuncs("boltz") {
		var flag *ssa.Parameter
		for _, prm := range fn.Params {
			if types.Identical(prm.Type(), types.Typ[types.Bool]) {
				flag = prm
			}
		}
		if flag == nil {
			continue
		}
		// ... the selection written as a table keyed by the flag: the true entry is the forward constructor, the
		// false entry the reverse one
		for _, b := range fn.Blocks {
			for _, in := range b.Instrs {
				lk, isLk := in.(*ssa.Lookup)
				if !isLk || lk.Index != ssa.Value(flag) {
					continue
				}
				ld, isLd := lk.X.(*ssa.UnOp)
				if !isLd {
					continue
				}
				g, isG := ld.X.(*ssa.Global)
				if !isG {
					continue
				}
				entries, okT := constTable(g)
				if !okT {
					continue
				}
				for _, e := range entries {
					ef, isF := e.val.(*ssa.Function)
					if !isF || e.key.Kind() != constant.Bool {
						continue
					}
					d := dirOf2(ef)
					if d != "forward" && d != "reverse" {
						continue
					}
					key := constant.BoolVal(e.key)
					c.Analysed(FnName(fn))
					c.Check((key && d == "forward") || (!key && d == "reverse"), rule, FnName(fn)+" selects "+FnName(ef), p.Pos(lk.Pos()), "the "+d+" constructor is the table entry for that value of the direction flag", "the direction flag selects the opposite cursor kind: the table maps "+fmt.Sprint(key)+" to the "+d+" constructor")
				}
			}
		}
		fi := ComputeFacts(fn)
		for _, call := range callsIn(fn) {
			ts := cg.CalleesOf(call.Common())
			if len(ts) != 1 || ts[0].Signature.Recv() != nil {
				continue
			}
			d := dirOf2(ts[0])
			if d != "forward" && d != "reverse" {
				continue
			}
			t := fi.Holds(call.Block(), Fact{"true", flag, true})
			f := fi.Holds(call.Block(), Fact{"true", flag, false})
			if !t && !f {
				continue // not selected by the flag
			}
			construct := FnName(fn) + " selects " + FnName(ts[0])
			c.Analysed(FnName(fn))
			ok := (t && d == "forward") || (f && d == "reverse")
			c.Check(ok, rule, construct, p.Pos(call.Pos()), "the "+d+" constructor is chosen exactly when the direction flag says so", "the direction flag selects the opposite cursor kind")
		}
	}
	// (3) a function that hands out a set cursor and is told the direction uses what it is told: a direction
	// parameter nothing reads means one of the two directions is served with the other's cursor
	for _, fn := range c.prodFuncs("boltz") {
		// (function literals too: a cursor provider is a closure that is told the direction)
		if fn.Blocks == nil || fn.Signature.Results().Len() != 1 || !isSetCursorIface(fn.Signature.Results().At(0).Type()) {
			continue
		}
		for _, prm := range fn.Params {
			if !types.Identical(prm.Type(), types.Typ[types.Bool]) || prm.Name() == "_" {
				continue
			}
			used := false
			if refs := prm.Referrers(); refs != nil {
				for _, r := range *refs {
					if _, dbg := r.(*ssa.DebugRef); !dbg {
						used = true
					}
				}
			}
			c.Analysed(FnName(fn))
			c.Check(used, paramRule, FnName(fn)+": direction parameter "+prm.Name(), p.Pos(fn.Pos()), "the direction the caller asks for is looked at", "the function hands out a set cursor but never looks at its direction parameter "+prm.Name()+": a caller asking for the reverse cursor is served the forward one (ascending enumeration, Seek landing on the first element >= v)")
			if !used {
				continue
			}
			// (3b) every cursor handed out was chosen under the direction: it is made by a call that is told the
			// direction, or on a path that branched on it. (Round 13: a function that only tells the direction to the
			// empty cursor it answers when there is nothing to enumerate.)
			fi := ComputeFacts(fn)
			var aware func(v ssa.Value, blk *ssa.BasicBlock, d int) bool
			aware = func(v ssa.Value, blk *ssa.BasicBlock, d int) bool {
				if d > 6 {
					return false
				}
				if fi.Holds(blk, Fact{"true", prm, true}) || fi.Holds(blk, Fact{"true", prm, false}) {
					return true
				}
				switch x := v.(type) {
				case *ssa.MakeInterface:
					return aware(x.X, blk, d+1)
				case *ssa.ChangeInterface:
					return aware(x.X, blk, d+1)
				case *ssa.Const:
					return true // nil
				case *ssa.UnOp:
					if g, isG := x.X.(*ssa.Global); isG && strings.Contains(g.Name(), "EmptyCursor") {
						return true // the empty cursor has no direction
					}
					return false
				case *ssa.Phi:
					for i, e := range x.Edges {
						if !aware(e, x.Block().Preds[i], d+1) {
							return false
						}
					}
					return true
				case *ssa.Call:
					if fi.Holds(x.Block(), Fact{"true", prm, true}) || fi.Holds(x.Block(), Fact{"true", prm, false}) {
						return true
					}
					for _, a := range x.Call.Args {
						if a == ssa.Value(prm) {
							return true
						}
						if u, isU := a.(*ssa.UnOp); isU && u.X == ssa.Value(prm) {
							return true
						}
						// a cursor wrapped around a direction-aware cursor (NewFilteredCursor(inner, …)); a cursor
						// taken from an object that was made under the direction (NewTreeSet(forward).ToCursor())
						if _, isCall := a.(*ssa.Call); (isCall || isSetCursorIface(a.Type())) && aware(a, x.Block(), d+1) {
							return true
						}
					}
					// the constructor looked up in a table keyed by the direction
					if lk, isLk := x.Call.Value.(*ssa.Lookup); isLk && lk.Index == ssa.Value(prm) {
						return true
					}
					if ex, isEx := x.Call.Value.(*ssa.Extract); isEx {
						if lk, isLk := ex.Tuple.(*ssa.Lookup); isLk && lk.Index == ssa.Value(prm) {
							return true
						}
					}
					// the empty cursor has no direction
					if cal, _ := calleeOf(&x.Call); cal != nil && strings.Contains(cal.Name(), "EmptyCursor") {
						return true
					}
					if x.Call.IsInvoke() {
						return false
					}
					// a closure that captured the direction
					if mc, isMc := x.Call.Value.(*ssa.MakeClosure); isMc {
						for _, b := range mc.Bindings {
							if b == ssa.Value(prm) {
								return true
							}
						}
					}
					return false
				}
				return false
			}
			for _, ret := range returnsOf(fn) {
				if len(ret.Results) != 1 {
					continue
				}
				ok := aware(ret.Results[0], ret.Block(), 0)
				c.Check(ok, paramRule, FnName(fn)+": cursor handed out at "+p.Pos(ret.Pos()), p.Pos(ret.Pos()), "the cursor handed out was made under the direction asked for", "the cursor handed out here is made without regard to the direction parameter "+prm.Name()+" (it is neither made by a call that is told the direction nor on a path that branched on it): a caller asking for the reverse cursor is served a forward one — a descending id scan comes back ascending, and skip/limit cut the wrong page")
			}
		}
	}
	c.Floor(rule, 8)
	c.Floor(paramRule, 3)
}

// isSetCursorIface: an interface type with the set cursor's three methods.
func isSetCursorIface(t types.Type) bool {
	it, ok := t.Underlying().(*types.Interface)
	if !ok {
		return false
	}
	n := 0
	for i := 0; i < it.NumMethods(); i++ {
		switch it.Method(i).Name() {
		case "IsValid", "Next", "Current":
			n++
		}
	}
	return n == 3
}

// ---- WRAP: wrapping cursors normalise their position -----------------------------------------

func ruleC14Wrap(c *Ctx) {
	p := c.P
	// ValidIdsCursors: Next and Seek skip invalid entries in a loop; IterateValidIds normalises at creation
	vic := p.Named("boltz", "ValidIdsCursors")
	present := p.Method("boltz", "ValidIdsCursors", "IsExtendedDataPresent")
	for _, m := range []string{"Next", "Seek"} {
		fn := p.SSAFunc(p.Method("boltz", "ValidIdsCursors", m))
		c.Analysed(FnName(fn))
		ok := false
		for _, l := range loopsOf(fn) {
			for b := range l.Blocks {
				for _, in := range b.Instrs {
					if isCallTo(in, present) {
						ok = true
					}
				}
			}
		}
		c.Check(ok, "C14.WRAP", FnName(fn), p.Pos(fn.Pos()), "skips entries without extended data in a loop after moving", "does not skip entries lacking extended data after repositioning")
	}
	it := p.SSAFunc(p.Method("boltz", "BaseStore", "IterateValidIds"))
	okInit := false
	for _, call := range callsIn(it) {
		if isCallTo(call, present) || isCallTo(call, p.Method("boltz", "ValidIdsCursors", "Next")) {
			okInit = true
		}
	}
	c.Check(okInit, "C14.WRAP", FnName(it)+": initial position", p.Pos(it.Pos()), "the wrapper's initial position is normalised", "a freshly wrapped cursor may sit on an entry without extended data")
	_ = vic
	// filteredCursor: constructor tests the first element, Next loops until the filter accepts
	fc := p.SSAFunc(p.Method("ast", "filteredCursor", "Next"))
	c.Check(len(loopsOf(fc)) > 0, "C14.WRAP", FnName(fc), p.Pos(fc.Pos()), "advances in a loop until the filter accepts or the source ends", "Next does not loop over rejected elements")
	nfc := p.SSAFunc(p.Func("ast", "NewFilteredCursor"))
	tested := false
	for _, call := range callsIn(nfc) {
		if call.Common().Value == ssa.Value(nfc.Params[1]) {
			tested = true
		}
	}
	c.Check(tested, "C14.WRAP", FnName(nfc), p.Pos(nfc.Pos()), "the first element is tested against the filter at construction", "the first element is exposed without being filtered")
}

func isLLRB(t types.Type) bool {
	n := namedOf(t)
	return n != nil && n.Obj().Pkg() != nil && n.Obj().Pkg().Path() == "github.com/biogo/store/llrb"
}

// ruleC14Reposition: whenever a cursor object replaces its underlying bolt cursor, it must also
// re-establish its position field on every path; otherwise it keeps pointing at an element of the
// previous set.
func ruleC14Reposition(c *Ctx, cts []cursorType, isCT map[*types.Named]bool) {
	p := c.P
	cursorT := p.ExtNamed(bboltPath, "Cursor")
	n := 0
	for _, ct := range cts {
		if ct.validFld == nil {
			continue
		}
		for i := 0; i < ct.named.NumMethods(); i++ {
			fn := p.SSA.FuncValue(ct.named.Method(i))
			if fn == nil || fn.Blocks == nil {
				continue
			}
			// does it store into a *bbolt.Cursor field of the receiver?
			var repl *ssa.Store
			for _, b := range fn.Blocks {
				for _, in := range b.Instrs {
					if st, ok := in.(*ssa.Store); ok {
						if f, base := fieldOfAddr(st.Addr); f != nil && base == ssa.Value(fn.Params[0]) {
							if pt, ok := f.Type().(*types.Pointer); ok && namedOf(pt.Elem()) == cursorT {
								repl = st
							}
						}
					}
				}
			}
			if repl == nil {
				continue
			}
			n++
			c.Analysed(FnName(fn))
			isPos := func(in ssa.Instruction) bool {
				st, ok := in.(*ssa.Store)
				if !ok {
					return false
				}
				f, _ := fieldOfAddr(st.Addr)
				return sameVar(f, ct.validFld)
			}
			ri := reachWithoutFrom(fn, repl, isPos)
			ok := true
			for _, r := range returnsOf(fn) {
				if ri.Reaches(r) {
					ok = false
				}
			}
			c.Check(ok, "C14.REPOSITION", FnName(fn), p.Pos(repl.Pos()), "after replacing the underlying bolt cursor the position field is assigned on every path", "the underlying bolt cursor is replaced but on some path the position field keeps its old value: an empty set then looks positioned on the previous row's element")
		}
	}
	c.Floor("C14.REPOSITION", 1)
	_ = isCT
}

// ruleC14Union: complete decision table of unionSetCursor.Next over (fst valid, snd valid,
// compare result, direction): which element becomes current and which inputs advance.
func ruleC14Union(c *Ctx) {
	p := c.P
	fn := p.SSAFunc(p.Method("ast", "unionSetCursor", "Next"))
	name := FnName(fn)
	c.Analysed(name)
	cur := p.Field("ast", "unionSetCursor", "current")
	// the direction as the cursor keeps it: the field its constructor fills from the `forward` argument, and the
	// value it gets for each of the two directions (the bool itself on the pinned tree; a named constant works
	// the same way)
	fwd, dirVal := directionField(c, p.Func("ast", "NewUnionSetCursor"), p.Named("ast", "unionSetCursor"))
	if fwd == nil {
		fwd = p.Field("ast", "unionSetCursor", "forward")
		dirVal = map[bool]AV{true: avBool(true), false: avBool(false)}
	}
	sideOf := func(v ssa.Value) string {
		if f, base := loadedField(v); f != nil && base == ssa.Value(fn.Params[0]) && (f.Name() == "fst" || f.Name() == "snd") {
			return f.Name()
		}
		return ""
	}
	bad, rows := 0, 0
	for _, fv := range []bool{true, false} {
		for _, sv := range []bool{true, false} {
			cmps := []int{0}
			if fv && sv {
				cmps = []int{-1, 0, 1}
			}
			for _, cmp := range cmps {
				for _, forward := range []bool{true, false} {
					rows++
					oracle := func(v ssa.Value) (AV, bool) {
						if f, base := loadedField(v); sameVar(f, fwd) && base == ssa.Value(fn.Params[0]) {
							return dirVal[forward], true
						}
						call, ok := v.(*ssa.Call)
						if !ok {
							return AV{}, false
						}
						if call.Call.IsInvoke() {
							side := sideOf(call.Call.Value)
							switch call.Call.Method.Name() {
							case "IsValid":
								if side == "fst" {
									return avBool(fv), true
								}
								if side == "snd" {
									return avBool(sv), true
								}
							case "Current":
								if side != "" {
									return AV{Kind: "sym", Sym: side}, true
								}
							case "Next":
								return AV{Kind: "sym", Sym: "void"}, true
							}
						}
						if cal, _ := calleeOf(call.Common()); cal != nil && cal.Name() == "Compare" && cal.Pkg() != nil && cal.Pkg().Path() == "bytes" {
							return avInt(int64(cmp)), true
						}
						return AV{}, false
					}
					_, trace, eval, err := DecideTrace(fn, oracle)
					desc := fmt.Sprintf("fstValid=%v sndValid=%v cmp=%d forward=%v", fv, sv, cmp, forward)
					if err != "" {
						bad++
						c.Undecided("C14.UNION", name+": "+desc, p.Pos(fn.Pos()), "not decidable: "+err)
						continue
					}
					adv := map[string]int{}
					got := ""
					for _, in := range trace {
						if call, ok := in.(ssa.CallInstruction); ok && call.Common().IsInvoke() && call.Common().Method.Name() == "Next" {
							adv[sideOf(call.Common().Value)]++
						}
						if st, ok := in.(*ssa.Store); ok {
							if f, _ := fieldOfAddr(st.Addr); sameVar(f, cur) {
								a := eval(st.Val)
								switch a.Kind {
								case "nil":
									got = "nil"
								case "sym":
									got = a.Sym
								default:
									got = "?"
								}
							}
						}
					}
					var want string
					wantAdv := map[string]int{}
					switch {
					case !fv && !sv:
						want = "nil"
					case !fv:
						want, wantAdv["snd"] = "snd", 1
					case !sv:
						want, wantAdv["fst"] = "fst", 1
					case cmp == 0:
						want, wantAdv["fst"], wantAdv["snd"] = "either", 1, 1
					case (cmp < 0) == forward:
						want, wantAdv["fst"] = "fst", 1
					default:
						want, wantAdv["snd"] = "snd", 1
					}
					okRow := (got == want || (want == "either" && (got == "fst" || got == "snd"))) && adv["fst"] == wantAdv["fst"] && adv["snd"] == wantAdv["snd"]
					if !okRow {
						bad++
						c.Bad("C14.UNION", name+": "+desc, p.Pos(fn.Pos()), fmt.Sprintf("takes %q and advances fst×%d snd×%d; a union in key order must take %q and advance fst×%d snd×%d (equal elements are emitted once and both inputs advance)", got, adv["fst"], adv["snd"], want, wantAdv["fst"], wantAdv["snd"]))
					}
				}
			}
		}
	}
	if bad == 0 {
		c.OK("C14.UNION", name, p.Pos(fn.Pos()), fmt.Sprintf("decision table complete: %d rows (validity × compare × direction) choose the right element and advance the right inputs", rows))
	}
}

// ruleC14Thread: the iteration direction a caller asks for is the direction every cursor below is built
// with: inside a function that has a direction parameter (a bool named forward), each call that takes a
// direction (callee parameter named forward) is handed that parameter — not a constant, not its negation.
// A union built "forward" over descending inputs neither orders nor de-duplicates.
func ruleC14Thread(c *Ctx) {
	p := c.P
	dirParam := func(sig *types.Signature) int {
		for i := 0; i < sig.Params().Len(); i++ {
			v := sig.Params().At(i)
			if b, ok := v.Type().Underlying().(*types.Basic); ok && b.Kind() == types.Bool && v.Name() == "forward" {
				return i
			}
		}
		return -1
	}
	n := 0
	for _, fn := range c.prodFuncs("ast", "boltz", "objectz") {
		// the direction in scope: own parameter, or the one captured from the enclosing function
		var own ssa.Value
		if i := dirParam(fn.Signature); i >= 0 {
			off := 0
			if fn.Signature.Recv() != nil {
				off = 1
			}
			if i+off < len(fn.Params) {
				own = fn.Params[i+off]
			}
		}
		if own == nil {
			for _, fv := range fn.FreeVars {
				if fv.Name() == "forward" {
					if b, ok := derefType(fv.Type()).Underlying().(*types.Basic); ok && b.Kind() == types.Bool {
						own = fv
					}
				}
			}
		}
		if own == nil {
			continue
		}
		for _, call := range callsIn(fn) {
			cc := call.Common()
			var sig *types.Signature
			if cc.IsInvoke() {
				sig, _ = cc.Method.Type().(*types.Signature)
			} else if cal, _ := calleeOf(cc); cal != nil {
				sig, _ = cal.Type().(*types.Signature)
			} else if named, isN := cc.Value.Type().(*types.Named); isN && named.Obj().Name() == "SetCursorProvider" {
				sig, _ = named.Underlying().(*types.Signature)
			}
			if sig == nil {
				continue
			}
			i := dirParam(sig)
			if i < 0 {
				continue
			}
			args := cc.Args
			if !cc.IsInvoke() && sig.Recv() != nil {
				args = args[1:]
			}
			if i >= len(args) {
				continue
			}
			n++
			arg := args[i]
			ok := arg == own
			if !ok {
				// a spilled parameter / captured variable read back
				if ld, isLd := arg.(*ssa.UnOp); isLd && ld.Op == token.MUL {
					if ld.X == own {
						ok = true
					} else if al, isAl := ld.X.(*ssa.Alloc); isAl {
						only := true
						cnt := 0
						for _, r := range *al.Referrers() {
							if st, isSt := r.(*ssa.Store); isSt && st.Addr == ssa.Value(al) {
								cnt++
								if st.Val != own {
									only = false
								}
							}
						}
						ok = only && cnt > 0
					}
				}
			}
			c.Check(ok, "C14.THREAD", FnName(fn)+": "+describeInstr(call), p.Pos(call.Pos()), "the direction handed down is the direction this function was asked for",
				"this function has a direction parameter but hands "+describeValue(arg)+" to a callee that takes a direction: for a reverse request the cursor built here is not in (descending) key order and may yield elements more than once")
		}
	}
	c.CallSites(n)
	c.Floor("C14.THREAD", 6)
}

// ruleC14SeekAbsolute: Seek(v) positions the cursor on the first element >= v whatever its state was
// before — also when it had run off the end.  A Seek that delegates to an underlying cursor's Seek does so
// on every path, except where it has found that the underlying cursor cannot seek (the failed type
// assertion): no early return on the wrapper's own (in)validity comes first.
func ruleSeekAbsolute(c *Ctx, rule string) {
	p := c.P
	n := 0
	for _, fn := range c.prodFuncs("ast", "boltz", "objectz") {
		if fn.Name() != "Seek" || fn.Signature.Recv() == nil || len(fn.Params) != 2 || fn.Parent() != nil {
			continue
		}
		recv := ssa.Value(fn.Params[0])
		var steps []ssa.CallInstruction
		var ons []ssa.Value
		for _, call := range callsIn(fn) {
			cc := call.Common()
			nm := ""
			var on ssa.Value
			if cc.IsInvoke() {
				nm, on = cc.Method.Name(), cc.Value
			} else if cal, _ := calleeOf(cc); cal != nil && len(cc.Args) > 0 {
				nm, on = cal.Name(), cc.Args[0]
			}
			if nm == "Seek" && on != recv {
				steps = append(steps, call)
				ons = append(ons, on)
			}
		}
		if len(steps) == 0 {
			continue
		}
		n++
		c.Analysed(FnName(fn))
		fi := factsOf(fn)
		isStep := func(in ssa.Instruction) bool {
			for _, s := range steps {
				if in == ssa.Instruction(s) {
					return true
				}
			}
			return false
		}
		ok := noPathAvoiding(fn, isStep, func(from, to *ssa.BasicBlock) bool {
			for f := range fi.edgeFacts(from, to) {
				// there is no underlying cursor (nothing to iterate)
				if f.Kind == "nonnil" && !f.Pol {
					for _, on := range ons {
						if f.V == on {
							return true
						}
						ff, fb := loadedField(f.V)
						of, ob := loadedField(on)
						if ff != nil && sameVar(ff, of) && fb == ob {
							return true
						}
					}
				}
				if f.Kind != "true" || f.Pol {
					continue
				}
				if ex, isEx := f.V.(*ssa.Extract); isEx && ex.Index == 1 {
					if ta, isTA := ex.Tuple.(*ssa.TypeAssert); isTA && ta.CommaOk {
						return true // the underlying cursor is not seekable: the scan-forward fallback
					}
				}
			}
			return false
		})
		c.Check(ok, rule, FnName(fn), p.Pos(fn.Pos()), "the underlying cursor is re-seeked on every path (except the not-seekable fallback)", "a return is reachable without seeking the underlying cursor although it can seek (for instance an early return while the cursor is exhausted): after running off the end, Seek(v) leaves the cursor invalid instead of on the first element >= v")
	}
	c.CallSites(n)
	c.Floor(rule, 2)
}

// ruleC14DirCompare: where a direction is in scope (a parameter or captured variable named forward), a
// loop that advances a cursor until its key passes a bound (an ordering test on bytes.Compare) is only
// right for one direction: the test must be combined with the direction, or sit on a path where the
// direction is known.
func ruleC14DirCompare(c *Ctx) {
	p := c.P
	bcmp := p.ExtFunc("bytes", "Compare")
	n := 0
	for _, fn := range c.prodFuncs("ast", "boltz", "objectz") {
		// the direction in scope
		var dir []ssa.Value
		for _, prm := range fn.Params {
			if prm.Name() == "forward" && isBoolType(prm.Type()) {
				dir = append(dir, prm)
			}
		}
		for _, fv := range fn.FreeVars {
			if fv.Name() == "forward" {
				dir = append(dir, fv)
			}
		}
		// ... or of an enclosing function (a closure that does not even capture the direction cannot depend on it)
		inScope := len(dir) > 0
		for anc := fn.Parent(); anc != nil && !inScope; anc = anc.Parent() {
			for _, prm := range anc.Params {
				if prm.Name() == "forward" && isBoolType(prm.Type()) {
					inScope = true
				}
			}
			for _, fv := range anc.FreeVars {
				if fv.Name() == "forward" {
					inScope = true
				}
			}
		}
		if !inScope {
			continue
		}
		isDir := func(v ssa.Value) bool {
			for _, d := range dir {
				if v == d {
					return true
				}
				if u, ok := v.(*ssa.UnOp); ok && u.Op == token.MUL && u.X == d {
					return true
				}
			}
			return false
		}
		fi := factsOf(fn)
		loops := loopsOf(fn)
		for _, b := range fn.Blocks {
			for _, in := range b.Instrs {
				bo, ok := in.(*ssa.BinOp)
				if !ok {
					continue
				}
				switch bo.Op {
				case token.LSS, token.GTR, token.LEQ, token.GEQ:
				default:
					continue
				}
				call, isCall := bo.X.(*ssa.Call)
				if !isCall || !isCallTo(call, bcmp) {
					continue
				}
				if innermostLoop(loops, b) == nil {
					continue
				}
				n++
				// combined with the direction: (cmp < 0) == forward, or under a fact on the direction
				combined := false
				for _, r := range *bo.Referrers() {
					if cmp2, isB := r.(*ssa.BinOp); isB && (cmp2.Op == token.EQL || cmp2.Op == token.NEQ) && (isDir(cmp2.X) || isDir(cmp2.Y)) {
						combined = true
					}
				}
				if !combined {
					combined = fi.HoldsWhere(b, func(f Fact) bool { return f.Kind == "true" && isDir(f.V) })
				}
				c.Check(combined, "C14.DIRCMP", FnName(fn)+": ordering test on keys", p.Pos(bo.Pos()), "the ordering test is combined with the direction in scope", "a loop orders cursor keys with bytes.Compare "+bo.Op.String()+" 0 although this function can run in either direction (forward in scope) and the test does not depend on it: in reverse the cursors are advanced the wrong way (elements skipped or the merge never terminates on a match)")
			}
		}
	}
	c.CallSites(n)
}

// decideReverseSeek runs a reverse cursor's Seek for the three answers of bbolt's Seek and reports the case
// in which it does the wrong thing ("" when all are right or when the function cannot be evaluated — then the
// structural checks above stand alone).
func decideReverseSeek(c *Ctx, seekFn, nextFn *ssa.Function) string {
	return decideSeek(c, seekFn, nextFn, nil, false, nil)
}

// decideSeek runs a cursor's Seek for the three ways bbolt's Seek can answer.  A reverse cursor steps back in the
// first two and only there; a forward cursor does not move again at all (bbolt's Seek already stands on the first
// key >= target, or past the end).  extra answers loads the caller knows (a direction flag kept in a field).
func decideSeek(c *Ctx, seekFn, nextFn *ssa.Function, extra Oracle, forward bool, callsPrim func(ssa.CallInstruction, *types.Func) bool) string {
	p := c.P
	if callsPrim == nil {
		callsPrim = func(ci ssa.CallInstruction, prim *types.Func) bool { return isCallTo(ci, prim) }
	}
	bnext := p.ExtMethod(bboltPath, "Cursor", "Next")
	bfirst := p.ExtMethod(bboltPath, "Cursor", "First")
	bseek := p.ExtMethod(bboltPath, "Cursor", "Seek")
	prev := p.ExtMethod(bboltPath, "Cursor", "Prev")
	last := p.ExtMethod(bboltPath, "Cursor", "Last")
	beq := p.ExtFunc("bytes", "Equal")
	bcmp := p.ExtFunc("bytes", "Compare")
	isKey := func(v ssa.Value) bool {
		for i := 0; i < 4; i++ {
			switch x := v.(type) {
			case *ssa.Extract:
				call, ok := x.Tuple.(*ssa.Call)
				return ok && x.Index == 0 && isCallTo(call, bseek)
			case *ssa.Phi:
				if len(x.Edges) == 0 {
					return false
				}
				v = x.Edges[0]
			default:
				return false
			}
		}
		return false
	}
	for _, sc := range []struct {
		what     string
		keyNil   bool
		sign     int64 // key compared with the target
		wantBack bool
	}{
		{"bbolt's Seek ran past the last key (nil)", true, -1, true},
		{"bbolt's Seek landed on a key after the target", false, 1, true},
		{"bbolt's Seek landed exactly on the target", false, 0, false},
	} {
		oracle := func(v ssa.Value) (AV, bool) {
			if extra != nil {
				if av, ok := extra(v); ok {
					return av, true
				}
			}
			call, isCall := v.(*ssa.Call)
			if !isCall {
				return AV{}, false
			}
			switch {
			case isCallTo(call, bseek):
				k := AV{Kind: "nonnil", Sym: "key"}
				if sc.keyNil {
					k = AV{Kind: "nil"}
				}
				return AV{Kind: "tuple", Tup: []AV{k, {Kind: "nonnil", Sym: "val"}}}, true
			case isCallTo(call, beq) && len(call.Call.Args) == 2:
				if isKey(call.Call.Args[0]) || isKey(call.Call.Args[1]) {
					return avBool(sc.sign == 0 && !sc.keyNil), true
				}
			case isCallTo(call, bcmp) && len(call.Call.Args) == 2:
				if isKey(call.Call.Args[0]) {
					return avInt(sc.sign), true
				}
				if isKey(call.Call.Args[1]) {
					return avInt(-sc.sign), true
				}
			}
			if bi, isB := call.Call.Value.(*ssa.Builtin); isB && bi.Name() == "len" && len(call.Call.Args) == 1 && isKey(call.Call.Args[0]) {
				if sc.keyNil {
					return avInt(0), true
				}
				return avInt(5), true
			}
			return AV{}, false
		}
		evs, err := DecideCalls(seekFn, oracle, func(ci ssa.CallInstruction) bool {
			if callsPrim(ci, prev) || callsPrim(ci, last) {
				return true
			}
			if forward && (callsPrim(ci, bnext) || callsPrim(ci, bfirst)) {
				return true
			}
			cal, _ := calleeOf(ci.Common())
			return cal != nil && nextFn != nil && cal == nextFn.Object()
		})
		if err != "" {
			return ""
		}
		if forward {
			if len(evs) > 0 && !sc.keyNil {
				return "when " + sc.what + " the forward Seek moves the bolt cursor again (" + describeInstr(evs[0].Call) + "): bbolt's Seek already stands on the first key >= target, so the element the Seek should land on is skipped (a Seek to a key that was just deleted — the cascade's re-seek — passes over the next referrer)"
			}
			continue
		}
		if sc.wantBack && len(evs) == 0 {
			return "when " + sc.what + " the reverse Seek does not step back: the cursor must then stand on the greatest key not after the target (seeking past the end must land on the last element, not report exhaustion)"
		}
		if !sc.wantBack && len(evs) > 0 {
			return "when " + sc.what + " the reverse Seek steps back all the same: the target itself is skipped"
		}
	}
	return ""
}

// directionField: the field of typ that constructor ctor fills from its bool parameter, with the value the field
// gets for true and for false (decided by running the constructor both ways).
func directionField(c *Ctx, ctorObj *types.Func, typ *types.Named) (*types.Var, map[bool]AV) {
	p := c.P
	ctor := p.SSAFunc(ctorObj)
	var flag *ssa.Parameter
	for _, prm := range ctor.Params {
		if b, isB := prm.Type().Underlying().(*types.Basic); isB && b.Kind() == types.Bool {
			flag = prm
		}
	}
	st, _ := typ.Underlying().(*types.Struct)
	if flag == nil || st == nil {
		return nil, nil
	}
	var obj *ssa.Alloc
	for _, b := range ctor.Blocks {
		for _, in := range b.Instrs {
			if al, isAl := in.(*ssa.Alloc); isAl && namedOf(al.Type()) == typ {
				obj = al
			}
		}
	}
	if obj == nil {
		return nil, nil
	}
	vals := map[bool]map[string]AV{}
	for _, fv := range []bool{true, false} {
		fv := fv
		_, mem, err := DecideMem(ctor, func(v ssa.Value) (AV, bool) {
			if v == ssa.Value(flag) {
				return avBool(fv), true
			}
			if prm, isPrm := v.(*ssa.Parameter); isPrm {
				return AV{Kind: "nonnil", Sym: "param:" + prm.Name()}, true
			}
			return AV{}, false
		})
		if err != "" {
			return nil, nil
		}
		vals[fv] = mem
	}
	c.Analysed(FnName(ctor))
	var fld *types.Var
	out := map[bool]AV{}
	for i := 0; i < st.NumFields(); i++ {
		key := fmt.Sprintf("a%p.f%d", obj, i)
		a, b := vals[true][key], vals[false][key]
		differ := a.Kind == "const" && b.Kind == "const" && !constant.Compare(a.C, token.EQL, b.C)
		if a.Kind == "func" && b.Kind == "func" && a.Fn != nil && b.Fn != nil && a.Fn != b.Fn {
			differ = true // the direction kept as the function to apply (chosen once, in the constructor)
		}
		if a.Dyn != nil && b.Dyn != nil && !types.Identical(a.Dyn, b.Dyn) {
			differ = true // ... or as a strategy object: two implementations of a small interface
		}
		if differ {
			if fld != nil {
				return nil, nil
			}
			fld = st.Field(i)
			out[true], out[false] = a, b
		}
	}
	return fld, out
}
