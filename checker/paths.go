package main

// Path search over one function's CFG with jump threading: the search state is a block plus what is
// known, on this particular path, about the phis it came through (a phi whose incoming value on the
// taken edge is a constant, nil, or provably non-nil).  A conditional branch whose condition is
// decided by that knowledge is followed only on its feasible side.  This removes the infeasible paths
// "error assigned in one arm, joined, then the `err != nil` test taken on its false side" that both
// hand-written code and the normalisation's result temporaries produce.

import (
	"fmt"
	"go/constant"
	"go/token"
	"go/types"
	"sort"
	"strings"

	"golang.org/x/tools/go/ssa"
)

type knowMap map[ssa.Value]int8 // +1: true / non-nil, -1: false / nil

func (k knowMap) key() string {
	if len(k) == 0 {
		return ""
	}
	var parts []string
	for v, s := range k {
		parts = append(parts, fmt.Sprintf("%p:%d", v, s))
	}
	sort.Strings(parts)
	return strings.Join(parts, ",")
}

var factCache = map[*ssa.Function]*FactInfo{}

func factsOf(fn *ssa.Function) *FactInfo {
	if fi := factCache[fn]; fi != nil {
		return fi
	}
	fi := ComputeFacts(fn)
	factCache[fn] = fi
	return fi
}

// evalKnow: what is known about v when control leaves block p (towards s, if s != nil).
func evalKnow(fi *FactInfo, p, s *ssa.BasicBlock, v ssa.Value, k knowMap, depth int) int8 {
	if v == nil || depth > 4 {
		return 0
	}
	if r, ok := k[v]; ok && (r == 1 || r == -1) {
		return r
	}
	if fi != nil {
		if r, ok := k[fi.canon(v)]; ok && (r == 1 || r == -1) {
			return r
		}
	}
	switch x := v.(type) {
	case *ssa.Const:
		if x.IsNil() {
			return -1
		}
		if b, ok := constBool(x); ok {
			if b {
				return 1
			}
			return -1
		}
		return 0
	case *ssa.UnOp:
		if x.Op == token.NOT {
			return -evalKnow(fi, p, s, x.X, k, depth+1)
		}
	case *ssa.BinOp:
		if x.Op == token.EQL || x.Op == token.NEQ {
			var other ssa.Value
			switch {
			case isNilConst(x.Y):
				other = x.X
			case isNilConst(x.X):
				other = x.Y
			}
			if other != nil {
				r := evalKnow(fi, p, s, other, k, depth+1) // +1 non-nil
				if r == 0 {
					return 0
				}
				if x.Op == token.NEQ {
					return r
				}
				return -r
			}
		}
	case *ssa.MakeInterface, *ssa.Alloc, *ssa.MakeSlice, *ssa.MakeMap, *ssa.MakeClosure, *ssa.MakeChan, *ssa.Function:
		return 1
	case *ssa.ChangeInterface:
		return evalKnow(fi, p, s, x.X, k, depth+1)
	}
	if fi != nil && p != nil {
		var fs factSet
		if s != nil {
			fs = fi.outFacts(p, s)
		} else {
			fs = fi.At(p)
		}
		cv := fi.canon(v)
		if fs[Fact{"nonnil", cv, true}] || fs[Fact{"true", cv, true}] {
			return 1
		}
		if fs[Fact{"nonnil", cv, false}] || fs[Fact{"true", cv, false}] {
			return -1
		}
		if isErrorType(v.Type()) {
			if _, isPhi := v.(*ssa.Phi); !isPhi {
				switch classifyErr(fi, p, v, 0) {
				case errNonNil:
					return 1
				case errNil:
					return -1
				}
			}
		}
	}
	return 0
}

func constBool(c *ssa.Const) (bool, bool) {
	if c.Value == nil || c.Value.Kind() != constant.Bool {
		return false, false
	}
	return constant.BoolVal(c.Value), true
}

// stepKnow computes the knowledge after taking the edge p -> s.
func stepKnow(fi *FactInfo, p, s *ssa.BasicBlock, k knowMap) knowMap {
	idx := -1
	for i, q := range s.Preds {
		if q == p {
			idx = i
			break
		}
	}
	var phis []*ssa.Phi
	for _, in := range s.Instrs {
		ph, ok := in.(*ssa.Phi)
		if !ok {
			break
		}
		phis = append(phis, ph)
	}
	// a test that is written twice (structurally identical pure conditions): remember its outcome
	var dupCond ssa.Value
	dupPol := false
	if fi != nil && len(p.Instrs) > 0 {
		if iff, ok := p.Instrs[len(p.Instrs)-1].(*ssa.If); ok && len(p.Succs) == 2 && p.Succs[0] != p.Succs[1] {
			if r := fi.canon(iff.Cond); fi.dupRep[r] {
				dupCond, dupPol = r, p.Succs[0] == s
			}
		}
	}
	// the outcome of an error-holder test (h.HasError()): the holder's error cell is latched, so what
	// is read from it later on this path is non-nil exactly if this test said so
	var latch ssa.Value
	latchPol := false
	if len(p.Instrs) > 0 {
		if iff, ok := p.Instrs[len(p.Instrs)-1].(*ssa.If); ok && len(p.Succs) == 2 && p.Succs[0] != p.Succs[1] {
			if call, isCall := iff.Cond.(*ssa.Call); isCall && isHolderTest(call) {
				latch, latchPol = call, p.Succs[0] == s
			}
		}
	}
	if len(phis) == 0 && len(k) == 0 && dupCond == nil && latch == nil {
		return k
	}
	nk := knowMap{}
	backEdge := s.Dominates(p)
	for v, r := range k {
		if _, isPhi := v.(*ssa.Phi); !isPhi && backEdge {
			continue // a new iteration recomputes it
		}
		nk[v] = r
	}
	if dupCond != nil && !backEdge {
		if dupPol {
			nk[dupCond] = 1
		} else {
			nk[dupCond] = -1
		}
	}
	if latch != nil && !backEdge {
		if latchPol {
			nk[latch] = 1
		} else {
			nk[latch] = -1
		}
	}
	// all phis of s are assigned simultaneously from the values on the edge
	vals := make([]int8, len(phis))
	for i, ph := range phis {
		if idx >= 0 && idx < len(ph.Edges) {
			vals[i] = evalKnow(fi, p, s, ph.Edges[idx], k, 0)
		}
	}
	for i, ph := range phis {
		switch {
		case vals[i] != 0:
			nk[ph] = vals[i]
		case idx >= 0 && idx < 100 && isBoolType(ph.Type()):
			nk[ph] = int8(10 + idx) // undecided condition: remember which computation it stands for
		default:
			delete(nk, ph)
		}
	}
	// keep the state small: knowledge about phis of blocks that do not dominate s is dropped
	for v := range nk {
		if ph, ok := v.(*ssa.Phi); ok && ph.Block() != s && !ph.Block().Dominates(s) {
			delete(nk, v)
		}
	}
	return nk
}

// feasibleSuccs: the successors of b that can be taken given k.
func feasibleSuccs(fi *FactInfo, b *ssa.BasicBlock, k knowMap) []*ssa.BasicBlock {
	if len(b.Instrs) == 0 {
		return b.Succs
	}
	iff, ok := b.Instrs[len(b.Instrs)-1].(*ssa.If)
	if !ok || len(b.Succs) != 2 {
		return b.Succs
	}
	switch evalKnow(fi, b, nil, iff.Cond, k, 0) {
	case 1:
		return b.Succs[:1]
	case -1:
		return b.Succs[1:]
	}
	return b.Succs
}

type pathState struct {
	b *ssa.BasicBlock
	k knowMap
}

type pathSearch struct {
	fn       *ssa.Function
	fi       *FactInfo
	start    *ssa.BasicBlock
	startIdx int
	// startKnow: path knowledge at the start (e.g. from the edge through which the start block is entered)
	startKnow knowMap
	// stop: the path ends here without a result (the thing to pass was passed)
	stop func(in ssa.Instruction) bool
	// target: the path has reached what must not be reachable
	target func(in ssa.Instruction) bool
	// skipEdge: edges the search must not take (they establish what the rule asks for)
	skipEdge func(from, to *ssa.BasicBlock) bool
	// atReturn: asked for every reachable return (with the knowledge on that path); true = found
	atReturn func(r *ssa.Return, k knowMap) bool
	// restart: meeting this instruction again (a new iteration begins) ends the path
	restart ssa.Instruction

	// results
	Reached map[*ssa.BasicBlock][]knowMap
	Pred    map[*ssa.BasicBlock]*ssa.BasicBlock
	Found   ssa.Instruction
}

const maxStatesPerBlock = 24

// run explores; it returns true when a target / accepting return was found.
func (ps *pathSearch) run() bool {
	if ps.fi == nil {
		ps.fi = factsOf(ps.fn)
	}
	ps.Reached = map[*ssa.BasicBlock][]knowMap{}
	ps.Pred = map[*ssa.BasicBlock]*ssa.BasicBlock{}
	seen := map[*ssa.BasicBlock]map[string]bool{}
	type item struct {
		st  pathState
		idx int
	}
	k0 := ps.startKnow
	if k0 == nil {
		k0 = knowMap{}
	}
	work := []item{{pathState{ps.start, k0}, ps.startIdx}}
	for len(work) > 0 {
		it := work[len(work)-1]
		work = work[:len(work)-1]
		b := it.st.b
		ended := false
		for i := it.idx; i < len(b.Instrs); i++ {
			in := b.Instrs[i]
			if ps.restart != nil && in == ps.restart {
				ended = true
				break
			}
			if ps.target != nil && ps.target(in) {
				ps.Found = in
				return true
			}
			if ps.stop != nil && ps.stop(in) {
				ended = true
				break
			}
			if r, ok := in.(*ssa.Return); ok && ps.atReturn != nil {
				if ps.atReturn(r, it.st.k) {
					ps.Found = r
					return true
				}
			}
		}
		if ended {
			continue
		}
		for _, s := range feasibleSuccs(ps.fi, b, it.st.k) {
			if ps.skipEdge != nil {
				pathEdge.from, pathEdge.to, pathEdge.cond = b, s, resolveCond(b, it.st.k)
				skip := ps.skipEdge(b, s)
				pathEdge.from, pathEdge.to, pathEdge.cond = nil, nil, nil
				if skip {
					continue
				}
			}
			nk := stepKnow(ps.fi, b, s, it.st.k)
			if len(ps.Reached[s]) >= maxStatesPerBlock {
				nk = knowMap{} // too many distinct histories: continue without path knowledge (explores more, never less)
			}
			key := nk.key()
			if seen[s] == nil {
				seen[s] = map[string]bool{}
			}
			if seen[s][key] {
				continue
			}
			seen[s][key] = true
			if _, has := ps.Pred[s]; !has {
				ps.Pred[s] = b
			}
			ps.Reached[s] = append(ps.Reached[s], nk)
			work = append(work, item{pathState{s, nk}, 0})
		}
	}
	return false
}

// returnIsFailure: on a path with knowledge k, does return r carry a non-nil error in result ei?
func returnIsFailure(fi *FactInfo, r *ssa.Return, ei int, k knowMap) bool {
	if ei < 0 || ei >= len(r.Results) {
		return false
	}
	v := r.Results[ei]
	if evalKnow(fi, r.Block(), nil, v, k, 0) == 1 {
		return true
	}
	// h.Err / h.GetError() after h.HasError() answered true on this path
	var holder ssa.Value
	switch x := v.(type) {
	case *ssa.UnOp:
		if fa, ok := x.X.(*ssa.FieldAddr); ok && x.Op == token.MUL {
			holder = fa.X
		}
	case *ssa.Call:
		if cal, _ := calleeOf(x.Common()); cal != nil && cal.Name() == "GetError" {
			holder = callRecv(x.Common())
		}
	}
	if holder != nil {
		for kv, r := range k {
			if call, ok := kv.(*ssa.Call); ok && r == 1 && isHolderTest(call) && sameHolder(callRecv(call.Common()), holder) {
				return true
			}
		}
	}
	return classifyErr(fi, r.Block(), v, 0) == errNonNil
}

// edgeLeadsOnlyToFailure: every path that begins by taking the edge from -> to ends in a return with a
// non-nil error (result ei) or a panic.
func edgeLeadsOnlyToFailure(fi *FactInfo, from, to *ssa.BasicBlock, ei int) bool {
	ps := &pathSearch{fn: to.Parent(), fi: fi, start: to, startKnow: stepKnow(fi, from, to, knowMap{})}
	ps.atReturn = func(r *ssa.Return, k knowMap) bool { return !returnIsFailure(fi, r, ei, k) }
	return !ps.run()
}

func isBoolType(t types.Type) bool {
	b, ok := t.Underlying().(*types.Basic)
	return ok && b.Info()&types.IsBoolean != 0
}

// resolveCond: the branch condition of b, with a condition phi replaced by the value it took on this path.
func resolveCond(b *ssa.BasicBlock, k knowMap) ssa.Value {
	if len(b.Instrs) == 0 {
		return nil
	}
	iff, ok := b.Instrs[len(b.Instrs)-1].(*ssa.If)
	if !ok {
		return nil
	}
	c := iff.Cond
	for depth := 0; depth < 4; depth++ {
		ph, isPhi := c.(*ssa.Phi)
		if !isPhi {
			break
		}
		r, has := k[ph]
		if !has || r < 10 || int(r-10) >= len(ph.Edges) {
			break
		}
		c = ph.Edges[r-10]
	}
	if c == iff.Cond {
		return nil
	}
	return c
}

// isHolderTest: a call of HasError() on an error holder.
func isHolderTest(call *ssa.Call) bool {
	if call.Call.IsInvoke() {
		return call.Call.Method.Name() == "HasError"
	}
	cal, _ := calleeOf(call.Common())
	return cal != nil && cal.Name() == "HasError"
}

// sameHolder: a and b denote the same holder object (same value, or the same address / embedded part of it).
func sameHolder(a, b ssa.Value) bool {
	strip := func(v ssa.Value) ssa.Value {
		for i := 0; i < 4; i++ {
			switch x := v.(type) {
			case *ssa.FieldAddr:
				if x.Field == 0 {
					v = x.X
					continue
				}
			case *ssa.MakeInterface:
				v = x.X
				continue
			case *ssa.ChangeInterface:
				v = x.X
				continue
			case *ssa.Call:
				// a chainable mutator hands its receiver back (bucket.SetListEntry(...).HasError())
				if sc := x.Call.StaticCallee(); sc != nil && sc.Signature.Recv() != nil && len(x.Call.Args) > 0 &&
					sc.Signature.Results().Len() == 1 && types.Identical(sc.Signature.Results().At(0).Type(), sc.Signature.Recv().Type()) && returnsReceiver(sc) {
					v = x.Call.Args[0]
					continue
				}
			}
			break
		}
		return v
	}
	if a == nil || b == nil {
		return false
	}
	if a == b || sameAddr(a, b) || strip(a) == strip(b) {
		return true
	}
	// two loads of the same (embedded, pointer-typed) holder field
	ua, okUA := a.(*ssa.UnOp)
	ub, okUB := b.(*ssa.UnOp)
	if okUA && okUB && ua.Op == token.MUL && ub.Op == token.MUL {
		if _, isFA := ua.X.(*ssa.FieldAddr); isFA {
			return sameHolder(ua.X, ub.X)
		}
	}
	// the same embedded part of two names for one object
	fa, okA := a.(*ssa.FieldAddr)
	fb, okB := b.(*ssa.FieldAddr)
	if okA && okB && fa.Field == fb.Field {
		return strip(fa.X) == strip(fb.X)
	}
	return false
}

// returnsReceiver: every return of the method hands back its own receiver.
func returnsReceiver(fn *ssa.Function) bool {
	if fn.Blocks == nil || len(fn.Params) == 0 {
		return false
	}
	rets := returnsOf(fn)
	for _, r := range rets {
		if len(r.Results) != 1 || r.Results[0] != ssa.Value(fn.Params[0]) {
			return false
		}
	}
	return len(rets) > 0
}
