package main

import (
	"fmt"
	"go/ast"
	"go/token"
	"go/types"
)

// Function literals handed to an expanded helper (visitor/driver helpers: forEach(bucket, func(id) error
// {...})): where the helper only ever CALLS the parameter, each call is replaced by the literal's body, so
// that the caller's work is visible in the caller again.  Purely syntactic on the pasted helper body; the
// literal's free names must not be captured by anything the helper declares.

// methodValueLiteral: for a method value expression x.m, the declaration `var tmp = x` and the literal
// func(a0 T0, ...) (R...) { return tmp.m(a0, ...) } — what calling the method value means.
func (n *normalizer) methodValueLiteral(sel *ast.SelectorExpr, tmp string, st *inlState, pos token.Pos) (*ast.FuncLit, []ast.Stmt, bool) {
	osel, _ := n.o(sel).(*ast.SelectorExpr)
	if osel == nil {
		return nil, nil, false
	}
	s := n.info.Selections[osel]
	if s == nil || s.Kind() != types.MethodVal {
		return nil, nil, false
	}
	sig, ok := s.Type().(*types.Signature)
	if !ok || sig.Variadic() {
		return nil, nil, false
	}
	rt, okT := n.typeArgExpr(n.typeOf(sel.X), st, pos)
	if !okT {
		return nil, nil, false
	}
	recvDecl := []ast.Stmt{
		&ast.DeclStmt{Decl: &ast.GenDecl{Tok: token.VAR, TokPos: pos, Specs: []ast.Spec{&ast.ValueSpec{Names: []*ast.Ident{ident(tmp, pos)}, Type: rt, Values: []ast.Expr{sel.X}}}}},
		blankAssign(ident(tmp, pos)),
	}
	ft := &ast.FuncType{Func: pos, Params: &ast.FieldList{Opening: pos, Closing: pos}}
	var args []ast.Expr
	for i := 0; i < sig.Params().Len(); i++ {
		pt, okP := n.typeArgExpr(sig.Params().At(i).Type(), st, pos)
		if !okP {
			return nil, nil, false
		}
		name := fmt.Sprintf("%s_x%d", tmp, i)
		ft.Params.List = append(ft.Params.List, &ast.Field{Names: []*ast.Ident{ident(name, pos)}, Type: pt})
		args = append(args, ident(name, pos))
	}
	if sig.Results().Len() > 0 {
		ft.Results = &ast.FieldList{Opening: pos, Closing: pos}
		for i := 0; i < sig.Results().Len(); i++ {
			rtE, okR := n.typeArgExpr(sig.Results().At(i).Type(), st, pos)
			if !okR {
				return nil, nil, false
			}
			ft.Results.List = append(ft.Results.List, &ast.Field{Type: rtE})
		}
	}
	call := &ast.CallExpr{Fun: &ast.SelectorExpr{X: ident(tmp, pos), Sel: ident(sel.Sel.Name, pos)}, Lparen: pos, Args: args, Rparen: pos}
	var body ast.Stmt
	if sig.Results().Len() > 0 {
		body = &ast.ReturnStmt{Return: pos, Results: []ast.Expr{call}}
	} else {
		body = &ast.ExprStmt{X: call}
	}
	return &ast.FuncLit{Type: ft, Body: &ast.BlockStmt{Lbrace: pos, Rbrace: pos, List: []ast.Stmt{body}}}, recvDecl, true
}

// litParamUsable: parameter pv of helper fd is used in fd's body only as the function of call expressions
// that stand in one of the statement forms inlineLitCalls can rewrite, and never inside a nested literal.
func (n *normalizer) litParamUsable(fd *ast.FuncDecl, pv types.Object) bool {
	ok, uses := true, 0
	var walk func(x ast.Node, inLit bool)
	callFuns := map[*ast.Ident]bool{}
	ast.Inspect(fd.Body, func(x ast.Node) bool {
		if call, isCall := x.(*ast.CallExpr); isCall {
			if id, isId := ast.Unparen(call.Fun).(*ast.Ident); isId {
				callFuns[id] = true
			}
		}
		return true
	})
	walk = func(x ast.Node, inLit bool) {
		ast.Inspect(x, func(y ast.Node) bool {
			switch z := y.(type) {
			case *ast.FuncLit:
				if y != x {
					walk(z.Body, true)
					return false
				}
			case *ast.Ident:
				if n.info.Uses[z] == pv {
					uses++
					if inLit || !callFuns[z] {
						ok = false
					}
				}
			}
			return true
		})
	}
	walk(fd.Body, false)
	return ok && uses > 0
}

// declaredNames: every name the helper declares (receiver, parameters, results, locals, labels excluded).
func (n *normalizer) declaredNames(fd *ast.FuncDecl) map[string]bool {
	out := map[string]bool{}
	ast.Inspect(fd, func(x ast.Node) bool {
		if id, ok := x.(*ast.Ident); ok {
			if ob := n.info.Defs[id]; ob != nil {
				if _, isVar := ob.(*types.Var); isVar {
					out[id.Name] = true
				}
				if _, isConst := ob.(*types.Const); isConst {
					out[id.Name] = true
				}
				if _, isType := ob.(*types.TypeName); isType {
					out[id.Name] = true
				}
			}
		}
		return true
	})
	return out
}

// freeNames: the names a literal uses but does not declare itself.
func (n *normalizer) freeNames(lit *ast.FuncLit) map[string]bool {
	own := map[types.Object]bool{}
	olit, _ := n.o(lit).(*ast.FuncLit)
	if olit == nil {
		return nil
	}
	ast.Inspect(olit, func(x ast.Node) bool {
		if id, ok := x.(*ast.Ident); ok {
			if ob := n.info.Defs[id]; ob != nil {
				own[ob] = true
			}
		}
		return true
	})
	out := map[string]bool{}
	ast.Inspect(olit, func(x ast.Node) bool {
		switch y := x.(type) {
		case *ast.SelectorExpr:
			// only the operand can be a free name; the selected name is a field/method
			ast.Inspect(y.X, func(z ast.Node) bool {
				if id, ok := z.(*ast.Ident); ok {
					if ob := n.info.Uses[id]; ob != nil && !own[ob] {
						out[id.Name] = true
					}
				}
				return true
			})
			return false
		case *ast.KeyValueExpr:
			// struct literal keys are field names
			if _, isId := y.Key.(*ast.Ident); isId {
				ast.Inspect(y.Value, func(z ast.Node) bool {
					if id, ok := z.(*ast.Ident); ok {
						if ob := n.info.Uses[id]; ob != nil && !own[ob] {
							out[id.Name] = true
						}
					}
					return true
				})
				if kid := y.Key.(*ast.Ident); n.info.Uses[kid] != nil {
					if _, isVar := n.info.Uses[kid].(*types.Var); isVar && !n.info.Uses[kid].(*types.Var).IsField() && !own[n.info.Uses[kid]] {
						out[kid.Name] = true
					}
				}
				return false
			}
		case *ast.Ident:
			if ob := n.info.Uses[y]; ob != nil && !own[ob] {
				out[y.Name] = true
			}
		}
		return true
	})
	return out
}

// inlineLitCalls replaces, in the pasted helper body b, every call of the parameter pv by the body of lit.
// It returns false (and leaves b in an unusable state: the caller re-clones) when a call stands somewhere it
// cannot rewrite.
func (n *normalizer) inlineLitCalls(b *ast.BlockStmt, pv types.Object, lit *ast.FuncLit) bool {
	ft := lit.Type
	// a deferred call or a recover in the literal belongs to the literal's own frame
	framed := false
	ast.Inspect(lit.Body, func(x ast.Node) bool {
		switch y := x.(type) {
		case *ast.FuncLit:
			return false
		case *ast.DeferStmt:
			framed = true
		case *ast.CallExpr:
			if id, ok := y.Fun.(*ast.Ident); ok && id.Name == "recover" {
				framed = true
			}
		}
		return !framed
	})
	if framed {
		return false
	}
	if ft.Params != nil {
		for _, f := range ft.Params.List {
			if _, isEll := f.Type.(*ast.Ellipsis); isEll {
				return false
			}
		}
	}
	isLitCall := func(e ast.Expr) *ast.CallExpr {
		call, ok := ast.Unparen(e).(*ast.CallExpr)
		if !ok {
			return nil
		}
		id, ok := ast.Unparen(call.Fun).(*ast.Ident)
		if !ok || n.useOf(id) != pv {
			return nil
		}
		return call
	}
	mentions := func(x ast.Node) bool {
		found := false
		if x == nil {
			return false
		}
		ast.Inspect(x, func(y ast.Node) bool {
			if id, ok := y.(*ast.Ident); ok && n.useOf(id) == pv {
				found = true
			}
			return !found
		})
		return found
	}
	nres := 0
	if ft.Results != nil {
		for _, f := range ft.Results.List {
			if len(f.Names) == 0 {
				nres++
			} else {
				nres += len(f.Names)
			}
		}
	}
	// expansion of one call: statements to run, and the expressions holding its results
	expandCall := func(call *ast.CallExpr) ([]ast.Stmt, []ast.Expr, bool) {
		n.seq++
		tag := fmt.Sprintf("__lit%d", n.seq)
		pos := call.Pos()
		var out []ast.Stmt
		decl := func(name string, typ ast.Expr, val ast.Expr) ast.Stmt {
			vs := &ast.ValueSpec{Names: []*ast.Ident{ident(name, pos)}, Type: typ}
			if val != nil {
				vs.Values = []ast.Expr{val}
			}
			return &ast.DeclStmt{Decl: &ast.GenDecl{Tok: token.VAR, TokPos: pos, Specs: []ast.Spec{vs}}}
		}
		var bindL, bindR []ast.Expr
		var inner []ast.Stmt
		ai := 0
		if ft.Params != nil {
			for _, f := range ft.Params.List {
				names := f.Names
				if len(names) == 0 {
					names = []*ast.Ident{nil}
				}
				for _, nm := range names {
					if ai >= len(call.Args) {
						return nil, nil, false
					}
					tmp := fmt.Sprintf("%s_a%d", tag, ai)
					out = append(out, decl(tmp, n.clone(f.Type).(ast.Expr), call.Args[ai]))
					out = append(out, blankAssign(ident(tmp, pos)))
					ai++
					if nm != nil && nm.Name != "_" {
						bindL = append(bindL, ident(nm.Name, pos))
						bindR = append(bindR, ident(tmp, pos))
						inner = append(inner, blankAssign(ident(nm.Name, pos)))
					}
				}
			}
		}
		if ai != len(call.Args) {
			return nil, nil, false
		}
		var resNames []string
		var namedRes []*ast.Ident
		var results []ast.Expr
		var namedDecls []ast.Stmt
		if ft.Results != nil {
			ri := 0
			for _, f := range ft.Results.List {
				names := f.Names
				if len(names) == 0 {
					names = []*ast.Ident{nil}
				}
				for _, nm := range names {
					rn := fmt.Sprintf("%s_r%d", tag, ri)
					ri++
					out = append(out, decl(rn, n.clone(f.Type).(ast.Expr), nil))
					out = append(out, blankAssign(ident(rn, pos)))
					resNames = append(resNames, rn)
					results = append(results, ident(rn, pos))
					if nm != nil {
						namedRes = append(namedRes, nm)
						if nm.Name != "_" {
							namedDecls = append(namedDecls, decl(nm.Name, n.clone(f.Type).(ast.Expr), nil), blankAssign(ident(nm.Name, pos)))
						}
					}
				}
			}
		}
		body := n.clone(lit.Body).(*ast.BlockStmt)
		used := false
		n.rewriteReturns(body, resNames, namedRes, tag, &used)
		n.renameLabels(body, tag)
		var blk []ast.Stmt
		if len(bindL) > 0 {
			blk = append(blk, &ast.AssignStmt{Lhs: bindL, TokPos: pos, Tok: token.DEFINE, Rhs: bindR})
			blk = append(blk, inner...)
		}
		blk = append(blk, namedDecls...)
		blk = append(blk, body.List...)
		sw := &ast.SwitchStmt{Switch: pos, Body: &ast.BlockStmt{Lbrace: pos, Rbrace: pos, List: []ast.Stmt{&ast.CaseClause{Case: pos, Colon: pos, Body: blk}}}}
		if used {
			out = append(out, &ast.LabeledStmt{Label: ident(tag, pos), Colon: pos, Stmt: sw})
		} else {
			out = append(out, sw)
		}
		n.stats.Expanded++
		n.stats.Helpers["(function literal argument)"]++
		return out, results, true
	}
	okAll := true
	var rwList func(list []ast.Stmt) []ast.Stmt
	// simple: a statement that consists of one call of the parameter, in a rewritable form
	simple := func(s ast.Stmt) ([]ast.Stmt, bool) {
		switch x := s.(type) {
		case *ast.ExprStmt:
			if call := isLitCall(x.X); call != nil {
				for _, a := range call.Args {
					if mentions(a) {
						return nil, false
					}
				}
				pre, _, ok := expandCall(call)
				return pre, ok
			}
		case *ast.AssignStmt:
			if len(x.Rhs) == 1 {
				if call := isLitCall(x.Rhs[0]); call != nil {
					if len(x.Lhs) != nres {
						return nil, false
					}
					for _, a := range call.Args {
						if mentions(a) {
							return nil, false
						}
					}
					pre, res, ok := expandCall(call)
					if !ok {
						return nil, false
					}
					return append(pre, &ast.AssignStmt{Lhs: x.Lhs, TokPos: x.TokPos, Tok: x.Tok, Rhs: res}), true
				}
			}
		case *ast.ReturnStmt:
			if len(x.Results) == 1 {
				if call := isLitCall(x.Results[0]); call != nil {
					for _, a := range call.Args {
						if mentions(a) {
							return nil, false
						}
					}
					pre, res, ok := expandCall(call)
					if !ok {
						return nil, false
					}
					return append(pre, &ast.ReturnStmt{Return: x.Return, Results: res}), true
				}
			}
		}
		return nil, false
	}
	var rwStmt func(s ast.Stmt) []ast.Stmt
	rwStmt = func(s ast.Stmt) []ast.Stmt {
		if !mentions(s) {
			return []ast.Stmt{s}
		}
		if pre, ok := simple(s); ok {
			return pre
		}
		switch x := s.(type) {
		case *ast.BlockStmt:
			x.List = rwList(x.List)
			return []ast.Stmt{x}
		case *ast.LabeledStmt:
			r := rwStmt(x.Stmt)
			if len(r) == 1 {
				x.Stmt = r[0]
			} else {
				x.Stmt = &ast.BlockStmt{Lbrace: x.Pos(), Rbrace: x.Pos(), List: r}
			}
			return []ast.Stmt{x}
		case *ast.IfStmt:
			if mentions(x.Cond) {
				// the whole condition is one call of the literal (or its negation): evaluated first in any
				// case, so it can run before the if
				cond := ast.Unparen(x.Cond)
				neg := false
				if u, isU := cond.(*ast.UnaryExpr); isU && u.Op == token.NOT {
					cond, neg = ast.Unparen(u.X), true
				}
				call := isLitCall(cond)
				if call == nil || nres != 1 || x.Init != nil {
					okAll = false
					return []ast.Stmt{s}
				}
				for _, a := range call.Args {
					if mentions(a) {
						okAll = false
						return []ast.Stmt{s}
					}
				}
				pre, res, ok := expandCall(call)
				if !ok {
					okAll = false
					return []ast.Stmt{s}
				}
				if neg {
					x.Cond = &ast.UnaryExpr{OpPos: x.Cond.Pos(), Op: token.NOT, X: res[0]}
				} else {
					x.Cond = res[0]
				}
				x.Body.List = rwList(x.Body.List)
				if x.Else != nil {
					r := rwStmt(x.Else)
					if len(r) == 1 {
						x.Else = r[0]
					} else {
						x.Else = &ast.BlockStmt{Lbrace: x.Pos(), Rbrace: x.Pos(), List: r}
					}
				}
				return []ast.Stmt{&ast.BlockStmt{Lbrace: x.Pos(), Rbrace: x.End(), List: append(pre, x)}}
			}
			var pre []ast.Stmt
			if x.Init != nil && mentions(x.Init) {
				p, ok := simple(x.Init)
				if !ok {
					okAll = false
					return []ast.Stmt{s}
				}
				pre = p
				x.Init = nil
			}
			x.Body.List = rwList(x.Body.List)
			if x.Else != nil {
				r := rwStmt(x.Else)
				if len(r) == 1 {
					x.Else = r[0]
				} else {
					x.Else = &ast.BlockStmt{Lbrace: x.Pos(), Rbrace: x.Pos(), List: r}
				}
			}
			if pre != nil {
				// keep the scope of what the init statement declared
				return []ast.Stmt{&ast.BlockStmt{Lbrace: x.Pos(), Rbrace: x.End(), List: append(pre, x)}}
			}
			return []ast.Stmt{x}
		case *ast.ForStmt:
			if mentions(x.Init) || mentions(x.Cond) || mentions(x.Post) {
				okAll = false
				return []ast.Stmt{s}
			}
			x.Body.List = rwList(x.Body.List)
			return []ast.Stmt{x}
		case *ast.RangeStmt:
			if mentions(x.X) || mentions(x.Key) || mentions(x.Value) {
				okAll = false
				return []ast.Stmt{s}
			}
			x.Body.List = rwList(x.Body.List)
			return []ast.Stmt{x}
		case *ast.SwitchStmt:
			if mentions(x.Init) || mentions(x.Tag) {
				okAll = false
				return []ast.Stmt{s}
			}
			x.Body.List = rwList(x.Body.List)
			return []ast.Stmt{x}
		case *ast.TypeSwitchStmt:
			if mentions(x.Init) || mentions(x.Assign) {
				okAll = false
				return []ast.Stmt{s}
			}
			x.Body.List = rwList(x.Body.List)
			return []ast.Stmt{x}
		case *ast.CaseClause:
			for _, e := range x.List {
				if mentions(e) {
					okAll = false
					return []ast.Stmt{s}
				}
			}
			x.Body = rwList(x.Body)
			return []ast.Stmt{x}
		}
		okAll = false
		return []ast.Stmt{s}
	}
	rwList = func(list []ast.Stmt) []ast.Stmt {
		var out []ast.Stmt
		for _, s := range list {
			out = append(out, rwStmt(s)...)
		}
		return out
	}
	b.List = rwList(b.List)
	return okAll
}

// inlineLocalLiterals: a local that is bound once to a function literal and is only ever called (never passed
// on, stored, reassigned or used inside another literal):
//
//	f := func(a T) R { ... } ... f(x)      =>      the body of the literal at each call
//
// The literal's free variables are captured by reference, so running its body at the call site reads and
// writes the same variables; the rewrite is only made where every free name of the literal still denotes the
// same object at the call site (no shadowing).  Returns the body to use (the given one when nothing changed).
func (n *normalizer) inlineLocalLiterals(body *ast.BlockStmt) *ast.BlockStmt {
	type cand struct {
		as  *ast.AssignStmt
		obj types.Object
		lit *ast.FuncLit
	}
	var cands []cand
	ast.Inspect(body, func(x ast.Node) bool {
		as, ok := x.(*ast.AssignStmt)
		if !ok || as.Tok != token.DEFINE || len(as.Lhs) != 1 || len(as.Rhs) != 1 {
			return true
		}
		id, ok := as.Lhs[0].(*ast.Ident)
		if !ok || id.Name == "_" {
			return true
		}
		lit, ok := ast.Unparen(as.Rhs[0]).(*ast.FuncLit)
		if !ok {
			return true
		}
		oid, _ := n.o(id).(*ast.Ident)
		if oid == nil || n.info.Defs[oid] == nil {
			return true
		}
		cands = append(cands, cand{as, n.info.Defs[oid], lit})
		return true
	})
	for _, c := range cands {
		// uses: only as the function of a call, outside every literal
		callFuns := map[*ast.Ident]*ast.CallExpr{}
		ast.Inspect(body, func(x ast.Node) bool {
			if call, isCall := x.(*ast.CallExpr); isCall {
				if id, isId := ast.Unparen(call.Fun).(*ast.Ident); isId {
					callFuns[id] = call
				}
			}
			return true
		})
		ok, uses := true, 0
		var calls []*ast.CallExpr
		var walk func(x ast.Node, inLit bool)
		walk = func(x ast.Node, inLit bool) {
			ast.Inspect(x, func(y ast.Node) bool {
				switch z := y.(type) {
				case *ast.FuncLit:
					if y != x {
						walk(z.Body, true)
						return false
					}
				case *ast.Ident:
					if n.useOf(z) == c.obj && n.o(z) != n.o(c.as.Lhs[0]) {
						uses++
						if inLit || callFuns[z] == nil {
							ok = false
						} else {
							calls = append(calls, callFuns[z])
						}
					}
				}
				return true
			})
		}
		walk(body, false)
		if !ok || uses == 0 {
			continue
		}
		// no free name of the literal is shadowed at a call site
		olit, _ := n.o(c.lit).(*ast.FuncLit)
		if olit == nil {
			continue
		}
		own := map[types.Object]bool{}
		ast.Inspect(olit, func(x ast.Node) bool {
			if id, isId := x.(*ast.Ident); isId {
				if ob := n.info.Defs[id]; ob != nil {
					own[ob] = true
				}
			}
			return true
		})
		free := map[string]types.Object{}
		ast.Inspect(olit, func(x ast.Node) bool {
			if id, isId := x.(*ast.Ident); isId {
				if ob := n.info.Uses[id]; ob != nil && !own[ob] {
					if v, isVar := ob.(*types.Var); isVar && v.IsField() {
						return true
					}
					if _, isFn := ob.(*types.Func); isFn && ob.Parent() == nil {
						return true // a method name
					}
					free[id.Name] = ob
				}
			}
			return true
		})
		for _, call := range calls {
			ocall, _ := n.o(call).(*ast.CallExpr)
			if ocall == nil {
				ok = false
				break
			}
			sc := n.pkg.Types.Scope().Innermost(ocall.Pos())
			if sc == nil {
				ok = false
				break
			}
			for name, ob := range free {
				if _, found := sc.LookupParent(name, ocall.Pos()); found != ob {
					ok = false
				}
			}
		}
		if !ok {
			continue
		}
		trial := n.clone(body).(*ast.BlockStmt)
		var tas *ast.AssignStmt
		ast.Inspect(trial, func(x ast.Node) bool {
			if as, isAs := x.(*ast.AssignStmt); isAs && n.o(as) == n.o(c.as) {
				tas = as
			}
			return tas == nil
		})
		if tas == nil {
			continue
		}
		tlit, _ := ast.Unparen(tas.Rhs[0]).(*ast.FuncLit)
		if tlit == nil {
			continue
		}
		saved := n.stats.Expanded
		// the definition goes first: afterwards only the calls mention the name
		if !replaceStmt(trial, tas, &ast.EmptyStmt{Semicolon: tas.Pos(), Implicit: true}) {
			continue
		}
		if !n.inlineLitCalls(trial, c.obj, tlit) {
			n.stats.Expanded = saved
			continue
		}
		n.stats.Helpers["(local function literal)"]++
		body = trial
	}
	return body
}

// replaceStmt replaces statement old, wherever it stands in a statement list below root, by repl.
func replaceStmt(root ast.Node, old, repl ast.Stmt) bool {
	done := false
	swap := func(list []ast.Stmt) {
		for i, s := range list {
			if s == old {
				list[i] = repl
				done = true
			}
		}
	}
	ast.Inspect(root, func(x ast.Node) bool {
		switch y := x.(type) {
		case *ast.BlockStmt:
			swap(y.List)
		case *ast.CaseClause:
			swap(y.Body)
		case *ast.CommClause:
			swap(y.Body)
		}
		return !done
	})
	return done
}
