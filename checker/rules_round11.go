package main

import (
	"go/token"
	"go/types"
	"strings"

	"golang.org/x/tools/go/ssa"
)

// Rules added after the eleventh round of seeded changes.

// reachesCallNamed: fn (following static calls inside the module, a few levels) makes a call of a method named name.
func reachesCallNamed(fn *ssa.Function, name string, depth int, seen map[*ssa.Function]bool) ssa.Instruction {
	if fn == nil || fn.Blocks == nil || depth > 4 || seen[fn] {
		return nil
	}
	seen[fn] = true
	for _, g := range allFuncsWithAnon(fn) {
		for _, call := range callsIn(g) {
			if invokeNamed(call, name) {
				return call
			}
			if sc := call.Common().StaticCallee(); sc != nil && inModule(sc) {
				if in := reachesCallNamed(sc, name, depth+1, seen); in != nil {
					return in
				}
			}
		}
	}
	return nil
}

// ruleSeekOnlyAnyOf: the seek shortcut answers "is there an element equal to the literal".  That is what anyOf
// asks; allOf asks something else (every element), so nothing allOf evaluates with may take the shortcut.
func ruleSeekOnlyAnyOf(c *Ctx, rule string) {
	p := c.P
	n := 0
	for _, fn := range c.prodFuncs("ast") {
		if fn.Parent() != nil || fn.Name() != "EvalBool" || fn.Signature.Recv() == nil {
			continue
		}
		rn := namedOf(fn.Signature.Recv().Type())
		if rn == nil || !strings.Contains(rn.Obj().Name(), "AllOf") {
			continue
		}
		n++
		c.Analysed(FnName(fn))
		in := reachesCallNamed(fn, "EvalBoolWithSeek", 0, map[*ssa.Function]bool{})
		where := ""
		if in != nil {
			where = p.Pos(in.Pos())
		}
		c.Check(in == nil, rule, FnName(fn), p.Pos(fn.Pos()), "allOf never evaluates through the seek shortcut", "allOf can evaluate through EvalBoolWithSeek (at "+where+"): the shortcut answers whether SOME element equals the literal, so allOf(set) = \"a\" is answered as anyOf — sets like {a,b} are returned, empty sets are not")
	}
	c.CallSites(n)
	c.Floor(rule, 1)
}

// ruleChainLeaf: a dotted symbol is evaluated by walking its chain, each element evaluated on the value of the
// one before.  The walk may stop early only where there is nothing to walk on with — the VALUE read is nil.  A stop
// decided by the type tag of what was read also stops at the last element, whose type is whatever the leaf's is:
// every non-string leaf then reads as null.
func ruleChainLeaf(c *Ctx, rule string) {
	p := c.P
	n := 0
	for _, fn := range c.prodFuncs("boltz") {
		if fn.Parent() != nil || fn.Name() != "Eval" || fn.Signature.Recv() == nil {
			continue
		}
		loops := loopsOf(fn)
		if len(loops) == 0 {
			continue
		}
		var fi *FactInfo
		for _, l := range loops {
			// the step: Eval of the loop's element on the value carried from the previous step
			var step *ssa.Call
			for b := range l.Blocks {
				for _, in := range b.Instrs {
					if k, ok := in.(*ssa.Call); ok && invokeNamed(k, "Eval") && k.Call.IsInvoke() && len(k.Call.Args) == 2 {
						if _, carried := k.Call.Args[1].(*ssa.Phi); carried {
							step = k
						}
					}
				}
			}
			if step == nil {
				continue
			}
			n++
			c.Analysed(FnName(fn))
			if fi == nil {
				fi = factsOf(fn)
			}
			var val ssa.Value
			if refs := step.Referrers(); refs != nil {
				for _, r := range *refs {
					if ex, ok := r.(*ssa.Extract); ok && ex.Index == 1 {
						val = ex
					}
				}
			}
			bad := ""
			for b := range l.Blocks {
				for i, x := range b.Succs {
					_ = i
					if l.Blocks[x] || b == l.Header {
						continue
					}
					// leaving the walk from inside: only on an edge that knows the value read is nil / empty
					known := false
					for f := range fi.outFacts(b, x) {
						if f.Kind == "nonnil" && !f.Pol && val != nil && f.V == val {
							known = true
						}
						if bo, isB := f.V.(*ssa.BinOp); isB && f.Kind == "true" && val != nil {
							if lx := lenOf(bo.X); lx == val {
								if k, isK := intConst(bo.Y); isK && k == 0 && ((bo.Op == token.EQL && f.Pol) || (bo.Op == token.GTR && !f.Pol) || (bo.Op == token.NEQ && !f.Pol)) {
									known = true
								}
							}
						}
					}
					if !known {
						bad = "the walk along the chain is left at " + p.Pos(lastPos(b)) + " on a condition other than 'the value read is nil' (the type tag of what was read, for instance): the same test also meets the last element, so a leaf that is not of that type — int, float, bool, datetime, a map entry — reads as null"
					}
				}
			}
			c.Check(bad == "", rule, FnName(fn)+": chain walk", p.Pos(step.Pos()), "the walk ends only at the end of the chain or where the value read is nil", bad)
		}
	}
	c.CallSites(n)
	c.Floor(rule, 1)
}

// ruleScannerSortFields: which scanner serves a query is decided by the query's own sort fields.  A scanner
// chosen with some other list (nil "because only the count matters") returns the rows in id order.
func ruleScannerSortFields(c *Ctx, rule string) {
	p := c.P
	newScanner := p.Method("boltz", "BaseStore", "NewScanner")
	n := 0
	for _, fn := range c.prodFuncs("boltz") {
		for _, call := range callsIn(fn) {
			if !isCallTo(call, newScanner) || len(call.Common().Args) < 2 {
				continue
			}
			n++
			c.Analysed(FnName(fn))
			arg := call.Common().Args[len(call.Common().Args)-1]
			k, isCall := arg.(*ssa.Call)
			ok := isCall && invokeNamed(k, "GetSortFields")
			c.Check(ok, rule, FnName(fn)+": "+describeInstr(call), p.Pos(call.Pos()), "the scanner is chosen by the query's GetSortFields()", "the scanner is chosen with "+describeValue(arg)+" instead of the query's own sort fields: for some queries (a limit that is not positive, say — and `limit none` is -1) the sort is dropped and the rows come back in id order")
		}
	}
	c.CallSites(n)
	c.Floor(rule, 2)
}

// constraintTypes: the named struct types of boltz whose pointer implements Constraint, plus the struct types (of
// boltz) their fields hold by value or pointer.
func constraintTypes(c *Ctx) map[*types.Named]bool {
	p := c.P
	out := map[*types.Named]bool{}
	ci := p.Iface("boltz", "Constraint")
	pk := p.pkg("boltz")
	if ci == nil || pk == nil {
		return out
	}
	for _, nm := range pk.Types.Scope().Names() {
		tn, ok := pk.Types.Scope().Lookup(nm).(*types.TypeName)
		if !ok {
			continue
		}
		named, ok := tn.Type().(*types.Named)
		if !ok {
			continue
		}
		if _, isStruct := named.Underlying().(*types.Struct); !isStruct {
			continue
		}
		if types.Implements(types.NewPointer(named), ci) || types.Implements(named, ci) {
			out[named] = true
		}
	}
	for named := range out {
		st := named.Underlying().(*types.Struct)
		for i := 0; i < st.NumFields(); i++ {
			ft := derefType(st.Field(i).Type())
			if fn, ok := ft.(*types.Named); ok && fn.Obj().Pkg() == pk.Types {
				if _, isStruct := fn.Underlying().(*types.Struct); isStruct && !fn.Obj().Exported() {
					out[fn] = true
				}
			}
		}
	}
	return out
}

// ruleIndexTxState: what an index knows it knows from the transaction it is asked in.  A constraint object lives
// as long as the store; anything its hooks or readers remember in it (a key list kept "current" as buckets are
// created and removed) is not rolled back with the transaction and is shared by all of them.
func ruleIndexTxState(c *Ctx, rule string) {
	p := c.P
	cts := constraintTypes(c)
	n, bad := 0, 0
	for _, fn := range c.prodFuncs("boltz") {
		if fn.Signature.Recv() == nil || len(fn.Params) == 0 {
			continue
		}
		root := fn
		for root.Parent() != nil {
			root = root.Parent()
		}
		rn := namedOf(root.Signature.Recv().Type())
		if rn == nil || !cts[rn] {
			continue
		}
		switch {
		case strings.HasPrefix(root.Name(), "Add"), strings.HasPrefix(root.Name(), "Initialize"):
			continue // registration, before the store is used
		}
		n++
		recv := ssa.Value(root.Params[0])
		for _, b := range fn.Blocks {
			for _, in := range b.Instrs {
				st, ok := in.(*ssa.Store)
				if !ok {
					continue
				}
				f, base := fieldOfAddr(st.Addr)
				if f == nil {
					continue
				}
				// rooted at the receiver (through fields held by value)
				rooted := false
				v := base
				for i := 0; i < 4 && v != nil; i++ {
					if v == recv {
						rooted = true
						break
					}
					if fv, ok := v.(*ssa.FreeVar); ok && fn != root {
						_ = fv
						break
					}
					if fa, ok := v.(*ssa.FieldAddr); ok {
						v = fa.X
						continue
					}
					break
				}
				if !rooted {
					continue
				}
				bad++
				c.Analysed(FnName(fn))
				c.Check(false, rule, FnName(fn)+": writes "+rn.Obj().Name()+"."+f.Name(), p.Pos(st.Pos()), "", "a method of an index/constraint that runs inside transactions writes a field of the long-lived index object ("+f.Name()+"): that state is not rolled back with the transaction and is shared by all transactions, so after a rejected transaction readers of it see values no entity holds (or miss values entities still hold)")
			}
		}
	}
	if bad == 0 {
		c.OK(rule, "boltz: index and constraint objects", "-", "no method that runs inside transactions writes a field of its index object")
	}
	c.CallSites(n)
	c.Floor(rule, 1)
}

// ruleEntityBucketDescent: the bucket of an entity OF A STORE is what that store's GetEntityBucket answers: for a
// child store it lies below the parent's bucket for the id, under the child's own path.  Keying the entities bucket
// with the id directly is the parent's bucket — right for top-level stores only.  Only code that goes on to
// descend along the store's entityPath may do that.
func ruleEntityBucketDescent(c *Ctx, rule string) {
	p := c.P
	tb := p.Named("boltz", "TypedBucket")
	entityPath := p.Field("boltz", "BaseStore", "entityPath")
	n, bad := 0, 0
	for _, fn := range c.prodFuncs("boltz") {
		descends := false
		for _, b := range fn.Blocks {
			for _, in := range b.Instrs {
				if fa, ok := in.(*ssa.FieldAddr); ok {
					if f, _ := fieldOfAddr(fa); sameVar(f, entityPath) {
						descends = true
					}
				}
			}
		}
		for _, call := range callsIn(fn) {
			cc := call.Common()
			if cc.IsInvoke() || len(cc.Args) == 0 {
				continue
			}
			cal, _ := calleeOf(cc)
			if cal == nil {
				continue
			}
			switch cal.Name() {
			case "GetBucket", "GetBucketByKey", "GetPath", "GetOrCreateBucket", "GetOrCreatePath":
			default:
				continue
			}
			sig, _ := cal.Type().(*types.Signature)
			if sig == nil || sig.Recv() == nil || namedOf(sig.Recv().Type()) != tb {
				continue
			}
			src := cc.Args[0]
			for i := 0; i < 3; i++ {
				if phi, ok := src.(*ssa.Phi); ok && len(phi.Edges) > 0 {
					src = phi.Edges[0]
				}
			}
			k, isCall := src.(*ssa.Call)
			if !isCall || !(invokeNamed(k, "GetEntitiesBucket") || invokeNamed(k, "getOrCreateEntitiesBucket")) {
				continue
			}
			n++
			c.Analysed(FnName(fn))
			if !descends {
				bad++
			}
			c.Check(descends, rule, FnName(fn)+": "+describeInstr(call), p.Pos(call.Pos()), "the entities bucket is keyed with an id only where the store's own entityPath is then descended", "the entities bucket is keyed with an id directly, without descending the store's own path: for a child store that is the parent's bucket for the id, so links, lists and fields the child keeps in its own part are not found (and silently treated as absent)")
		}
	}
	_ = bad
	c.CallSites(n)
	c.Floor(rule, 2)
}

// ruleIndexBucketError: where an index hook finds that the index bucket it asked for has failed, the failure is
// recorded in the operation's holder (or returned) before the hook returns — the hooks have no other way to veto.
func ruleIndexBucketError(c *Ctx, rule string) {
	p := c.P
	tb := p.Named("boltz", "TypedBucket")
	ic := p.Named("boltz", "IndexingContext")
	n := 0
	for _, fn := range c.prodFuncs("boltz") {
		if fn.Parent() != nil {
			continue
		}
		hasCtx := false
		for _, prm := range fn.Params {
			if namedOf(prm.Type()) == ic {
				hasCtx = true
			}
		}
		if !hasCtx {
			continue
		}
		var fi *FactInfo
		ei := errorResultIndex(fn.Signature)
		for _, b := range fn.Blocks {
			if _, isIf := b.Instrs[len(b.Instrs)-1].(*ssa.If); !isIf {
				continue
			}
			for _, to := range b.Succs {
				if fi == nil {
					fi = factsOf(fn)
				}
				var failed ssa.Value
				for f := range fi.edgeFacts(b, to) {
					if f.Kind != "true" || !f.Pol {
						continue
					}
					k, isCall := f.V.(*ssa.Call)
					if !isCall {
						continue
					}
					cal, _ := calleeOf(k.Common())
					if cal == nil || cal.Name() != "HasError" {
						continue
					}
					r := callRecv(k.Common())
					// the error holder embedded in the bucket: the bucket it belongs to
					if ld, isLd := r.(*ssa.UnOp); isLd && ld.Op == token.MUL {
						if fa, isFA := ld.X.(*ssa.FieldAddr); isFA {
							if st, isSt := derefType(fa.X.Type()).Underlying().(*types.Struct); isSt && st.Field(fa.Field).Embedded() {
								r = fa.X
							}
						}
					}
					if r == nil || namedOf(r.Type()) != tb {
						continue
					}
					// obtained in this function (a call, or — once the accessor is expanded — a join or a local)
					switch x := r.(type) {
					case *ssa.Call, *ssa.Phi, *ssa.Extract:
						failed = r
					case *ssa.UnOp:
						if _, isLocal := x.X.(*ssa.Alloc); isLocal && x.Op == token.MUL {
							failed = r
						}
					}
				}
				if failed == nil {
					continue
				}
				n++
				c.Analysed(FnName(fn))
				records := func(in ssa.Instruction) bool {
					ci, ok := in.(ssa.CallInstruction)
					if !ok {
						return false
					}
					cal, _ := calleeOf(ci.Common())
					return cal != nil && cal.Name() == "SetError"
				}
				ps := &pathSearch{fn: fn, fi: fi, start: to, startKnow: stepKnow(fi, b, to, knowMap{}), stop: records}
				ps.atReturn = func(r *ssa.Return, k knowMap) bool {
					return !(ei >= 0 && returnIsFailure(fi, r, ei, k))
				}
				c.Check(!ps.run(), rule, FnName(fn)+": "+describeValue(failed)+" failed", p.Pos(lastPos(b)), "where the index bucket has failed the failure is recorded in a holder (or returned) before the hook returns", "the hook finds that the index bucket it asked for has failed (HasError answered true) and returns without recording that anywhere: the index veto is lost, the operation reports success and the entity is stored with a value missing from its index")
			}
		}
	}
	c.CallSites(n)
}

// ruleCallbackNotRun: a function that queues a callback for later (appends its func parameter to a list kept in a
// field) does not run it.  What is queued for "after the commit" must not run because some flag left over from an
// earlier transaction says the commit already happened.
func ruleCallbackNotRun(c *Ctx, rule string) {
	p := c.P
	n := 0
	for _, fn := range c.prodFuncs("boltz") {
		if fn.Parent() != nil || fn.Signature.Recv() == nil {
			continue
		}
		for _, prm := range fn.Params {
			if _, isFunc := prm.Type().Underlying().(*types.Signature); !isFunc {
				continue
			}
			// queued: appended to a list kept in a field of the receiver
			queued := false
			ran := ""
			recv := ssa.Value(fn.Params[0])
			if refs := prm.Referrers(); refs != nil {
				for _, r := range *refs {
					switch u := r.(type) {
					case *ssa.Store:
						// packed for an append whose result goes into a field of the receiver
						ia, ok := u.Addr.(*ssa.IndexAddr)
						if !ok {
							continue
						}
						al, isAl := ia.X.(*ssa.Alloc)
						if !isAl || al.Referrers() == nil {
							continue
						}
						for _, ar := range *al.Referrers() {
							sl, isSl := ar.(*ssa.Slice)
							if !isSl || sl.Referrers() == nil {
								continue
							}
							for _, sr := range *sl.Referrers() {
								app, isCall := sr.(*ssa.Call)
								if !isCall || app.Referrers() == nil {
									continue
								}
								if bi, isB := app.Call.Value.(*ssa.Builtin); !isB || bi.Name() != "append" {
									continue
								}
								for _, wr := range *app.Referrers() {
									if st, isSt := wr.(*ssa.Store); isSt {
										if f, base := fieldOfAddr(st.Addr); f != nil && base == recv {
											queued = true
										}
									}
								}
							}
						}
					case ssa.CallInstruction:
						if u.Common().Value == ssa.Value(prm) {
							ran = p.Pos(u.Pos())
						}
					}
				}
			}
			if !queued {
				continue
			}
			n++
			c.Analysed(FnName(fn))
			c.Check(ran == "", rule, FnName(fn)+": queues "+prm.Name(), p.Pos(fn.Pos()), "the callback is queued, not run", "the function that queues the callback "+prm.Name()+" can also run it on the spot (at "+ran+"): work registered for after the commit runs although the transaction it was registered in has not committed (and may be rolled back)")
		}
	}
	c.CallSites(n)
	c.Floor(rule, 1)
}

// ruleImplState: the states handed to listeners are loaded through the store's outermost implementation
// (store.impl), so a store that overrides FindById (derived fields) is honoured.
func ruleImplState(c *Ctx, rule string) {
	p := c.P
	implFld := p.Field("boltz", "BaseStore", "impl")
	ecs := p.Named("boltz", "EntityChangeState")
	n := 0
	for _, fn := range c.prodFuncs("boltz") {
		if fn.Signature.Recv() == nil || namedOf(fn.Signature.Recv().Type()) != ecs {
			continue
		}
		for _, call := range callsIn(fn) {
			cal, _ := calleeOf(call.Common())
			name := ""
			if call.Common().IsInvoke() {
				name = call.Common().Method.Name()
			} else if cal != nil {
				name = cal.Name()
			}
			if name != "FindById" && name != "LoadById" && name != "LoadEntity" {
				continue
			}
			n++
			c.Analysed(FnName(fn))
			recv := callRecv(call.Common())
			f, _ := loadedField(recv)
			ok := call.Common().IsInvoke() && sameVar(f, implFld)
			c.Check(ok, rule, FnName(fn)+": "+describeInstr(call), p.Pos(call.Pos()), "the entity state is loaded through store.impl", "the state delivered to listeners is loaded with the embedded BaseStore's own lookup instead of through store.impl: a store that overrides FindById (to fill derived fields) is bypassed, listeners receive an entity the store itself would never hand out")
		}
	}
	c.CallSites(n)
	c.Floor(rule, 2)
}

// rulePostCommitAll: after the commit every constraint's post-commit step runs: the loop over the constraints is
// left only when they are exhausted (the change is durable — nothing may skip the notifications any more).
func rulePostCommitAll(c *Ctx, rule string) {
	p := c.P
	n := 0
	for _, fn := range c.prodFuncs("boltz") {
		if fn.Parent() != nil {
			continue
		}
		for _, l := range loopsOf(fn) {
			var step ssa.Instruction
			for b := range l.Blocks {
				for _, in := range b.Instrs {
					if invokeNamed(in, "ProcessPostCommit") {
						step = in
					}
				}
			}
			if step == nil {
				continue
			}
			n++
			c.Analysed(FnName(fn))
			bad := ""
			for b := range l.Blocks {
				for _, x := range b.Succs {
					if !l.Blocks[x] && b != l.Header {
						bad = p.Pos(lastPos(b))
					}
				}
			}
			c.Check(bad == "", rule, FnName(fn)+": post-commit loop", p.Pos(step.Pos()), "the loop over the constraints ends only when all of them have run", "the post-commit loop can be left early (at "+bad+"): the change is already durable, but the remaining constraints' post-commit steps — the listeners — never run, so a committed change produces no events")
		}
	}
	c.CallSites(n)
	c.Floor(rule, 1)
}

// ruleSymbolPathKey: the path of an entity symbol ends in the KEY the value is stored under, not in the name
// queries use (the repair of a dangling reference writes under GetPath()[0]).
func ruleSymbolPathKey(c *Ctx, rule string) {
	p := c.P
	symT := p.Named("boltz", "entitySymbol")
	nameFld := p.Field("boltz", "entitySymbol", "name")
	keyFld := p.Field("boltz", "entitySymbol", "key")
	pathFld := p.Field("boltz", "entitySymbol", "path")
	n := 0
	for _, fn := range c.prodFuncs("boltz") {
		if fn.Parent() != nil {
			continue
		}
		var nameP, keyP *ssa.Parameter
		var pathVal ssa.Value
		var pathPos token.Pos
		for _, b := range fn.Blocks {
			for _, in := range b.Instrs {
				st, ok := in.(*ssa.Store)
				if !ok {
					continue
				}
				f, base := fieldOfAddr(st.Addr)
				if f == nil || namedOf(base.Type()) != symT {
					continue
				}
				prm, _ := st.Val.(*ssa.Parameter)
				switch {
				case sameVar(f, nameFld):
					nameP = prm
				case sameVar(f, keyFld):
					keyP = prm
				case sameVar(f, pathFld):
					pathVal, pathPos = st.Val, st.Pos()
				}
			}
		}
		if nameP == nil || keyP == nil || pathVal == nil || nameP == keyP {
			continue
		}
		n++
		c.Analysed(FnName(fn))
		// the string parameters that end up as elements of the path
		in := map[*ssa.Parameter]bool{}
		seen := map[ssa.Value]bool{}
		var walk func(v ssa.Value, d int)
		walk = func(v ssa.Value, d int) {
			if v == nil || seen[v] || d > 8 {
				return
			}
			seen[v] = true
			switch x := v.(type) {
			case *ssa.Parameter:
				in[x] = true
			case *ssa.Phi:
				for _, e := range x.Edges {
					walk(e, d+1)
				}
			case *ssa.Call:
				if bi, ok := x.Call.Value.(*ssa.Builtin); ok && bi.Name() == "append" {
					for _, a := range x.Call.Args {
						walk(a, d+1)
					}
				}
			case *ssa.Slice:
				walk(x.X, d+1)
			case *ssa.Alloc:
				if refs := x.Referrers(); refs != nil {
					for _, r := range *refs {
						if ia, ok := r.(*ssa.IndexAddr); ok && ia.Referrers() != nil {
							for _, u := range *ia.Referrers() {
								if st, ok := u.(*ssa.Store); ok && st.Addr == ssa.Value(ia) {
									walk(st.Val, d+1)
								}
							}
						}
					}
				}
			case *ssa.MakeSlice:
			}
		}
		walk(pathVal, 0)
		ok := in[keyP] && !in[nameP]
		c.Check(ok, rule, FnName(fn)+": symbol path", p.Pos(pathPos), "the path of the symbol ends in the key parameter", "the path of the entity symbol is built from the name parameter ("+nameP.Name()+") instead of the key parameter ("+keyP.Name()+"): for a symbol whose name differs from its key, code that writes through GetPath() — the repair of a dangling reference — writes under the wrong key and reports the reference fixed")
	}
	c.CallSites(n)
	c.Floor(rule, 1)
}

// ruleTypedNil: a pointer that may be nil is not put into an interface: the interface is then not nil, the nil
// test the caller makes passes, and the first method call dereferences nil.
func ruleTypedNil(c *Ctx, rule string, pkgs ...string) {
	p := c.P
	n := 0
	mayReturnNil := func(f *ssa.Function, idx int) bool {
		if f == nil || f.Blocks == nil || !inModule(f) {
			return false
		}
		for _, r := range returnsOf(f) {
			if idx < len(r.Results) && isNilConst(r.Results[idx]) {
				return true
			}
		}
		return false
	}
	for _, fn := range c.prodFuncs(pkgs...) {
		if p.isGenerated(fn.Pos()) {
			continue
		}
		var fi *FactInfo
		for _, b := range fn.Blocks {
			for _, in := range b.Instrs {
				mi, ok := in.(*ssa.MakeInterface)
				if !ok {
					continue
				}
				if _, isPtr := mi.X.Type().Underlying().(*types.Pointer); !isPtr {
					continue
				}
				// a pointer that can be nil: what a function of the module answers that has a `return nil`, or a join
				// with nil on one of its edges (such a function expanded in place)
				what := ""
				seenV := map[ssa.Value]bool{}
				var mayBeNil func(v ssa.Value, d int) bool
				mayBeNil = func(v ssa.Value, d int) bool {
					if v == nil || seenV[v] || d > 4 {
						return false
					}
					seenV[v] = true
					switch x := v.(type) {
					case *ssa.Const:
						return x.IsNil()
					case *ssa.Call:
						sc := x.Call.StaticCallee()
						if sc != nil && sc.Signature.Results().Len() == 1 && mayReturnNil(sc, 0) {
							what = "the result of " + FnName(sc)
							return true
						}
					case *ssa.Phi:
						for i, e := range x.Edges {
							if !mayBeNil(e, d+1) {
								continue
							}
							// ... and the place is reachable from that edge (a nil that comes with an error which is
							// returned first never gets here)
							if _, direct := e.(*ssa.Const); direct {
								// the (value, error) idiom: on this edge an error comes with the nil
								withErr := false
								for _, sib := range x.Block().Instrs {
									sp, isPhi := sib.(*ssa.Phi)
									if !isPhi {
										break
									}
									if sp != x && isErrorType(sp.Type()) && i < len(sp.Edges) && !isNilConst(sp.Edges[i]) {
										withErr = true
									}
								}
								if withErr {
									continue
								}
								if fi == nil {
									fi = factsOf(fn)
								}
								pred := x.Block().Preds[i]
								ps := &pathSearch{fn: fn, fi: fi, start: x.Block(), startKnow: stepKnow(fi, pred, x.Block(), knowMap{}),
									target: func(in2 ssa.Instruction) bool { return in2 == ssa.Instruction(mi) }}
								ps.atReturn = func(*ssa.Return, knowMap) bool { return false }
								if !ps.run() {
									continue
								}
							}
							if what == "" {
								what = "a value that is nil on one of the paths joining here"
							}
							return true
						}
					}
					return false
				}
				if _, isConst := mi.X.(*ssa.Const); isConst || !mayBeNil(mi.X, 0) {
					continue
				}
				n++
				c.Analysed(FnName(fn))
				if fi == nil {
					fi = factsOf(fn)
				}
				guarded := fi.Holds(b, Fact{"nonnil", mi.X, true})
				pos := mi.Pos()
				if !pos.IsValid() {
					pos = fn.Pos()
				}
				c.Check(guarded, rule, FnName(fn)+": "+describeValue(mi.X)+" into an interface", p.Pos(pos), "the pointer is known not to be nil where it is put into the interface", what+" — a pointer that can be nil — is put into an interface without a nil test: the interface is not nil then, a later `== nil` test passes, and the first method call on it dereferences nil (a panic instead of the error the nil was meant to produce)")
			}
		}
	}
	c.CallSites(n)
}

// ruleSymbolSameName: what the typing pass is told about a name (GetSymbol, GetSymbolType, …) is what the
// evaluator will find under that very name: a lookup that falls back to some other key (a case-folded one) makes
// the parser accept names the evaluator cannot resolve.
func ruleSymbolSameName(c *Ctx, rule string) {
	p := c.P
	os := p.Named("objectz", "ObjectStore")
	symbols := p.Field("objectz", "ObjectStore", "symbols")
	n := 0
	for _, fn := range c.prodFuncs("objectz") {
		if fn.Parent() != nil || fn.Signature.Recv() == nil || namedOf(fn.Signature.Recv().Type()) != os || len(fn.Params) != 2 {
			continue
		}
		if bt, ok := fn.Params[1].Type().Underlying().(*types.Basic); !ok || bt.Kind() != types.String {
			continue
		}
		name := ssa.Value(fn.Params[1])
		for _, b := range fn.Blocks {
			for _, in := range b.Instrs {
				lk, ok := in.(*ssa.Lookup)
				if !ok {
					continue
				}
				f, _ := loadedField(lk.X)
				if !sameVar(f, symbols) {
					continue
				}
				n++
				c.Analysed(FnName(fn))
				c.Check(lk.Index == name, rule, FnName(fn)+": symbol lookup", p.Pos(lk.Pos()), "the symbol table is asked for the very name the caller gave", "the symbol table is asked for "+describeValue(lk.Index)+" instead of the name the caller gave: the typing pass then accepts names (another spelling) that the evaluator, which indexes the table with the name as written, cannot resolve — a nil symbol is dereferenced on the first evaluated row")
			}
		}
	}
	c.CallSites(n)
	c.Floor(rule, 2)
}

// ruleListenerNoEval: the parse listener builds untyped nodes; it never evaluates one.  The Eval methods of the
// untyped nodes are stubs (they answer false/nil until the typing pass has replaced them).
func ruleListenerNoEval(c *Ctx, rule string) {
	p := c.P
	tl := p.Named("ast", "ToBoltListener")
	n := 0
	for _, fn := range c.prodFuncs("ast") {
		root := fn
		for root.Parent() != nil {
			root = root.Parent()
		}
		if root.Signature.Recv() == nil || namedOf(root.Signature.Recv().Type()) != tl {
			continue
		}
		n++
		bad := ""
		for _, call := range callsIn(fn) {
			if !call.Common().IsInvoke() {
				continue
			}
			m := call.Common().Method.Name()
			if strings.HasPrefix(m, "Eval") {
				bad = m + " at " + p.Pos(call.Pos())
			}
		}
		c.Analysed(FnName(fn))
		if bad != "" {
			c.Check(false, rule, FnName(fn), p.Pos(fn.Pos()), "", "the parse listener evaluates a node ("+bad+") before the typing pass has run: the Eval methods of the untyped nodes are stubs (an untyped `not` answers false whatever its operand), so a filter folded here gets the stub's answer")
		}
	}
	c.Check(n >= 20, rule, "ast.ToBoltListener: methods", "-", "no method of the parse listener evaluates a node", "the parse listener's methods were not found")
	c.CallSites(n)
}

// ruleNeverNilCtor: NewTypedBucket answers a bucket object whatever it is given — callers build placeholders with
// it (an extended store's view of a plain parent entity is NewTypedBucket(parentBucket, nil)).
func ruleNeverNilCtor(c *Ctx, rule string) {
	p := c.P
	fn := p.SSAFunc(p.Func("boltz", "NewTypedBucket"))
	c.Analysed(FnName(fn))
	bad := ""
	for _, r := range returnsOf(fn) {
		if len(r.Results) != 1 {
			continue
		}
		v := r.Results[0]
		if _, isAlloc := v.(*ssa.Alloc); isAlloc {
			continue
		}
		bad = describeValue(v) + " at " + p.Pos(r.Pos())
	}
	c.Check(bad == "", rule, FnName(fn), p.Pos(fn.Pos()), "every return hands back a freshly made bucket object", "NewTypedBucket can answer something other than a new bucket object ("+bad+"): the placeholder an extended store builds for a plain parent entity (NewTypedBucket(parentBucket, nil)) becomes nil, so FindById/LoadById through the extended store report 'not found' for entities its queries return")
	c.Floor(rule, 1)
}

// ruleSameBucket: the bucket the entity strategy writes through is the very object whose error cell the indexing
// context records into.  Two wrappers of the same bolt bucket do not share their error state: a refusal recorded
// by a constraint in the one does not stop the writes through the other.
func ruleSameBucket(c *Ctx, rule string) {
	p := c.P
	bucketFld := p.Field("boltz", "PersistContext", "Bucket")
	n := 0
	for _, fn := range c.prodFuncs("boltz") {
		if fn.Parent() != nil {
			continue
		}
		// the holder handed to the indexing context: the bucket object this function turns into an ErrorHolder
		// (as an argument of the constructor, a field of its parameter object, or the context's own field once the
		// constructor is expanded here)
		var holder ssa.Value
		for _, b := range fn.Blocks {
			for _, in := range b.Instrs {
				mi, ok := in.(*ssa.MakeInterface)
				if !ok {
					continue
				}
				if an, isNamed := types.Unalias(mi.Type()).(*types.Named); !isNamed || an.Obj().Name() != "ErrorHolder" {
					continue
				}
				if xn := namedOf(mi.X.Type()); xn != nil && xn.Obj().Name() == "TypedBucket" {
					holder = mi.X
				}
			}
		}
		if holder == nil {
			continue
		}
		for _, b := range fn.Blocks {
			for _, in := range b.Instrs {
				st, ok := in.(*ssa.Store)
				if !ok {
					continue
				}
				if f, _ := fieldOfAddr(st.Addr); !sameVar(f, bucketFld) {
					continue
				}
				n++
				c.Analysed(FnName(fn))
				same := st.Val == holder
				if !same {
					// the holder read back from the persist context it was just put into
					if hf, hbase := loadedField(holder); sameVar(hf, bucketFld) {
						if _, sbase := fieldOfAddr(st.Addr); sbase == hbase {
							same = true
						}
					}
				}
				c.Check(same, rule, FnName(fn)+": persist bucket", p.Pos(st.Pos()), "the persist context writes through the bucket object the indexing context records into", "the persist context is given "+describeValue(st.Val)+", not the bucket object that was handed to the indexing context as its error holder ("+describeValue(holder)+"): a second wrapper of the same bolt bucket has its own error cell, so a refusal a constraint records before the persist (the system-entity check) does not stop the field writes")
			}
		}
	}
	c.CallSites(n)
	c.Floor(rule, 1)
}

// ruleNoArgMutation: a lookup does not write into what it was handed.  Sorting or compacting a caller's slice in
// place is a write to memory other goroutines may be reading (and Compact zeroes the tail it cuts off).
func ruleNoArgMutation(c *Ctx, rule string, pkgs ...string) {
	p := c.P
	mutators := map[string]bool{"sort.Strings": true, "sort.Ints": true, "sort.Float64s": true, "sort.Slice": true, "sort.SliceStable": true, "sort.Sort": true, "sort.Stable": true,
		"slices.Sort": true, "slices.SortFunc": true, "slices.SortStableFunc": true, "slices.Compact": true, "slices.CompactFunc": true, "slices.Reverse": true}
	isMutatorCall := func(call ssa.CallInstruction) (string, bool) {
		cal, _ := calleeOf(call.Common())
		if cal == nil || cal.Pkg() == nil {
			return "", false
		}
		q := cal.Pkg().Name() + "." + cal.Name()
		return q, mutators[q]
	}
	// which slice parameters of f are mutated in place (directly or through a package helper)
	var mutated func(f *ssa.Function, depth int, seen map[*ssa.Function]bool) map[int]string
	mutated = func(f *ssa.Function, depth int, seen map[*ssa.Function]bool) map[int]string {
		out := map[int]string{}
		if f == nil || f.Blocks == nil || depth > 3 || seen[f] {
			return out
		}
		seen[f] = true
		idxOf := func(v ssa.Value) int {
			for i := 0; i < 3; i++ {
				switch x := v.(type) {
				case *ssa.ChangeType:
					v = x.X
				case *ssa.MakeInterface:
					v = x.X
				case *ssa.Convert:
					v = x.X
				}
			}
			for i, prm := range f.Params {
				if v == ssa.Value(prm) {
					if _, isSl := prm.Type().Underlying().(*types.Slice); isSl {
						return i
					}
				}
			}
			return -1
		}
		for _, call := range callsIn(f) {
			if q, isMut := isMutatorCall(call); isMut && len(call.Common().Args) > 0 {
				if i := idxOf(call.Common().Args[0]); i >= 0 {
					out[i] = q + " at " + p.Pos(call.Pos())
				}
				continue
			}
			if sc := call.Common().StaticCallee(); sc != nil && inModule(sc) {
				sub := mutated(sc, depth+1, seen)
				for j, why := range sub {
					if j < len(call.Common().Args) {
						if i := idxOf(call.Common().Args[j]); i >= 0 {
							out[i] = why
						}
					}
				}
			}
		}
		return out
	}
	n := 0
	mc := p.Named("boltz", "MutateContext")
	for _, fn := range c.prodFuncs(pkgs...) {
		if fn.Parent() != nil || fn.Object() == nil || !fn.Object().Exported() {
			continue
		}
		// a read: no mutate context among the parameters, and a name that does not say "change"
		isWrite := false
		for _, prm := range fn.Params {
			if mc != nil && namedOf(prm.Type()) == mc {
				isWrite = true
			}
		}
		for _, pre := range []string{"Set", "Add", "Remove", "Delete", "Update", "Create", "Put", "Increment", "Decrement", "Sort"} {
			if strings.HasPrefix(fn.Name(), pre) {
				isWrite = true
			}
		}
		hasSlice := false
		for i, prm := range fn.Params {
			if i == 0 && fn.Signature.Recv() != nil {
				continue
			}
			if _, isSl := prm.Type().Underlying().(*types.Slice); isSl {
				hasSlice = true
			}
		}
		if isWrite || !hasSlice {
			continue
		}
		n++
		m := mutated(fn, 0, map[*ssa.Function]bool{})
		why := ""
		for _, w := range m {
			why = w
		}
		c.Analysed(FnName(fn))
		c.Check(len(m) == 0, rule, FnName(fn), p.Pos(fn.Pos()), "a lookup leaves the slices it is handed untouched", "a lookup rearranges a slice it was handed in place ("+why+"): the caller's list — possibly shared by several goroutines doing the same lookup — is written to (and a compacted duplicate leaves a zero value in the caller's tail), so concurrent readers race and later lookups with the same list answer differently")
	}
	c.CallSites(n)
	c.Floor(rule, 3)
}

// ruleIteratorNotTypedNil: a function that hands out an iterator as a concrete pointer never answers the nil
// pointer: callers keep it in the iterator interface, where a nil pointer is not a nil interface — the scanner's
// "no iterator" test passes it on and the first Current() dereferences nil.
func ruleIteratorNotTypedNil(c *Ctx, rule string, pkgs ...string) {
	p := c.P
	n := 0
	for _, fn := range c.prodFuncs(pkgs...) {
		if fn.Parent() != nil || fn.Object() == nil || !fn.Object().Exported() || fn.Signature.Results().Len() != 1 {
			continue
		}
		rt := fn.Signature.Results().At(0).Type()
		iterLike := false
		if _, isPtr := rt.Underlying().(*types.Pointer); isPtr {
			ms := types.NewMethodSet(rt)
			k := 0
			for i := 0; i < ms.Len(); i++ {
				switch ms.At(i).Obj().Name() {
				case "IsValid", "Next", "Current":
					k++
				}
			}
			iterLike = k == 3
		} else if isSetCursorIface(rt) {
			// handed out as the interface: nil means "no iterator" and is tested for
			n++
			c.Analysed(FnName(fn))
			c.OK(rule, FnName(fn), p.Pos(fn.Pos()), "the iterator is handed out as the interface (nil is the tested-for 'no iterator')")
			continue
		}
		if !iterLike {
			continue
		}
		n++
		c.Analysed(FnName(fn))
		bad := ""
		for _, r := range returnsOf(fn) {
			if isNilConst(r.Results[0]) {
				bad = p.Pos(r.Pos())
			}
		}
		c.Check(bad == "", rule, FnName(fn), p.Pos(fn.Pos()), "the iterator handed out as a pointer is never the nil pointer", "the function hands out its iterator as a concrete pointer and answers the nil pointer on some path (at "+bad+"): kept in the iterator interface by the caller's factory, that is not a nil interface, the scanner's `cursor == nil` test lets it through and cursor.Current() dereferences nil — a query against an empty collection panics instead of returning no rows")
	}
	c.CallSites(n)
	c.Floor(rule, 1)
}

// ---- round 12 ----------------------------------------------------------------------------------------------

// ruleTagOnlyNil: a stored value that consists of nothing but its type tag (the empty string) decodes to a nil
// value.  The reference checks decide "no reference" by `key == nil` while the maintenance decides it by
// len(value) > 0: an empty, non-nil slice would make the two disagree about a healthy entity.
func ruleTagOnlyNil(c *Ctx, rule string) {
	p := c.P
	g := p.SSAFunc(p.Func("boltz", "GetTypeAndValue"))
	c.Analysed(FnName(g))
	fi := factsOf(g)
	ok, why := true, ""
	for _, r := range returnsOf(g) {
		if len(r.Results) != 2 || isNilConst(r.Results[1]) {
			continue
		}
		if !lenAtLeast(fi, r.Block(), ssa.Value(g.Params[0]), 2) {
			ok = false
			why = "a value is returned at " + p.Pos(r.Pos()) + " where the input is not known to hold more than its type tag: a tag-only payload (the empty string) decodes to an empty, non-nil slice, so `key == nil` no longer means 'no reference' — the integrity checks report (and, fixing, null) references of healthy entities"
		}
	}
	c.Check(ok, rule, FnName(g), p.Pos(g.Pos()), "a non-nil value is returned only where the input is longer than its type tag", why)
	c.Floor(rule, 1)
}

// ruleSeekFromArgument: where a cursor is sought to a value, the key handed to bbolt's Seek is made from the
// argument of this very call (a key remembered in a field is the key of some earlier call).
func ruleSeekFromArgument(c *Ctx, rule string) {
	p := c.P
	bseek := p.ExtMethod(bboltPath, "Cursor", "Seek")
	n := 0
	for _, fn := range c.prodFuncs("boltz") {
		if fn.Parent() != nil || fn.Signature.Recv() == nil || len(fn.Params) != 2 || !strings.HasPrefix(fn.Name(), "Seek") {
			continue
		}
		prm := fn.Params[1]
		for _, call := range callsIn(fn) {
			if !isCallTo(call, bseek) || len(call.Common().Args) != 2 {
				continue
			}
			n++
			c.Analysed(FnName(fn))
			key := call.Common().Args[1]
			c.Check(derivesFromParam(key, prm, 0), rule, FnName(fn)+": bbolt Seek", p.Pos(call.Pos()), "the key sought is made from this call's argument", "the key handed to bbolt's Seek ("+describeValue(key)+") is not made from this call's argument: a key kept from an earlier call is sought again, so a second predicate over the same set with another constant is decided on the first one's constant")
		}
	}
	c.CallSites(n)
	c.Floor(rule, 3)
}

// ruleSetWalkByValidity: a walk over a set cursor ends when the cursor says it is no longer valid.  The element
// itself is no end marker: the empty string is an element whose value reads as nil.
func ruleSetWalkByValidity(c *Ctx, rule string, pkgs ...string) {
	p := c.P
	n := 0
	for _, fn := range c.prodFuncs(pkgs...) {
		for _, l := range loopsOf(fn) {
			// the cursor advanced in this loop
			var cur ssa.Value
			for b := range l.Blocks {
				for _, in := range b.Instrs {
					if call, ok := in.(ssa.CallInstruction); ok && call.Common().IsInvoke() && call.Common().Method.Name() == "Next" && isSetCursorIface(call.Common().Value.Type()) {
						cur = call.Common().Value
					}
				}
			}
			if cur == nil {
				continue
			}
			n++
			c.Analysed(FnName(fn))
			bad := ""
			for b := range l.Blocks {
				iff, isIf := b.Instrs[len(b.Instrs)-1].(*ssa.If)
				if !isIf {
					continue
				}
				leaves := false
				for _, x := range b.Succs {
					if !l.Blocks[x] {
						leaves = true
					}
				}
				if !leaves {
					continue
				}
				// the condition that leaves the loop: a nil test of what Current() of that cursor answered
				bo, isBo := iff.Cond.(*ssa.BinOp)
				if !isBo || (bo.Op != token.EQL && bo.Op != token.NEQ) {
					continue
				}
				for _, side := range []ssa.Value{bo.X, bo.Y} {
					for i := 0; i < 3; i++ {
						if phi, isPhi := side.(*ssa.Phi); isPhi && len(phi.Edges) > 0 {
							side = phi.Edges[len(phi.Edges)-1]
						}
						if ex, isEx := side.(*ssa.Extract); isEx {
							side = ex.Tuple
						}
					}
					if k, isCall := side.(*ssa.Call); isCall && k.Call.IsInvoke() && ((k.Call.Method.Name() == "Current" && k.Call.Value == cur) || k.Call.Method.Name() == "Eval") {
						other := bo.Y
						if side == bo.Y {
							other = bo.X
						}
						if isNilConst(other) {
							bad = p.Pos(lastPos(b))
						}
					}
				}
			}
			c.Check(bad == "", rule, FnName(fn)+": walk over "+describeValue(cur), p.Pos(fn.Pos()), "the walk over the set cursor is not ended by a nil element", "the walk over the set cursor ends where the element read is nil (at "+bad+") instead of where the cursor is no longer valid: the empty string is an element whose value reads as nil (and sorts first), so a set containing it is taken to have no elements at all")
		}
	}
	c.CallSites(n)
	c.Floor(rule, 2)
}

// ruleFoundLookedAt: a symbol table answers (what, found).  Where the first answer is used the second one is
// looked at: the zero value of the first (type 0 is the bool type) is not "unknown".
func ruleFoundLookedAt(c *Ctx, rule string) {
	p := c.P
	st := p.Iface("ast", "SymbolTypes")
	n := 0
	for _, fn := range c.prodFuncs("ast") {
		for _, call := range callsIn(fn) {
			cc := call.Common()
			if !cc.IsInvoke() {
				continue
			}
			sig, _ := cc.Method.Type().(*types.Signature)
			if sig == nil || sig.Results().Len() != 2 || !types.Identical(sig.Results().At(1).Type(), types.Typ[types.Bool]) {
				continue
			}
			if it, isI := cc.Value.Type().Underlying().(*types.Interface); !isI || st == nil || !types.Identical(it, st) {
				continue
			}
			v, isV := call.(ssa.Value)
			if !isV || v.Referrers() == nil {
				continue
			}
			used0, used1 := false, false
			for _, r := range *v.Referrers() {
				ex, isEx := r.(*ssa.Extract)
				if !isEx || ex.Referrers() == nil {
					continue
				}
				live := false
				for _, u := range *ex.Referrers() {
					if _, dbg := u.(*ssa.DebugRef); !dbg {
						live = true
					}
				}
				if ex.Index == 0 && live {
					used0 = true
				}
				if ex.Index == 1 && live {
					used1 = true
				}
			}
			if !used0 {
				continue
			}
			n++
			c.Analysed(FnName(fn))
			c.Check(used1, rule, FnName(fn)+": "+describeInstr(call), p.Pos(call.Pos()), "the found answer is looked at where the value is used", "the value a symbol table answered is used without looking at its `found` answer: for an unknown name the value is the zero value (type 0 is the bool type), so a filter naming a symbol that does not exist is typed — and accepted — as if it were a bool symbol; the evaluator then dereferences a nil symbol")
		}
	}
	c.CallSites(n)
	c.Floor(rule, 2)
}

// ruleLiteralNotRecast: the value of a string literal is never parsed into another type: what was written in
// quotes denotes that string, for every symbol it is compared with (an any-typed map entry holding "02134" is
// compared with the string, not with the number 2134).
func ruleLiteralNotRecast(c *Ctx, rule string) {
	p := c.P
	valFld := p.Field("ast", "StringConstNode", "value")
	n, bad := 0, 0
	for _, fn := range c.prodFuncs("ast") {
		for _, call := range callsIn(fn) {
			cal, _ := calleeOf(call.Common())
			if cal == nil || cal.Pkg() == nil {
				continue
			}
			isParse := (cal.Pkg().Path() == "strconv" && strings.HasPrefix(cal.Name(), "Parse")) || (cal.Pkg().Path() == "strconv" && cal.Name() == "Atoi") || (cal.Pkg().Path() == "time" && cal.Name() == "Parse")
			if !isParse {
				continue
			}
			n++
			for _, a := range call.Common().Args {
				v := a
				for i := 0; i < 3; i++ {
					if k, isCall := v.(*ssa.Call); isCall && len(k.Call.Args) > 0 {
						v = k.Call.Args[0] // strings.ToLower(x), strings.TrimSpace(x)
					}
				}
				if f, _ := loadedField(v); sameVar(f, valFld) {
					bad++
					c.Analysed(FnName(fn))
					c.Check(false, rule, FnName(fn)+": "+describeInstr(call), p.Pos(call.Pos()), "", "the value of a string literal is parsed into another type ("+cal.Pkg().Name()+"."+cal.Name()+"): a quoted value then no longer denotes the string that was written — \"007\" and \"7\" become the same value, and a map entry holding the string \"02134\" no longer equals the literal \"02134\"")
				}
			}
		}
	}
	if bad == 0 {
		c.OK(rule, "ast: string literals", "-", "no string literal's value is parsed into another type")
	}
	c.CallSites(n)
	c.Floor(rule, 1)
}

// ruleStaleElementPointer: a pointer to an element of a slice is not used after the slice has been appended to:
// the append may have moved the elements, the pointer then writes into the old array (an index advanced through
// it is lost — a tree walk visits a child twice).
func ruleStaleElementPointer(c *Ctx, rule string, pkgs ...string) {
	p := c.P
	n := 0
	for _, fn := range c.prodFuncs(pkgs...) {
		if p.isGenerated(fn.Pos()) {
			continue
		}
		for _, b := range fn.Blocks {
			for _, in := range b.Instrs {
				ia, ok := in.(*ssa.IndexAddr)
				if !ok {
					continue
				}
				if _, isSl := ia.X.Type().Underlying().(*types.Slice); !isSl || ia.Referrers() == nil {
					continue
				}
				// an append to that very slice value
				var apps []*ssa.Call
				if refs := ia.X.Referrers(); refs != nil {
					for _, r := range *refs {
						if k, isCall := r.(*ssa.Call); isCall && len(k.Call.Args) > 0 && k.Call.Args[0] == ia.X {
							if bi, isB := k.Call.Value.(*ssa.Builtin); isB && bi.Name() == "append" {
								apps = append(apps, k)
							}
						}
					}
				}
				if len(apps) == 0 {
					continue
				}
				// writes through the element pointer
				var writes []ssa.Instruction
				var collect func(v ssa.Value, d int)
				collect = func(v ssa.Value, d int) {
					if v.Referrers() == nil || d > 2 {
						return
					}
					for _, r := range *v.Referrers() {
						switch u := r.(type) {
						case *ssa.Store:
							if u.Addr == v {
								writes = append(writes, u)
							}
						case *ssa.FieldAddr:
							collect(u, d+1)
						}
					}
				}
				collect(ia, 0)
				if len(writes) == 0 {
					continue
				}
				n++
				c.Analysed(FnName(fn))
				// x can run after a without the pointer having been taken anew in between (within one iteration)
				after := func(a, x ssa.Instruction) bool {
					if a.Block() == x.Block() {
						return instrIndex(a) < instrIndex(x)
					}
					seen := map[*ssa.BasicBlock]bool{}
					work := append([]*ssa.BasicBlock{}, a.Block().Succs...)
					for len(work) > 0 {
						y := work[len(work)-1]
						work = work[:len(work)-1]
						if seen[y] {
							continue
						}
						seen[y] = true
						if y == x.Block() {
							return true
						}
						if y == ia.Block() {
							continue // a new iteration takes the pointer again
						}
						work = append(work, y.Succs...)
					}
					return false
				}
				bad := ""
				for _, app := range apps {
					if !after(ia, app) {
						continue
					}
					for _, w := range writes {
						if after(app, w) {
							bad = "the element pointer taken at " + p.Pos(ia.Pos()) + " is written through at " + p.Pos(w.Pos()) + " after the slice was appended to at " + p.Pos(app.Pos())
						}
					}
				}
				c.Check(bad == "", rule, FnName(fn)+": pointer into "+describeValue(ia.X), p.Pos(ia.Pos()), "the element pointer is not written through after an append to the slice", bad+": when the append has to grow the slice the pointer addresses the old array, the write is lost (a cursor or index kept there does not advance: the same subtree is walked, or the same row handled, twice)")
			}
		}
	}
	c.CallSites(n)
}

// ruleEmptyContainerWritten: writing a map or a list creates its bucket, however many entries it has: the enclosing
// readers find their entries by what exists (a nested empty map with no bucket is no entry at all).
func ruleEmptyContainerWritten(c *Ctx, rule string) {
	p := c.P
	tb := p.Named("boltz", "TypedBucket")
	n := 0
	for _, fn := range c.prodFuncs("boltz") {
		if fn.Parent() != nil || fn.Signature.Recv() == nil || namedOf(fn.Signature.Recv().Type()) != tb {
			continue
		}
		// the two exported container writers
		if fn.Name() != "PutMap" && fn.Name() != "PutList" {
			continue
		}
		n++
		c.Analysed(FnName(fn))
		fi := factsOf(fn)
		makes := func(in ssa.Instruction) bool {
			ci, ok := in.(ssa.CallInstruction)
			if !ok {
				return false
			}
			cal, _ := calleeOf(ci.Common())
			if cal == nil {
				return false
			}
			switch cal.Name() {
			case "EmptyBucket", "CreateBucket", "CreateBucketIfNotExists", "GetOrCreateBucket", "GetOrCreatePath":
				return true
			}
			return false
		}
		ok := noPathAvoiding(fn, makes, func(from, to *ssa.BasicBlock) bool {
			for f := range fi.edgeFacts(from, to) {
				if k, isCall := f.V.(*ssa.Call); isCall && f.Kind == "true" && !f.Pol {
					if cal, _ := calleeOf(k.Common()); cal != nil && cal.Name() == "ProceedWithSet" {
						return true
					}
				}
			}
			return false
		})
		c.Check(ok, rule, FnName(fn), p.Pos(fn.Pos()), "every path on which the write proceeds makes the container's bucket", "the container write can proceed without making the container's bucket (for an empty container, say): a nested empty map or list then does not exist for the enclosing reader — {\"k\": {}} reads back as {} and [{}, \"a\"] as [nil, \"a\"]")
	}
	c.CallSites(n)
	c.Floor(rule, 2)
}

// ruleUpdateRunsHooks: an update that is not handed to a child store runs the before-update hooks on every path
// to success: they are where the constraints veto (the system-entity check).  A "nothing changed" shortcut around
// them lets an ordinary context "update" a system entity without being refused.
func ruleUpdateRunsHooks(c *Ctx, rule string) {
	p := c.P
	fn := p.SSAFunc(p.Method("boltz", "BaseStore", "Update"))
	c.Analysed(FnName(fn))
	fi := factsOf(fn)
	isHook := func(in ssa.Instruction) bool { return invokeNamed(in, "ProcessBeforeUpdate") }
	handled := func(from, to *ssa.BasicBlock) bool {
		for f := range fi.edgeFacts(from, to) {
			if f.Kind != "true" || !f.Pol {
				continue
			}
			v := f.V
			if ex, isEx := v.(*ssa.Extract); isEx {
				v = ex.Tuple
			}
			if k, isCall := v.(*ssa.Call); isCall && invokeNamed(k, "HandleUpdate") {
				return true
			}
		}
		return false
	}
	ok := noPathAvoidingSuccess(fn, fi, isHook, handled)
	c.Check(ok, rule, FnName(fn), p.Pos(fn.Pos()), "every successful path that is not handed to a child store runs ProcessBeforeUpdate", "Update can report success without having run the before-update hooks (a shortcut for 'nothing changed', say): the constraints that veto there — the system-entity check — are skipped, so an ordinary context's update of a system entity is accepted")
	c.Floor(rule, 1)
}

// ruleFilterOnItsStore: a filter built over the symbols of a store (NewSymbolEqualsStringQuery(S, name, id)) is
// evaluated on that store S.  The referrer filter of the delete constraints names a field of the REFERRING
// entities: run on the store of the entity being deleted it matches nothing, and the delete is not refused.
func ruleFilterOnItsStore(c *Ctx, rule string) {
	p := c.P
	n := 0
	strip := func(v ssa.Value) ssa.Value {
		for i := 0; i < 4; i++ {
			switch x := v.(type) {
			case *ssa.MakeInterface:
				v = x.X
			case *ssa.ChangeInterface:
				v = x.X
			case *ssa.Extract:
				v = x.Tuple
			default:
				return v
			}
		}
		return v
	}
	sameStore := func(a, b ssa.Value) bool {
		a, b = strip(a), strip(b)
		if a == b {
			return true
		}
		ka, okA := a.(*ssa.Call)
		kb, okB := b.(*ssa.Call)
		if !okA || !okB || !ka.Call.IsInvoke() || !kb.Call.IsInvoke() {
			return false
		}
		return ka.Call.Method.Name() == kb.Call.Method.Name() && sameSource(ka.Call.Value, kb.Call.Value)
	}
	for _, fn := range c.prodFuncs("boltz") {
		for _, call := range callsIn(fn) {
			cc := call.Common()
			if !cc.IsInvoke() {
				continue
			}
			switch cc.Method.Name() {
			case "IterateValidIds", "IterateIds", "QueryIdsC", "QueryWithCursorC":
			default:
				continue
			}
			// the filter argument: made by the equality-query constructor in this function
			var mk *ssa.Call
			for _, a := range cc.Args {
				if k, isCall := strip(a).(*ssa.Call); isCall {
					if cal, _ := calleeOf(&k.Call); cal != nil && cal.Name() == "NewSymbolEqualsStringQuery" && len(k.Call.Args) >= 1 {
						mk = k
					}
				}
			}
			if mk == nil {
				// the filter handed in (the handlers of a dispatch on the cascade type): in a delete constraint the
				// filter is the referrer filter, and the store to ask is the one the constraint's symbol belongs to
				isPrm := false
				for _, a := range cc.Args {
					if _, ok := strip(a).(*ssa.Parameter); ok {
						if _, isIface := a.Type().Underlying().(*types.Interface); isIface {
							isPrm = true
						}
					}
				}
				root := fn
				for root.Parent() != nil {
					root = root.Parent()
				}
				if !isPrm || root.Signature.Recv() == nil {
					continue
				}
				if rn := namedOf(root.Signature.Recv().Type()); rn == nil || !strings.HasPrefix(rn.Obj().Name(), "fkDelete") {
					continue
				}
				asked, isCall := strip(cc.Value).(*ssa.Call)
				n++
				c.Analysed(FnName(fn))
				// (a store handed in along with the filter is the caller's choice, decided there)
				c.Check(!(isCall && asked.Call.IsInvoke() && asked.Call.Method.Name() == "GetLinkedType"), rule, FnName(fn)+": "+describeInstr(call), p.Pos(call.Pos()), "the referrer filter handed in is evaluated on the store the constraint's symbol belongs to", "the referrer filter is evaluated on "+describeValue(cc.Value)+" instead of the store the constraint's symbol belongs to: there the field it names does not resolve, nothing matches, and a delete that must be refused (or cascaded) because referrers exist goes through")
				continue
			}
			n++
			c.Analysed(FnName(fn))
			c.Check(sameStore(cc.Value, mk.Call.Args[0]), rule, FnName(fn)+": "+describeInstr(call), p.Pos(call.Pos()), "the filter is evaluated on the store whose symbols it was built over", "the filter was built over the symbols of one store ("+describeValue(strip(mk.Call.Args[0]))+") and is evaluated on another ("+describeValue(cc.Value)+"): there the field it names does not resolve, nothing matches, and a delete that must be refused (or cascaded) because referrers exist goes through")
		}
	}
	c.CallSites(n)
	// no floor: the sites exist only where the filter and the store it is run on are visible in one function (a
	// parameter object carrying both is the caller's choice); the seeded control pair shows the rule still sees one
}

// ruleFkPresenceAsked: a foreign-key constraint that accepts a non-empty reference has asked the referenced
// store, in this very call, whether the target exists.  An answer remembered from earlier (a "verified targets"
// cache) is an answer about an earlier state: the target may have been deleted since.
func ruleFkPresenceAsked(c *Ctx, rule string) {
	p := c.P
	n := 0
	for _, fn := range c.prodFuncs("boltz") {
		if fn.Parent() != nil || fn.Name() != "ProcessAfterUpdate" || fn.Signature.Recv() == nil {
			continue
		}
		rn := namedOf(fn.Signature.Recv().Type())
		if rn == nil || rn.Obj().Name() != "fkConstraint" {
			continue
		}
		fi := factsOf(fn)
		for _, b := range fn.Blocks {
			for _, to := range b.Succs {
				nonEmpty := false
				for f := range fi.edgeFacts(b, to) {
					bo, isB := f.V.(*ssa.BinOp)
					if !isB || f.Kind != "true" {
						continue
					}
					if lx := lenOf(bo.X); lx != nil {
						if k, isK := intConst(bo.Y); isK && k == 0 && ((bo.Op == token.GTR && f.Pol) || (bo.Op == token.NEQ && f.Pol) || (bo.Op == token.EQL && !f.Pol) || (bo.Op == token.LEQ && !f.Pol)) {
							if sl, isSl := lx.Type().Underlying().(*types.Slice); isSl && types.Identical(sl.Elem(), types.Typ[types.Byte]) {
								nonEmpty = true
							}
						}
					}
				}
				if !nonEmpty {
					continue
				}
				n++
				c.Analysed(FnName(fn))
				asks := func(in ssa.Instruction) bool { return invokeNamed(in, "IsEntityPresent") }
				ps := &pathSearch{fn: fn, fi: fi, start: to, startKnow: stepKnow(fi, b, to, knowMap{}), stop: asks}
				ps.atReturn = func(*ssa.Return, knowMap) bool { return true }
				c.Check(!ps.run(), rule, FnName(fn)+": non-empty reference", p.Pos(lastPos(b)), "every path on which a non-empty reference is handled asks the referenced store whether the target exists", "a non-empty reference can be accepted without the referenced store having been asked in this call (an answer remembered from an earlier call is used): a target that was deleted since — in the same transaction, or in an earlier one when the context object is reused — is taken to exist, and the dangling reference is committed")
			}
		}
	}
	c.CallSites(n)
	c.Floor(rule, 1)
}
