package main

import (
	"fmt"
	"go/ast"
	"go/constant"
	"go/token"
	"go/types"
	"os"
	"path/filepath"
	"regexp"
	"sort"
	"strconv"
	"strings"

	"golang.org/x/tools/go/ssa"
)

func init() {
	register(&Property{
		ID:          "C12",
		Title:       "Boolean connectives group as written: parentheses, precedence, case, spacing",
		Technique:   "static analysis: precedence-climbing well-formedness read from the generated parser's Go source (Precpred level vs recursive-call argument per operator) cross-checked with the rule-transition precedences decoded from the serialized ATN; listener operand-order rule; exhaustive truth tables of And/Or/Not evaluators (DECIDE); letter-fragment rule over the grammar's keyword tokens and case-folding rule for text comparisons in the listener",
		LevelText:   "Decides the standard well-formedness conditions of an operator-precedence parser from the generated code and its ATN (AND level above OR level; the right operand of AND may not absorb a bare OR; Go literals agree with the ATN), that the listener builds left/right in source order with the matching operator and that Group is a stack no-op, the complete truth tables of the typed And/Or/Not nodes, and case-insensitivity of every keyword token and of the listener's text tests. Whitespace/redundant-parenthesis invariance beyond 'Group is a no-op' and agreement between ZitiQl.g4 and the generated lexer are not decided (no ANTLR tool to regenerate). Added in round 9: every set predicate walks a cursor made for it (FRESHCURSOR, cross-listed). Added in round 10: the scope the symbol validator pushes is read before the current-scope field is overwritten (SCOPE). Added in round 11: no method of the parse listener evaluates a node (NOEVAL). Added in round 12: no write through a slice-element pointer after an append to the slice (STALEELEM: the tree walk). Added in round 13: hand-written code enters the generated parser only at the start rule, which demands EOF (ENTRY).",
		LevelNote:   "Trusted: go/types, x/tools SSA, ANTLR runtime, ATN v4 serialization layout. KNOWN FINDING recorded: AND parses its right operand at precedence 0 (see known_findings.json).",
		DesignRef:   "DESIGN.md C12",
		Explanation: "Sites: the operator alternatives of (*ZitiQlParser).boolExpr; the RULE/PRECEDENCE edges of the serialized ATN; ExitAndExpr/ExitOrExpr/ExitNotExpr; BooleanLogicExprNode.TypeTransformBool; And/Or/Not EvalBool; every lexer rule of ZitiQl.g4 containing letters; every strings.Contains/ParseBool on token text in the listener.",
		Trusted:     []string{"go/types", "golang.org/x/tools/go/ssa v0.29.0", "ANTLR v4 runtime and ATN serialization format", "generated lexer"},
		Rules:       rulesC12,
	})
}

func rulesC12(c *Ctx) {
	ruleParserEntry(c, "C12.ENTRY")
	// an atom after a sub-query atom is resolved in the enclosing scope again (else the filter is refused)
	ruleScopePush(c, "C12.SCOPE", "ast")
	ruleListenerNoEval(c, "C12.NOEVAL")
	ruleStaleElementPointer(c, "C12.STALEELEM", "zitiql", "ast")
	ruleC12Prec(c)
	ruleC12Listener(c)
	ruleC12Truth(c)
	ruleC12Case(c)
	ruleC12TokenWhitespace(c)
	// the truth value of a compound filter is the combination of the truth values of its atoms: every set predicate
	// walks a cursor of its own
	ruleFreshSetCursor(c, "C12.FRESHCURSOR", "boltz", "objectz")
}

// ruleC12TokenWhitespace: the grammar folds optional words into one token ("not" WS+ "in") and WS is any
// of space, tab, CR, LF.  Token text is therefore never matched against a literal that itself contains
// white space: such a match holds for one spelling of the white space and fails for the others, so the
// meaning of the query would depend on how it is spaced.
func ruleC12TokenWhitespace(c *Ctx) {
	p := c.P
	lst := p.Named("ast", "ToBoltListener")
	var fromText func(v ssa.Value, depth int) bool
	fromText = func(v ssa.Value, depth int) bool {
		if v == nil || depth > 5 {
			return false
		}
		switch x := v.(type) {
		case *ssa.Call:
			if x.Call.IsInvoke() && x.Call.Method.Name() == "GetText" {
				return true
			}
			for _, a := range x.Call.Args {
				if fromText(a, depth+1) {
					return true
				}
			}
			// a local accessor (a closure or helper of the module) that hands back the token text
			if !x.Call.IsInvoke() {
				targets := []*ssa.Function{}
				if sc := x.Call.StaticCallee(); sc != nil {
					targets = append(targets, sc)
				} else {
					targets = p.FuncFlow().Resolve(x.Call.Value, 0)
				}
				for _, t := range targets {
					if t.Blocks == nil || !inModule(t) {
						continue
					}
					for _, r := range returnsOf(t) {
						if len(r.Results) == 1 && fromText(r.Results[0], depth+1) {
							return true
						}
					}
				}
			}
		case *ssa.Slice:
			return fromText(x.X, depth+1)
		case *ssa.Convert:
			return fromText(x.X, depth+1)
		case *ssa.Phi:
			for _, e := range x.Edges {
				if fromText(e, depth+1) {
					return true
				}
			}
		case *ssa.Parameter:
			// a helper's text parameter: the callers' arguments
			fn := x.Parent()
			idx := -1
			for i, q := range fn.Params {
				if q == x {
					idx = i
				}
			}
			for _, caller := range p.CallGraph().callers[fn] {
				for _, call := range callsIn(caller) {
					if call.Common().StaticCallee() == fn && idx >= 0 && idx < len(call.Common().Args) && fromText(call.Common().Args[idx], depth+1) {
						return true
					}
				}
			}
		}
		return false
	}
	hasWS := func(v ssa.Value) (string, bool) {
		k, ok := v.(*ssa.Const)
		if !ok || k.Value == nil || k.Value.Kind() != constant.String {
			return "", false
		}
		s := constant.StringVal(k.Value)
		return s, strings.ContainsAny(s, " \t\r\n")
	}
	n := 0
	_ = lst
	inL := map[*ssa.Function]bool{}
	for _, fn := range listenerFuncs(c) {
		inL[fn] = true
	}
	for _, fn := range c.prodFuncs("ast") {
		inListener := inL[fn]
		for _, b := range fn.Blocks {
			for _, in := range b.Instrs {
				var ops []ssa.Value
				switch x := in.(type) {
				case *ssa.Call:
					cal, _ := calleeOf(x.Common())
					if cal == nil || cal.Pkg() == nil || cal.Pkg().Path() != "strings" {
						continue
					}
					ops = x.Call.Args
				case *ssa.BinOp:
					if x.Op != token.EQL && x.Op != token.NEQ {
						continue
					}
					ops = []ssa.Value{x.X, x.Y}
				default:
					continue
				}
				var lit *ssa.Const
				text := false
				for _, o := range ops {
					if k, ok := o.(*ssa.Const); ok && k.Value != nil && k.Value.Kind() == constant.String {
						lit = k
					} else if fromText(o, 0) {
						text = true
					}
				}
				if lit == nil || !text {
					continue
				}
				if !inListener && fn.Pkg != nil && fn.Pkg.Pkg.Name() != "ast" {
					continue
				}
				n++
				s, bad := hasWS(lit)
				c.Check(!bad, "C12.TOKENWS", FnName(fn)+": token text matched against "+strconv.Quote(s), p.Pos(in.Pos()), "the literal contains no white space", "token text is matched against a literal containing white space: inside a token any of space, tab, CR, LF (and any number of them) may separate the words, so the match — and with it the meaning of the query — depends on how the query is spaced")
			}
		}
	}
	c.CallSites(n)
	c.Floor("C12.TOKENWS", 1)
	ruleDatetimeTokenWS(c, "C12.DATETIMEWS")
}

// ---- PREC ------------------------------------------------------------------------------------

type opAlt struct {
	name    string // AndExpr / OrExpr / NotExpr
	level   int    // Precpred level (−1 for prefix)
	arg     int    // argument of the recursive boolExpr call for the right operand
	state   int    // ATN state set before the recursive call
	pos     token.Pos
	haveArg bool
	haveLvl bool
}

func intLit(e ast.Expr) (int, bool) {
	bl, ok := e.(*ast.BasicLit)
	if !ok || bl.Kind != token.INT {
		return 0, false
	}
	n, err := strconv.Atoi(bl.Value)
	return n, err == nil
}

func ruleC12Prec(c *Ctx) {
	p := c.P
	pk := p.pkg("zitiql")
	fnObj := p.Method("zitiql", "ZitiQlParser", "boolExpr")
	fd := p.Decls[fnObj]
	if fd == nil {
		panic(anchorLost{"declaration of zitiql.(*ZitiQlParser).boolExpr"})
	}
	c.Analysed("(*zitiql.ZitiQlParser).boolExpr")
	alts := map[string]*opAlt{}
	// walk case clauses; a clause belongs to an operator when it assigns localctx = New<Op>Context(...)
	var walkClause func(n ast.Node, cur *opAlt, lastState *int)
	walkClause = func(n ast.Node, cur *opAlt, lastState *int) {
		ast.Inspect(n, func(x ast.Node) bool {
			switch s := x.(type) {
			case *ast.CaseClause:
				if x == n {
					return true
				}
				// nested clause: inherits the operator unless it assigns its own
				own := cur
				for _, st := range s.Body {
					if as, ok := st.(*ast.AssignStmt); ok && len(as.Rhs) == 1 {
						if call, ok := as.Rhs[0].(*ast.CallExpr); ok {
							if id, ok := call.Fun.(*ast.Ident); ok {
								for _, op := range []string{"AndExpr", "OrExpr", "NotExpr"} {
									if id.Name == "New"+op+"Context" {
										own = &opAlt{name: op, level: -1}
										alts[op] = own
									}
								}
							}
						}
					}
				}
				ls := *lastState
				walkClause(s, own, &ls)
				return false
			case *ast.CallExpr:
				sel, ok := s.Fun.(*ast.SelectorExpr)
				if !ok {
					return true
				}
				switch sel.Sel.Name {
				case "SetState":
					if n, ok := intLit(s.Args[0]); ok {
						*lastState = n
					}
				case "Precpred":
					if cur != nil && len(s.Args) == 2 {
						if n, ok := intLit(s.Args[1]); ok && !cur.haveLvl {
							cur.level, cur.haveLvl = n, true
						}
					}
				case "boolExpr":
					if cur != nil && len(s.Args) == 1 {
						if obj, ok := pk.TypesInfo.Uses[sel.Sel].(*types.Func); ok && obj == fnObj {
							if n, ok := intLit(s.Args[0]); ok {
								cur.arg, cur.haveArg, cur.state, cur.pos = n, true, *lastState, s.Pos()
							}
						}
					}
				}
			}
			return true
		})
	}
	st := 0
	walkClause(fd.Body, nil, &st)
	and, or, not := alts["AndExpr"], alts["OrExpr"], alts["NotExpr"]
	if and == nil || or == nil || !and.haveLvl || !or.haveLvl || !and.haveArg || !or.haveArg {
		c.Undecided("C12.PREC", "(*zitiql.ZitiQlParser).boolExpr: operator alternatives", p.Pos(fd.Pos()), "cannot read the AND/OR alternatives (Precpred level and recursive call) from the generated parser")
		return
	}
	c.Note(fmt.Sprintf("generated parser: AND level %d right operand boolExpr(%d) [state %d]; OR level %d right operand boolExpr(%d) [state %d]", and.level, and.arg, and.state, or.level, or.arg, or.state))
	c.Check(and.level > or.level, "C12.PREC", "(*zitiql.ZitiQlParser).boolExpr: AND above OR", p.Pos(fd.Pos()),
		fmt.Sprintf("AND has precedence level %d > OR level %d", and.level, or.level), fmt.Sprintf("AND level %d is not above OR level %d", and.level, or.level))
	c.Check(and.arg > or.level, "C12.PREC", "(*zitiql.ZitiQlParser).boolExpr: AndExpr right operand precedence", p.Pos(and.pos),
		fmt.Sprintf("the right operand of AND is parsed with boolExpr(%d) > OR level %d, so it cannot absorb a bare OR", and.arg, or.level),
		fmt.Sprintf("the right operand of AND is parsed with p.boolExpr(%d), which admits an OR (level %d): `a and b or c` groups as `a and (b or c)`; grammar alternative `boolExpr (WS+ AND WS+ boolExpr)+` is not binary, so ANTLR emits precedence 0 for it", and.arg, or.level))
	// an OR right operand at level <= OR level only re-associates OR (harmless); it must not exceed AND's own level rules
	c.Check(or.arg <= or.level+1, "C12.PREC", "(*zitiql.ZitiQlParser).boolExpr: OrExpr right operand precedence", p.Pos(or.pos),
		fmt.Sprintf("the right operand of OR is parsed with boolExpr(%d): it may contain ANDs (tighter) and further ORs (associative)", or.arg),
		fmt.Sprintf("the right operand of OR is parsed with boolExpr(%d) which excludes AND-expressions below that level", or.arg))
	if not != nil && not.haveArg {
		c.Observation(fmt.Sprintf("prefix NOT parses its operand with boolExpr(%d): `not a and b` groups as `not (a and b)` (the property only fixes `not (P)`)", not.arg))
	}
	if and.arg >= and.level {
		c.Undecided("C12.ARITY", "(*ast.ToBoltListener).ExitAndExpr", p.Pos(fd.Pos()), "the grammar now lets one AndExpr context hold more than two operands; the listener's two-pop construction must be re-verified")
	} else {
		c.OK("C12.ARITY", "(*ast.ToBoltListener).ExitAndExpr/ExitOrExpr", p.Pos(fd.Pos()), "right operands are parsed at a level that swallows the rest of a chain, so every And/Or context has exactly two boolExpr children and the listener's two pops are exact (becomes live when PREC is repaired)")
	}
	// ---- ATN cross-check ------------------------------------------------------------------
	atn, err := readSerializedATN(c)
	if err != "" {
		c.Undecided("C12.PREC.ATN", "zitiql.serializedATN", "-", err)
		return
	}
	ruleIdx := int(constInt(p.Obj("zitiql", "ZitiQlParserRULE_boolExpr")))
	for _, a := range []*opAlt{and, or, not} {
		if a == nil || !a.haveArg {
			continue
		}
		found := false
		for _, e := range atn.edges {
			if e[0] == a.state && e[2] == 3 && e[4] == ruleIdx {
				found = true
				c.Check(e[5] == a.arg, "C12.PREC.ATN", "zitiql ATN edge from state "+strconv.Itoa(a.state)+" ("+a.name+")", p.Pos(a.pos),
					fmt.Sprintf("ATN rule transition precedence %d equals the Go literal", e[5]),
					fmt.Sprintf("the serialized ATN invokes boolExpr with precedence %d but the generated Go code passes %d: prediction and parsing disagree", e[5], a.arg))
			}
		}
		if !found {
			c.Undecided("C12.PREC.ATN", "zitiql ATN edge from state "+strconv.Itoa(a.state)+" ("+a.name+")", p.Pos(a.pos), "no RULE transition to boolExpr from that state in the serialized ATN")
		}
	}
	// precedence predicates present in the ATN equal the Go levels
	levels := map[int]bool{}
	for _, e := range atn.edges {
		if e[2] == 10 {
			levels[e[3]] = true
		}
	}
	c.Check(levels[and.level] && levels[or.level], "C12.PREC.ATN", "zitiql ATN precedence predicates", p.Pos(fd.Pos()), fmt.Sprintf("the ATN carries precedence predicates %d (AND) and %d (OR)", and.level, or.level), "the ATN's precedence predicates do not match the Go Precpred levels")
	c.Floor("C12.PREC", 3)
	c.Floor("C12.PREC.ATN", 3)
}

type atnData struct {
	edges [][6]int
}

func readSerializedATN(c *Ctx) (*atnData, string) {
	p := c.P
	pk := p.pkg("zitiql")
	var nums []int
	for _, f := range pk.Syntax {
		if filepath.Base(p.Fset.Position(f.Pos()).Filename) != "zitiql_parser.go" {
			continue
		}
		ast.Inspect(f, func(n ast.Node) bool {
			as, ok := n.(*ast.AssignStmt)
			if !ok || len(as.Lhs) != 1 || len(as.Rhs) != 1 {
				return true
			}
			sel, ok := as.Lhs[0].(*ast.SelectorExpr)
			if !ok || sel.Sel.Name != "serializedATN" {
				return true
			}
			cl, ok := as.Rhs[0].(*ast.CompositeLit)
			if !ok {
				return true
			}
			for _, e := range cl.Elts {
				tv := pk.TypesInfo.Types[e]
				if tv.Value == nil {
					nums = nil
					return false
				}
				v, _ := constant.Int64Val(tv.Value)
				nums = append(nums, int(v))
			}
			return false
		})
	}
	if len(nums) < 10 {
		return nil, "serializedATN literal not found in zitiql_parser.go"
	}
	i := 0
	next := func() int {
		if i >= len(nums) {
			return -1
		}
		v := nums[i]
		i++
		return v
	}
	if v := next(); v != 4 {
		return nil, fmt.Sprintf("unsupported ATN serialization version %d (decoder knows v4)", v)
	}
	next() // grammar type
	next() // max token type
	nstates := next()
	for s := 0; s < nstates; s++ {
		t := next()
		if t == 0 {
			continue
		}
		next() // rule index
		if t == 12 {
			next()
		} else if t == 3 || t == 4 || t == 5 {
			next()
		}
	}
	for n := next(); n > 0; n-- {
		next()
	}
	for n := next(); n > 0; n-- {
		next()
	}
	nrules := next()
	for r := 0; r < nrules; r++ {
		next()
	}
	for n := next(); n > 0; n-- {
		next()
	}
	nsets := next()
	for s := 0; s < nsets; s++ {
		nint := next()
		next() // contains eof
		for k := 0; k < nint; k++ {
			next()
			next()
		}
	}
	nedges := next()
	if nedges <= 0 || i+nedges*6 > len(nums) {
		return nil, fmt.Sprintf("ATN edge table out of range (nedges=%d at offset %d of %d)", nedges, i, len(nums))
	}
	d := &atnData{}
	for e := 0; e < nedges; e++ {
		var row [6]int
		for k := 0; k < 6; k++ {
			row[k] = next()
		}
		d.edges = append(d.edges, row)
	}
	return d, ""
}

// ---- LISTENER --------------------------------------------------------------------------------

func ruleC12Listener(c *Ctx) {
	p := c.P
	popNode := p.Method("ast", "ToBoltListener", "popNode")
	blNode := p.Named("ast", "BooleanLogicExprNode")
	push := p.Method("ast", "ToBoltListener", "pushStack")
	fieldIdx := func(n *types.Named, name string) string {
		st, _ := n.Underlying().(*types.Struct)
		for i := 0; st != nil && i < st.NumFields(); i++ {
			if st.Field(i).Name() == name {
				return fmt.Sprintf(".f%d", i)
			}
		}
		return ".f?"
	}
	// the listener's Exit hooks, decided by running them on a stack with operands and no latched error: which
	// operands are popped in which order, and what is pushed (type and fields of the new node).  Helpers
	// between the hook and the push (operand structs, shared constructors) are expanded/followed.
	listenerOracle := func(v ssa.Value) (AV, bool) {
		if call, ok := v.(*ssa.Call); ok {
			if isCallTo(call, popNode) {
				node := AV{Kind: "nonnil", Sym: fmt.Sprintf("pop:%p", call)}
				if tup, isTup := call.Type().(*types.Tuple); isTup {
					// a variant that also reports success: the operand is there
					out := AV{Kind: "tuple", Tup: []AV{node}}
					for i := 1; i < tup.Len(); i++ {
						if isBoolType(tup.At(i).Type()) {
							out.Tup = append(out.Tup, avBool(true))
						} else {
							out.Tup = append(out.Tup, AV{Kind: "nil"})
						}
					}
					return out, true
				}
				return node, true
			}
			if invokeNamed(call, "HasError") {
				return avBool(false), true
			}
		}
		if u, ok := v.(*ssa.UnOp); ok && u.Op == token.MUL {
			if f, _ := loadedField(u); f != nil {
				if bt, isB := f.Type().Underlying().(*types.Basic); isB && bt.Kind() == types.Bool {
					return avBool(false), true // debug switches
				}
			}
		}
		// a hook that looks at what kind of node the operand is: assume the operand is of that kind (the
		// result must not depend on it)
		if ta, ok := v.(*ssa.TypeAssert); ok {
			if call, isCall := ta.X.(*ssa.Call); isCall && isCallTo(call, popNode) {
				node := AV{Kind: "nonnil", Sym: fmt.Sprintf("pop:%p", call)}
				if ta.CommaOk {
					return AV{Kind: "tuple", Tup: []AV{node, avBool(true)}}, true
				}
				return node, true
			}
		}
		return AV{}, false
	}
	runHook := func(fn *ssa.Function) (pops []string, pushes []CallEvent, err string) {
		evs, e := DecideCalls(fn, listenerOracle, func(ci ssa.CallInstruction) bool { return isCallTo(ci, popNode) || isCallTo(ci, push) })
		if e != "" {
			return nil, nil, e
		}
		for _, ev := range evs {
			if isCallTo(ev.Call, popNode) {
				pops = append(pops, fmt.Sprintf("pop:%p", ev.Call))
			} else {
				pushes = append(pushes, ev)
			}
		}
		return
	}
	for _, w := range []struct{ m, op string }{{"ExitAndExpr", "AndOp"}, {"ExitOrExpr", "OrOp"}} {
		fn := p.SSAFunc(p.Method("ast", "ToBoltListener", w.m))
		c.Analysed(FnName(fn))
		opK := constInt(p.Obj("ast", w.op))
		pops, pushes, err := runHook(fn)
		if err != "" {
			c.Undecided("C12.LISTENER", FnName(fn), p.Pos(fn.Pos()), "the hook could not be evaluated: "+err)
			continue
		}
		ok, why := true, ""
		switch {
		case len(pops) != 2:
			ok, why = false, fmt.Sprintf("expected exactly two operand pops, found %d", len(pops))
		case len(pushes) != 1:
			ok, why = false, fmt.Sprintf("expected exactly one push, found %d", len(pushes))
		default:
			ev := pushes[0]
			last := len(ev.Args) - 1
			if ev.ArgTypes[last] == nil || namedOf(ev.ArgTypes[last]) != blNode {
				ok, why = false, "what is pushed is not a new BooleanLogicExprNode"
				break
			}
			f := ev.ArgFields[last]
			l, r, o := f[fieldIdx(blNode, "left")], f[fieldIdx(blNode, "right")], f[fieldIdx(blNode, "op")]
			gotOp := int64(-1)
			if o.Kind == "const" {
				gotOp, _ = constant.Int64Val(o.C)
			}
			if l.Sym != pops[1] || r.Sym != pops[0] || gotOp != opK {
				ok, why = false, "the node is not built as {left: second-popped, right: first-popped, op: "+w.op+"}"
			}
		}
		c.Check(ok, "C12.LISTENER", FnName(fn), p.Pos(fn.Pos()), "pops right then left and builds {left, right, "+w.op+"} in source order", why)
	}
	// ExitNotExpr wraps exactly one popped node: every push is a fresh UntypedNotExprNode whose operand is the
	// popped node itself, and the popped operand is not modified (negation applies to the whole operand,
	// parenthesised or not)
	ne := p.SSAFunc(p.Method("ast", "ToBoltListener", "ExitNotExpr"))
	c.Analysed(FnName(ne))
	{
		notT := p.Named("ast", "UntypedNotExprNode")
		pops, pushes, err := runHook(ne)
		if err != "" {
			c.Undecided("C12.LISTENER", FnName(ne), p.Pos(ne.Pos()), "the hook could not be evaluated: "+err)
		} else {
			c.Check(len(pops) == 1, "C12.LISTENER", FnName(ne), p.Pos(ne.Pos()), "wraps exactly one popped operand", "NOT does not wrap exactly one operand")
			okNot, whyNot := len(pushes) == 1, "not exactly one node is pushed"
			if okNot && len(pops) == 1 {
				ev := pushes[0]
				last := len(ev.Args) - 1
				if ev.ArgTypes[last] == nil || namedOf(ev.ArgTypes[last]) != notT {
					okNot, whyNot = false, "something other than a new UntypedNotExprNode is pushed"
				} else {
					wraps := false
					for _, fv := range ev.ArgFields[last] {
						if fv.Sym == pops[0] {
							wraps = true
						}
					}
					if !wraps {
						okNot, whyNot = false, "the pushed node does not wrap the popped operand as a whole"
					}
				}
			}
			// the popped operand is never written to (stores go to objects built here only)
			for _, fn2 := range allFuncsWithAnon(ne) {
				for _, b := range fn2.Blocks {
					for _, in := range b.Instrs {
						if st, ok := in.(*ssa.Store); ok {
							if _, base := fieldOfAddr(st.Addr); base != nil {
								if !isFreshAlloc(base) {
									if _, isRecvField := base.(*ssa.Parameter); !isRecvField {
										okNot, whyNot = false, "the operand node is modified in place"
									}
								}
							}
						}
					}
				}
			}
			c.Check(okNot, "C12.LISTENER", FnName(ne)+": negates the whole operand", p.Pos(ne.Pos()), "pushes UntypedNotExprNode{expr: popped} and never rewrites the operand", "`not (P)` is not built as the negation of the whole operand: "+whyNot)
		}
	}
	// Group: the bolt listener must not override Enter/ExitGroup (parentheses act through tree shape only)
	tbl := p.Named("ast", "ToBoltListener")
	for _, m := range []string{"EnterGroup", "ExitGroup"} {
		obj, _, _ := types.LookupFieldOrMethod(types.NewPointer(tbl), true, p.pkg("ast").Types, m)
		f, _ := obj.(*types.Func)
		own := f != nil && namedOf(recvType(f)) == tbl
		c.Check(!own, "C12.LISTENER", "ast.ToBoltListener."+m, p.Pos(tbl.Obj().Pos()), "not overridden: parentheses do not touch the operand stack", "the listener overrides "+m+": parentheses would manipulate the operand stack")
	}
	// typing: AndOp -> AndExprNode{left,right}, OrOp -> OrExprNode{left,right} — decided by running the
	// transform for each connective with two bool operands that need no further transformation: the result
	// is a new node of the matching type whose first field is the left and second the right operand.  The
	// dispatch may be an if-chain, a switch, a table of constructors or a helper.
	tt := p.SSAFunc(p.Method("ast", "BooleanLogicExprNode", "TypeTransformBool"))
	c.Analysed(FnName(tt))
	opFld := p.Field("ast", "BooleanLogicExprNode", "op")
	for _, w := range []struct{ op, node string }{{"AndOp", "AndExprNode"}, {"OrOp", "OrExprNode"}} {
		k := constInt(p.Obj("ast", w.op))
		nodeT := p.Named("ast", w.node)
		operandName := func(v ssa.Value) string {
			v = assertSource(v)
			if f, base := loadedField(v); f != nil && base == ssa.Value(tt.Params[0]) && (f.Name() == "left" || f.Name() == "right") {
				return f.Name()
			}
			return ""
		}
		oracle := func(v ssa.Value) (AV, bool) {
			switch x := v.(type) {
			case *ssa.UnOp:
				if f, base := loadedField(x); sameVar(f, opFld) && base == ssa.Value(tt.Params[0]) {
					return avInt(k), true
				}
				if nm := operandName(x); nm != "" {
					return AV{Kind: "nonnil", Sym: "operand:" + nm}, true
				}
			case *ssa.TypeAssert:
				if !x.CommaOk {
					return AV{}, false
				}
				nm := ""
				if it, isI := x.AssertedType.Underlying().(*types.Interface); isI {
					for i := 0; i < it.NumMethods(); i++ {
						if strings.HasPrefix(it.Method(i).Name(), "TypeTransform") {
							nm = "transformable"
						}
					}
				}
				if nm == "transformable" {
					// operands that are already typed: nothing to transform
					return AV{Kind: "tuple", Tup: []AV{{Kind: "nil"}, avBool(false)}}, true
				}
				if on := operandName(x.X); on != "" {
					return AV{Kind: "tuple", Tup: []AV{{Kind: "nonnil", Sym: "operand:" + on}, avBool(true)}}, true
				}
			case *ssa.Call:
				if cal, _ := calleeOf(x.Common()); cal != nil && isErrorCtor(cal) {
					return AV{Kind: "nonnil"}, true
				}
			}
			return AV{}, false
		}
		res, typeOf, fieldsOf, err := DecideObjects(tt, oracle)
		construct := FnName(tt) + ": " + w.op
		if err != "" {
			c.Undecided("C12.LISTENER", construct, p.Pos(tt.Pos()), "the transform could not be evaluated for this connective: "+err)
			continue
		}
		ok, why := true, ""
		switch {
		case len(res) != 2 || res[1].Kind != "nil":
			ok, why = false, fmt.Sprintf("the transform of %s with two bool operands reports an error (%v)", w.op, res)
		case typeOf(res[0]) == nil || namedOf(typeOf(res[0])) != nodeT:
			ok, why = false, fmt.Sprintf("%s is not typed as a new %s (got %v)", w.op, w.node, typeOf(res[0]))
		default:
			// the node's fields in declaration order, those of an embedded operand struct included
			f := leafFields(fieldsOf(res[0]))
			var a, b AV
			if len(f) == 2 {
				a, b = f[0], f[1]
			}
			if a.Sym != "operand:left" || b.Sym != "operand:right" {
				ok, why = false, fmt.Sprintf("%s is typed as %s but its operands are (%s, %s) instead of (left, right)", w.op, w.node, a.Sym, b.Sym)
			}
		}
		c.Check(ok, "C12.LISTENER", construct, p.Pos(tt.Pos()), w.op+" becomes "+w.node+"{left, right}", w.op+" is not typed as "+w.node+" with operands in order: "+why)
	}
	// typing of NOT: the typed node is NotExprNode wrapping the typed operand — no operator flipping
	// (null makes ordered comparisons false, so `not (a < b)` is not `a >= b`)
	nt := p.SSAFunc(p.Method("ast", "UntypedNotExprNode", "TypeTransformBool"))
	c.Analysed(FnName(nt))
	notT := p.Named("ast", "NotExprNode")
	{
		// decided by running the transform on an operand that is a bool node needing no further transformation
		operand := func(v ssa.Value) bool {
			v = assertSource(v)
			f, base := loadedField(v)
			return f != nil && f.Name() == "expr" && base == ssa.Value(nt.Params[0])
		}
		oracle := func(v ssa.Value) (AV, bool) {
			switch x := v.(type) {
			case *ssa.UnOp:
				if operand(x) {
					return AV{Kind: "nonnil", Sym: "operand:expr"}, true
				}
			case *ssa.TypeAssert:
				if !x.CommaOk {
					return AV{}, false
				}
				if it, isI := x.AssertedType.Underlying().(*types.Interface); isI {
					for i := 0; i < it.NumMethods(); i++ {
						if strings.HasPrefix(it.Method(i).Name(), "TypeTransform") {
							return AV{Kind: "tuple", Tup: []AV{{Kind: "nil"}, avBool(false)}}, true
						}
					}
				}
				if operand(x.X) {
					return AV{Kind: "tuple", Tup: []AV{{Kind: "nonnil", Sym: "operand:expr"}, avBool(true)}}, true
				}
				// an assertion to a concrete node type (operator flipping looks at the operand's kind): yes
				if ov := assertSource(x.X); operand(ov) || operand(x.X) {
					return AV{Kind: "tuple", Tup: []AV{{Kind: "nonnil", Sym: "operand:expr"}, avBool(true)}}, true
				}
			case *ssa.Call:
				if cal, _ := calleeOf(x.Common()); cal != nil && isErrorCtor(cal) {
					return AV{Kind: "nonnil"}, true
				}
			}
			return AV{}, false
		}
		res, typeOf, fieldsOf, err := DecideObjects(nt, oracle)
		if err != "" {
			c.Undecided("C12.LISTENER", FnName(nt), p.Pos(nt.Pos()), "the transform could not be evaluated: "+err)
		} else {
			okN := len(res) == 2 && res[1].Kind == "nil" && typeOf(res[0]) != nil && namedOf(typeOf(res[0])) == notT
			if okN {
				wraps := false
				for _, fv := range fieldsOf(res[0]) {
					if fv.Sym == "operand:expr" {
						wraps = true
					}
				}
				okN = wraps
			}
			c.Check(okN, "C12.LISTENER", FnName(nt), p.Pos(nt.Pos()), "the result is NotExprNode{expr: typed operand}", "`not (P)` is not always typed as the negation node around P (e.g. the operator is flipped instead): with null operands `not (a < b)` differs from `a >= b`")
		}
	}
	c.Floor("C12.LISTENER", 7)
}

// assertSource: for v = extract(typeassert,ok x.(T)) #0 return x.
func assertSource(v ssa.Value) ssa.Value {
	// a join of "the asserted value" with nil (the failing arm of a helper): the asserted value
	if phi, ok := v.(*ssa.Phi); ok {
		var src ssa.Value
		for _, e := range phi.Edges {
			if isNilConst(e) {
				continue
			}
			s := assertSource(e)
			if src != nil && src != s {
				return v
			}
			src = s
		}
		if src != nil {
			return src
		}
		return v
	}
	if ex, ok := v.(*ssa.Extract); ok && ex.Index == 0 {
		if ta, ok := ex.Tuple.(*ssa.TypeAssert); ok {
			return ta.X
		}
	}
	if ta, ok := v.(*ssa.TypeAssert); ok {
		return ta.X
	}
	return v
}

// ---- TRUTH TABLES ----------------------------------------------------------------------------

func ruleC12Truth(c *Ctx) {
	p := c.P
	evalBoolOn := func(v ssa.Value, fn *ssa.Function, field string) bool {
		call, ok := v.(*ssa.Call)
		if !ok || !call.Call.IsInvoke() || call.Call.Method.Name() != "EvalBool" {
			return false
		}
		f, base := loadedField(call.Call.Value)
		return f != nil && f.Name() == field && base == ssa.Value(fn.Params[0])
	}
	type spec struct {
		typ    string
		fields []string
		want   func(v []bool) bool
	}
	for _, s := range []spec{
		{"AndExprNode", []string{"left", "right"}, func(v []bool) bool { return v[0] && v[1] }},
		{"OrExprNode", []string{"left", "right"}, func(v []bool) bool { return v[0] || v[1] }},
		{"NotExprNode", []string{"expr"}, func(v []bool) bool { return !v[0] }},
	} {
		fn := p.SSAFunc(p.Method("ast", s.typ, "EvalBool"))
		name := FnName(fn)
		c.Analysed(name)
		n := len(s.fields)
		okAll := true
		rows := 0
		for mask := 0; mask < 1<<n; mask++ {
			vals := make([]bool, n)
			for i := range vals {
				vals[i] = mask&(1<<i) != 0
			}
			oracle := func(v ssa.Value) (AV, bool) {
				for i, f := range s.fields {
					if evalBoolOn(v, fn, f) {
						return avBool(vals[i]), true
					}
				}
				return AV{}, false
			}
			res, err := Decide(fn, oracle, nil)
			rows++
			if err != "" {
				c.Undecided("C12.TRUTH", name, p.Pos(fn.Pos()), "not loop-free-decidable: "+err)
				okAll = false
				break
			}
			got := res[0].Kind == "const" && constant.BoolVal(res[0].C)
			if res[0].Kind != "const" || got != s.want(vals) {
				okAll = false
				c.Bad("C12.TRUTH", name, p.Pos(fn.Pos()), fmt.Sprintf("for operands %v the node evaluates to %v, expected %v", vals, res[0], s.want(vals)))
			}
		}
		if okAll {
			c.OK("C12.TRUTH", name, p.Pos(fn.Pos()), fmt.Sprintf("truth table complete (%d rows)", rows))
		}
	}
	c.Floor("C12.TRUTH", 3)
}

// ---- CASE --------------------------------------------------------------------------------------

func ruleC12Case(c *Ctx) {
	p := c.P
	g4, err := os.ReadFile(filepath.Join(p.Root, "zitiql", "ZitiQl.g4"))
	if err != nil {
		c.Undecided("C12.CASE", "zitiql/ZitiQl.g4", "-", err.Error())
		return
	}
	// lexer rules: NAME: body ;   (upper-case names, not fragments of single letters)
	re := regexp.MustCompile(`(?m)^(fragment\s+)?([A-Z][A-Z_0-9]*)\s*:\s*([^;]*);`)
	anyLit := regexp.MustCompile(`'(?:\\.|[^'\\])*'`)
	hasLetter := regexp.MustCompile(`[A-Za-z]`)
	tabled := map[string]string{
		"DATETIME": "the datetime(...) literal constructor is spelled lower-case by the grammar; it is a literal form, not a keyword or word operator",
		"EXP":      "exponent marker lists both cases explicitly ([Ee])",
	}
	n := 0
	for _, m := range re.FindAllStringSubmatch(string(g4), -1) {
		name, body := m[2], m[3]
		if len(name) == 1 { // letter fragments A..Z
			continue
		}
		var lits []string
		for _, l := range anyLit.FindAllString(body, -1) {
			inner := strings.ReplaceAll(l[1:len(l)-1], `\\`, "")
			inner = regexp.MustCompile(`\\[nrtfbu]`).ReplaceAllString(inner, "")
			if hasLetter.MatchString(inner) {
				lits = append(lits, l)
			}
		}
		if len(lits) == 0 {
			// count it as a keyword rule if it is made of letter fragments
			if regexp.MustCompile(`\b[A-Z]\b`).MatchString(body) {
				n++
				c.OK("C12.CASE", "ZitiQl.g4 token "+name, "-", "spelled with case-insensitive letter fragments only")
			}
			continue
		}
		n++
		if why, ok := tabled[name]; ok {
			c.OK("C12.CASE", "ZitiQl.g4 token "+name, "-", "tabled: "+why)
			continue
		}
		c.Bad("C12.CASE", "ZitiQl.g4 token "+name, "-", "the token contains a case-sensitive literal "+strings.Join(lits, " ")+": keywords must be spelled with the [xX] letter fragments")
	}
	c.Floor("C12.CASE", 20)
	_ = n
	// listener: text tests on token text are case-folded
	// (every function of package ast: decoders may live in tables or free functions)
	inListener := map[*ssa.Function]bool{}
	for _, fn := range listenerFuncs(c) {
		inListener[fn] = true
	}
	for _, fn := range c.prodFuncs("ast") {
		c.Analysed(FnName(fn))
		// map lookups keyed by token text: if the map has letter-bearing keys the text must be folded
		for _, b := range fn.Blocks {
			for _, in := range b.Instrs {
				lk, ok := in.(*ssa.Lookup)
				if !ok {
					continue
				}
				u, ok := lk.X.(*ssa.UnOp)
				if !ok {
					continue
				}
				g, ok := u.X.(*ssa.Global)
				if !ok {
					continue
				}
				keys := globalMapStringKeys(p, g)
				letters := false
				for _, k := range keys {
					if strings.ToLower(k) != strings.ToUpper(k) {
						letters = true
					}
				}
				folded := false
				var walk func(v ssa.Value, d int)
				walk = func(v ssa.Value, d int) {
					if d > 6 {
						return
					}
					if call, ok := v.(*ssa.Call); ok {
						if f, _ := calleeOf(call.Common()); f != nil && f.Pkg() != nil && f.Pkg().Path() == "strings" && (f.Name() == "ToLower" || f.Name() == "ToUpper") {
							folded = true
						}
						for _, a := range call.Call.Args {
							walk(a, d+1)
						}
					}
				}
				walk(lk.Index, 0)
				construct := FnName(fn) + ": lookup in " + g.Name()
				c.Check(!letters || folded, "C12.CASE", construct, p.Pos(lk.Pos()), fmt.Sprintf("map keys %q contain no letters, or the token text is case-folded first", keys), fmt.Sprintf("token text is looked up in a map with letter-bearing keys %q without case folding: any other spelling (IN, Not In, BETWEEN) silently maps to the zero operator", keys))
			}
		}
		for _, call := range callsIn(fn) {
			cal, _ := calleeOf(call.Common())
			if cal == nil || cal.Pkg() == nil {
				continue
			}
			isContains := cal.Pkg().Path() == "strings" && (cal.Name() == "Contains" || cal.Name() == "HasPrefix" || cal.Name() == "HasSuffix" || cal.Name() == "EqualFold")
			isParseBool := cal.Pkg().Path() == "strconv" && cal.Name() == "ParseBool"
			if !isContains && !isParseBool {
				continue
			}
			if isContains && !inListener[fn] {
				continue // string tests on data (contains operator), not on token text
			}
			if cal.Name() == "EqualFold" {
				c.OK("C12.CASE", FnName(fn)+": "+cal.Name(), p.Pos(call.Pos()), "case-insensitive comparison")
				continue
			}
			arg := call.Common().Args[0]
			folded := false
			if k, ok := arg.(*ssa.Call); ok {
				if f, _ := calleeOf(k.Common()); f != nil && f.Pkg() != nil && f.Pkg().Path() == "strings" && (f.Name() == "ToLower" || f.Name() == "ToUpper") {
					folded = true
					if isContains {
						lit, _ := constString(call.Common().Args[1])
						if (f.Name() == "ToLower" && lit != strings.ToLower(lit)) || (f.Name() == "ToUpper" && lit != strings.ToUpper(lit)) {
							folded = false
						}
					}
				}
			}
			c.Check(folded, "C12.CASE", FnName(fn)+": "+cal.Name(), p.Pos(call.Pos()), "token text is case-folded before the comparison", "token text is compared/parsed without case folding: `NOT IN`, `TRUE` etc. would be misread")
		}
	}
}

// globalMapStringKeys: constant string keys written into a package-level map by its initialiser.
func globalMapStringKeys(p *Prog, g *ssa.Global) []string {
	var keys []string
	initFn := g.Pkg.Func("init")
	for _, b := range initFn.Blocks {
		for _, in := range b.Instrs {
			mu, ok := in.(*ssa.MapUpdate)
			if !ok {
				continue
			}
			// the map value that is later stored into g
			stored := false
			for _, r := range *mu.Map.Referrers() {
				if st, ok := r.(*ssa.Store); ok && st.Addr == ssa.Value(g) {
					stored = true
				}
			}
			if !stored {
				continue
			}
			if k, ok := constString(mu.Key); ok {
				keys = append(keys, k)
			}
		}
	}
	return keys
}

// listenerFuncs: every method of the parse listener (and the closures inside them); the listener's
// unexported helpers are expanded into these by the normalisation pass unless a rule names them.
func listenerFuncs(c *Ctx) []*ssa.Function {
	lst := c.P.Named("ast", "ToBoltListener")
	var out []*ssa.Function
	seen := map[*ssa.Function]bool{}
	for _, fn := range c.prodFuncs("ast") {
		root := fn
		for root.Parent() != nil {
			root = root.Parent()
		}
		if root.Signature.Recv() != nil && namedOf(root.Signature.Recv().Type()) == lst {
			out = append(out, fn)
			seen[fn] = true
			continue
		}
		// ... handlers that are handed the listener (entries of a dispatch table, closures a factory returns)
		for _, f := range []*ssa.Function{fn, root} {
			if seen[fn] || isControl(FnName(root)) {
				break
			}
			for _, prm := range f.Params {
				if pt, isP := prm.Type().(*types.Pointer); isP && namedOf(pt.Elem()) == lst {
					out = append(out, fn)
					seen[fn] = true
					break
				}
			}
		}
	}
	// ... and the free functions of the package they call (decoders moved out of the listener)
	for i := 0; i < len(out); i++ {
		for _, call := range callsIn(out[i]) {
			callee := call.Common().StaticCallee()
			if callee == nil || seen[callee] || callee.Blocks == nil || callee.Pkg == nil || callee.Pkg.Pkg.Name() != "ast" || callee.Signature.Recv() != nil {
				continue
			}
			if c.P.isGenerated(callee.Pos()) || c.P.isTestSupport(callee.Pos()) || strings.HasPrefix(callee.Name(), "zzControl") {
				continue
			}
			seen[callee] = true
			out = append(out, callee)
			out = append(out, callee.AnonFuncs...)
		}
	}
	return out
}

// leafFields: the values of an object's fields as stored on the decided path (".f0", ".f1", ".f0.f1", ...), in
// declaration order, with the fields of embedded structs in place of the struct.
func leafFields(f map[string]AV) []AV {
	var keys []string
	for k := range f {
		keys = append(keys, k)
	}
	sort.Strings(keys)
	var out []AV
	for _, k := range keys {
		leaf := true
		for _, o := range keys {
			if o != k && strings.HasPrefix(o, k+".") {
				leaf = false
			}
		}
		if leaf {
			out = append(out, f[k])
		}
	}
	return out
}
