package main

import (
	"go/constant"
	"go/token"
	"go/types"

	"golang.org/x/tools/go/ssa"
)

// Rules added after the eighth round of seeded changes.

// ruleEmptyRef: a reference read from an entity (the value part of symbol.Eval) is looked up in the referenced
// store only where that VALUE is known to be non-empty (key != nil, len(key) > 0).  The index maintenance decides
// "no reference" by the value (an empty string is stored as the bare type tag and reads back as (TypeString,
// nil)); a scan that decides it by the type tag instead asks the other store for the entity "" and reports a
// dangling reference on a healthy database (and, fixing, overwrites the field).
func ruleEmptyRef(c *Ctx, rule string) {
	p := c.P
	n := 0
	for _, fn := range c.prodFuncs("boltz") {
		var fi *FactInfo
		for _, call := range callsIn(fn) {
			if !invokeNamed(call, "IsEntityPresent") || !call.Common().IsInvoke() || len(call.Common().Args) != 2 {
				continue
			}
			// the id asked about: string(key) with key the value part of an Eval
			cv, isConv := call.Common().Args[1].(*ssa.Convert)
			if !isConv {
				continue
			}
			key := cv.X
			ex, isEx := key.(*ssa.Extract)
			if !isEx || ex.Index != 1 {
				continue
			}
			src, isCall := ex.Tuple.(*ssa.Call)
			if !isCall || !invokeNamed(src, "Eval") {
				continue
			}
			if fi == nil {
				fi = factsOf(fn)
				c.Analysed(FnName(fn))
			}
			n++
			isLenOfKey := func(v ssa.Value) bool {
				k, ok := v.(*ssa.Call)
				if !ok {
					return false
				}
				b, isB := k.Call.Value.(*ssa.Builtin)
				return isB && b.Name() == "len" && len(k.Call.Args) == 1 && k.Call.Args[0] == key
			}
			isZero := func(v ssa.Value) bool {
				k, ok := v.(*ssa.Const)
				return ok && k.Value != nil && k.Value.Kind() == constant.Int && constant.Sign(k.Value) == 0
			}
			ok := fi.HoldsWhere(call.Block(), func(f Fact) bool {
				if f.Kind == "nonnil" && f.Pol && f.V == key {
					return true
				}
				bo, isB := f.V.(*ssa.BinOp)
				if f.Kind != "true" || !isB {
					return false
				}
				switch {
				case isLenOfKey(bo.X) && isZero(bo.Y):
					return (bo.Op == token.GTR && f.Pol) || (bo.Op == token.NEQ && f.Pol) || (bo.Op == token.EQL && !f.Pol) || (bo.Op == token.LEQ && !f.Pol)
				case isZero(bo.X) && isLenOfKey(bo.Y):
					return (bo.Op == token.LSS && f.Pol) || (bo.Op == token.NEQ && f.Pol) || (bo.Op == token.EQL && !f.Pol) || (bo.Op == token.GEQ && !f.Pol)
				}
				return false
			})
			c.Check(ok, rule, FnName(fn)+": "+describeInstr(call), p.Pos(call.Pos()), "the referenced store is asked only where the reference value is known to be non-empty ("+fi.Describe(call.Block())+")", "the referenced store is asked about a reference whose value was not established to be non-empty (the decision is made on something else, e.g. the type tag): an entity holding the empty string is reported as dangling — and nulled in fix mode — on a healthy database")
		}
	}
	c.CallSites(n)
	c.Floor(rule, 2)
	_ = types.Typ
}
