package main

import (
	"go/constant"
	"go/token"
	"go/types"
	"sort"
	"strings"

	"golang.org/x/tools/go/ssa"
)

// Rules added after the eighth round of seeded changes.

// ruleEmptyRef: a reference read from an entity (the value part of symbol.Eval) is looked up in the referenced
// store only where that VALUE is known to be non-empty (key != nil, len(key) > 0).  The index maintenance decides
// "no reference" by the value (an empty string is stored as the bare type tag and reads back as (TypeString,
// nil)); a scan that decides it by the type tag instead asks the other store for the entity "" and reports a
// dangling reference on a healthy database (and, fixing, overwrites the field).
func ruleEmptyRef(c *Ctx, rule string) {
	p := c.P
	n := 0
	for _, fn := range c.prodFuncs("boltz") {
		var fi *FactInfo
		for _, call := range callsIn(fn) {
			if !invokeNamed(call, "IsEntityPresent") || !call.Common().IsInvoke() || len(call.Common().Args) != 2 {
				continue
			}
			// the id asked about: string(key) with key the value part of an Eval
			cv, isConv := call.Common().Args[1].(*ssa.Convert)
			if !isConv {
				continue
			}
			key := cv.X
			ex, isEx := key.(*ssa.Extract)
			if !isEx || ex.Index != 1 {
				continue
			}
			src, isCall := ex.Tuple.(*ssa.Call)
			if !isCall || !invokeNamed(src, "Eval") {
				continue
			}
			if fi == nil {
				fi = factsOf(fn)
				c.Analysed(FnName(fn))
			}
			n++
			isLenOfKey := func(v ssa.Value) bool {
				k, ok := v.(*ssa.Call)
				if !ok {
					return false
				}
				b, isB := k.Call.Value.(*ssa.Builtin)
				return isB && b.Name() == "len" && len(k.Call.Args) == 1 && k.Call.Args[0] == key
			}
			isZero := func(v ssa.Value) bool {
				k, ok := v.(*ssa.Const)
				return ok && k.Value != nil && k.Value.Kind() == constant.Int && constant.Sign(k.Value) == 0
			}
			ok := fi.HoldsWhere(call.Block(), func(f Fact) bool {
				if f.Kind == "nonnil" && f.Pol && f.V == key {
					return true
				}
				bo, isB := f.V.(*ssa.BinOp)
				if f.Kind != "true" || !isB {
					return false
				}
				switch {
				case isLenOfKey(bo.X) && isZero(bo.Y):
					return (bo.Op == token.GTR && f.Pol) || (bo.Op == token.NEQ && f.Pol) || (bo.Op == token.EQL && !f.Pol) || (bo.Op == token.LEQ && !f.Pol)
				case isZero(bo.X) && isLenOfKey(bo.Y):
					return (bo.Op == token.LSS && f.Pol) || (bo.Op == token.NEQ && f.Pol) || (bo.Op == token.EQL && !f.Pol) || (bo.Op == token.GEQ && !f.Pol)
				}
				return false
			})
			c.Check(ok, rule, FnName(fn)+": "+describeInstr(call), p.Pos(call.Pos()), "the referenced store is asked only where the reference value is known to be non-empty ("+fi.Describe(call.Block())+")", "the referenced store is asked about a reference whose value was not established to be non-empty (the decision is made on something else, e.g. the type tag): an entity holding the empty string is reported as dangling — and nulled in fix mode — on a healthy database")
		}
	}
	c.CallSites(n)
	c.Floor(rule, 2)
	_ = types.Typ
}

// ruleCommitHook: binding a transaction to a mutate context registers the context's commit handler with that
// transaction, unconditionally: commit actions may be queued at any time — before the context has a transaction
// (NewMutateContext(...).AddCommitAction(f) and then db.Update(ctx, ...)) or after — and run once when the
// transaction the context is bound to commits.  A registration made only when an action is queued misses the
// actions queued before the transaction existed.
func ruleCommitHook(c *Ctx, rule string) {
	p := c.P
	onCommit := p.ExtMethod(bboltPath, "Tx", "OnCommit")
	n := 0
	// the field the context keeps its transaction in: the one its setTx fills from the parameter
	var txField *types.Var
	for _, fn := range c.prodFuncs("boltz") {
		if fn.Name() != "setTx" || fn.Signature.Recv() == nil || len(fn.Params) != 2 {
			continue
		}
		for _, b := range fn.Blocks {
			for _, in := range b.Instrs {
				if st, ok := in.(*ssa.Store); ok && st.Val == ssa.Value(fn.Params[1]) {
					if f, base := fieldOfAddr(st.Addr); f != nil && base == ssa.Value(fn.Params[0]) {
						txField = f
					}
				}
			}
		}
	}
	if txField == nil {
		c.Undecided(rule, "boltz mutate context: transaction field", "-", "cannot find the setTx that keeps the transaction in a field of the context")
		return
	}
	// every function that puts a transaction into that field (setTx, or a constructor filling it directly)
	for _, fn := range c.prodFuncs("boltz") {
		var stores []*ssa.Store
		for _, b := range fn.Blocks {
			for _, in := range b.Instrs {
				st, ok := in.(*ssa.Store)
				if !ok || isNilConst(st.Val) {
					continue
				}
				if f, _ := fieldOfAddr(st.Addr); f != nil && sameVar(f, txField) {
					stores = append(stores, st)
				}
			}
		}
		for _, st := range stores {
			tx := st.Val
			_, holder := fieldOfAddr(st.Addr)
			n++
			name := FnName(fn)
			c.Analysed(name)
			fi := factsOf(fn)
			isTxOf := func(v ssa.Value) bool {
				if v == tx {
					return true
				}
				// the field the transaction was just stored in
				f, base := loadedField(v)
				return f != nil && sameVar(f, txField) && base == holder
			}
			isHook := func(in ssa.Instruction) bool {
				call, ok := in.(ssa.CallInstruction)
				if !ok || !isCallTo(call, onCommit) || len(call.Common().Args) < 1 {
					return false
				}
				return isTxOf(call.Common().Args[0])
			}
			ok := noPathAvoiding(fn, isHook, func(from, to *ssa.BasicBlock) bool {
				for f := range fi.edgeFacts(from, to) {
					if f.Kind == "nonnil" && !f.Pol && isTxOf(f.V) {
						return true
					}
				}
				return false
			})
			c.Check(ok, rule, name, p.Pos(fn.Pos()), "every path that binds a transaction (tx != nil) registers the commit handler with it", "a transaction can be bound to the context without the commit handler being registered with it (registration left to a later moment, made conditional, or the field filled directly by a constructor): commit actions queued on that context never run")
		}
	}
	c.CallSites(n)
	c.Floor(rule, 1)
}

// ruleTerminalNil: the token accessors of the generated parse-tree contexts (c.NUMBER(), c.STRING(i), ...)
// return nil when the token is not there — which is the case exactly for the malformed input the error paths
// deal with (the parser's recovery still produces the context).  Calling a method on such a result needs a nil
// test of it first.
func ruleTerminalNil(c *Ctx, rule string) {
	p := c.P
	zq := p.pkg("zitiql")
	isTerminalAccessor := func(call *ssa.Call) bool {
		cal, _ := calleeOf(call.Common())
		if cal == nil || cal.Pkg() == nil || zq == nil || cal.Pkg() != zq.Types {
			return false
		}
		sig, _ := cal.Type().(*types.Signature)
		if sig == nil || sig.Recv() == nil || sig.Results().Len() != 1 {
			return false
		}
		nm := namedOf(sig.Results().At(0).Type())
		return nm != nil && nm.Obj().Name() == "TerminalNode" && p.isGenerated(cal.Pos())
	}
	n, bad := 0, 0
	for _, fn := range c.prodFuncs("ast", "zitiql") {
		var fi *FactInfo
		for _, call := range callsIn(fn) {
			cc := call.Common()
			if !cc.IsInvoke() {
				continue
			}
			src, ok := cc.Value.(*ssa.Call)
			if !ok || !isTerminalAccessor(src) {
				continue
			}
			n++
			if fi == nil {
				fi = factsOf(fn)
				c.Analysed(FnName(fn))
			}
			construct := FnName(fn) + ": " + cc.Method.Name() + " on " + describeInstr(src)
			if fi.Holds(call.Block(), Fact{"nonnil", src, true}) {
				c.OK(rule, construct, p.Pos(call.Pos()), "the token is tested for nil first")
				continue
			}
			bad++
			c.Bad(rule, construct, p.Pos(call.Pos()), "a method is called on the result of a parse-tree token accessor without a nil test: for malformed input the token is missing, the accessor returns nil and parsing panics instead of reporting the error")
		}
	}
	if bad == 0 {
		c.OK(rule, "token accessors", "-", "no method is called on an untested token accessor result")
	}
	c.CallSites(n)
}

// rulePutFresh: bbolt keeps the value slice handed to Bucket.Put by reference until the transaction commits
// (the page is written at commit time), so the slice must not be changed or reused before then.  A value
// that comes out of a sync.Pool (and goes back into it when the function returns) or that is a window onto a
// scratch array kept in a long-lived object is overwritten by the next user while the first write is still
// pending: two writes in one transaction end up with the last one's bytes.
func rulePutFresh(c *Ctx, rule string) {
	p := c.P
	put := p.ExtMethod(bboltPath, "Bucket", "Put")
	n, bad := 0, 0
	var origin func(v ssa.Value, fn *ssa.Function, depth int, seen map[ssa.Value]bool) string
	origin = func(v ssa.Value, fn *ssa.Function, depth int, seen map[ssa.Value]bool) string {
		if v == nil || depth > 8 || seen[v] {
			return ""
		}
		seen[v] = true
		switch x := v.(type) {
		case *ssa.Slice:
			return origin(x.X, fn, depth+1, seen)
		case *ssa.Phi:
			for _, e := range x.Edges {
				if why := origin(e, fn, depth+1, seen); why != "" {
					return why
				}
			}
		case *ssa.TypeAssert:
			return origin(x.X, fn, depth+1, seen)
		case *ssa.Extract:
			return origin(x.Tuple, fn, depth+1, seen)
		case *ssa.ChangeType:
			return origin(x.X, fn, depth+1, seen)
		case *ssa.MakeInterface:
			return origin(x.X, fn, depth+1, seen)
		case *ssa.UnOp:
			if x.Op != token.MUL {
				return ""
			}
			// *p where p came out of a pool; or a local cell holding such a value
			if al, isAl := x.X.(*ssa.Alloc); isAl && al.Referrers() != nil {
				for _, r := range *al.Referrers() {
					if st, isSt := r.(*ssa.Store); isSt && st.Addr == ssa.Value(al) {
						if why := origin(st.Val, fn, depth+1, seen); why != "" {
							return why
						}
					}
				}
				return ""
			}
			return origin(x.X, fn, depth+1, seen)
		case *ssa.FieldAddr:
			// a window onto an array kept in an object that outlives the call
			if _, isArr := derefType(x.Type()).Underlying().(*types.Array); isArr {
				if _, local := x.X.(*ssa.Alloc); !local {
					f, _ := fieldOfAddr(x)
					name := "a field"
					if f != nil {
						name = "field " + f.Name()
					}
					return "a scratch array kept in " + name + " of a long-lived object"
				}
			}
		case *ssa.Call:
			cal, _ := calleeOf(x.Common())
			if cal != nil && cal.Pkg() != nil && cal.Pkg().Path() == "sync" && cal.Name() == "Get" {
				return "a buffer taken from a sync.Pool"
			}
			// a helper of the module handing back such a buffer
			if sc := x.Call.StaticCallee(); sc != nil && sc.Blocks != nil && inModule(sc) && depth < 4 {
				for _, r := range returnsOf(sc) {
					for _, res := range r.Results {
						if _, isSlice := res.Type().Underlying().(*types.Slice); !isSlice {
							if _, isPtr := res.Type().Underlying().(*types.Pointer); !isPtr {
								continue
							}
						}
						if why := origin(res, sc, depth+1, seen); why != "" {
							return why
						}
					}
				}
			}
		}
		return ""
	}
	for _, fn := range c.prodFuncs("boltz") {
		for _, call := range callsIn(fn) {
			if !isCallTo(call, put) || len(call.Common().Args) != 3 {
				continue
			}
			n++
			if why := origin(call.Common().Args[2], fn, 0, map[ssa.Value]bool{}); why != "" {
				bad++
				c.Analysed(FnName(fn))
				c.Bad(rule, FnName(fn)+": "+describeInstr(call), p.Pos(call.Pos()), "the value written is "+why+": bbolt keeps the slice until commit, so the next use of the buffer changes what this write stores")
			}
		}
	}
	if bad == 0 {
		c.OK(rule, "values handed to bbolt Put", "-", "none of them is a pooled buffer or a window onto a long-lived scratch array")
	}
	c.CallSites(n)
}

// ruleSortWhole: the row comparator is built from the query's whole sort list.  Every field of the list can
// decide the order (an explicit `id desc` after other fields decides ties the other way round than the implicit
// ascending tie-break does); a list that is cut at a position found in the data before it reaches the comparator
// loses fields.  The argument of newRowComparator is followed back — through parameters, fields of the scanner
// and helpers — to query.GetSortFields(); a slice expression with a computed upper bound on the way is reported.
// (A cap at a constant — SortMax — is not a cut in this sense.)
func ruleSortWhole(c *Ctx, rule string, pkgs ...string) {
	p := c.P
	cg := p.CallGraph()
	var origin func(v ssa.Value, fn *ssa.Function, depth int, seen map[ssa.Value]bool) string
	origin = func(v ssa.Value, fn *ssa.Function, depth int, seen map[ssa.Value]bool) string {
		if v == nil || depth > 8 || seen[v] {
			return ""
		}
		seen[v] = true
		switch x := v.(type) {
		case *ssa.Slice:
			if x.High != nil {
				if _, isConst := x.High.(*ssa.Const); !isConst {
					return "cut at a computed position at " + p.Pos(x.Pos())
				}
			}
			if x.Low != nil {
				if k, isConst := x.Low.(*ssa.Const); !isConst || (k.Value != nil && constant.Sign(k.Value) != 0) {
					return "its leading fields are dropped at " + p.Pos(x.Pos())
				}
			}
			return origin(x.X, fn, depth+1, seen)
		case *ssa.Phi:
			for _, e := range x.Edges {
				if why := origin(e, fn, depth+1, seen); why != "" {
					return why
				}
			}
		case *ssa.ChangeType:
			return origin(x.X, fn, depth+1, seen)
		case *ssa.Extract:
			return origin(x.Tuple, fn, depth+1, seen)
		case *ssa.UnOp:
			if x.Op != token.MUL {
				return ""
			}
			if f, _ := fieldOfAddr(x.X); f != nil {
				// a field: everything that is ever stored there
				for _, w := range c.prodFuncs(pkgs...) {
					for _, b := range w.Blocks {
						for _, in := range b.Instrs {
							st, isSt := in.(*ssa.Store)
							if !isSt {
								continue
							}
							if wf, _ := fieldOfAddr(st.Addr); sameVar(wf, f) {
								if why := origin(st.Val, w, depth+1, seen); why != "" {
									return why
								}
							}
						}
					}
				}
				return ""
			}
			if al, isAl := x.X.(*ssa.Alloc); isAl && al.Referrers() != nil {
				for _, r := range *al.Referrers() {
					if st, isSt := r.(*ssa.Store); isSt && st.Addr == ssa.Value(al) {
						if why := origin(st.Val, fn, depth+1, seen); why != "" {
							return why
						}
					}
				}
			}
		case *ssa.Parameter:
			pf := x.Parent()
			idx := -1
			for i, prm := range pf.Params {
				if prm == x {
					idx = i
				}
			}
			for _, caller := range cg.callers[pf] {
				for _, call := range callsIn(caller) {
					if sc := call.Common().StaticCallee(); sc != pf {
						continue
					}
					if idx >= 0 && idx < len(call.Common().Args) {
						if why := origin(call.Common().Args[idx], caller, depth+1, seen); why != "" {
							return why
						}
					}
				}
			}
		case *ssa.Call:
			if x.Call.IsInvoke() {
				return "" // query.GetSortFields() and the like: the list as the query has it
			}
			if sc := x.Call.StaticCallee(); sc != nil && sc.Blocks != nil && inModule(sc) && depth < 5 {
				for _, r := range returnsOf(sc) {
					for _, res := range r.Results {
						if _, isSlice := res.Type().Underlying().(*types.Slice); !isSlice {
							continue
						}
						if why := origin(res, sc, depth+1, seen); why != "" {
							return why
						}
					}
				}
			}
		}
		return ""
	}
	n := 0
	for _, fn := range c.prodFuncs(pkgs...) {
		for _, call := range callsIn(fn) {
			cal, _ := calleeOf(call.Common())
			if cal == nil || cal.Name() != "newRowComparator" {
				continue
			}
			args := call.Common().Args
			if len(args) == 0 {
				continue
			}
			n++
			c.Analysed(FnName(fn))
			why := origin(args[len(args)-1], fn, 0, map[ssa.Value]bool{})
			c.Check(why == "", rule, FnName(fn)+": "+describeInstr(call), p.Pos(call.Pos()), "the comparator is built from the sort list as the query has it", "the sort list handed to the comparator is "+why+": fields after that position no longer decide the order (an explicit `id desc` behind other fields is lost to the implicit ascending tie-break)")
		}
	}
	c.CallSites(n)
	c.Floor(rule, 1)
}

// ruleCacheKey: an object kept in a long-lived cache (a sync.Map held by a store) is handed to every later
// caller that asks with the same key, so everything the object was built from has to be part of the key.  An
// input of the building function (a parameter, or what an interface method of a parameter answered: the sort
// direction, say) that flows into the cached object but not into the key makes the second caller get an object
// built for the first one's input.
func ruleCacheKey(c *Ctx, rule string, pkgs ...string) {
	p := c.P
	n, bad := 0, 0
	isInputScalar := func(t types.Type) bool {
		b, ok := t.Underlying().(*types.Basic)
		return ok && b.Info()&(types.IsBoolean|types.IsString|types.IsNumeric) != 0
	}
	for _, fn := range c.prodFuncs(pkgs...) {
		for _, call := range callsIn(fn) {
			cal, _ := calleeOf(call.Common())
			if cal == nil || cal.Pkg() == nil || cal.Pkg().Path() != "sync" || (cal.Name() != "Store" && cal.Name() != "LoadOrStore") || len(call.Common().Args) != 3 {
				continue
			}
			if nm := namedOf(call.Common().Args[0].Type()); nm == nil || nm.Obj().Name() != "Map" {
				continue
			}
			n++
			c.Analysed(FnName(fn))
			// backward slice to the inputs
			leaves := func(root ssa.Value) map[ssa.Value]bool {
				out := map[ssa.Value]bool{}
				seen := map[ssa.Value]bool{}
				var walk func(v ssa.Value, depth int)
				walk = func(v ssa.Value, depth int) {
					if v == nil || seen[v] || depth > 12 {
						return
					}
					seen[v] = true
					switch x := v.(type) {
					case *ssa.Parameter:
						if len(fn.Params) > 0 && x != fn.Params[0] && isInputScalar(x.Type()) {
							out[x] = true
						}
					case *ssa.Call:
						if x.Call.IsInvoke() {
							if isInputScalar(x.Type()) {
								out[x] = true
							}
							return
						}
						for _, a := range x.Call.Args {
							walk(a, depth+1)
						}
					case *ssa.Alloc:
						if x.Referrers() == nil {
							return
						}
						for _, r := range *x.Referrers() {
							switch y := r.(type) {
							case *ssa.Store:
								if y.Addr == ssa.Value(x) {
									walk(y.Val, depth+1)
								}
							case *ssa.FieldAddr:
								if y.Referrers() == nil {
									continue
								}
								for _, fr := range *y.Referrers() {
									if st, isSt := fr.(*ssa.Store); isSt && st.Addr == ssa.Value(y) {
										walk(st.Val, depth+1)
									}
								}
							case *ssa.IndexAddr:
								if y.Referrers() == nil {
									continue
								}
								for _, fr := range *y.Referrers() {
									if st, isSt := fr.(*ssa.Store); isSt && st.Addr == ssa.Value(y) {
										walk(st.Val, depth+1)
									}
								}
							}
						}
					default:
						if in, ok := v.(ssa.Instruction); ok {
							var rands []*ssa.Value
							for _, op := range in.Operands(rands) {
								if op != nil && *op != nil {
									walk(*op, depth+1)
								}
							}
						}
					}
				}
				walk(root, 0)
				return out
			}
			keyIn := leaves(call.Common().Args[1])
			valIn := leaves(call.Common().Args[2])
			var missing []string
			for v := range valIn {
				if keyIn[v] {
					continue
				}
				// the same question asked twice of the same object counts as the same input
				same := false
				if vc, isCall := v.(*ssa.Call); isCall {
					for k := range keyIn {
						if kc, isK := k.(*ssa.Call); isK && kc.Call.Method == vc.Call.Method && kc.Call.Value == vc.Call.Value {
							same = true
						}
					}
				}
				if !same {
					missing = append(missing, describeValue(v))
				}
			}
			sort.Strings(missing)
			if len(missing) > 0 {
				bad++
				c.Bad(rule, FnName(fn)+": "+describeInstr(call), p.Pos(call.Pos()), "the cached object is built from "+strings.Join(missing, ", ")+", which is not part of the key it is cached under: a later caller with the same key and another value of it is handed this object")
			} else {
				c.OK(rule, FnName(fn)+": "+describeInstr(call), p.Pos(call.Pos()), "every input the cached object is built from is part of its key")
			}
		}
	}
	if n == 0 {
		c.OK(rule, "long-lived caches", "-", "no object is cached in a sync.Map by the stores")
	}
	_ = bad
	c.CallSites(n)
}

// ruleMissingPathNil: looking a bucket path up (Path, TypedBucket.GetPath) answers nil as soon as one element
// of the path does not exist.  Callers take a non-nil answer for the bucket AT the path (an index's bucket, an
// entity's field bucket) and read or write there; an answer that is the deepest EXISTING ancestor instead makes
// them work in the wrong bucket.  On the edge where a bucket lookup came back nil, every return that can be
// reached hands back nil (the literal, or that very lookup result).
func ruleMissingPathNil(c *Ctx, rule string) {
	p := c.P
	fns := []*ssa.Function{p.SSAFunc(p.Func("boltz", "Path")), p.SSAFunc(p.Method("boltz", "TypedBucket", "GetPath"))}
	isLookup := func(v ssa.Value) bool {
		call, ok := v.(*ssa.Call)
		if !ok {
			return false
		}
		if _, isPtr := call.Type().Underlying().(*types.Pointer); !isPtr {
			return false
		}
		cal, _ := calleeOf(call.Common())
		if cal == nil {
			return false
		}
		switch cal.Name() {
		case "Bucket", "GetBucket", "GetBucketByKey":
			return true
		}
		// a helper of the module that does the step (returns a bucket pointer, creates nothing on this path)
		if sc := call.Call.StaticCallee(); sc != nil && inModule(sc) && namedOf(call.Type()) == p.Named("boltz", "TypedBucket") {
			return true
		}
		return false
	}
	n := 0
	for _, fn := range fns {
		name := FnName(fn)
		c.Analysed(name)
		fi := factsOf(fn)
		for _, b := range fn.Blocks {
			for _, to := range b.Succs {
				var missing ssa.Value
				for f := range fi.edgeFacts(b, to) {
					if f.Kind == "nonnil" && !f.Pol && isLookup(f.V) {
						missing = f.V
					}
				}
				if missing == nil {
					continue
				}
				n++
				// every return reachable from here
				seen := map[*ssa.BasicBlock]bool{}
				var bad *ssa.Return
				var walk func(x *ssa.BasicBlock)
				walk = func(x *ssa.BasicBlock) {
					if seen[x] || bad != nil {
						return
					}
					seen[x] = true
					if r, isRet := x.Instrs[len(x.Instrs)-1].(*ssa.Return); isRet && len(r.Results) == 1 {
						res := r.Results[0]
						if !isNilConst(res) && res != missing {
							// the phi that merges exactly this nil in on the way
							okPhi := false
							if phi, isPhi := res.(*ssa.Phi); isPhi {
								okPhi = true
								for _, e := range phi.Edges {
									if !isNilConst(e) && e != missing {
										okPhi = false
									}
								}
							}
							if !okPhi {
								bad = r
							}
						}
						return
					}
					for _, s := range x.Succs {
						walk(s)
					}
				}
				walk(to)
				if bad != nil {
					// the step done by an expanded helper: the nil it answers travels through a join and a test
					// before the return — decided along the paths, with what is known on them
					ps := &pathSearch{fn: fn, fi: fi, start: to, startKnow: stepKnow(fi, b, to, knowMap{})}
					ps.atReturn = func(r *ssa.Return, k knowMap) bool {
						if len(r.Results) != 1 {
							return false
						}
						res := r.Results[0]
						if isNilConst(res) || res == missing || evalKnow(fi, r.Block(), nil, res, k, 0) == -1 {
							return false
						}
						return true
					}
					if !ps.run() {
						bad = nil
					}
				}
				c.Check(bad == nil, rule, name+": missing element at "+p.Pos(missing.Pos()), p.Pos(missing.Pos()), "where a bucket of the path does not exist the lookup answers nil", func() string {
					if bad == nil {
						return ""
					}
					return "after a bucket of the path was found missing the function can still return a bucket (at " + p.Pos(bad.Pos()) + "): the caller is handed the deepest existing ancestor as if it were the bucket at the path"
				}())
			}
		}
	}
	c.CallSites(n)
	c.Floor(rule, 2)
}

// ruleCascadeReentry: a cascading delete deletes the referrers of an entity BEFORE the entity's own bucket is
// removed, through the same DeleteById that is running.  When the references form a cycle (an entity that refers
// to itself — the only way to create the first entity under AddFkIndexCascadeDelete — or a ↔ b) the nested delete
// finds the entity that is already being deleted among the referrers and starts deleting it again: unbounded
// recursion, ended by the runtime's stack overflow (not a recoverable panic).  Necessary for termination: before
// the nested DeleteById is started, the referrer's id is tested against something (the ids already being deleted),
// here in the cascade, or DeleteById itself consults a marker keyed by the id before it runs the constraints.
func ruleCascadeReentry(c *Ctx, rule string) {
	p := c.P
	hook := p.SSAFunc(p.Method("boltz", "fkDeleteCascadeConstraint", "ProcessBeforeDelete"))
	del := p.SSAFunc(p.Method("boltz", "BaseStore", "DeleteById"))
	n := 0
	// backward slice: does v depend on a value satisfying pred?
	dependsOn := func(v ssa.Value, pred func(ssa.Value) bool) bool {
		seen := map[ssa.Value]bool{}
		var walk func(x ssa.Value, depth int) bool
		walk = func(x ssa.Value, depth int) bool {
			if x == nil || seen[x] || depth > 10 {
				return false
			}
			seen[x] = true
			if pred(x) {
				return true
			}
			if in, ok := x.(ssa.Instruction); ok {
				var rands []*ssa.Value
				for _, op := range in.Operands(rands) {
					if op != nil && *op != nil && walk(*op, depth+1) {
						return true
					}
				}
			}
			return false
		}
		return walk(v, 0)
	}
	// (b) DeleteById consults a marker keyed by the id before the constraints run
	markerInDelete := false
	if len(del.Params) >= 3 {
		id := ssa.Value(del.Params[2])
		isID := func(x ssa.Value) bool { return x == id }
		for _, b := range del.Blocks {
			for _, in := range b.Instrs {
				switch x := in.(type) {
				case *ssa.Lookup:
					if dependsOn(x.Index, isID) {
						markerInDelete = true
					}
				case *ssa.Call:
					if x.Call.IsInvoke() && x.Call.Method.Name() == "Value" && len(x.Call.Args) == 1 && dependsOn(x.Call.Args[0], isID) {
						markerInDelete = true
					}
				}
			}
		}
	}
	for _, fn := range dispatchScope(hook) {
		loops := loopsOf(fn)
		for _, call := range callsIn(fn) {
			if !invokeNamed(call, "DeleteById") {
				continue
			}
			l := innermostLoop(loops, call.Block())
			if l == nil {
				continue
			}
			n++
			c.Analysed(FnName(fn))
			// (a) a test of the referrer's id (what the cursor is on) stands before the nested delete
			isCurrent := func(x ssa.Value) bool {
				k, ok := x.(*ssa.Call)
				return ok && invokeNamed(k, "Current")
			}
			tested := false
			for b := range l.Blocks {
				iff, isIf := b.Instrs[len(b.Instrs)-1].(*ssa.If)
				if !isIf || b == l.Header {
					continue
				}
				if dependsOn(iff.Cond, isCurrent) && b.Dominates(call.Block()) && b != call.Block() {
					tested = true
				}
			}
			// (named by what it is, not by the function it happens to stand in: the recorded finding stays the same
			// finding when the loop moves into a helper)
			construct := "boltz cascade delete: nested DeleteById of a referrer"
			c.Check(tested || markerInDelete, rule, construct, p.Pos(call.Pos()), "the nested delete is started only after the referrer's id was tested (or DeleteById consults a marker keyed by the id)", "the cascade starts a nested DeleteById for every referrer without testing whether that entity is already being deleted, and DeleteById keeps no marker either: on a reference cycle (an entity referring to itself, a ↔ b) the deletes recurse until the stack overflows")
		}
	}
	c.CallSites(n)
	c.Floor(rule, 1)
}

// ---- collections gathered from a field, then visited -------------------------------------------------
//
// `for _, x := range store.links { x.CheckIntegrity(…) }` is sometimes written in two steps: first gather, in a
// loop over the field, something made from every element (the element itself, a small struct holding it, a bound
// method of it) into a local slice, then run one loop over that slice.  gatheredFrom finds such local slices;
// fromGathered says whether a value is (a part of) an element of one.

type gathered struct {
	members map[ssa.Value]bool // the slice values of the family: append results, joins, reslices
	method  string             // when the elements are bound method values: the method's name
}

func gatheredFrom(fn *ssa.Function, fld *types.Var) []*gathered {
	var out []*gathered
	loops := loopsOf(fn)
	// what an appended element is made from
	var made func(v ssa.Value, depth int) (bool, string)
	made = func(v ssa.Value, depth int) (bool, string) {
		if v == nil || depth > 5 {
			return false, ""
		}
		if derivesFromField(v, fld, 0) {
			return true, ""
		}
		switch x := v.(type) {
		case *ssa.MakeInterface:
			return made(x.X, depth+1)
		case *ssa.ChangeInterface:
			return made(x.X, depth+1)
		case *ssa.ChangeType:
			return made(x.X, depth+1)
		case *ssa.MakeClosure:
			if f, isFn := x.Fn.(*ssa.Function); isFn && strings.HasSuffix(f.Name(), "$bound") && len(x.Bindings) == 1 {
				if ok, _ := made(x.Bindings[0], depth+1); ok {
					return true, strings.TrimSuffix(f.Name(), "$bound")
				}
			}
		case *ssa.UnOp:
			// a struct built field by field
			if al, isAl := x.X.(*ssa.Alloc); isAl && x.Op == token.MUL && al.Referrers() != nil {
				for _, r := range *al.Referrers() {
					fa, isFA := r.(*ssa.FieldAddr)
					if !isFA || fa.Referrers() == nil {
						continue
					}
					for _, fr := range *fa.Referrers() {
						if st, isSt := fr.(*ssa.Store); isSt && st.Addr == ssa.Value(fa) {
							if ok, m := made(st.Val, depth+1); ok {
								return true, m
							}
						}
					}
				}
			}
		}
		return false, ""
	}
	for _, call := range callsIn(fn) {
		cv, isCall := call.(*ssa.Call)
		if !isCall {
			continue
		}
		bi, isB := cv.Call.Value.(*ssa.Builtin)
		if !isB || bi.Name() != "append" || len(cv.Call.Args) != 2 {
			continue
		}
		l := innermostLoop(loops, cv.Block())
		if l == nil {
			continue
		}
		sl, isSl := cv.Call.Args[1].(*ssa.Slice)
		if !isSl {
			continue
		}
		arr, isArr := sl.X.(*ssa.Alloc)
		if !isArr {
			continue
		}
		elems := arrayLiteralElems(arr)
		if len(elems) != 1 {
			continue
		}
		ok, method := made(elems[0], 0)
		if !ok {
			continue
		}
		// gathered for every element: the append stands on every way round the loop
		every := true
		for b := range l.Blocks {
			for _, s := range b.Succs {
				if s == l.Header && !cv.Block().Dominates(b) {
					every = false
				}
			}
		}
		if !every {
			continue
		}
		g := &gathered{members: map[ssa.Value]bool{cv: true}, method: method}
		for changed := true; changed; {
			changed = false
			for _, b := range fn.Blocks {
				for _, in := range b.Instrs {
					v, isV := in.(ssa.Value)
					if !isV || g.members[v] {
						continue
					}
					switch x := in.(type) {
					case *ssa.Phi:
						for _, e := range x.Edges {
							if g.members[e] {
								g.members[x] = true
								changed = true
							}
						}
					case *ssa.Slice:
						if g.members[x.X] {
							g.members[x] = true
							changed = true
						}
					case *ssa.Call:
						if b2, isB2 := x.Call.Value.(*ssa.Builtin); isB2 && b2.Name() == "append" && len(x.Call.Args) > 0 && g.members[x.Call.Args[0]] {
							g.members[x] = true
							changed = true
						}
					}
				}
			}
		}
		// two appends into one slice (links, then constraints) are one family, listed once per append
		out = append(out, g)
	}
	return out
}

// fromGathered: v is an element of one of the gathered slices, or a part of one.
func fromGathered(v ssa.Value, g *gathered, depth int) bool {
	if v == nil || depth > 8 {
		return false
	}
	switch x := v.(type) {
	case *ssa.IndexAddr:
		return g.members[x.X]
	case *ssa.UnOp:
		return fromGathered(x.X, g, depth+1)
	case *ssa.Field:
		return fromGathered(x.X, g, depth+1)
	case *ssa.FieldAddr:
		return fromGathered(x.X, g, depth+1)
	case *ssa.ChangeInterface:
		return fromGathered(x.X, g, depth+1)
	case *ssa.MakeInterface:
		return fromGathered(x.X, g, depth+1)
	case *ssa.ChangeType:
		return fromGathered(x.X, g, depth+1)
	case *ssa.Extract:
		return fromGathered(x.Tuple, g, depth+1)
	case *ssa.Next:
		return fromGathered(x.Iter, g, depth+1)
	case *ssa.Range:
		return g.members[x.X]
	case *ssa.Alloc:
		// the loop variable kept in a local: what is stored into it
		if x.Referrers() != nil {
			for _, r := range *x.Referrers() {
				if st, isSt := r.(*ssa.Store); isSt && st.Addr == ssa.Value(x) && fromGathered(st.Val, g, depth+1) {
					return true
				}
			}
		}
	case *ssa.Phi:
		for _, e := range x.Edges {
			if fromGathered(e, g, depth+1) {
				return true
			}
		}
	}
	return false
}

// ruleChildBucketError: a TypedBucket keeps its error in itself, and a bucket obtained from it (EmptyBucket,
// GetOrCreateBucket, …) keeps ITS error in itself.  Where a method of TypedBucket finds that such a child bucket
// has failed, the failure is recorded in the receiver (or returned) before the method returns: callers look at
// the bucket they were handed, a failure left in the child is lost and the transaction commits.
func ruleChildBucketError(c *Ctx, rule string) {
	p := c.P
	tb := p.Named("boltz", "TypedBucket")
	// the error cell: field Err of the embedded error holder; owner() gives the bucket it belongs to
	isErrCell := func(f *types.Var) bool { return f != nil && f.Name() == "Err" && isErrorType(f.Type()) }
	owner := func(base ssa.Value) ssa.Value {
		if ld, isLd := base.(*ssa.UnOp); isLd && ld.Op == token.MUL {
			if fa, isFA := ld.X.(*ssa.FieldAddr); isFA {
				if st, isSt := derefType(fa.X.Type()).Underlying().(*types.Struct); isSt && st.Field(fa.Field).Embedded() {
					return fa.X
				}
			}
		}
		return base
	}
	n := 0
	for _, fn := range c.prodFuncs("boltz") {
		if fn.Signature.Recv() == nil || namedOf(fn.Signature.Recv().Type()) != tb || len(fn.Params) == 0 {
			continue
		}
		recv := ssa.Value(fn.Params[0])
		isChild := func(v ssa.Value) bool {
			if v == nil || v == recv || namedOf(v.Type()) != tb {
				return false
			}
			// obtained here from a call (possibly with an error next to it)
			switch x := v.(type) {
			case *ssa.Call:
				return true
			case *ssa.Extract:
				_, isCall := x.Tuple.(*ssa.Call)
				return isCall
			}
			return false
		}
		childFailed := func(f Fact) bool {
			switch f.Kind {
			case "nonnil":
				if !f.Pol {
					return false
				}
				if ff, base := loadedField(f.V); isErrCell(ff) && isChild(owner(base)) {
					return true
				}
			case "true":
				if !f.Pol {
					return false
				}
				if k, isCall := f.V.(*ssa.Call); isCall {
					if cal, _ := calleeOf(k.Common()); cal != nil && cal.Name() == "HasError" {
						return isChild(owner(callRecv(k.Common())))
					}
				}
			}
			return false
		}
		var fi *FactInfo
		for _, b := range fn.Blocks {
			if _, isIf := b.Instrs[len(b.Instrs)-1].(*ssa.If); !isIf {
				continue
			}
			for _, to := range b.Succs {
				if fi == nil {
					fi = factsOf(fn)
				}
				hit := false
				for f := range fi.edgeFacts(b, to) {
					if childFailed(f) {
						hit = true
					}
				}
				if !hit {
					continue
				}
				n++
				c.Analysed(FnName(fn))
				records := func(in ssa.Instruction) bool {
					switch x := in.(type) {
					case *ssa.Store:
						f, base := fieldOfAddr(x.Addr)
						return isErrCell(f) && owner(base) == recv
					case ssa.CallInstruction:
						cal, _ := calleeOf(x.Common())
						return cal != nil && cal.Name() == "SetError" && owner(callRecv(x.Common())) == recv
					}
					return false
				}
				ei := errorResultIndex(fn.Signature)
				ps := &pathSearch{fn: fn, fi: fi, start: to, stop: records}
				// the failure carried on in a variable (`err = child.Err` … `if err != nil { bucket.Err = err }`): on
				// this path that variable is not nil — error cells are latched — so the branch that finds it nil is
				// not taken
				ps.skipEdge = func(from, to2 *ssa.BasicBlock) bool {
					for f := range fi.edgeFacts(from, to2) {
						if f.Kind != "nonnil" || f.Pol {
							continue
						}
						for _, leaf := range phiLeaves(f.V) {
							if ff, base := loadedField(leaf); isErrCell(ff) && isChild(owner(base)) {
								return true
							}
						}
					}
					return false
				}
				ps.atReturn = func(r *ssa.Return, k knowMap) bool {
					if ei >= 0 && returnIsFailure(fi, r, ei, k) {
						return false
					}
					// handing the failed child itself back is handing the failure back
					for _, res := range r.Results {
						if isChild(res) {
							return false
						}
					}
					return true
				}
				lost := ps.run()
				c.Check(!lost, rule, FnName(fn)+": failure of a child bucket at "+p.Pos(lastPos(b)), p.Pos(lastPos(b)), "a failure found in a child bucket is recorded in the receiver (or returned) before the method returns", "after a child bucket was found to have failed the method can return without the failure being recorded in the receiver or returned: the caller sees a healthy bucket and the transaction commits without the write")
			}
		}
	}
	c.CallSites(n)
	c.Floor(rule, 2)
}

// ---- rules added after round 9 ------------------------------------------------------------------------

// ruleConstraintRegistered: Indexer.AddConstraint adds the constraint it is given on every path.  Constraints have
// no identity other than themselves (the label is built from entity type and symbol name, which sibling child
// stores share): a registration that is skipped because "one like it" is already there drops a delete rule.
func ruleConstraintRegistered(c *Ctx, rule string) {
	p := c.P
	fn := p.SSAFunc(p.Method("boltz", "Indexer", "AddConstraint"))
	name := FnName(fn)
	c.Analysed(name)
	fld := p.Field("boltz", "Indexer", "constraints")
	isAppend := func(in ssa.Instruction) bool {
		st, ok := in.(*ssa.Store)
		if !ok {
			return false
		}
		if f, _ := fieldOfAddr(st.Addr); !sameVar(f, fld) {
			return false
		}
		call, isCall := st.Val.(*ssa.Call)
		if !isCall {
			return false
		}
		bi, isB := call.Call.Value.(*ssa.Builtin)
		if !isB || bi.Name() != "append" || len(call.Call.Args) != 2 {
			return false
		}
		sl, isSl := call.Call.Args[1].(*ssa.Slice)
		if !isSl {
			return false
		}
		arr, isArr := sl.X.(*ssa.Alloc)
		if !isArr {
			return false
		}
		for _, e := range arrayLiteralElems(arr) {
			if e == ssa.Value(fn.Params[1]) {
				return true
			}
		}
		return false
	}
	ok := noPathAvoiding(fn, isAppend, nil)
	c.Check(ok, rule, name, p.Pos(fn.Pos()), "every path appends the given constraint to the indexer's list", "a return is reachable without the given constraint having been appended (registration skipped or made conditional): an index or a delete rule that was declared is never applied")
	c.Floor(rule, 1)
}

// ruleCreateIsCreate: whether an indexing run is a create is fixed by the entry point: Create builds its indexing
// context with "create", Update and the delete with "not create" — a constant, never something computed from
// the data (a presence test made after the entity's bucket was created answers "present" for every create, and
// an update-style run skips the not-null checks for a value that is nil before and after).
func ruleCreateIsCreate(c *Ctx, rule string) {
	p := c.P
	ictx := p.Named("boltz", "IndexingContext")
	n := 0
	for _, m := range []string{"Create", "Update", "processDeleteConstraints"} {
		fn := p.SSAFunc(p.Method("boltz", "BaseStore", m))
		for _, call := range callsIn(fn) {
			cv, isCall := call.(*ssa.Call)
			if !isCall || namedOf(cv.Type()) != ictx {
				continue
			}
			if _, isPtr := cv.Type().Underlying().(*types.Pointer); !isPtr {
				continue
			}
			n++
			c.Analysed(FnName(fn))
			bad := ""
			for _, a := range cv.Call.Args {
				b, isBasic := a.Type().Underlying().(*types.Basic)
				if !isBasic || b.Info()&(types.IsBoolean|types.IsInteger) == 0 {
					continue
				}
				if !constComputable(a, 0) {
					bad = describeValue(a)
				}
			}
			c.Check(bad == "", rule, FnName(fn)+": "+describeInstr(call), p.Pos(call.Pos()), "the kind of indexing run (create or not) handed to the context constructor is a constant", "the kind of indexing run is computed ("+bad+") instead of being fixed by the entry point: a create can run as an update (unchanged nil values skip the not-null and uniqueness checks) or the reverse")
		}
	}
	// ... and the same for the persist context handed to the entity strategy: its IsCreate is the entry point's
	// (an Update that tells the strategy "create" has it write the create-only fields — the system flag among them)
	for _, m := range []string{"Create", "Update"} {
		fn := p.SSAFunc(p.Method("boltz", "BaseStore", m))
		for _, b := range fn.Blocks {
			for _, in := range b.Instrs {
				st, isSt := in.(*ssa.Store)
				if !isSt {
					continue
				}
				f, _ := fieldOfAddr(st.Addr)
				if f == nil || f.Name() != "IsCreate" || !isBoolType(f.Type()) {
					continue
				}
				n++
				isConst := constComputable(st.Val, 0)
				c.Check(isConst, rule, FnName(fn)+": "+f.Name()+" of the persist context", p.Pos(st.Pos()), "create-or-not handed to the entity strategy is a constant of the entry point", "create-or-not handed to the entity strategy is computed ("+describeValue(st.Val)+"): an update can run the strategy's create path, which writes the fields that are fixed at creation (isSystem)")
			}
		}
	}
	c.CallSites(n)
	c.Floor(rule, 3)
}

// ruleFreshCascadeFilter: the filter with which a delete constraint looks for referrers is made for this
// invocation.  The cascade is re-entrant (deleting a referrer runs the same constraint for the referrer's id while
// the outer cursor is still open): a filter object kept in the constraint and re-bound by the nested run changes
// what the outer cursor matches.
func ruleFreshCascadeFilter(c *Ctx, rule string) {
	p := c.P
	hook := p.SSAFunc(p.Method("boltz", "fkDeleteCascadeConstraint", "ProcessBeforeDelete"))
	n := 0
	for _, fn := range dispatchScope(hook) {
		for _, call := range callsIn(fn) {
			if !invokeNamed(call, "IterateValidIds") && !invokeNamed(call, "IterateIds") {
				continue
			}
			args := call.Common().Args
			if len(args) < 2 {
				continue
			}
			n++
			c.Analysed(FnName(fn))
			// where the filter object comes from
			shared := ""
			seen := map[ssa.Value]bool{}
			var walk func(v ssa.Value, f *ssa.Function, depth int)
			walk = func(v ssa.Value, f *ssa.Function, depth int) {
				if v == nil || seen[v] || depth > 8 || shared != "" {
					return
				}
				seen[v] = true
				switch x := v.(type) {
				case *ssa.UnOp:
					if x.Op == token.MUL {
						if fld, base := loadedField(x); fld != nil && len(f.Params) > 0 && (base == ssa.Value(f.Params[0]) || paramCopy(base, f.Params[0])) {
							if nm := namedOf(f.Params[0].Type()); nm != nil && strings.Contains(nm.Obj().Name(), "Constraint") {
								shared = "field " + fld.Name() + " of the constraint"
								return
							}
						}
						walk(x.X, f, depth+1)
					}
				case *ssa.Phi:
					for _, e := range x.Edges {
						walk(e, f, depth+1)
					}
				case *ssa.Extract:
					walk(x.Tuple, f, depth+1)
				case *ssa.MakeInterface:
					walk(x.X, f, depth+1)
				case *ssa.ChangeInterface:
					walk(x.X, f, depth+1)
				case *ssa.Call:
					if x.Call.IsInvoke() {
						walk(x.Call.Value, f, depth+1) // q.Bind(id): the object bound
						return
					}
					if sc := x.Call.StaticCallee(); sc != nil && sc.Blocks != nil && inModule(sc) {
						if sc.Signature.Recv() != nil && len(x.Call.Args) > 0 {
							walk(x.Call.Args[0], f, depth+1) // a method returning its receiver (chainable Bind)
						}
						for _, r := range returnsOf(sc) {
							if len(r.Results) > 0 {
								walk(r.Results[0], sc, depth+1)
							}
						}
					}
				}
			}
			walk(args[1], fn, 0)
			c.Check(shared == "", rule, FnName(fn)+": "+describeInstr(call), p.Pos(call.Pos()), "the referrer filter is an object made for this invocation", "the referrer filter is an object kept in "+shared+" and shared by every invocation: the nested delete of a referrer re-binds it while the outer cursor is still open, and the outer loop stops matching the remaining referrers")
		}
	}
	c.CallSites(n)
	c.Floor(rule, 2)
}

// ruleSymbolPathNotName: where a symbol's data lives inside an entity is its PATH (GetPath()); the name is what
// queries call it.  The two differ for symbols with a storage key of their own and for nested symbols.  A bucket
// looked up by GetName() finds nothing there (or something else), while the writers went by the path.
func ruleSymbolPathNotName(c *Ctx, rule string) {
	p := c.P
	n, bad := 0, 0
	for _, fn := range c.prodFuncs("boltz") {
		for _, call := range callsIn(fn) {
			cal, _ := calleeOf(call.Common())
			if cal == nil {
				continue
			}
			switch cal.Name() {
			case "GetBucket", "GetOrCreateBucket", "EmptyBucket", "GetPath", "GetOrCreatePath", "Bucket", "CreateBucketIfNotExists":
			default:
				continue
			}
			if rt := recvType(cal); rt == nil || (namedOf(rt) != p.Named("boltz", "TypedBucket") && !strings.HasSuffix(types.TypeString(rt, nil), "bbolt.Bucket")) {
				continue
			}
			n++
			for _, a := range call.Common().Args[1:] {
				// the key: GetName() of a symbol, possibly converted
				v := a
				for i := 0; i < 3; i++ {
					switch x := v.(type) {
					case *ssa.Convert:
						v = x.X
					case *ssa.ChangeType:
						v = x.X
					}
				}
				if sl, isSl := v.(*ssa.Slice); isSl {
					if arr, isArr := sl.X.(*ssa.Alloc); isArr {
						for _, e := range arrayLiteralElems(arr) {
							if k, isCall := e.(*ssa.Call); isCall && invokeNamed(k, "GetName") && isSymbolValue(p, k.Call.Value) {
								v = k
							}
						}
					}
				}
				if k, isCall := v.(*ssa.Call); isCall && invokeNamed(k, "GetName") && isSymbolValue(p, k.Call.Value) {
					bad++
					c.Analysed(FnName(fn))
					c.Bad(rule, FnName(fn)+": "+describeInstr(call), p.Pos(call.Pos()), "a bucket inside an entity is looked up by the symbol's NAME; the symbol's data is stored under its PATH (GetPath()), which differs for symbols with a storage key of their own and for nested symbols: the lookup misses what the writers wrote")
				}
			}
		}
	}
	if bad == 0 {
		c.OK(rule, "bucket lookups", "-", "no bucket inside an entity is looked up by a symbol's name")
	}
	c.CallSites(n)
}

func isSymbolValue(p *Prog, v ssa.Value) bool {
	it, ok := v.Type().Underlying().(*types.Interface)
	if !ok {
		return false
	}
	for i := 0; i < it.NumMethods(); i++ {
		if it.Method(i).Name() == "GetPath" {
			return true
		}
	}
	return false
}

// ruleFreshSetCursor: the set cursors a row cursor hands out are stateful (they have a position, scanners also
// count what they have skipped and collected) and each caller walks its own: OpenSetCursor / OpenSetCursorForQuery
// hand out an object made by this very call — never one remembered in the row cursor from an earlier call (a second
// predicate over the same set would start where the first one stopped; a reused scanner keeps its counters).
func ruleFreshSetCursor(c *Ctx, rule string, pkgs ...string) {
	p := c.P
	n := 0
	for _, fn := range c.prodFuncs(pkgs...) {
		if fn.Signature.Recv() == nil || (fn.Name() != "OpenSetCursor" && fn.Name() != "OpenSetCursorForQuery") || fn.Parent() != nil {
			continue
		}
		n++
		name := FnName(fn)
		c.Analysed(name)
		remembered := ""
		for _, r := range returnsOf(fn) {
			if len(r.Results) == 0 {
				continue
			}
			seen := map[ssa.Value]bool{}
			var walk func(v ssa.Value, depth int)
			walk = func(v ssa.Value, depth int) {
				if v == nil || seen[v] || depth > 8 || remembered != "" {
					return
				}
				seen[v] = true
				switch x := v.(type) {
				case *ssa.MakeInterface:
					walk(x.X, depth+1)
				case *ssa.ChangeInterface:
					walk(x.X, depth+1)
				case *ssa.Phi:
					for _, e := range x.Edges {
						walk(e, depth+1)
					}
				case *ssa.Extract:
					walk(x.Tuple, depth+1)
				case *ssa.Lookup:
					if f, base := loadedField(x.X); f != nil && (base == ssa.Value(fn.Params[0]) || paramCopy(base, fn.Params[0])) {
						remembered = "looked up in " + f.Name() + " of the row cursor"
					}
				case *ssa.UnOp:
					if x.Op == token.MUL {
						if f, base := loadedField(x); f != nil && (base == ssa.Value(fn.Params[0]) || paramCopy(base, fn.Params[0])) {
							if _, isIface := f.Type().Underlying().(*types.Interface); isIface || strings.Contains(strings.ToLower(f.Name()), "cursor") || strings.Contains(strings.ToLower(f.Name()), "scanner") {
								remembered = "kept in field " + f.Name() + " of the row cursor"
							}
						}
					}
				}
			}
			walk(r.Results[0], 0)
		}
		c.Check(remembered == "", rule, name, p.Pos(fn.Pos()), "every cursor handed out is made by this call", "a cursor "+remembered+" by an earlier call is handed out again: set cursors and scanners are stateful, the second user starts where the first one stopped")
	}
	c.CallSites(n)
	c.Floor(rule, 2)
}

// ruleMakeThenAppend: a slice made with a length (make([]T, n), n not the constant 0) already has n zero elements;
// appending to it puts the real elements behind n nils.  For element types whose zero value is nil that is a nil
// dereference waiting for the first reader.  (Filling by index, or make([]T, 0, n) with append, are the two correct
// forms.)
func ruleMakeThenAppend(c *Ctx, rule string, pkgs ...string) {
	p := c.P
	n, bad := 0, 0
	for _, fn := range c.prodFuncs(pkgs...) {
		var origin func(v ssa.Value, depth int, seen map[ssa.Value]bool) *ssa.MakeSlice
		origin = func(v ssa.Value, depth int, seen map[ssa.Value]bool) *ssa.MakeSlice {
			if v == nil || depth > 8 || seen[v] {
				return nil
			}
			seen[v] = true
			switch x := v.(type) {
			case *ssa.MakeSlice:
				if k, isK := x.Len.(*ssa.Const); isK && k.Value != nil && constant.Sign(k.Value) == 0 {
					return nil
				}
				return x
			case *ssa.Phi:
				for _, e := range x.Edges {
					if m := origin(e, depth+1, seen); m != nil {
						return m
					}
				}
			case *ssa.Call:
				if bi, isB := x.Call.Value.(*ssa.Builtin); isB && bi.Name() == "append" && len(x.Call.Args) > 0 {
					return origin(x.Call.Args[0], depth+1, seen)
				}
			case *ssa.UnOp:
				if x.Op != token.MUL {
					return nil
				}
				// a field of an object built here (result.values)
				if fa, isFA := x.X.(*ssa.FieldAddr); isFA {
					if al, isAl := fa.X.(*ssa.Alloc); isAl && al.Referrers() != nil {
						for _, r := range *al.Referrers() {
							fa2, isFA2 := r.(*ssa.FieldAddr)
							if !isFA2 || fa2.Field != fa.Field || fa2.Referrers() == nil {
								continue
							}
							for _, fr := range *fa2.Referrers() {
								if st, isSt := fr.(*ssa.Store); isSt && st.Addr == ssa.Value(fa2) {
									if m := origin(st.Val, depth+1, seen); m != nil {
										return m
									}
								}
							}
						}
					}
				}
			}
			return nil
		}
		for _, call := range callsIn(fn) {
			cv, isCall := call.(*ssa.Call)
			if !isCall {
				continue
			}
			bi, isB := cv.Call.Value.(*ssa.Builtin)
			if !isB || bi.Name() != "append" || len(cv.Call.Args) != 2 {
				continue
			}
			sl, isSl := cv.Type().Underlying().(*types.Slice)
			if !isSl {
				continue
			}
			switch sl.Elem().Underlying().(type) {
			case *types.Interface, *types.Pointer:
			default:
				continue
			}
			n++
			if m := origin(cv.Call.Args[0], 0, map[ssa.Value]bool{}); m != nil {
				bad++
				c.Analysed(FnName(fn))
				c.Bad(rule, FnName(fn)+": append at "+p.Pos(cv.Pos()), p.Pos(cv.Pos()), "elements are appended to a slice that was made with a length ("+p.Pos(m.Pos())+"): the result starts with that many nil elements, and whoever reads them dereferences nil")
			}
		}
	}
	if bad == 0 {
		c.OK(rule, "appends", "-", "no slice of nil-able elements made with a length is appended to")
	}
	c.CallSites(n)
}

// ruleSubQueryWhole: the query that count(from … where …) / isEmpty(from …) evaluates and that visitors walk is
// the sub-query object the listener built — the whole of it.  A typed node that is handed a query re-assembled
// from some of its parts (predicate and paging, say) no longer shows the rest (the sort clause and its symbols) to
// Accept: validation does not see those symbols.
func ruleSubQueryWhole(c *Ctx, rule string) {
	p := c.P
	subq := p.Named("ast", "subQueryNode")
	targets := map[*types.Named]bool{p.Named("ast", "CountSetExprNode"): true, p.Named("ast", "IsEmptySetExprNode"): true}
	n := 0
	for _, fn := range c.prodFuncs("ast") {
		for _, b := range fn.Blocks {
			for _, in := range b.Instrs {
				st, isSt := in.(*ssa.Store)
				if !isSt {
					continue
				}
				f, base := fieldOfAddr(st.Addr)
				if f == nil || f.Name() != "query" || base == nil {
					continue
				}
				// the set-function nodes themselves, or the operand part they share (a struct of the package that
				// holds the set symbol and the optional query and is embedded in them)
				if bt := namedOf(base.Type()); !targets[bt] {
					ok := false
					if bt != nil && bt != subq && bt.Obj().Pkg() == subq.Obj().Pkg() {
						for tgt := range targets {
							if tst, isSt := tgt.Underlying().(*types.Struct); isSt {
								for i := 0; i < tst.NumFields(); i++ {
									if tst.Field(i).Embedded() && namedOf(tst.Field(i).Type()) == bt {
										ok = true
									}
								}
							}
						}
					}
					if !ok {
						continue
					}
				}
				n++
				c.Analysed(FnName(fn))
				rebuilt := ""
				seen := map[ssa.Value]bool{}
				var walk func(v ssa.Value, depth int)
				walk = func(v ssa.Value, depth int) {
					if v == nil || seen[v] || depth > 8 || rebuilt != "" || isNilConst(v) {
						return
					}
					seen[v] = true
					switch x := v.(type) {
					case *ssa.Phi:
						for _, e := range x.Edges {
							walk(e, depth+1)
						}
					case *ssa.Extract:
						walk(x.Tuple, depth+1)
					case *ssa.ChangeInterface:
						walk(x.X, depth+1)
					case *ssa.TypeAssert:
						walk(x.X, depth+1)
					case *ssa.UnOp:
						if ff, fb := loadedField(x); ff != nil && ff.Name() == "query" && fb != nil && namedOf(fb.Type()) == subq {
							return // the sub-query's own query
						}
						if ff, _ := loadedField(x); ff != nil && ff.Name() == "query" {
							return // handed on from another node that holds it
						}
						rebuilt = "taken from " + describeValue(x)
					case *ssa.MakeInterface:
						if al, isAl := x.X.(*ssa.Alloc); isAl {
							rebuilt = "a new " + types.TypeString(derefType(al.Type()), func(q *types.Package) string { return q.Name() }) + " assembled at " + p.Pos(al.Pos())
							return
						}
						walk(x.X, depth+1)
					case *ssa.Call:
						if sc := x.Call.StaticCallee(); sc != nil && sc.Blocks != nil && inModule(sc) {
							for _, r := range returnsOf(sc) {
								if len(r.Results) > 0 {
									walk(r.Results[0], depth+1)
								}
							}
							return
						}
						// the typed form of the same query (TypeTransform and the like) is still that query
					case *ssa.Parameter:
						// handed in by the caller (a constructor): the callers' stores are sites of their own
					}
				}
				walk(st.Val, 0)
				c.Check(rebuilt == "", rule, FnName(fn)+": "+namedOf(base.Type()).Obj().Name()+".query", p.Pos(st.Pos()), "the set function is given the sub-query's query object itself", "the set function is given "+rebuilt+" instead of the sub-query's own query: whatever was not copied (the sort clause) is invisible to Accept, so its symbols are never validated")
			}
		}
	}
	c.CallSites(n)
	c.Floor(rule, 2)
}

// constComputable: the value is a constant, or computed from constants alone (op == indexNewRow with op a
// constant argument of an expanded helper).
func constComputable(v ssa.Value, depth int) bool {
	if depth > 4 {
		return false
	}
	switch x := v.(type) {
	case *ssa.Const:
		return true
	case *ssa.BinOp:
		return constComputable(x.X, depth+1) && constComputable(x.Y, depth+1)
	case *ssa.UnOp:
		return x.Op != token.MUL && x.Op != token.ARROW && constComputable(x.X, depth+1)
	case *ssa.Convert:
		return constComputable(x.X, depth+1)
	case *ssa.ChangeType:
		return constComputable(x.X, depth+1)
	case *ssa.Phi:
		// a join is a constant only if every way in carries the same constant (which way is taken is data)
		var first *ssa.Const
		for _, e := range x.Edges {
			k, isK := e.(*ssa.Const)
			if !isK || k.Value == nil {
				return false
			}
			if first == nil {
				first = k
			} else if !constant.Compare(first.Value, token.EQL, k.Value) {
				return false
			}
		}
		return first != nil
	}
	return false
}
