package main

import (
	"fmt"
	"go/constant"
	"go/token"
	"go/types"
	"os"
	"strconv"
	"strings"

	"golang.org/x/tools/go/ssa"
)

// Rules shared by C03 (indexes), C04 (foreign keys), C05 (links), C06 (delete leaves no trace).

func init() {
	register(&Property{
		ID:          "C03",
		Title:       "Unique and set indexes mirror entity state; uniqueness is enforced",
		Technique:   "static analysis: must-pass ordering of the capture-old/persist/apply-new protocol, path rule 'the old index entry is removed on every changed path', no-removal-after-addition phase rule, duplicate-check dominance for unique puts, empty-key probe pairing, capture/remover pairing per constraint type",
		LevelText:   "Structural necessary conditions, decided on every path: Update runs ProcessBeforeUpdate before and ProcessAfterUpdate after the persist, Create runs ProcessAfterUpdate after it, the delete path runs ProcessBeforeDelete and link cleanup before removing the entity; each index's apply step removes the captured old entry on every path where the value changed (no early exit around it), adds nothing before all removals are done, puts a unique value only on the not-present edge of a lookup of that value (else records the duplicate error), and prunes an emptied set-index key only right after probing it; every index-writing constraint captures its old state and has a remover on delete. The equality of index content and entity state after arbitrary histories needs execution and is not decided. Added later: the indexing context a store builds shares the operation's error holder (HOLDER); the pruning of an emptied set-index key is found by what it does (any package function that can reach DeleteBucket) and must be guarded by the emptiness probe at the call or inside. Added in rounds 8-9: the delete reaches every child store's constraints (ORCH); a missing path element yields nil, never the deepest existing ancestor (PATHNIL); AddConstraint appends what it is given on every path (CONSTRAINTREG); create-or-not is a constant of the entry point (CREATECTX). Added in round 11: index objects keep no state outside the transaction (TXSTATE); a failed index bucket is recorded or returned (INDEXBUCKETERR); the holder is consulted after the last index step in Create/Update/DeleteById (ERRREACH). Added in round 12: a walk over a set cursor is not ended by a nil element (SETWALK). Added in round 13: a cursor's IsValid compares its position with nil and the position is never the decoded value (VALIDNIL, VALIDSRC: the empty string is an element, not the end of the set the index is maintained from).",
		LevelNote:   "Trusted: go/types, x/tools SSA, bbolt. Interface dispatch resolved by name-and-shape CHA over the repository.",
		DesignRef:   "DESIGN.md C03",
		Explanation: "Sites: BaseStore.Create/Update/processDeleteConstraints, IndexingContext.Process*, every Constraint implementer's ProcessBeforeUpdate/ProcessAfterUpdate/ProcessBeforeDelete.",
		Trusted:     []string{"go/types", "golang.org/x/tools/go/ssa v0.29.0", "bbolt"},
		Rules: func(c *Ctx) {
			ruleProtocol(c, "C03.PROTOCOL")
			// the delete reaches every child store's constraints (their index entries go with the entity)
			ruleDeleteOrch(c, "C03.ORCH")
			// an index bucket that is not there is reported as not there
			ruleMissingPathNil(c, "C03.PATHNIL")
			// what is declared is applied: every constraint handed to AddConstraint is registered, and a create runs
			// the index protocol as a create
			ruleConstraintRegistered(c, "C03.CONSTRAINTREG")
			ruleCreateIsCreate(c, "C03.CREATECTX")
			ruleIndexTxState(c, "C03.TXSTATE")
			ruleSetWalkByValidity(c, "C03.SETWALK", "boltz")
			// a veto raised by an index (duplicate, missing value) reaches the caller of Create/Update/Delete: the
			// holder the indexes record into is consulted after the last index step
			ruleHolder(c, "C03.ERRREACH", c.prodFuncs("boltz"), map[string]bool{
				"(*boltz.BaseStore[E]).Create": true, "(*boltz.BaseStore[E]).Update": true, "(*boltz.BaseStore[E]).DeleteById": true,
			})
			c.Floor("C03.ERRREACH", 2)
			ruleIndexBucketError(c, "C03.INDEXBUCKETERR")
			ruleOldFirst(c, "C03.OLDFIRST", []string{"uniqueIndex"})
			ruleUnchangedShortcut(c, "C03.UNCHANGED", []string{"uniqueIndex"})
			rulePathFresh(c, "C03.PATHFRESH")
			ruleCursorValidity(c, "C03.VALIDNIL", "C03.VALIDSRC", "boltz", "ast")
			ruleNoRemoveAfterAdd(c, "C03.PHASES", []string{"uniqueIndex", "setIndex"})
			ruleUniq(c, "C03.UNIQ")
			ruleEmptyKey(c, "C03.EMPTYKEY")
			rulePairCapture(c, "C03.PAIR")
			ruleIndexErrors(c, "C03.ERR")
			// a refusal by a parent-level constraint reaches the caller: one holder for the whole chain
			ruleErrHolderShared(c, "C03.HOLDER")
			// the parent's indexes see the same kind of change (create / update) as the child's
			ruleParentChain(c, "C03.CHAIN")
		},
	})
	register(&Property{
		ID:          "C04",
		Title:       "Foreign keys: targets exist, back-references exact, delete restricts or cascades",
		Technique:   "static analysis: taint rule (no run-time text flows into a filter parser from inside the library), wiring rule for the Add*Fk* registrations, existence-check dominance, old-back-reference-removed-on-every-changed-path rule, shape rule for the restrict/cascade delete loop (delete inside the live cursor loop with re-seek); raw-id rule for the cascade filter constant",
		LevelText:   "Necessary conditions decided on every path: no filter text is assembled from data inside the library (ids with quotes, backslashes or keywords cannot change a query's meaning); every fk registration also registers the delete-side constraint on the target store; a back-reference is written only into an existing target (not-found otherwise) and fk constraints test the target's presence; on update the old back-reference is removed on every path where the reference changed; restrict refuses while a referrer exists; cascade deletes referrers from the live cursor (re-seeking after each delete), returning on the first error. Exact back-reference sets after histories are not decided. The constant of the cascade/restrict filter is the id parameter itself (nothing unquotes or unescapes it); every loop that deletes referrers re-seeks its cursor. Added later: the indexing context shares the operation's error holder (HOLDER); a loop that deletes through the store while a cursor over the same data is live re-seeks before it continues (RESEEK). Added in rounds 8-9: a refusal raised for a child store reaches the caller (LOOKEDAT); the referenced store is asked only about non-empty reference values (EMPTYREF); every constraint handed in is registered (CONSTRAINTREG); the referrer filter of the cascade is made per invocation (FRESHFILTER); the nested delete of the cascade is guarded against re-entering an entity already being deleted (CASCADECYCLE: KNOWN FINDING on the pinned tree, see known_findings.json). Added in round 10: a reference read through a symbol is not looked up in that symbol's own store (REFSTORE); a forward Seek does not move the bolt cursor again, cursor families with the direction in a flag field are decided under the constructor's constant (CURSORSEEK); the parent chain runs as the kind of operation the entry point says (CREATECTX). Added in round 11: the path of an entity symbol ends in its key (SYMPATH). Added in round 12: a tag-only payload decodes to a nil value (TAGONLYNIL); a filter built over a store's symbols is evaluated on that store (FILTERSTORE); a non-empty reference is accepted only after IsEntityPresent was asked in that call (ASKED). Added in round 13: PRESENCE as in C05 (a back-reference written in this transaction is found again); PROTOCOL as in C03 (no constraint of a level is skipped).",
		LevelNote:   "Trusted: go/types, x/tools SSA, bbolt; evaluation of the AST filter used by the cascade is C01's domain.",
		DesignRef:   "DESIGN.md C04",
		Explanation: "Sites: every call of ast.Parse/QueryIds/DeleteWhere/zitiql.Parse made from library code; Indexer.Add*Fk*; fkIndex/fkConstraint/fkDeleteConstraint/fkDeleteCascadeConstraint Process* methods.",
		Trusted:     []string{"go/types", "golang.org/x/tools/go/ssa v0.29.0", "bbolt"},
		Rules: func(c *Ctx) {
			ruleInject(c, "C04.INJECT")
			ruleFkWiring(c, "C04.WIRING")
			ruleEmptyRef(c, "C04.EMPTYREF")
			ruleRefStore(c, "C04.REFSTORE")
			ruleFkExists(c, "C04.EXISTS")
			ruleKeyPresence(c, "C04.PRESENCE")
			ruleProtocol(c, "C04.PROTOCOL")
			ruleOwnPresence(c, "C04.PRESENT")
			ruleOldFirst(c, "C04.OLDFIRST", []string{"fkIndex"})
			ruleUnchangedShortcut(c, "C04.UNCHANGED", []string{"fkIndex", "fkConstraint"})
			ruleNoRemoveAfterAdd(c, "C04.PHASES", []string{"fkIndex"})
			ruleFkDelete(c, "C04.DELETE")
			ruleFilterOnItsStore(c, "C04.FILTERSTORE")
			ruleFkPresenceAsked(c, "C04.ASKED")
			ruleRawIdFilter(c, "C04.RAWID")
			// a refusal (restrict) raised by a constraint of a child store reaches the caller
			ruleErrorLookedAtOnEveryPath(c, "C04.LOOKEDAT", c.prodFuncs("boltz"))
			// the cascade terminates on cyclic references
			ruleCascadeReentry(c, "C04.CASCADECYCLE")
			ruleConstraintRegistered(c, "C04.CONSTRAINTREG")
			// a non-nullable reference is refused on create: the parent chain runs as the kind of operation the entry point says
			ruleCreateIsCreate(c, "C04.CREATECTX")
			ruleFreshCascadeFilter(c, "C04.FRESHFILTER")
			// the cascade re-positions its id cursor with Seek(Current()) after every delete: Seek must really
			// re-seek the underlying bolt cursor
			ruleSeekAbsolute(c, "C04.RESEEK")
			// ... and land on the first remaining key >= the deleted one (a forward Seek does not move again)
			ruleCursorDirection(c, c.cursorTypes(), "C04.CURSORSEEK", "C04.DIRPARAM")
			ruleSymbolKeyRoles(c, "C04.SYMKEY")
			ruleSymbolPathKey(c, "C04.SYMPATH")
			ruleTagOnlyNil(c, "C04.TAGONLYNIL")
			ruleErrHolderShared(c, "C04.HOLDER")
		},
		Controls: []controlExpect{{"C04.INJECT", "zzControlBad_C04_INJECT", true}, {"C04.FILTERSTORE", "zzControlBad_C04_FILTERSTORE", true}, {"C04.FILTERSTORE", "zzControlGood_C04_FILTERSTORE", false}},
	})
	register(&Property{
		ID:          "C05",
		Title:       "Link collections stay symmetric; ref-counted links agree on both sides",
		Technique:   "static analysis: pairing rule (every local link write is followed on all success paths by the opposite-side write of the same polarity with swapped arguments), missing-entity error rule, count-agreement check rule, unconditional remote removal on entity delete, no-mutation-of-the-iterated-bucket rule, error-holder consultation; error discipline on the link functions (incl. tested-but-unused errors); must-write rule for the remote count; delete orchestration",
		LevelText:   "Necessary conditions decided on every path: each function that writes the local side of a link also performs the remote operation of the same polarity with (id, key) swapped before reporting success; adding a link to a missing entity returns an error; increment/decrement compare both sides' new counts; deleting an entity removes the remote entry of every link unconditionally and both link kinds are cleaned up; no function deletes from a bucket while it is walking that bucket's cursor; recorded bucket errors are returned. Correctness of the SetLinks sorted merge on data is not decided. No link function loses a failure of either side (an error that is only tested for nil and then dropped is reported); the remote side of setLinkCount/incrementLinkCount writes on every successful path; link cleanup runs for every deleted entity, also through child stores. Added later: no answer of bbolt's Stats()/KeyN (committed pages, not the transaction's own writes) decides whether links exist (NOSTATS). Added in rounds 8-9: the value handed to bbolt Put is not a pooled or scratch buffer (PUTFRESH); no bucket inside an entity is looked up by a symbol's name instead of its path (NAMEPATH). Added in round 11: the entities bucket is keyed with an id only where the store's entityPath is then descended (ENTITYBUCKET); no write of any kind through the bucket whose cursor drives a loop (ITERATE). Added in round 13: no link collection method reaches for the parent store (LINKSTORE: both sides find an entity through the symbol's own store). Added in round 13: no link collection method reaches for the parent store (LINKSTORE); the long-lived store, index, symbol and link objects hold nothing that belongs to a transaction (NOTXSTATE).",
		LevelNote:   "Trusted: go/types, x/tools SSA, bbolt cursor semantics (deleting under a live cursor may skip entries).",
		DesignRef:   "DESIGN.md C05",
		Explanation: "Sites: all functions of link_collection.go and link_collection_rc.go, TypedBucket link-count methods, BaseStore.cleanupLinks.",
		Trusted:     []string{"go/types", "golang.org/x/tools/go/ssa v0.29.0", "bbolt"},
		Controls: []controlExpect{
			{"C05.PUTFRESH", "zzControlBad_C05_PUTFRESH", true},
			{"C05.PUTFRESH", "zzControlGood_C05_PUTFRESH", false},
		},
		Rules: func(c *Ctx) {
			ruleLinkPair(c, "C05.PAIR")
			ruleSymbolPathNotName(c, "C05.NAMEPATH")
			ruleEntityBucketDescent(c, "C05.ENTITYBUCKET")
			ruleLinkOwnStore(c, "C05.LINKSTORE")
			ruleNoTxStateInStores(c, "C05.NOTXSTATE")
			rulePutFresh(c, "C05.PUTFRESH")
			ruleTaggedOnce(c, "C05.KEYTAG")
			ruleNoStats(c, "C05.NOSTATS")
			ruleLinkMissing(c, "C05.MISSING")
			ruleRcCheck(c, "C05.RCCHECK")
			ruleLinkCleanup(c, "C05.CLEANUP")
			ruleCleanupPlacement(c, "C05.CLEANUP")
			ruleKeyPresence(c, "C05.PRESENCE")
			ruleDeleteOrch(c, "C05.ORCH")
			// a failure of either side must reach the caller (a swallowed remote error leaves a one-sided link)
			var linkFns []*ssa.Function
			for _, fn := range c.prodFuncs("boltz") {
				root := fn
				for root.Parent() != nil {
					root = root.Parent()
				}
				if root.Signature.Recv() == nil {
					continue
				}
				if nm := namedOf(root.Signature.Recv().Type()); nm != nil {
					switch nm.Obj().Name() {
					case "linkCollectionImpl", "rcLinkCollectionImpl", "LinkedSetSymbol", "RefCountedLinkedSetSymbol":
						linkFns = append(linkFns, fn)
					}
				}
			}
			ruleSwallow(c, "C05.ERR", linkFns)
			c.Floor("C05.ERR", 10)
			ruleRemoteWrites(c, "C05.REMOTEWRITE")
			ruleNoMutateWhileIterating(c, "C05.ITERATE", c.prodFuncs("boltz"))
			ruleHolder(c, "C05.HOLDER", c.prodFuncs("boltz"), map[string]bool{
				"(*boltz.TypedBucket).SetLinkCount": true, "(*boltz.TypedBucket).IncrementLinkCount": true, "(*boltz.TypedBucket).DecrementLinkCount": true,
				"(*boltz.TypedBucket).CheckAndSetListEntry": true, "(*boltz.TypedBucket).CheckAndDeleteListEntry": true,
				"(*boltz.linkCollectionImpl).link": true, "(*boltz.linkCollectionImpl).unlink": true,
				"(*boltz.LinkedSetSymbol).AddLink": true, "(*boltz.LinkedSetSymbol).RemoveLink": true,
			})
			c.Floor("C05.HOLDER", 4)
		},
	})
	register(&Property{
		ID:          "C06",
		Title:       "A committed delete leaves no trace of the entity's id",
		Technique:   "static analysis: must-pass orchestration of the delete path (parent delegation, child fan-out, constraints, link cleanup, entity bucket removal), writer⊆remover pairing per constraint type, stale-back-reference rule on updates, unconditional remote link removal, no-mutation-of-the-iterated-bucket rule",
		LevelText:   "Decides that every place the id can have been written has a remover on the delete path and that the path is complete on every non-failing route: child stores delegate to the parent; the parent runs, for every child strategy, the child's delete constraints, then its own, then removes the entity bucket (child data lives below it); every index-writing constraint type has a delete-side remover; updates remove the old back-reference on every changed path (otherwise a later delete cannot find it); entity deletion removes the remote side of every link without deleting under the live cursor. That removers delete exactly the keys writers wrote on every history is not decided (the repository's ValidateDeleted oracle does that at run time). Added later: child strategies are appended, never replaced (CHILDREG); the error result of the delete-constraint step is looked at on every path before the entity bucket is removed (LOOKEDAT); no bbolt Stats() answer decides a cleanup (NOSTATS). Added in rounds 8-9: cross-listed RAWID, FRESHFILTER and WIRING (the delete rule of a foreign key lands on the referenced store and finds the referrers of exactly the id being deleted, also in nested deletes). Added in round 10: a forward Seek lands on the first remaining key (CURSORSEEK); the cascade loop is left only on an exhausted cursor or a recorded/returned failure (CASCADE). Added in round 11: the id scanner's Seek re-seeks (RESEEK); ENTITYBUCKET as in C05. Added in round 13: LINKSTORE as in C05. Added in round 13: LINKSTORE and PRESENCE as in C05.",
		LevelNote:   "Trusted: go/types, x/tools SSA, bbolt (DeleteBucket removes nested buckets).",
		DesignRef:   "DESIGN.md C06",
		Explanation: "Sites: BaseStore.DeleteById/processDeleteConstraints/cleanupLinks, NewBaseStore path construction, all Constraint implementers, link collections' EntityDeleted.",
		Trusted:     []string{"go/types", "golang.org/x/tools/go/ssa v0.29.0", "bbolt"},
		Rules: func(c *Ctx) {
			ruleDeleteOrch(c, "C06.ORCH")
			// the cascade finds the referrers of exactly the id being deleted, on every (also nested) delete
			ruleRawIdFilter(c, "C06.RAWID")
			ruleFreshCascadeFilter(c, "C06.FRESHFILTER")
			// the delete rule of a foreign key is registered on the store whose entities are referenced
			ruleFkWiring(c, "C06.WIRING")
			rulePairCapture(c, "C06.REMOVERS")
			ruleOldFirst(c, "C06.STALE", []string{"uniqueIndex", "fkIndex"})
			ruleLinkCleanup(c, "C06.LINKS")
			ruleFkDelete(c, "C06.CASCADE")
			ruleSeekAbsolute(c, "C06.RESEEK")
			ruleEntityBucketDescent(c, "C06.ENTITYBUCKET")
			ruleLinkOwnStore(c, "C06.LINKSTORE")
			ruleKeyPresence(c, "C06.PRESENCE")
			// the cascade re-seeks its cursor to the id it just deleted: the Seek must land on the next referrer, not pass it
			ruleCursorDirection(c, c.cursorTypes(), "C06.CURSORSEEK", "C06.DIRPARAM")
			ruleCleanupPlacement(c, "C06.LINKS")
			// a link that was removed earlier (RemoveLinks / SetLinks) must be gone from BOTH sides: the delete
			// only walks the links the entity still holds
			ruleLinkPair(c, "C06.PAIR")
			// what a delete removes are the entries of the CURRENT values: every earlier update must have told
			// every constraint (parent contexts included) about the change
			ruleProtocol(c, "C06.PROTOCOL")
			ruleNoStats(c, "C06.NOSTATS")
			// every child store stays registered: deletes only learn about child stores through the strategy list
			ruleChildStrategiesAppend(c, "C06.CHILDREG")
			// a veto raised while a child store's delete constraints run comes back together with a change flow
			ruleErrorLookedAtOnEveryPath(c, "C06.LOOKEDAT", c.prodFuncs("boltz"))
			ruleNoMutateWhileIterating(c, "C06.ITERATE", c.prodFuncs("boltz"))
			ruleChildPaths(c, "C06.PATHS")
		},
	})
}

func tbMethod(c *Ctx, name string) *types.Func { return c.P.Method("boltz", "TypedBucket", name) }

// ---- PROTOCOL ---------------------------------------------------------------------------------

func invokeNamed(in ssa.Instruction, name string) bool {
	call, ok := in.(ssa.CallInstruction)
	if !ok {
		return false
	}
	if call.Common().IsInvoke() {
		return call.Common().Method.Name() == name
	}
	cal, _ := calleeOf(call.Common())
	return cal != nil && cal.Name() == name
}

func ruleProtocol(c *Ctx, rule string) {
	p := c.P
	icBefore := p.Method("boltz", "IndexingContext", "ProcessBeforeUpdate")
	icAfter := p.Method("boltz", "IndexingContext", "ProcessAfterUpdate")
	icDel := p.Method("boltz", "IndexingContext", "ProcessBeforeDelete")
	isPersist := func(in ssa.Instruction) bool { return invokeNamed(in, "PersistEntity") }
	for _, m := range []string{"Create", "Update"} {
		fn := p.SSAFunc(p.Method("boltz", "BaseStore", m))
		name := FnName(fn)
		c.Analysed(name)
		_ = ComputeFacts
		var persist ssa.Instruction
		for _, call := range callsIn(fn) {
			if isPersist(call) {
				persist = call
			}
		}
		if persist == nil {
			c.Bad(rule, name+": persists", p.Pos(fn.Pos()), "no PersistEntity call")
			continue
		}
		if m == "Update" {
			ri := reachWithout(fn, func(in ssa.Instruction) bool { return isCallTo(in, icBefore) })
			c.Check(!ri.Reaches(persist), rule, name+": capture before persist", p.Pos(persist.Pos()), "ProcessBeforeUpdate (capture of old index state) precedes PersistEntity on every path", "PersistEntity is reachable without ProcessBeforeUpdate: indexes cannot remove the entity's old values")
		}
		ri := reachWithoutFrom(fn, persist, func(in ssa.Instruction) bool { return isCallTo(in, icAfter) })
		ok := true
		where := ""
		for _, r := range returnsOf(fn) {
			if (ri.entryReach[r.Block()] || r.Block() == persist.Block()) && ri.ReachesSuccess(r, 0) {
				ok = false
				where = p.Pos(r.Pos())
			}
		}
		c.Check(ok, rule, name+": apply after persist", p.Pos(persist.Pos()), "after PersistEntity every possibly-successful return is preceded by ProcessAfterUpdate", "a successful return at "+where+" is reachable after PersistEntity without ProcessAfterUpdate: indexes are not updated")
	}
	// delete path
	pdc := p.SSAFunc(p.Method("boltz", "BaseStore", "processDeleteConstraints"))
	c.Analysed(FnName(pdc))
	_, isCleanupStep, _ := linkCleanupSite(c)
	for _, w := range []struct {
		is   func(ssa.Instruction) bool
		what string
	}{{func(in ssa.Instruction) bool { return isCallTo(in, icDel) }, "ProcessBeforeDelete"}, {isCleanupStep, "cleanupLinks"}} {
		ri := reachWithout(pdc, w.is)
		ok := true
		for _, r := range returnsOf(pdc) {
			// (a return that reports a failure aborts the transaction: nothing of the entity is left half-removed)
			if !isNilConst(r.Results[0]) && ri.ReachesSuccess(r, errorResultIndex(pdc.Signature)) {
				ok = false
			}
		}
		c.Check(ok, rule, FnName(pdc)+": "+w.what, p.Pos(pdc.Pos()), "every possibly-successful return that hands back a change flow (entity found) has run "+w.what, "a change flow is returned without running "+w.what+": index/link entries of the deleted entity survive")
	}
	// IndexingContext.Process*: parent first, then every constraint
	for _, f := range []*types.Func{icBefore, icAfter, icDel} {
		fn := p.SSAFunc(f)
		name := FnName(fn)
		c.Analysed(name)
		constraints := p.Field("boltz", "Indexer", "constraints")
		parentFld := p.Field("boltz", "IndexingContext", "Parent")
		var parentCall, elemCall ssa.CallInstruction
		for _, call := range callsIn(fn) {
			if isCallTo(call, f) {
				if ff, _ := loadedField(call.Common().Args[0]); sameVar(ff, parentFld) {
					parentCall = call
				}
			}
			if call.Common().IsInvoke() && call.Common().Method.Name() == f.Name() && derivesFromField(call.Common().Value, constraints, 0) {
				elemCall = call
			}
		}
		var elemRecv, elemCtxArg ssa.Value
		if elemCall != nil {
			elemRecv = elemCall.Common().Value
			if len(elemCall.Common().Args) == 1 {
				elemCtxArg = elemCall.Common().Args[0]
			}
		} else if h, idx, via := delegatesConstraintStep(fn, f); h != nil {
			// delegated form: the three entry points share one walker that is handed the step to apply
			// (ctx.visit(Constraint.ProcessBeforeUpdate)); the walker is what is decided, the entry point must
			// reach it on every path with itself as the context
			ri := reachWithout(fn, func(in ssa.Instruction) bool { return in == ssa.Instruction(via) })
			through := true
			for _, r := range returnsOf(fn) {
				if ri.Reaches(r) {
					through = false
				}
			}
			if through && len(via.Common().Args) > 0 && via.Common().Args[0] == ssa.Value(fn.Params[0]) {
				c.Analysed(FnName(h))
				for _, call := range callsIn(h) {
					cc := call.Common()
					if !cc.IsInvoke() && cc.Value == ssa.Value(h.Params[idx]) && len(cc.Args) == 2 && derivesFromField(cc.Args[0], constraints, 0) {
						elemCall, elemRecv, elemCtxArg = call, cc.Args[0], cc.Args[1]
					}
					if cc.StaticCallee() == h && len(cc.Args) > idx && cc.Args[idx] == ssa.Value(h.Params[idx]) {
						if ff, _ := loadedField(cc.Args[0]); sameVar(ff, parentFld) {
							parentCall = call
						}
					}
				}
				fn = h
			}
		}
		icT := p.Named("boltz", "IndexingContext")
		isCtxPtr := func(t types.Type) bool {
			pt, isP := t.(*types.Pointer)
			return isP && namedOf(pt.Elem()) == icT
		}
		// ownerOf: the indexing context whose constraints the element call ranges over
		var ownerOf func(v ssa.Value, depth int) ssa.Value
		ownerOf = func(v ssa.Value, depth int) ssa.Value {
			if v == nil || depth > 12 {
				return nil
			}
			if isCtxPtr(v.Type()) {
				if _, isFA := v.(*ssa.FieldAddr); !isFA {
					return v
				}
			}
			switch x := v.(type) {
			case *ssa.UnOp:
				return ownerOf(x.X, depth+1)
			case *ssa.FieldAddr:
				return ownerOf(x.X, depth+1)
			case *ssa.IndexAddr:
				return ownerOf(x.X, depth+1)
			case *ssa.Extract:
				return ownerOf(x.Tuple, depth+1)
			case *ssa.Next:
				return ownerOf(x.Iter, depth+1)
			case *ssa.Range:
				return ownerOf(x.X, depth+1)
			case *ssa.Slice:
				return ownerOf(x.X, depth+1)
			case *ssa.Phi:
				for _, e := range x.Edges {
					if o := ownerOf(e, depth+1); o != nil {
						return o
					}
				}
			case *ssa.Call:
				if x.Call.IsInvoke() {
					return ownerOf(x.Call.Value, depth+1)
				}
				for _, a := range x.Call.Args {
					if o := ownerOf(a, depth+1); o != nil {
						return o
					}
				}
			}
			return nil
		}
		ok := elemCall != nil
		why := "missing the per-constraint call"
		okText := "parent context first, then every constraint of this store in a full loop"
		var owner ssa.Value
		if ok {
			owner = ownerOf(elemRecv, 0)
			loops := loopsOf(fn)
			l := innermostLoop(loops, elemCall.Block())
			if l == nil {
				ok, why = false, "constraints are not processed in a loop"
			} else {
				for b := range l.Blocks {
					for _, s := range b.Succs {
						if !l.Blocks[s] && b != l.Header {
							ok, why = false, "the constraint loop can be left early"
						}
					}
				}
			}
			// ... and no iteration skips the call: every constraint is told about every change (a constraint that
			// decides it is not concerned does so itself, against the stored values)
			if l != nil && ok {
				seen := map[*ssa.BasicBlock]bool{}
				var work []*ssa.BasicBlock
				for _, s := range l.Header.Succs {
					if l.Blocks[s] {
						work = append(work, s)
					}
				}
				for len(work) > 0 {
					b := work[len(work)-1]
					work = work[:len(work)-1]
					if seen[b] || b == elemCall.Block() {
						continue
					}
					seen[b] = true
					for _, s := range b.Succs {
						if s == l.Header {
							ok, why = false, "an iteration of the constraint loop can skip the constraint (for instance because of the fields an update names): its index entries are then neither removed nor added while the stored value changes"
						} else if l.Blocks[s] {
							work = append(work, s)
						}
					}
				}
			}
			// the element call passes the context that owns the constraints
			if elemCtxArg == nil || owner == nil || elemCtxArg != owner {
				ok, why = false, "constraints are not given the indexing context they belong to"
			}
		}
		switch {
		case !ok:
		case owner == ssa.Value(fn.Params[0]):
			// recursive form: the parent context is handled first by a call on ctx.Parent
			if parentCall == nil {
				ok, why = false, "missing the parent-context call"
			} else {
				ri := reachWithoutFrom(fn, elemCall, func(ssa.Instruction) bool { return false })
				if ri.entryReach[parentCall.Block()] {
					ok, why = false, "constraints run before the parent context"
				}
			}
		default:
			// iterative form: the owner is an element of a slice of contexts that holds this context and
			// every ancestor reached by walking .Parent
			okText = "every context of the ancestor chain (collected by walking .Parent into a slice that is ranged over in full) runs every one of its constraints with itself as argument; the order of the chain is not decided in this form"
			ld, isLoad := owner.(*ssa.UnOp)
			var ia *ssa.IndexAddr
			if isLoad {
				ia, _ = ld.X.(*ssa.IndexAddr)
			}
			if ia == nil {
				ok, why = false, "the context whose constraints are processed is neither this context nor an element of a collected ancestor chain"
				break
			}
			loops := loopsOf(fn)
			inner := innermostLoop(loops, elemCall.Block())
			var outer *Loop
			for _, lp := range loops {
				if lp != inner && lp.Blocks[elemCall.Block()] && lp.Blocks[ia.Block()] && (outer == nil || len(lp.Blocks) < len(outer.Blocks)) {
					outer = lp
				}
			}
			if outer == nil {
				ok, why = false, "the ancestor chain is not ranged over"
				break
			}
			for b := range outer.Blocks {
				for _, s := range b.Succs {
					if !outer.Blocks[s] && b != outer.Header {
						ok, why = false, "the loop over the ancestor chain can be left early"
					}
				}
			}
			// what is put into slices of contexts in this function
			sawSelf, sawWalker := false, false
			for _, b := range fn.Blocks {
				for _, in := range b.Instrs {
					st, isSt := in.(*ssa.Store)
					if !isSt || !isCtxPtr(st.Val.Type()) {
						continue
					}
					if _, toElem := st.Addr.(*ssa.IndexAddr); !toElem {
						continue
					}
					switch v := st.Val.(type) {
					case *ssa.Parameter:
						if v == fn.Params[0] {
							sawSelf = true
						}
					case *ssa.Phi:
						// walker: p = φ(start, p.Parent)
						walks := false
						for _, e := range v.Edges {
							if ff, base := loadedField(e); sameVar(ff, parentFld) && (base == ssa.Value(v) || base == ssa.Value(fn.Params[0])) {
								walks = true
							}
							if e == ssa.Value(fn.Params[0]) {
								sawSelf = true
							}
						}
						if walks {
							wl := innermostLoop(loops, st.Block())
							if wl == nil {
								ok, why = false, "ancestors are not collected in a loop"
							} else {
								// every iteration stores the walker
								ri := reachWithoutFrom(fn, wl.Header.Instrs[len(wl.Header.Instrs)-1], func(x ssa.Instruction) bool { return x == ssa.Instruction(st) })
								for _, pb := range wl.Header.Preds {
									if wl.Blocks[pb] && ri.entryReach[pb] && !pathPassesStore(pb, st) {
										ok, why = false, "an ancestor can be skipped while the chain is collected"
									}
								}
								sawWalker = true
							}
						}
					case *ssa.UnOp:
						// swapping elements of the chain (reversal) or copying .Parent directly
						if ff, base := loadedField(v); sameVar(ff, parentFld) && base == ssa.Value(fn.Params[0]) {
							sawWalker = sawWalker || false
						}
					}
				}
			}
			if ok && (!sawSelf || !sawWalker) {
				ok, why = false, "the collected chain does not provably hold this context and every ancestor reached through .Parent"
			}
		}
		c.Check(ok, rule, name, p.Pos(fn.Pos()), okText, why)
	}
	c.Floor(rule, 8)
}

// ---- OLDFIRST ---------------------------------------------------------------------------------

// ruleOldFirst: in <type>.ProcessAfterUpdate the entry for the captured old value is removed on
// every path, except where the old value is empty, the value is unchanged, or an error is latched.
func ruleOldFirst(c *Ctx, rule string, typesNames []string) {
	p := c.P
	atom := p.Field("boltz", "IndexingContext", "AtomStates")
	delNames := map[string]bool{"DeleteValue": true, "DeleteListEntry": true, "Delete": true}
	for _, tn := range typesNames {
		fn := p.SSAFunc(p.Method("boltz", tn, "ProcessAfterUpdate"))
		name := FnName(fn)
		c.Analysed(name)
		fi := ComputeFacts(fn)
		// old value: lookup in ctx.AtomStates
		var old ssa.Value
		for _, b := range fn.Blocks {
			for _, in := range b.Instrs {
				if lk, ok := in.(*ssa.Lookup); ok && derivesFromField(lk.X, atom, 0) {
					old = lk
				}
			}
		}
		if old == nil {
			c.Undecided(rule, name, p.Pos(fn.Pos()), "cannot find the captured old value (lookup in ctx.AtomStates)")
			continue
		}
		usesOld := func(v ssa.Value) bool { return valueReaches(v, old, 0) }
		var dels []ssa.CallInstruction
		for _, call := range callsIn(fn) {
			cal, _ := calleeOf(call.Common())
			if cal == nil || !delNames[cal.Name()] {
				continue
			}
			for _, a := range call.Common().Args {
				if usesOld(a) {
					dels = append(dels, call)
					break
				}
			}
		}
		if len(dels) == 0 {
			c.Bad(rule, name, p.Pos(fn.Pos()), "the entry of the old value is never removed")
			continue
		}
		isDel := func(in ssa.Instruction) bool {
			for _, d := range dels {
				if in == ssa.Instruction(d) {
					return true
				}
			}
			return false
		}
		allowed := func(from, to *ssa.BasicBlock) bool {
			for f := range fi.edgeFacts(from, to) {
				// the accessor for the old value's entry failed (an error result of a call made on the old
				// value is non-nil): nothing could be removed, and that failure is what the caller gets
				if f.Kind == "nonnil" && f.Pol && isErrorType(f.V.Type()) && valueReaches(f.V, old, 0) {
					return true
				}
				if f.Kind != "true" {
					continue
				}
				switch x := f.V.(type) {
				case *ssa.BinOp:
					// len(old) > 0 is false  /  len(old) == 0 is true
					if lc, ok := x.X.(*ssa.Call); ok {
						// (the old value as a helper handed it back: a join of the value and nil)
						isOld := func(v ssa.Value) bool {
							if v == old {
								return true
							}
							leaves, n := phiLeaves(v), 0
							for _, l := range leaves {
								if isNilConst(l) {
									continue
								}
								if l != old {
									return false
								}
								n++
							}
							return n > 0
						}
						if bi, ok := lc.Call.Value.(*ssa.Builtin); ok && bi.Name() == "len" && isOld(lc.Call.Args[0]) {
							if (x.Op == token.GTR && !f.Pol) || (x.Op == token.EQL && f.Pol) || (x.Op == token.NEQ && !f.Pol) {
								return true
							}
						}
					}
				case *ssa.Call:
					cal, _ := calleeOf(x.Common())
					if cal != nil && cal.Name() == "Equal" && cal.Pkg() != nil && cal.Pkg().Path() == "bytes" && f.Pol {
						if (x.Call.Args[0] == old) || (x.Call.Args[1] == old) {
							return true // unchanged
						}
					}
					if x.Call.IsInvoke() && x.Call.Method.Name() == "HasError" && f.Pol {
						return true
					}
				}
			}
			return false
		}
		ok := noPathAvoiding(fn, isDel, allowed)
		c.Check(ok, rule, name, p.Pos(dels[0].Pos()), "the old value's entry is removed on every path except: old value empty, value unchanged, error already latched",
			"a path returns without removing the old value's entry although the value changed (e.g. an early return for an empty new value): a stale entry / back-reference survives, later blocking reuse or delete")
	}
	c.Floor(rule, len(typesNames))
}

// valueReaches: v is computed from src (through calls' arguments/receivers, conversions, extracts).
func valueReaches(v, src ssa.Value, depth int) bool {
	if depth > 6 || v == nil {
		return false
	}
	if v == src {
		return true
	}
	switch x := v.(type) {
	case *ssa.Call:
		if x.Call.IsInvoke() && valueReaches(x.Call.Value, src, depth+1) {
			return true
		}
		for _, a := range x.Call.Args {
			if valueReaches(a, src, depth+1) {
				return true
			}
		}
	case *ssa.Extract:
		return valueReaches(x.Tuple, src, depth+1)
	case *ssa.Convert:
		return valueReaches(x.X, src, depth+1)
	case *ssa.ChangeType:
		return valueReaches(x.X, src, depth+1)
	case *ssa.UnOp:
		if al, ok := x.X.(*ssa.Alloc); ok {
			// a local that lives in memory (captured by a closure): follow what was stored into it
			for _, r := range *al.Referrers() {
				if st, ok := r.(*ssa.Store); ok && st.Addr == ssa.Value(al) && valueReaches(st.Val, src, depth+1) {
					return true
				}
			}
			return false
		}
		return valueReaches(x.X, src, depth+1)
	case *ssa.FieldAddr:
		return valueReaches(x.X, src, depth+1)
	case *ssa.Field:
		return valueReaches(x.X, src, depth+1)
	case *ssa.Slice:
		return valueReaches(x.X, src, depth+1)
	case *ssa.Phi:
		for _, e := range x.Edges {
			if valueReaches(e, src, depth+1) {
				return true
			}
		}
	}
	return false
}

// ---- PHASES (apply step) ------------------------------------------------------------------------

func ruleNoRemoveAfterAdd(c *Ctx, rule string, typeNames []string) {
	p := c.P
	adds := map[string]bool{"SetListEntry": true, "PutValue": true, "Put": true}
	rems := map[string]bool{"DeleteListEntry": true, "DeleteValue": true, "Delete": true, "DeleteBucket": true}
	isPrune := keyPruneHelper(c)
	for _, tn := range typeNames {
		fn := p.SSAFunc(p.Method("boltz", tn, "ProcessAfterUpdate"))
		name := FnName(fn)
		c.Analysed(name)
		var addS, remS []ssa.CallInstruction
		for _, call := range callsIn(fn) {
			cal, _ := calleeOf(call.Common())
			if cal == nil {
				continue
			}
			if adds[cal.Name()] {
				addS = append(addS, call)
			}
			if rems[cal.Name()] || isPrune(call) {
				remS = append(remS, call)
			}
		}
		bad := ""
		for _, a := range addS {
			ri := reachWithoutFrom(fn, a, func(ssa.Instruction) bool { return false })
			for _, r := range remS {
				if ri.entryReach[r.Block()] || (r.Block() == a.Block() && instrIndex(r) > instrIndex(a)) {
					bad = describeInstr(r) + " at " + p.Pos(r.Pos()) + " can run after " + describeInstr(a) + " at " + p.Pos(a.Pos())
				}
			}
		}
		c.Check(bad == "" && len(addS) > 0 && len(remS) > 0, rule, name, p.Pos(fn.Pos()), fmt.Sprintf("all %d removal(s) precede the %d addition(s): nothing added in this step can be removed again by it", len(remS), len(addS)),
			"a removal can execute after additions of the same step ("+bad+"): a key/entry that was just (re)populated can be deleted")
	}
	c.Floor(rule, len(typeNames))
}

// ---- UNIQ ---------------------------------------------------------------------------------------

func ruleUniq(c *Ctx, rule string) {
	p := c.P
	fn := p.SSAFunc(p.Method("boltz", "uniqueIndex", "ProcessAfterUpdate"))
	name := FnName(fn)
	c.Analysed(name)
	fi := ComputeFacts(fn)
	putValue := tbMethod(c, "PutValue")
	dupT := p.Named("boltz", "UniqueIndexDuplicateError")
	var put *ssa.Call
	for _, call := range callsIn(fn) {
		if isCallTo(call, putValue) {
			put, _ = call.(*ssa.Call)
		}
	}
	if put == nil {
		c.Bad(rule, name, p.Pos(fn.Pos()), "no PutValue of the new value")
		return
	}
	newVal := put.Call.Args[1]
	// dominated by Get(newVal) == nil on the same bucket
	isGetOfNew := func(v ssa.Value) bool {
		call, ok := v.(*ssa.Call)
		if !ok {
			return false
		}
		cal, _ := calleeOf(call.Common())
		return cal != nil && cal.Name() == "Get" && len(call.Call.Args) == 2 && call.Call.Args[1] == newVal
	}
	// every path to the put takes an edge on which a lookup of that very value found nothing
	guard := noPathToAvoiding(fn, put, nil, func(from, to *ssa.BasicBlock) bool {
		for f := range fi.edgeFacts(from, to) {
			if f.Kind == "nonnil" && !f.Pol && isGetOfNew(f.V) {
				return true
			}
		}
		return false
	})
	c.Check(guard, rule, name+": put only when absent", p.Pos(put.Pos()), "the new value is put only on the edge where a lookup of that very value found nothing", "the unique value is written without first establishing that no entity holds it")
	// the found edge records a UniqueIndexDuplicateError
	dup := false
	for _, call := range callsIn(fn) {
		if invokeNamed(call, "SetError") && len(call.Common().Args) >= 1 {
			arg := call.Common().Args[len(call.Common().Args)-1]
			if mi, ok := arg.(*ssa.MakeInterface); ok && namedOf(mi.X.Type()) == dupT {
				if fi.HoldsWhere(call.Block(), func(f Fact) bool { return f.Kind == "nonnil" && f.Pol && isGetOfNew(f.V) }) {
					dup = true
				}
			}
		}
	}
	c.Check(dup, rule, name+": duplicate rejected", p.Pos(fn.Pos()), "on the edge where the value is already indexed a UniqueIndexDuplicateError is recorded", "no UniqueIndexDuplicateError is recorded when the value is already present")
	// empty new value on a non-nullable index is an error
	pol := findEmptyPolicy(c, "uniqueIndex")
	nonNull := errorRecordedWhere(fn, fi, nil, pol.refuses)
	c.Check(nonNull, rule, name+": empty value on non-nullable index", p.Pos(fn.Pos()), "an empty value records an error when the index is not nullable", "an empty value is accepted by a non-nullable unique index")
}

// ---- EMPTYKEY -----------------------------------------------------------------------------------

func ruleEmptyKey(c *Ctx, rule string) {
	p := c.P
	delBucket := p.ExtMethod(bboltPath, "Bucket", "DeleteBucket")
	delEntry := tbMethod(c, "DeleteListEntry")
	first := p.ExtMethod(bboltPath, "Cursor", "First")
	isPrune := keyPruneHelper(c)
	emptyProbed := func(fi *FactInfo, b *ssa.BasicBlock) bool {
		// under the fact: key returned by Cursor().First() is nil
		return fi.HoldsWhere(b, func(f Fact) bool {
			if f.Kind != "nonnil" || f.Pol {
				return false
			}
			ex, isEx := f.V.(*ssa.Extract)
			return isEx && ex.Index == 0 && isCallTo(ex.Tuple.(ssa.Instruction), first)
		})
	}
	// the pruning of a key, wherever it is written (in place, or in a helper that may itself do the probe):
	// every bolt DeleteBucket it can reach is guarded by the probe, at the call or inside the helper
	var prunesGuarded func(fn *ssa.Function, depth int) (n int, ok bool)
	prunesGuarded = func(fn *ssa.Function, depth int) (int, bool) {
		fi := ComputeFacts(fn)
		n, ok := 0, true
		for _, call := range callsIn(fn) {
			switch {
			case isCallTo(call, delBucket):
				n++
				if !emptyProbed(fi, call.Block()) {
					ok = false
				}
			case isPrune(call):
				n++
				if emptyProbed(fi, call.Block()) {
					continue
				}
				sc := call.Common().StaticCallee()
				if sc == nil || depth > 2 {
					ok = false
					continue
				}
				if k, good := prunesGuarded(sc, depth+1); !good || k == 0 {
					ok = false
				}
			}
		}
		return n, ok
	}
	// probes: the First call itself, or a helper that cannot return without having made it
	isProbe := func(in ssa.Instruction) bool {
		if isCallTo(in, first) {
			return true
		}
		ci, isCI := in.(ssa.CallInstruction)
		if !isCI || !isPrune(ci) {
			return false
		}
		sc := ci.Common().StaticCallee()
		if sc == nil {
			return false
		}
		ri := reachWithout(sc, func(x ssa.Instruction) bool { return isCallTo(x, first) })
		for _, r := range returnsOf(sc) {
			if ri.Reaches(r) {
				return false
			}
		}
		return true
	}
	for _, m := range []string{"ProcessAfterUpdate", "ProcessBeforeDelete"} {
		fn := p.SSAFunc(p.Method("boltz", "setIndex", m))
		name := FnName(fn)
		c.Analysed(name)
		nDel, ok := prunesGuarded(fn, 0)
		why := ""
		if !ok {
			why = "an index key is deleted without an emptiness probe (Cursor().First() == nil) guarding that very deletion"
		}
		// every DeleteListEntry is followed by the probe before the next iteration
		nRemovals := 0
		for _, call := range callsIn(fn) {
			if !isCallTo(call, delEntry) && !isCallTo(call, tbMethod(c, "CheckAndDeleteListEntry")) {
				continue
			}
			nRemovals++
			ri := reachWithoutFrom(fn, call, isProbe)
			sameBlock := false
			for i := instrIndex(call) + 1; i < len(call.Block().Instrs); i++ {
				if isProbe(call.Block().Instrs[i]) {
					sameBlock = true
				}
			}
			if !sameBlock && ri.entryReach[call.Block()] {
				ok, why = false, "after removing an entry the loop can continue without probing whether the key became empty"
			}
		}
		if nRemovals == 0 {
			ok, why = false, "no removal of the entity's entries found"
		}
		if nDel == 0 && why == "" {
			why = "the key of an emptied set-index entry is never pruned"
		}
		c.Check(ok && nDel > 0, rule, name, p.Pos(fn.Pos()), "each removed entry is followed by an emptiness probe and the key is pruned only under that probe", why)
	}
	c.Floor(rule, 2)
}

// keyPruneHelper: calls of functions of package boltz (not methods of the typed bucket, whose removals have
// their own rules) that can reach bolt's DeleteBucket — the pruning of an index key, by whatever name.
func keyPruneHelper(c *Ctx) func(call ssa.CallInstruction) bool {
	p := c.P
	delBucket := p.ExtMethod(bboltPath, "Bucket", "DeleteBucket")
	sum := p.CallGraph().Summarize(func(in ssa.Instruction) bool { return isCallTo(in, delBucket) })
	tb := p.Named("boltz", "TypedBucket")
	return func(call ssa.CallInstruction) bool {
		sc := call.Common().StaticCallee()
		if sc == nil || sc.Pkg == nil || sc.Pkg.Pkg.Path() != modPath+"/boltz" || !sum.May(sc) {
			return false
		}
		if f := methodOf(sc); f != nil {
			if r := recvType(f); r != nil && namedOf(r) == tb {
				return false
			}
		}
		return true
	}
}

// ---- PAIR: capture / read / remover per constraint ------------------------------------------------

func rulePairCapture(c *Ctx, rule string) {
	p := c.P
	cg := p.CallGraph()
	sumW := cg.Summarize(p.isBoltWrite())
	var dels []*types.Func
	for _, m := range []string{"Delete", "DeleteBucket"} {
		dels = append(dels, p.ExtMethod(bboltPath, "Bucket", m))
	}
	sumD := cg.Summarize(func(in ssa.Instruction) bool { return isCallTo(in, dels...) })
	after := p.Method("boltz", "Constraint", "ProcessAfterUpdate")
	atom := p.Field("boltz", "IndexingContext", "AtomStates")
	sets := p.Field("boltz", "IndexingContext", "SetStates")
	n := 0
	for _, f := range cg.Implementers(after) {
		afn := p.SSA.FuncValue(f)
		if afn == nil || p.isTestSupport(afn.Pos()) || isControl(FnName(afn)) || !sumW.May(afn) {
			continue
		}
		recv := namedOf(recvType(f))
		if recv == nil {
			continue
		}
		n++
		tname := "boltz." + recv.Obj().Name()
		c.Analysed(FnName(afn))
		method := func(name string) *ssa.Function {
			for i := 0; i < recv.NumMethods(); i++ {
				if recv.Method(i).Name() == name {
					return p.SSA.FuncValue(recv.Method(i))
				}
			}
			return nil
		}
		before, del := method("ProcessBeforeUpdate"), method("ProcessBeforeDelete")
		// capture: MapUpdate on AtomStates/SetStates keyed by the receiver
		captured := false
		if before != nil {
			for _, b := range before.Blocks {
				for _, in := range b.Instrs {
					if mu, ok := in.(*ssa.MapUpdate); ok && (derivesFromField(mu.Map, atom, 0) || derivesFromField(mu.Map, sets, 0)) {
						if mi, ok := mu.Key.(*ssa.MakeInterface); ok && mi.X == ssa.Value(before.Params[0]) {
							captured = true
						}
					}
				}
			}
		}
		c.Check(captured, rule, tname+": captures old state", p.Pos(afn.Pos()), "ProcessBeforeUpdate stores the entity's current value(s) under its own key", "ProcessBeforeUpdate does not capture the old state: the apply step cannot remove stale entries")
		read := false
		for _, b := range afn.Blocks {
			for _, in := range b.Instrs {
				if lk, ok := in.(*ssa.Lookup); ok && (derivesFromField(lk.X, atom, 0) || derivesFromField(lk.X, sets, 0)) {
					if mi, ok := lk.Index.(*ssa.MakeInterface); ok && mi.X == ssa.Value(afn.Params[0]) {
						read = true
					}
				}
			}
		}
		c.Check(read, rule, tname+": applies against captured state", p.Pos(afn.Pos()), "ProcessAfterUpdate reads the captured state under its own key", "ProcessAfterUpdate does not read the captured old state")
		c.Check(del != nil && sumD.May(del), rule, tname+": remover on delete", p.Pos(afn.Pos()), "ProcessBeforeDelete can reach a bolt delete: index entries of a deleted entity are removed", "this constraint writes index data but its ProcessBeforeDelete never deletes anything: the deleted id stays in the index")
	}
	c.Floor(rule, 9)
	_ = n
}

// ruleIndexErrors: results of bucket operations in Process* flow into SetError.
func ruleIndexErrors(c *Ctx, rule string) {
	p := c.P
	h := newHolderInfo(c)
	isPrune := keyPruneHelper(c)
	for _, tn := range []string{"uniqueIndex", "setIndex", "fkIndex"} {
		for _, m := range []string{"ProcessAfterUpdate", "ProcessBeforeDelete"} {
			fn := p.SSAFunc(p.Method("boltz", tn, m))
			name := FnName(fn)
			c.Analysed(name)
			bad := ""
			n := 0
			for _, call := range callsIn(fn) {
				cv, ok := call.(*ssa.Call)
				if !ok {
					continue
				}
				cal, _ := calleeOf(cv.Common())
				if cal == nil {
					continue
				}
				// chainable mutators return the bucket: its .Err must reach SetError
				if h.mutators[cal] && h.chainable[cal] {
					n++
					used := false
					for _, r := range *cv.Referrers() {
						if fa, ok := r.(*ssa.FieldAddr); ok {
							_ = fa
							used = true
						}
						if u, ok := r.(*ssa.UnOp); ok {
							_ = u
							used = true
						}
					}
					if !used {
						bad = describeInstr(call) + " at " + p.Pos(call.Pos())
					}
				}
				if sig := cal.Type().(*types.Signature); sig.Results().Len() == 1 && errorResultIndex(sig) == 0 && isPrune(call) {
					n++
					used := false
					for _, r := range *cv.Referrers() {
						if ci, ok := r.(ssa.CallInstruction); ok && invokeNamed(ci, "SetError") {
							used = true
						}
					}
					if !used {
						bad = describeInstr(call) + " at " + p.Pos(call.Pos())
					}
				}
			}
			c.Check(bad == "", rule, name, p.Pos(fn.Pos()), fmt.Sprintf("%d bucket operation result(s) all feed the error holder", n), "the outcome of "+bad+" is not recorded in the error holder")
		}
	}
}

// ---- C04 ------------------------------------------------------------------------------------------

// ruleInject: no library code builds query text from run-time values.
func ruleInject(c *Ctx, rule string) {
	p := c.P
	sinks := map[*types.Func]int{ // function -> index of the query-text argument (receiver excluded)
		p.Func("ast", "Parse"):                              1,
		p.Func("zitiql", "Parse"):                           0,
		p.Func("zitiql", "ParseWithDebug"):                  0,
		p.Method("boltz", "BaseStore", "QueryIds"):          1,
		p.Method("boltz", "BaseStore", "DeleteWhere"):       1,
		p.Method("boltz", "Store", "QueryIds"):              1,
		p.Method("boltz", "Store", "DeleteWhere"):           1,
		p.Method("objectz", "ObjectStore", "QueryEntities"): 0,
	}
	n := 0
	for _, fn := range c.prodFuncs("boltz", "ast", "objectz") {
		for _, call := range callsIn(fn) {
			cal, _ := calleeOf(call.Common())
			if cal == nil {
				continue
			}
			idx, ok := sinks[cal]
			if !ok {
				continue
			}
			args := call.Common().Args
			if !call.Common().IsInvoke() && cal.Type().(*types.Signature).Recv() != nil {
				idx++
			}
			if idx >= len(args) {
				continue
			}
			n++
			c.Analysed(FnName(fn))
			q := args[idx]
			construct := FnName(fn) + " -> " + shortObj(cal)
			// allowed: a parameter of this function (caller's own text) or a constant
			tainted, how := builtText(q, 0)
			switch {
			case !tainted:
				c.OK(rule, construct, p.Pos(call.Pos()), "the query text is a parameter or constant, not assembled here")
			default:
				c.Bad(rule, construct, p.Pos(call.Pos()), "filter text is assembled inside the library from run-time values ("+how+") and then parsed: a value containing quotes, backslashes or keywords changes the query")
			}
		}
	}
	c.OK(rule, "library query-text sinks", "-", fmt.Sprintf("%d call(s) into a filter parser from library code examined", n))
}

// builtText: v is produced by string formatting/concatenation of non-constant parts.
func builtText(v ssa.Value, depth int) (bool, string) {
	if depth > 5 {
		return false, ""
	}
	switch x := v.(type) {
	case *ssa.Const, *ssa.Parameter:
		return false, ""
	case *ssa.BinOp:
		if x.Op == token.ADD {
			_, xc := x.X.(*ssa.Const)
			_, yc := x.Y.(*ssa.Const)
			if !(xc && yc) {
				return true, "string concatenation"
			}
		}
	case *ssa.Call:
		if cal, _ := calleeOf(x.Common()); cal != nil && cal.Pkg() != nil {
			switch cal.Pkg().Path() + "." + cal.Name() {
			case "fmt.Sprintf", "fmt.Sprint", "fmt.Sprintln", "strings.Join", "strings.Replace", "strings.ReplaceAll":
				return true, cal.Pkg().Name() + "." + cal.Name()
			}
			if cal.Name() == "String" && strings.Contains(recvType(cal).String(), "strings.Builder") {
				return true, "strings.Builder"
			}
		}
	case *ssa.Phi:
		for _, e := range x.Edges {
			if t, how := builtText(e, depth+1); t {
				return t, how
			}
		}
	}
	return false, ""
}

func ruleFkWiring(c *Ctx, rule string) {
	p := c.P
	addC := p.Method("boltz", "Indexer", "AddConstraint")
	cascadeDelete := constInt(p.Obj("boltz", "CascadeDelete"))
	createUpdate := constInt(p.Obj("boltz", "CascadeCreateUpdate"))
	fieldIdx := func(t *types.Named, name string) string {
		st, _ := t.Underlying().(*types.Struct)
		for i := 0; st != nil && i < st.NumFields(); i++ {
			if st.Field(i).Name() == name {
				return fmt.Sprintf(".f%d", i)
			}
		}
		return ".f?"
	}
	// what each exported entry point must register — decided by running it with symbolic parameters and
	// looking at the AddConstraint calls it makes (on the indexer itself and, through Constrained, on another
	// store), wherever they are written (in place, in shared helpers, through a variable)
	type want struct {
		typ    string
		on     string            // "self" | "store:<param>" | "linked:<param>"
		fields map[string]string // field -> expected value ("param:x", "true", "false", "const:N")
	}
	type row struct {
		m      string
		consts map[string]int64 // parameters fixed for this scenario
		wants  []want
	}
	rows := []row{
		{"AddFkIndex", nil, []want{
			{"fkIndex", "self", map[string]string{"symbol": "param:1", "fkSymbol": "param:2", "nullable": "false"}},
			{"fkDeleteConstraint", "store:2", map[string]string{"symbol": "param:2", "fkSymbol": "param:1"}}}},
		{"AddNullableFkIndex", nil, []want{
			{"fkIndex", "self", map[string]string{"symbol": "param:1", "fkSymbol": "param:2", "nullable": "true"}},
			{"fkDeleteConstraint", "store:2", map[string]string{"symbol": "param:2", "fkSymbol": "param:1"}}}},
		{"AddFkIndexCascadeDelete", nil, []want{
			{"fkIndex", "self", map[string]string{"symbol": "param:1", "fkSymbol": "param:2", "nullable": "false"}},
			{"fkDeleteCascadeConstraint", "store:2", map[string]string{"symbol": "param:1", "cascadeType": fmt.Sprintf("const:%d", cascadeDelete)}}}},
		{"AddFkConstraint", map[string]int64{"3": cascadeDelete}, []want{
			{"fkConstraint", "self", map[string]string{"symbol": "param:1", "nullable": "param:2"}},
			{"fkDeleteCascadeConstraint", "linked:1", map[string]string{"symbol": "param:1", "cascadeType": fmt.Sprintf("const:%d", cascadeDelete)}}}},
		{"AddFkConstraint", map[string]int64{"3": createUpdate}, []want{
			{"fkConstraint", "self", map[string]string{"symbol": "param:1", "nullable": "param:2"}}}},
	}
	for _, rw := range rows {
		fn := p.SSAFunc(p.Method("boltz", "Indexer", rw.m))
		name := FnName(fn)
		if rw.consts != nil {
			name += fmt.Sprintf(" (cascade=%d)", rw.consts["3"])
		}
		c.Analysed(FnName(fn))
		paramNo := func(v ssa.Value) int {
			for k := 0; k < 3; k++ {
				if ci, isCI := v.(*ssa.ChangeInterface); isCI {
					v = ci.X
				}
			}
			for i, prm := range fn.Params {
				if v == ssa.Value(prm) {
					return i
				}
			}
			return -1
		}
		var oracle Oracle
		oracle = func(v ssa.Value) (AV, bool) {
			switch x := v.(type) {
			case *ssa.Parameter:
				if i := paramNo(x); i >= 0 {
					if k, fixed := rw.consts[strconv.Itoa(i)]; fixed {
						return avInt(k), true
					}
					if b, isB := x.Type().Underlying().(*types.Basic); isB && b.Kind() == types.Bool {
						return AV{Kind: "sym", Sym: fmt.Sprintf("param:%d", i)}, true
					}
					return AV{Kind: "nonnil", Sym: fmt.Sprintf("param:%d", i)}, true
				}
			case *ssa.Call:
				if x.Call.IsInvoke() {
					if i := paramNo(x.Call.Value); i >= 0 {
						switch x.Call.Method.Name() {
						case "GetStore":
							return AV{Kind: "nonnil", Sym: fmt.Sprintf("store:%d", i)}, true
						case "GetLinkedType":
							return AV{Kind: "nonnil", Sym: fmt.Sprintf("linked:%d", i)}, true
						}
					}
				}
			case *ssa.TypeAssert:
				// the store asked whether it can take constraints: it can
				inner, ok := oracle(x.X)
				if !ok {
					if ci, isCI := x.X.(*ssa.ChangeInterface); isCI {
						inner, ok = oracle(ci.X)
					}
				}
				if ok && x.CommaOk {
					return AV{Kind: "tuple", Tup: []AV{inner, avBool(true)}}, true
				}
				if ok {
					return inner, true
				}
			}
			return AV{}, false
		}
		evs, err := DecideCalls(fn, oracle, func(ci ssa.CallInstruction) bool {
			if ci.Common().IsInvoke() {
				return ci.Common().Method.Name() == "AddConstraint"
			}
			return isCallTo(ci, addC)
		})
		if err != "" {
			c.Undecided(rule, name, p.Pos(fn.Pos()), "the registrations could not be evaluated: "+err)
			continue
		}
		ok, why := true, ""
		matched := make([]bool, len(evs))
		for _, w := range rw.wants {
			t := p.Named("boltz", w.typ)
			found := false
			for ei, ev := range evs {
				last := len(ev.Args) - 1
				if last < 0 || ev.ArgTypes[last] == nil || namedOf(ev.ArgTypes[last]) != t {
					continue
				}
				found = true
				matched[ei] = true
				// registered on the right object
				on := ""
				if ev.Call.Common().IsInvoke() {
					on = ev.Recv.Sym
				} else if len(ev.Args) > 0 {
					on = ev.Args[0].Sym
				}
				wantOn := w.on
				if wantOn == "self" {
					wantOn = "param:0"
				}
				if on != wantOn {
					ok, why = false, fmt.Sprintf("the %s is registered on %q instead of %q: the constraint lands on the wrong store (a delete of a referenced entity is then neither refused nor cascaded)", w.typ, on, wantOn)
				}
				for fname, wantV := range w.fields {
					if fname == "nullable" && (wantV == "true" || wantV == "false") {
						// "tolerates an empty value?", in whatever form the struct keeps that (a bool, or a named
						// constant): the value built in must be one that the update step refuses / does not refuse
						pol := findEmptyPolicy(c, w.typ)
						got := ev.ArgFields[last][fieldIdx(t, pol.fld.Name())]
						if got.Kind == "" && got.Sym == "" {
							got = pol.zero()
						}
						refuses, known := pol.valueRefuses(got)
						if !known || refuses != (wantV == "false") {
							ok, why = false, fmt.Sprintf("the %s is built with %s = %s, expected a value that %s an empty reference", w.typ, pol.fld.Name(), got, map[bool]string{true: "tolerates", false: "refuses"}[wantV == "true"])
						}
						continue
					}
					got := ev.ArgFields[last][fieldIdx(t, fname)]
					gs := got.Sym
					if got.Kind == "const" {
						if got.C.Kind() == constant.Bool {
							gs = fmt.Sprintf("%v", constant.BoolVal(got.C))
						} else {
							gs = "const:" + got.C.ExactString()
						}
					}
					if gs != wantV {
						ok, why = false, fmt.Sprintf("the %s is built with %s = %s, expected %s", w.typ, fname, gs, wantV)
					}
				}
			}
			if !found {
				ok, why = false, "no "+w.typ+" is registered"
			}
		}
		for ei, ev := range evs {
			if !matched[ei] {
				last := len(ev.Args) - 1
				ok, why = false, fmt.Sprintf("an unexpected constraint is registered (%v)", ev.ArgTypes[last])
			}
		}
		c.Check(ok, rule, name, p.Pos(fn.Pos()), "registers the forward constraint on this indexer and the matching delete-side constraint on the referenced store, each built from the right symbols and with the nullability / cascade the entry point stands for", why)
	}
	c.Floor(rule, 4)
}

func constantInt(k *ssa.Const) (int64, bool) {
	if k.Value == nil {
		return 0, false
	}
	return k.Int64(), true
}

func ruleFkExists(c *Ctx, rule string) {
	p := c.P
	// the accessor that hands out the back-reference bucket of a target: ErrBucket(NotFound) on the nil edge of
	// GetEntityBucket.  On the pinned tree that is fkIndex.getIndexBucket; where it has been merged with its
	// read-only sibling (and is expanded, with the constant deciding its branches, where it is called) the same
	// is read off the value the back-reference is written into.
	errBucket := p.Func("boltz", "ErrBucket")
	notFound := p.Func("boltz", "NewNotFoundError")
	var gbObj *types.Func
	if m := p.MethodOpt("boltz", "fkIndex", "getIndexBucket"); m != nil {
		gbObj = m
		gb := p.SSAFunc(m)
		c.Analysed(FnName(gb))
		fi := ComputeFacts(gb)
		okNil := false
		for _, r := range returnsOf(gb) {
			// the failure is handed back as an error-carrying bucket, or as an error result next to a nil bucket
			fails := false
			if call, ok := r.Results[0].(*ssa.Call); ok && isCallTo(call, errBucket) {
				fails = true
			}
			if ei := errorResultIndex(gb.Signature); ei >= 0 && ei < len(r.Results) {
				v := r.Results[ei]
				if mi, isMI := v.(*ssa.MakeInterface); isMI {
					v = mi.X
				}
				if call, ok := v.(*ssa.Call); ok && isCallTo(call, notFound) {
					fails = true
				}
			}
			if fails {
				if fi.HoldsWhere(r.Block(), func(f Fact) bool {
					k, isCall := f.V.(*ssa.Call)
					return f.Kind == "nonnil" && !f.Pol && isCall && invokeNamed(k, "GetEntityBucket")
				}) {
					okNil = true
				}
			}
		}
		c.Check(okNil, rule, FnName(gb), p.Pos(gb.Pos()), "a missing target entity yields an error bucket (not found)", "a back-reference bucket can be created for a target entity that does not exist")
	}
	// every SetListEntry in fkIndex goes through that accessor
	setEntry := tbMethod(c, "SetListEntry")
	for _, m := range []string{"ProcessAfterUpdate"} {
		fn := p.SSAFunc(p.Method("boltz", "fkIndex", m))
		fiF := factsOf(fn)
		// inline form: every value the bucket can be is an error bucket made where the target's entity bucket was
		// found missing, or a path created inside an entity bucket that was found present
		inlineOK := func(recv ssa.Value) bool {
			sawMissing := false
			for _, leaf := range phiLeaves(recv) {
				call, isCall := leaf.(*ssa.Call)
				if !isCall {
					return false
				}
				if isCallTo(call, errBucket) {
					if fiF.HoldsWhere(call.Block(), func(f Fact) bool {
						k, isK := f.V.(*ssa.Call)
						return f.Kind == "nonnil" && !f.Pol && isK && invokeNamed(k, "GetEntityBucket")
					}) {
						sawMissing = true
					}
					continue
				}
				cal, _ := calleeOf(call.Common())
				if cal == nil || (cal.Name() != "GetOrCreatePath" && cal.Name() != "GetOrCreateBucket") || len(call.Call.Args) == 0 {
					return false
				}
				src, isSrc := call.Call.Args[0].(*ssa.Call)
				if !isSrc || !invokeNamed(src, "GetEntityBucket") || !fiF.Holds(call.Block(), Fact{"nonnil", src, true}) {
					return false
				}
			}
			return sawMissing
		}
		ok, n := true, 0
		for _, call := range callsIn(fn) {
			if isCallTo(call, setEntry) {
				n++
				recv := call.Common().Args[0]
				if ex, isEx := recv.(*ssa.Extract); isEx && ex.Index == 0 {
					recv = ex.Tuple
				}
				src, isCall := recv.(*ssa.Call)
				if isCall && gbObj != nil && isCallTo(src, gbObj) {
					continue
				}
				if !inlineOK(recv) {
					ok = false
				}
			}
		}
		c.Check(ok && n > 0, rule, FnName(fn)+": writes through the checked accessor", p.Pos(fn.Pos()), "back-references are written only into buckets obtained from getIndexBucket (which verifies the target exists)", "a back-reference is written into a bucket not obtained through the existence-checking accessor")
	}
	// fkConstraint.ProcessAfterUpdate: non-empty value -> IsEntityPresent, false edge -> SetError(NotFound)
	fc := p.SSAFunc(p.Method("boltz", "fkConstraint", "ProcessAfterUpdate"))
	c.Analysed(FnName(fc))
	fi2 := ComputeFacts(fc)
	okPresent := errorRecordedWhere(fc, fi2, nil, func(f Fact) bool {
		k, isCall := f.V.(*ssa.Call)
		return f.Kind == "true" && !f.Pol && isCall && invokeNamed(k, "IsEntityPresent")
	})
	c.Check(okPresent, rule, FnName(fc), p.Pos(fc.Pos()), "a reference to an absent target records a not-found error", "a reference to a missing target is accepted")
	polC := findEmptyPolicy(c, "fkConstraint")
	okNull := errorRecordedWhere(fc, fi2, nil, polC.refuses)
	c.Check(okNull, rule, FnName(fc)+": null on non-nullable", p.Pos(fc.Pos()), "a null reference records an error when the constraint is not nullable", "a null reference is accepted by a non-nullable fk constraint")
}

func ruleFkDelete(c *Ctx, rule string) {
	p := c.P
	// restrict: fkDeleteConstraint.ProcessBeforeDelete
	fd := p.SSAFunc(p.Method("boltz", "fkDeleteConstraint", "ProcessBeforeDelete"))
	c.Analysed(FnName(fd))
	fi := ComputeFacts(fd)
	refErr := p.Func("boltz", "NewReferenceByIdError")
	isRefErr := func(v ssa.Value) bool {
		src, isCall := v.(*ssa.Call)
		return isCall && isCallTo(src, refErr)
	}
	ok := errorRecordedWhere(fd, fi, isRefErr, func(f Fact) bool {
		k, isCall := f.V.(*ssa.Call)
		return f.Kind == "true" && f.Pol && isCall && invokeNamed(k, "IsValid")
	})
	// the reference-exists errors that reach the holder (directly, or through a variable handed to SetError later)
	recorded := map[ssa.Value]bool{}
	for _, call := range callsIn(fd) {
		if invokeNamed(call, "SetError") && len(call.Common().Args) > 0 {
			for _, leaf := range phiLeaves(call.Common().Args[len(call.Common().Args)-1]) {
				if mi, isMI := leaf.(*ssa.MakeInterface); isMI {
					leaf = mi.X
				}
				if isRefErr(leaf) {
					recorded[leaf] = true
				}
			}
		}
	}
	c.Check(ok, rule, FnName(fd), p.Pos(fd.Pos()), "while a referrer exists the delete records a reference-exists error", "restrict-on-delete does not refuse when referrers exist")
	// ... on every path: once the back-reference cursor was found valid, no return without the refusal (nothing
	// may talk the constraint out of it afterwards — a "stale reference" filter, a second look at another store)
	if ok {
		isRefusal := func(in ssa.Instruction) bool {
			// the refusal is made here (and recorded here or, in single-exit form, at the end)
			if v, isV := in.(ssa.Value); isV && recorded[v] {
				return true
			}
			call, isCall := in.(ssa.CallInstruction)
			if !isCall || !invokeNamed(call, "SetError") {
				return false
			}
			src, isSrc := call.Common().Args[len(call.Common().Args)-1].(*ssa.Call)
			return isSrc && isCallTo(src, refErr)
		}
		escapes := ""
		for _, b := range fd.Blocks {
			iff, isIf := b.Instrs[len(b.Instrs)-1].(*ssa.If)
			if !isIf {
				continue
			}
			k, isCall := iff.Cond.(*ssa.Call)
			if !isCall || !invokeNamed(k, "IsValid") {
				continue
			}
			seen := map[*ssa.BasicBlock]bool{}
			var walk func(blk *ssa.BasicBlock) bool
			walk = func(blk *ssa.BasicBlock) bool {
				if seen[blk] {
					return false
				}
				seen[blk] = true
				for _, in := range blk.Instrs {
					if isRefusal(in) {
						return false
					}
					if r, isRet := in.(*ssa.Return); isRet {
						escapes = p.Pos(r.Pos())
						return true
					}
				}
				for _, s := range blk.Succs {
					if walk(s) {
						return true
					}
				}
				return false
			}
			if walk(b.Succs[0]) {
				break
			}
		}
		c.Check(escapes == "", rule, FnName(fd)+": refusal on every path", p.Pos(fd.Pos()), "once a referrer was found no path returns without recording the reference-exists error", "although the back-reference cursor was found valid, a return ("+escapes+") is reachable without the reference-exists error being recorded: a referenced entity can be deleted and its referrers keep the dangling id")
	}
	// cascade constraint: the hook and the handlers it dispatches to (per cascade type: in place, through a
	// constant dispatch table, or in helpers handed the constraint and the context)
	fc := p.SSAFunc(p.Method("boltz", "fkDeleteCascadeConstraint", "ProcessBeforeDelete"))
	scope := dispatchScope(fc)
	okNone := false
	for _, g := range scope {
		c.Analysed(FnName(g))
		gfi := ComputeFacts(g)
		for _, call := range callsIn(g) {
			if invokeNamed(call, "SetError") {
				if src, isCall := call.Common().Args[len(call.Common().Args)-1].(*ssa.Call); isCall && isCallTo(src, refErr) {
					if gfi.HoldsWhere(call.Block(), func(f Fact) bool {
						k, isCall := f.V.(*ssa.Call)
						return f.Kind == "true" && f.Pol && isCall && invokeNamed(k, "IsValid")
					}) {
						okNone = true
					}
				}
			}
		}
	}
	// the refusal looks at the cursor exactly as IterateValidIds positioned it: no Next/Seek in between
	if okNone {
		for _, g := range scope {
			gloops := loopsOf(g)
			for _, call := range callsIn(g) {
				if !(invokeNamed(call, "Next") || invokeNamed(call, "Seek")) || !call.Common().IsInvoke() {
					continue
				}
				if innermostLoop(gloops, call.Block()) != nil {
					continue // the cascade loop's own re-seek
				}
				okNone = false
			}
		}
	}
	c.Check(okNone, rule, FnName(fc)+": CascadeNone restricts", p.Pos(fc.Pos()), "with referrers present and cascade none, a reference-exists error is recorded (first referrer as found by the filter, no skipping)", "CascadeNone does not refuse the delete of a referenced entity for every referrer (the referrer cursor is moved before the test, or no error is recorded)")
	// cascade delete loop: DeleteById inside a loop driven by the live cursor's IsValid, re-seek after delete
	type delSite struct {
		fn   *ssa.Function
		call ssa.CallInstruction
	}
	var dels []delSite
	for _, g := range scope {
		for _, call := range callsIn(g) {
			if invokeNamed(call, "DeleteById") {
				dels = append(dels, delSite{g, call})
			}
		}
	}
	okLoop, why := len(dels) > 0, "no DeleteById of the referrers"
	// every loop that deletes referrers must satisfy the shape (a second, "optimised" cascade path included)
	for _, ds := range dels {
		if !okLoop {
			break
		}
		del := ds.call
		l := innermostLoop(loopsOf(ds.fn), del.Block())
		if l == nil {
			okLoop, why = false, "referrers are not deleted in a loop"
		} else {
			// header condition is cursor.IsValid() on the IterateValidIds cursor; the id passed comes from cursor.Current()
			hdrOK := false
			if iff, isIf := l.Header.Instrs[len(l.Header.Instrs)-1].(*ssa.If); isIf {
				if k, isCall := iff.Cond.(*ssa.Call); isCall && invokeNamed(k, "IsValid") {
					if src, isSrc := k.Call.Value.(*ssa.Call); isSrc && invokeNamed(src, "IterateValidIds") {
						hdrOK = true
					}
				}
			}
			idArg := del.Common().Args[len(del.Common().Args)-1]
			fromCurrent := false
			var walk func(v ssa.Value, d int)
			walk = func(v ssa.Value, d int) {
				if d > 4 {
					return
				}
				switch x := v.(type) {
				case *ssa.Call:
					if invokeNamed(x, "Current") {
						fromCurrent = true
					}
				case *ssa.Convert:
					walk(x.X, d+1)
				}
			}
			walk(idArg, 0)
			reseek := false
			for b := range l.Blocks {
				for _, in := range b.Instrs {
					if invokeNamed(in, "Seek") {
						reseek = true
					}
				}
			}
			// the loop ends only when the cursor is exhausted or a failure is known: any other way out leaves
			// referrers behind while the delete goes on to report success
			if hdrOK && fromCurrent {
				fi := factsOf(ds.fn)
				for b := range l.Blocks {
					for i, x := range b.Succs {
						if l.Blocks[x] {
							continue
						}
						if b == l.Header && i == 1 {
							continue // cursor.IsValid() answered false
						}
						known := false
						for f := range fi.edgeFacts(b, x) {
							switch {
							case f.Kind == "nonnil" && f.Pol && isErrorType(f.V.Type()):
								// ... a failure that is recorded or returned (not one merely looked at)
								if refs := f.V.Referrers(); refs != nil {
									for _, r := range *refs {
										switch u := r.(type) {
										case *ssa.Return:
											known = true
										case ssa.CallInstruction:
											if invokeNamed(u, "SetError") {
												known = true
											}
										case *ssa.Phi:
											if pr := u.Referrers(); pr != nil {
												for _, r2 := range *pr {
													if _, isRet := r2.(*ssa.Return); isRet {
														known = true
													}
												}
											}
										}
									}
								}
							case f.Kind == "true" && f.Pol:
								if k, isCall := f.V.(*ssa.Call); isCall && (invokeNamed(k, "SetError") || invokeNamed(k, "HasError")) {
									known = true
								}
							case f.Kind == "true" && !f.Pol:
								if k, isCall := f.V.(*ssa.Call); isCall && invokeNamed(k, "IsValid") {
									known = true
								}
							}
						}
						if !known && okLoop {
							okLoop, why = false, "the cascade loop can be left at "+p.Pos(lastPos(b))+" while the cursor still has referrers and no failure is known (a condition other than the cursor's validity ends it): the entity is deleted, the delete reports success, and the remaining referrers keep the deleted id"
						}
					}
				}
			}
			if !okLoop {
				// decided above
			} else if !hdrOK || !fromCurrent {
				okLoop, why = false, "the cascade deletes from a pre-collected list instead of the live cursor: an entity already removed by a nested cascade is deleted again (not-found aborts the whole delete)"
			} else if !reseek {
				okLoop, why = false, "the cursor is not re-sought after deleting the current row (bolt skips the next row)"
			}
		}
	}
	c.Check(okLoop, rule, FnName(fc)+": cascade loop", p.Pos(fc.Pos()), "referrers are deleted one by one from the live cursor, re-seeking after each delete", why)
	c.Floor(rule, 3)
}

// dispatchScope: fn together with the functions it hands its work to: entries of package-level constant
// dispatch tables it looks up and calls, and same-package functions it calls with its own parameters
// (two levels).
func dispatchScope(fn *ssa.Function) []*ssa.Function {
	seen := map[*ssa.Function]bool{fn: true}
	out := []*ssa.Function{fn}
	var visit func(f *ssa.Function, depth int)
	add := func(g *ssa.Function, depth int) {
		if g == nil || g.Blocks == nil || seen[g] {
			return
		}
		if g.Pkg != fn.Pkg {
			// a method-expression thunk has no package of its own
			if g.Pkg != nil || g.Object() == nil || g.Object().Pkg() != fn.Pkg.Pkg {
				return
			}
		}
		seen[g] = true
		out = append(out, g)
		visit(g, depth+1)
	}
	visit = func(f *ssa.Function, depth int) {
		if depth > 2 {
			return
		}
		for _, call := range callsIn(f) {
			cc := call.Common()
			if cc.IsInvoke() {
				// a strategy object: an unexported interface of this package, implemented by small types of
				// this package (picked by a selector function from the constraint's configuration)
				if nm, isNamed := types.Unalias(cc.Value.Type()).(*types.Named); isNamed && nm.Obj().Pkg() == fn.Pkg.Pkg && !nm.Obj().Exported() && curProg != nil {
					for _, t := range curProg.CallGraph().CalleesOf(cc) {
						if t.Pkg == fn.Pkg {
							add(t, depth)
						}
					}
				}
				continue
			}
			// a handler kept in a function-typed field of the constraint (chosen once, by its constructor)
			if cc.StaticCallee() == nil {
				if fld, _ := loadedField(cc.Value); fld != nil && !fld.Exported() {
					for _, t := range fieldFuncTargets(fld) {
						add(t, depth)
					}
				}
			}
			if sc := cc.StaticCallee(); sc != nil {
				// a helper handed this function's own parameters (the constraint, the context)
				own := false
				for _, a := range cc.Args {
					if _, isPrm := a.(*ssa.Parameter); isPrm {
						own = true
					}
				}
				if own && sc.Object() != nil && (!sc.Object().Exported() || f.Pkg == nil) {
					add(sc, depth)
				}
				continue
			}
			// a function taken from a constant table
			fv := cc.Value
			if ex, isEx := fv.(*ssa.Extract); isEx {
				fv = ex.Tuple
			}
			lk, isLk := fv.(*ssa.Lookup)
			if !isLk {
				continue
			}
			ld, isLd := lk.X.(*ssa.UnOp)
			if !isLd {
				continue
			}
			g, isG := ld.X.(*ssa.Global)
			if !isG {
				continue
			}
			entries, okT := constTable(g)
			if !okT {
				continue
			}
			for _, e := range entries {
				switch ev := e.val.(type) {
				case *ssa.Function:
					add(ev, depth)
				case *ssa.MakeClosure:
					if ef, isF := ev.Fn.(*ssa.Function); isF {
						add(ef, depth)
					}
				}
			}
		}
	}
	visit(fn, 0)
	return out
}

func blockAfterTrueEdge(in ssa.Instruction) *ssa.BasicBlock { return in.Block() }

// ---- C05 ------------------------------------------------------------------------------------------

// ruleLinkPair: local write followed by remote write of same polarity with swapped (id,key).
func ruleLinkPair(c *Ctx, rule string) {
	p := c.P
	// local write on this entity's field bucket -> the operation that must follow on the other side.
	// Sites are found by role: every call of one of these TypedBucket methods inside a method of the two
	// link collection types (their unexported helpers are expanded into the callers by the normalisation
	// pass), the integrity checker excepted (it repairs one side on purpose; C09 covers it).
	remoteOf := map[string]string{
		"SetListEntry": "AddLink", "CheckAndSetListEntry": "AddLink",
		"DeleteListEntry": "RemoveLink", "CheckAndDeleteListEntry": "RemoveLink",
		"SetLinkCount": "setLinkCount", "IncrementLinkCount": "incrementLinkCount", "DecrementLinkCount": "decrementLinkCount",
	}
	keyArg := func(call ssa.CallInstruction) ssa.Value {
		// (bucket, fieldType, key [, count])
		args := call.Common().Args
		for _, a := range args[1:] {
			if sl, ok := a.Type().Underlying().(*types.Slice); ok && types.Identical(sl.Elem(), types.Typ[types.Byte]) {
				return a
			}
		}
		return nil
	}
	n := 0
	for _, typ := range []string{"linkCollectionImpl", "rcLinkCollectionImpl"} {
		named := p.Named("boltz", typ)
		otherFld := p.Field("boltz", typ, "otherField")
		for _, fn := range c.prodFuncs("boltz") {
			root := fn
			for root.Parent() != nil {
				root = root.Parent()
			}
			if root.Signature.Recv() == nil || namedOf(root.Signature.Recv().Type()) != named || root.Name() == "CheckIntegrity" {
				continue
			}
			var fi *FactInfo
			loops := loopsOf(fn)
			for _, call := range callsIn(fn) {
				cal, _ := calleeOf(call.Common())
				if cal == nil {
					continue
				}
				rname, isLocal := remoteOf[cal.Name()]
				if !isLocal || cal != tbMethod(c, cal.Name()) {
					continue
				}
				// a write into a bucket reached through the OTHER field is the opposite side itself, written in
				// place (its helper expanded here)
				if len(call.Common().Args) > 0 && derivesFromField(call.Common().Args[0], otherFld, 0) {
					continue
				}
				n++
				name := FnName(fn)
				c.Analysed(name)
				if fi == nil {
					fi = factsOf(fn)
				}
				construct := name + ": " + cal.Name()
				key := keyArg(call)
				var remotes []ssa.CallInstruction
				for _, k := range callsIn(fn) {
					kc, _ := calleeOf(k.Common())
					if kc == nil || kc.Name() != rname || len(k.Common().Args) == 0 {
						continue
					}
					if f, _ := loadedField(k.Common().Args[0]); sameVar(f, otherFld) {
						remotes = append(remotes, k)
					}
				}
				if len(remotes) == 0 {
					c.Bad(rule, construct, p.Pos(call.Pos()), "the link is written on this side ("+cal.Name()+") but the opposite-side "+rname+" is never called here — the link would exist on one side only")
					continue
				}
				isRemote := func(in ssa.Instruction) bool {
					for _, r := range remotes {
						if in == ssa.Instruction(r) {
							return true
						}
					}
					return false
				}
				ok, why := true, ""
				// every possibly-successful continuation of the local write passes the remote write: a successful
				// return, or the next iteration of the loop the write sits in
				ri := reachWithoutFrom(fn, call, isRemote)
				ei := errorResultIndex(fn.Signature)
				for _, r := range returnsOf(fn) {
					reach := ri.entryReach[r.Block()] || (r.Block() == call.Block() && instrIndex(r) > instrIndex(call))
					if reach && (ei < 0 || ri.ReachesSuccess(r, ei)) {
						if ei >= 0 && isHolderErrReturn(fi, r, ei) {
							continue
						}
						ok, why = false, "a successful return at "+p.Pos(r.Pos())+" is reachable after the local write without the opposite-side "+rname
					}
				}
				if l := innermostLoop(loops, call.Block()); l != nil && ri.entryReach[l.Header] {
					ok, why = false, "the loop can go on to its next element after the local write without the opposite-side "+rname
				}
				// swapped arguments: what is the key on this side is the entity on the other side
				if key == nil {
					ok, why = false, "the local write has no key argument"
				}
				for _, r := range remotes {
					ra := r.Common().Args
					var ids []ssa.Value
					for _, a := range ra[1:] {
						if sl, isSl := a.Type().Underlying().(*types.Slice); isSl && types.Identical(sl.Elem(), types.Typ[types.Byte]) {
							ids = append(ids, a)
						}
					}
					if key != nil && (len(ids) < 2 || ids[0] != key || ids[1] == key) {
						ok, why = false, "the opposite-side call does not receive (associated id, own id) in swapped order: the remote entity is looked up by the wrong id"
					}
				}
				c.Check(ok, rule, construct, p.Pos(call.Pos()), "local write and opposite-side "+rname+" with swapped (id, key) on every successful continuation", why)
			}
		}
	}
	c.CallSites(n)
	c.Floor(rule, 7)
}

func isHolderErrReturn(fi *FactInfo, r *ssa.Return, ei int) bool {
	v := r.Results[ei]
	f, _ := loadedField(v)
	if f == nil || f.Name() != "Err" {
		return false
	}
	return fi.HoldsWhere(r.Block(), func(ft Fact) bool {
		ff, _ := loadedField(ft.V)
		return ft.Kind == "nonnil" && ft.Pol && ff != nil && ff.Name() == "Err"
	})
}

func ruleLinkMissing(c *Ctx, rule string) {
	p := c.P
	for _, w := range []struct{ typ, m string }{{"LinkedSetSymbol", "AddLink"}, {"RefCountedLinkedSetSymbol", "setLinkCount"}, {"RefCountedLinkedSetSymbol", "incrementLinkCount"}} {
		fn := p.SSAFunc(p.Method("boltz", w.typ, w.m))
		name := FnName(fn)
		c.Analysed(name)
		fi := ComputeFacts(fn)
		ei := errorResultIndex(fn.Signature)
		ok := false
		for _, r := range returnsOf(fn) {
			if fi.HoldsWhere(r.Block(), func(f Fact) bool {
				k, isCall := f.V.(*ssa.Call)
				return f.Kind == "nonnil" && !f.Pol && isCall && invokeNamed(k, "GetEntityBucket")
			}) {
				ok = classifyErr(fi, r.Block(), r.Results[ei], 0) == errNonNil
			}
		}
		if !ok {
			// the lookup and its refusal in a helper that answers (bucket, error), expanded here: the fact is gone at
			// the join behind the helper, the path is not — from the edge on which the entity bucket is nil no
			// successful return is reachable
			tested, escapes := false, false
			for _, b := range fn.Blocks {
				for _, x := range b.Succs {
					isNilEdge := false
					for f := range fi.edgeFacts(b, x) {
						if k, isCall := f.V.(*ssa.Call); f.Kind == "nonnil" && !f.Pol && isCall && invokeNamed(k, "GetEntityBucket") {
							isNilEdge = true
						}
					}
					if !isNilEdge {
						continue
					}
					tested = true
					ps := &pathSearch{fn: fn, fi: fi, start: x, startKnow: stepKnow(fi, b, x, knowMap{})}
					ps.atReturn = func(r *ssa.Return, k knowMap) bool { return !returnIsFailure(fi, r, ei, k) }
					if ps.run() {
						escapes = true
					}
				}
			}
			ok = tested && !escapes
		}
		c.Check(ok, rule, name, p.Pos(fn.Pos()), "linking to a missing entity returns an error", "linking to a missing entity is reported as success")
	}
	c.Floor(rule, 3)
}

func ruleRcCheck(c *Ctx, rule string) {
	p := c.P
	for _, m := range []string{"incrementLinkCount", "decrementLinkCount"} {
		fn := p.SSAFunc(p.Method("boltz", "rcLinkCollectionImpl", m))
		name := FnName(fn)
		c.Analysed(name)
		fi := ComputeFacts(fn)
		// every path to a successful return takes an edge that establishes "the two new counts are equal"
		equalEdge := func(from, to *ssa.BasicBlock) bool {
			for f := range fi.edgeFacts(from, to) {
				bo, isB := f.V.(*ssa.BinOp)
				if !isB || f.Kind != "true" {
					continue
				}
				_, xe := bo.X.(*ssa.Extract)
				_, ye := bo.Y.(*ssa.Extract)
				if xe && ye && ((bo.Op == token.EQL && f.Pol) || (bo.Op == token.NEQ && !f.Pol)) {
					return true
				}
			}
			return false
		}
		ok := noPathAvoidingSuccess(fn, fi, nil, equalEdge)
		c.Check(ok, rule, name, p.Pos(fn.Pos()), "the two sides' new counts are compared and a mismatch is an error", "a count mismatch between the two sides is not detected")
	}
	c.Floor(rule, 2)
}

// ruleLinkCleanup: cleanupLinks ranges both link kinds; EntityDeleted removes the remote entry of
// every link unconditionally.
func ruleLinkCleanup(c *Ctx, rule string) {
	p := c.P
	cl, _, _ := linkCleanupSite(c)
	c.Analysed(FnName(cl))
	for _, fld := range []string{"links", "refCountedLinks"} {
		f := p.Field("boltz", "BaseStore", fld)
		ok := false
		for _, call := range callsIn(cl) {
			if invokeNamed(call, "EntityDeleted") && call.Common().IsInvoke() && derivesFromField(call.Common().Value, f, 0) {
				ok = innermostLoop(loopsOf(cl), call.Block()) != nil
			}
		}
		if !ok {
			// the bound EntityDeleted of every element gathered into a local list, then called in one loop over it
			for _, g := range gatheredFrom(cl, f) {
				if g.method != "EntityDeleted" {
					continue
				}
				for _, call := range callsIn(cl) {
					cc := call.Common()
					if !cc.IsInvoke() && cc.StaticCallee() == nil && fromGathered(cc.Value, g, 0) && innermostLoop(loopsOf(cl), call.Block()) != nil {
						ok = true
					}
				}
			}
		}
		c.Check(ok, rule, FnName(cl)+": "+fld, p.Pos(cl.Pos()), "EntityDeleted is called for every collection in store."+fld, "store."+fld+" is not cleaned up when an entity is deleted")
	}
	cg := p.CallGraph()
	var delPrims []*types.Func
	delPrims = append(delPrims, p.ExtMethod(bboltPath, "Bucket", "Delete"))
	for _, typ := range []string{"linkCollectionImpl", "rcLinkCollectionImpl"} {
		fn := p.SSAFunc(p.Method("boltz", typ, "EntityDeleted"))
		name := FnName(fn)
		c.Analysed(name)
		otherFld := p.Field("boltz", typ, "otherField")
		var remote ssa.CallInstruction
		for _, call := range callsIn(fn) {
			if len(call.Common().Args) > 0 {
				if f, _ := loadedField(call.Common().Args[0]); sameVar(f, otherFld) {
					remote = call
				}
			}
		}
		if remote == nil {
			// written in place: the entry is deleted from a bucket reached through the other field
			var inline ssa.CallInstruction
			for _, call := range callsIn(fn) {
				cal, _ := calleeOf(call.Common())
				if cal != nil && cal == tbMethod(c, "DeleteListEntry") && len(call.Common().Args) > 0 && derivesFromField(call.Common().Args[0], otherFld, 0) {
					inline = call
				}
			}
			if inline != nil {
				l := innermostLoop(loopsOf(fn), inline.Block())
				okIn, whyIn := l != nil, "the remote removal is not applied to every link"
				if l != nil {
					// within one round of the loop the removal is only by-passed where something is missing
					fiF := factsOf(fn)
					ps := &pathSearch{fn: fn, fi: fiF, start: l.Header, stop: func(in ssa.Instruction) bool { return in == ssa.Instruction(inline) }}
					first := true
					ps.target = func(in ssa.Instruction) bool {
						if in.Block() == l.Header && in == l.Header.Instrs[0] {
							if first {
								first = false
								return false
							}
							return true
						}
						return false
					}
					ps.skipEdge = func(from, to *ssa.BasicBlock) bool {
						if !l.Blocks[to] {
							return true
						}
						for f := range fiF.edgeFacts(from, to) {
							if f.Kind == "nonnil" && !f.Pol && !isErrorType(f.V.Type()) {
								return true
							}
						}
						return false
					}
					if ps.run() {
						okIn, whyIn = false, "a round of the loop can go by without removing the opposite side's entry although nothing was found missing"
					}
				}
				c.Check(okIn, rule, name, p.Pos(inline.Pos()), "for every link the opposite side's entry is removed unconditionally", whyIn)
				continue
			}
			c.Bad(rule, name, p.Pos(fn.Pos()), "the remote side is not touched when an entity is deleted")
			continue
		}
		ok, why := innermostLoop(loopsOf(fn), remote.Block()) != nil, "the remote removal is not applied to every link"
		// the callee removes unconditionally (only bucket-missing nil edges may skip it)
		for _, t := range cg.CalleesOf(remote.Common()) {
			if !unconditionalDelete(c, cg, t, delPrims, 0) {
				ok, why = false, FnName(t)+" does not always remove the entry (it can return successfully with the entry still present, e.g. when a count stays positive)"
			}
		}
		c.Check(ok, rule, name, p.Pos(remote.Pos()), "for every link the opposite side's entry is removed unconditionally", why)
	}
	c.Floor(rule, 4)
}

// unconditionalDelete: every path of fn to a possibly-successful return passes a bolt delete (directly
// or in a callee with the same property), except paths through a nil edge (bucket/entity missing).
func unconditionalDelete(c *Ctx, cg *CG, fn *ssa.Function, prims []*types.Func, depth int) bool {
	if depth > 3 || fn == nil || fn.Blocks == nil {
		return false
	}
	fi := ComputeFacts(fn)
	isDel := func(in ssa.Instruction) bool {
		if isCallTo(in, prims...) {
			return true
		}
		if call, ok := in.(ssa.CallInstruction); ok {
			for _, t := range cg.CalleesOf(call.Common()) {
				if t != fn && unconditionalDelete(c, cg, t, prims, depth+1) {
					return true
				}
			}
		}
		return false
	}
	res := noPathAvoidingDbg(fn, isDel, func(from, to *ssa.BasicBlock) bool {
		for f := range fi.edgeFacts(from, to) {
			if f.Kind == "nonnil" && !f.Pol && !isErrorType(f.V.Type()) {
				return true // something (a bucket, an entity) is missing: nothing to remove — `err == nil` is not that
			}
			if f.Kind == "true" && f.Pol {
				if k, ok := f.V.(*ssa.Call); ok && invokeNamed(k, "HasError") {
					return true
				}
			}
			// the same test written on the holder's error cell itself (bucket.Err != nil)
			if f.Kind == "nonnil" && f.Pol {
				if ff, _ := loadedField(f.V); ff != nil && ff.Name() == "Err" && isErrorType(ff.Type()) {
					return true
				}
			}
		}
		return false
	})
	if os.Getenv("VERIF_DEBUG") != "" {
		fmt.Fprintf(os.Stderr, "unconditionalDelete(%s, depth %d) = %v\n", FnName(fn), depth, res)
	}
	return res
}

func noPathAvoidingDbg(fn *ssa.Function, avoid func(ssa.Instruction) bool, allowed func(from, to *ssa.BasicBlock) bool) bool {
	return noPathAvoiding(fn, avoid, allowed)
}

// ruleNoMutateWhileIterating: inside a loop that advances a bbolt cursor obtained from bucket X,
// no call may delete through X (bolt skips entries when the iterated bucket is modified).
func ruleNoMutateWhileIterating(c *Ctx, rule string, fns []*ssa.Function) {
	p := c.P
	cg := p.CallGraph()
	cursorNext := p.ExtMethod(bboltPath, "Cursor", "Next")
	cursorOf := p.ExtMethod(bboltPath, "Bucket", "Cursor")
	var dels []*types.Func
	// any write: an insert under an open cursor shifts the entries of a leaf that is already materialised in this
	// transaction, so the cursor returns the row it just matched once more
	for _, m := range []string{"Delete", "DeleteBucket", "Put", "CreateBucket", "CreateBucketIfNotExists"} {
		dels = append(dels, p.ExtMethod(bboltPath, "Bucket", m))
	}
	sumD := cg.Summarize(func(in ssa.Instruction) bool { return isCallTo(in, dels...) })
	n := 0
	for _, fn := range fns {
		if !strings.Contains(p.Pos(fn.Pos()), "link_collection") {
			continue
		}
		for _, l := range loopsOf(fn) {
			// the bucket whose cursor is advanced in this loop
			var bucket ssa.Value
			for b := range l.Blocks {
				for _, in := range b.Instrs {
					if call, ok := in.(*ssa.Call); ok && isCallTo(call, cursorNext) {
						if src, ok := call.Call.Args[0].(*ssa.Call); ok && isCallTo(src, cursorOf) {
							bucket = bucketRoot(src.Call.Args[0])
						}
					}
				}
			}
			if bucket == nil {
				continue
			}
			n++
			c.Analysed(FnName(fn))
			bad := ""
			for b := range l.Blocks {
				for _, in := range b.Instrs {
					call, ok := in.(ssa.CallInstruction)
					if !ok {
						continue
					}
					touches := false
					for _, a := range call.Common().Args {
						if bucketRoot(a) == bucket {
							touches = true
						}
					}
					if !touches {
						continue
					}
					may := isCallTo(in, dels...)
					if !may {
						may, _ = sumD.CallMay(call.Common())
					}
					if may {
						bad = describeInstr(call) + " at " + p.Pos(call.Pos())
					}
				}
			}
			c.Check(bad == "", rule, FnName(fn)+": loop over "+describeValue(bucket), p.Pos(fn.Pos()), "the bucket being iterated is not written to from inside the loop", "writes to the very bucket whose cursor drives the loop ("+bad+"): bolt then skips or repeats an entry, so a link survives or a requested one is treated as stale")
		}
	}
	c.Floor(rule, 3)
}

// bucketRoot strips the embedded *bbolt.Bucket load: (*fieldBucket).Bucket -> fieldBucket.
func bucketRoot(v ssa.Value) ssa.Value {
	for i := 0; i < 4; i++ {
		if f, base := loadedField(v); f != nil && f.Embedded() {
			v = base
			continue
		}
		break
	}
	return v
}

// ---- C06 ------------------------------------------------------------------------------------------

func ruleDeleteOrch(c *Ctx, rule string) {
	p := c.P
	fn := p.SSAFunc(p.Method("boltz", "BaseStore", "DeleteById"))
	name := FnName(fn)
	c.Analysed(name)
	fi := ComputeFacts(fn)
	parentFld := p.Field("boltz", "BaseStore", "parent")
	strat := p.Field("boltz", "BaseStore", "childStoreStrategies")
	implFld := p.Field("boltz", "BaseStore", "impl")
	delEntity := tbMethod(c, "DeleteEntity")
	// (1) child store delegates to the parent
	okDeleg := false
	for _, r := range returnsOf(fn) {
		if call, ok := r.Results[0].(*ssa.Call); ok && invokeNamed(call, "DeleteById") {
			if f, _ := loadedField(call.Call.Value); sameVar(f, parentFld) && fi.HoldsWhere(r.Block(), func(ft Fact) bool {
				ff, _ := loadedField(ft.V)
				return ft.Kind == "nonnil" && ft.Pol && sameVar(ff, parentFld)
			}) {
				okDeleg = true
			}
		}
	}
	whyDeleg := "a child store does not delegate deletes to the parent store (the parent part would survive)"
	if okDeleg {
		// ... on every path: a return the child store takes before handing the delete on (a presence test of its own,
		// say: an extended child store does not hold every entity it serves) leaves the entity undeleted
		isDeleg := func(in ssa.Instruction) bool {
			call, ok := in.(*ssa.Call)
			if !ok || !invokeNamed(call, "DeleteById") {
				return false
			}
			f, _ := loadedField(call.Call.Value)
			return sameVar(f, parentFld)
		}
		hasParent := func(f Fact) bool {
			ff, _ := loadedField(f.V)
			return f.Kind == "nonnil" && sameVar(ff, parentFld)
		}
		ps := &pathSearch{fn: fn, fi: fi, start: fn.Blocks[0], stop: isDeleg}
		ps.skipEdge = func(from, to *ssa.BasicBlock) bool {
			// not a child store: the rest of the function is the parent's own delete
			for f := range fi.edgeFacts(from, to) {
				if hasParent(f) && !f.Pol {
					return true
				}
			}
			return false
		}
		ps.atReturn = func(r *ssa.Return, k knowMap) bool {
			return fi.HoldsWhere(r.Block(), func(f Fact) bool { return hasParent(f) && f.Pol })
		}
		if ps.run() {
			okDeleg, whyDeleg = false, "a child store can return from DeleteById without handing the delete to its parent (a test of its own comes first): for an extended child store, whose entities need not have child data, the entity is reported missing and stays"
		}
	}
	c.Check(okDeleg, rule, name+": child delegates to parent", p.Pos(fn.Pos()), "a child store hands the delete to its parent, on every path", whyDeleg)
	// (2) own constraints, then entity removal, on every successful path of the parent
	var ownPDC, del ssa.CallInstruction
	var childPDC, handleDel ssa.CallInstruction
	for _, call := range callsIn(fn) {
		if invokeNamed(call, "processDeleteConstraints") && call.Common().IsInvoke() {
			if f, _ := loadedField(call.Common().Value); sameVar(f, implFld) {
				ownPDC = call
			} else {
				childPDC = call
			}
		}
		if isCallTo(call, delEntity) {
			del = call
		}
		if invokeNamed(call, "HandleDelete") && derivesFromField(call.Common().Value, strat, 0) {
			handleDel = call
		}
	}
	ok, why := ownPDC != nil && del != nil && childPDC != nil && handleDel != nil, "missing one of: child HandleDelete, child processDeleteConstraints, own processDeleteConstraints, DeleteEntity"
	if ok {
		ri := reachWithout(fn, func(in ssa.Instruction) bool { return in == ssa.Instruction(ownPDC) })
		if ri.Reaches(del) {
			ok, why = false, "the entity bucket can be removed without running the store's delete constraints"
		}
		// success returns (other than parent delegation / missing entities bucket) pass DeleteEntity
		ri2 := reachWithout(fn, func(in ssa.Instruction) bool { return in == ssa.Instruction(del) })
		for _, r := range returnsOf(fn) {
			if !ri2.ReachesSuccess(r, 0) {
				continue
			}
			if call, isCall := r.Results[0].(*ssa.Call); isCall && invokeNamed(call, "DeleteById") {
				continue
			}
			if fi.HoldsWhere(r.Block(), func(ft Fact) bool {
				return ft.Kind == "nonnil" && !ft.Pol && namedOf(ft.V.Type()) == p.Named("boltz", "TypedBucket")
			}) {
				continue // no entities bucket at all
			}
			ok, why = false, "a successful return at "+p.Pos(r.Pos())+" is reachable without removing the entity bucket"
		}
		// child fan-out inside a full loop over the strategies, before the own constraints
		l := innermostLoop(loopsOf(fn), childPDC.Block())
		if l == nil || !l.Blocks[handleDel.Block()] {
			ok, why = false, "child stores are not processed in a loop over all child strategies"
		} else {
			for b := range l.Blocks {
				for _, s := range b.Succs {
					if !l.Blocks[s] && b != l.Header && !edgeLeadsOnlyToFailure(fi, b, s, 0) {
						ok, why = false, "the child-store loop can be left early without an error"
					}
				}
			}
			riC := reachWithoutFrom(fn, ownPDC, func(ssa.Instruction) bool { return false })
			if riC.entryReach[childPDC.Block()] {
				ok, why = false, "child constraints run after the parent's"
			}
		}
	}
	c.Check(ok, rule, name+": fan-out, constraints, removal", p.Pos(fn.Pos()), "for every child strategy HandleDelete and the child's delete constraints run, then the store's own, then the entity bucket is removed, on every successful path", why)
	// (3) DeleteEntity removes the whole entity bucket
	de := p.SSAFunc(delEntity)
	okDB := false
	for _, call := range callsIn(de) {
		if isCallTo(call, p.ExtMethod(bboltPath, "Bucket", "DeleteBucket")) {
			okDB = true
		}
	}
	c.Check(okDB, rule, FnName(de), p.Pos(de.Pos()), "removes the entity's bucket (and with it all nested child-store data)", "DeleteEntity does not delete the entity bucket")
	c.Floor(rule, 3)
}

// ruleChildPaths: a child store's entity path omits the entity type (its data is nested below the
// parent's entity bucket) and GetEntityBucket of a child descends from the parent's entity bucket.
func ruleChildPaths(c *Ctx, rule string) {
	p := c.P
	nb := p.SSAFunc(p.Func("boltz", "NewBaseStore"))
	c.Analysed(FnName(nb))
	fi := ComputeFacts(nb)
	// the append of definition.EntityType to entityPath happens only when Parent == nil
	etype := p.Field("boltz", "StoreDefinition", "EntityType")
	parent := p.Field("boltz", "StoreDefinition", "Parent")
	ok, n := true, 0
	for _, b := range nb.Blocks {
		for _, in := range b.Instrs {
			call, isCall := in.(*ssa.Call)
			if !isCall {
				continue
			}
			if bi, isBi := call.Call.Value.(*ssa.Builtin); !isBi || bi.Name() != "append" {
				continue
			}
			uses := false
			if sl, isSl := call.Call.Args[1].(*ssa.Slice); isSl {
				if al, isAl := sl.X.(*ssa.Alloc); isAl {
					for _, r := range *al.Referrers() {
						if ia, isIA := r.(*ssa.IndexAddr); isIA {
							for _, r2 := range *ia.Referrers() {
								if st, isSt := r2.(*ssa.Store); isSt {
									if f, _ := loadedField(st.Val); sameVar(f, etype) {
										uses = true
									}
								}
							}
						}
					}
				}
			}
			if !uses {
				continue
			}
			n++
			if !fi.HoldsWhere(b, func(f Fact) bool {
				ff, _ := loadedField(f.V)
				return f.Kind == "nonnil" && !f.Pol && sameVar(ff, parent)
			}) {
				ok = false
			}
		}
	}
	c.Check(ok && n > 0, rule, FnName(nb), p.Pos(nb.Pos()), "only a top-level store appends its entity type to the entity path; child data is nested below the parent's entity bucket", "a child store gets its own top-level entity path: its data is no longer removed with the parent's entity bucket")
	geb := p.SSAFunc(p.Method("boltz", "BaseStore", "GetEntityBucket"))
	c.Analysed(FnName(geb))
	okG := false
	for _, call := range callsIn(geb) {
		if cal, _ := calleeOf(call.Common()); cal != nil && cal.Name() == "GetPath" {
			if src, isCall := call.Common().Args[0].(*ssa.Call); isCall {
				if k, _ := calleeOf(src.Common()); k != nil && k.Name() == "GetBucket" {
					okG = true
				}
			}
		}
	}
	c.Check(okG, rule, FnName(geb), p.Pos(geb.Pos()), "a child's entity bucket is a sub-path of the (parent's) entity bucket for that id", "a child's entity bucket is not nested below the parent's entity bucket")
}

// ruleUnchangedShortcut: "value unchanged, nothing to do" may only be taken on updates; on create
// there is no old value and the constraint's checks (null, existence, duplicate) must run.
func ruleUnchangedShortcut(c *Ctx, rule string, typeNames []string) {
	p := c.P
	isCreate := p.Field("boltz", "IndexingContext", "IsCreate")
	for _, tn := range typeNames {
		fn := p.SSAFunc(p.Method("boltz", tn, "ProcessAfterUpdate"))
		name := FnName(fn)
		c.Analysed(name)
		fi := ComputeFacts(fn)
		// stated on branch edges, so that it reads the same whether the shortcut is an early return or a flag
		// (needsCheck := ctx.IsCreate || !bytes.Equal(old, new)): wherever a branch is taken BECAUSE the value is
		// unchanged, it is also known that this is not a create
		ok, n := true, 0
		isEqual := func(f Fact) bool {
			k, isCall := f.V.(*ssa.Call)
			if f.Kind != "true" || !f.Pol || !isCall {
				return false
			}
			cal, _ := calleeOf(k.Common())
			return cal != nil && cal.Name() == "Equal" && cal.Pkg() != nil && cal.Pkg().Path() == "bytes"
		}
		notCreate := func(f Fact) bool {
			ff, _ := loadedField(f.V)
			return f.Kind == "true" && !f.Pol && sameVar(ff, isCreate)
		}
		for _, b := range fn.Blocks {
			for _, to := range b.Succs {
				eq, nc := false, fi.HoldsWhere(b, notCreate)
				for f := range fi.edgeFacts(b, to) {
					if isEqual(f) {
						eq = true
					}
					if notCreate(f) {
						nc = true
					}
				}
				if !eq {
					continue
				}
				n++
				if !nc {
					ok = false
				}
			}
		}
		c.Check(ok && n > 0, rule, name, p.Pos(fn.Pos()), "the unchanged-value shortcut is taken only when this is not a create", "the unchanged-value shortcut can be taken on create (old value is empty then): a null/empty value skips the not-null and existence checks")
	}
}

// rulePathFresh: index paths are built in a fresh slice; appending to the shared base path would
// alias the paths of different indexes whenever the base slice has spare capacity.
func rulePathFresh(c *Ctx, rule string) {
	p := c.P
	fn := p.SSAFunc(p.Method("boltz", "Indexer", "getIndexPath"))
	name := FnName(fn)
	c.Analysed(name)
	ok := true
	var root func(v ssa.Value, d int) bool
	root = func(v ssa.Value, d int) bool {
		if d > 8 {
			return false
		}
		switch x := v.(type) {
		case *ssa.Const:
			return x.IsNil()
		case *ssa.Call:
			if bi, isB := x.Call.Value.(*ssa.Builtin); isB && bi.Name() == "append" {
				return root(x.Call.Args[0], d+1)
			}
		case *ssa.Slice:
			_, fresh := x.X.(*ssa.Alloc)
			return fresh
		case *ssa.MakeSlice:
			return true
		case *ssa.Phi:
			for _, e := range x.Edges {
				if !root(e, d+1) {
					return false
				}
			}
			return true
		}
		return false
	}
	for _, r := range returnsOf(fn) {
		if !root(r.Results[0], 0) {
			ok = false
		}
	}
	c.Check(ok, rule, name, p.Pos(fn.Pos()), "the returned path is built by appending to a fresh (nil) slice", "the index path is built by appending to a shared slice (the indexer's base path): with spare capacity every index of the store gets the path of the last one registered")
}

// ruleCleanupPlacement: link cleanup runs inside processDeleteConstraints, i.e. once per store level
// (parent and every child store), so links declared on child stores are cleaned too.
func ruleCleanupPlacement(c *Ctx, rule string) {
	p := c.P
	pdc := p.SSAFunc(p.Method("boltz", "BaseStore", "processDeleteConstraints"))
	_, isCleanupStep, inlined := linkCleanupSite(c)
	ok := false
	for _, call := range callsIn(pdc) {
		if !inlined && isCleanupStep(call) && call.Common().Args[0] == ssa.Value(pdc.Params[0]) {
			ok = true
		}
	}
	if inlined {
		for _, b := range pdc.Blocks {
			if len(b.Instrs) > 0 && isCleanupStep(b.Instrs[0]) {
				ok = true
			}
		}
	}
	c.Check(ok, rule, FnName(pdc)+": cleans this store's links", p.Pos(pdc.Pos()), "every store level (parent and child) cleans its own link collections", "link cleanup is not part of the per-store-level delete processing: link collections declared on a child store are never cleaned")
}

// ruleKeyPresence: list/link entries are stored with a nil value, so presence must be tested on the
// key (cursor seek + equality), never through Bucket.Get (nil for an existing nil-valued row).
func ruleKeyPresence(c *Ctx, rule string) {
	p := c.P
	setEntry := p.SSAFunc(tbMethod(c, "SetListEntry"))
	put := p.ExtMethod(bboltPath, "Bucket", "Put")
	nilValued := false
	// (the entry may be written by a helper SetListEntry hands to)
	if what, _, _ := reachesStatic(setEntry, 3, func(call ssa.CallInstruction) string {
		if isCallTo(call, put) && isNilConst(call.Common().Args[2]) {
			return "put"
		}
		return ""
	}); what != "" {
		nilValued = true
	}
	fn := p.SSAFunc(tbMethod(c, "IsKeyPresent"))
	c.Analysed(FnName(fn))
	get := p.ExtMethod(bboltPath, "Bucket", "Get")
	seek := p.ExtMethod(bboltPath, "Cursor", "Seek")
	usesGet, usesSeek, usesEq := false, false, false
	for _, call := range callsIn(fn) {
		if isCallTo(call, get) {
			usesGet = true
		}
		if isCallTo(call, seek) {
			usesSeek = true
		}
		if cal, _ := calleeOf(call.Common()); cal != nil && cal.Name() == "Equal" && cal.Pkg() != nil && cal.Pkg().Path() == "bytes" {
			usesEq = true
		}
	}
	c.Check(!nilValued || (!usesGet && usesSeek && usesEq), rule, FnName(fn), p.Pos(fn.Pos()), "presence is decided by seeking the key and comparing it (entries carry nil values)", "entries are written with a nil value but presence is tested through the value (Bucket.Get): an existing entry looks absent, so CheckAndDelete/CheckAndSet act on one side only")
}

// pathPassesStore: block b lies at or after st within the same loop body (st's block dominates b).
func pathPassesStore(b *ssa.BasicBlock, st *ssa.Store) bool {
	return st.Block().Dominates(b)
}

// ruleRawIdFilter: the filter "<symbol> = <id>" that the cascade/restrict constraints build for the
// id being deleted compares with exactly that id: the string constant holds the parameter unchanged
// (an id is data, not a quoted literal: nothing may strip quotes or resolve escapes in it).
func ruleRawIdFilter(c *Ctx, rule string) {
	p := c.P
	fn := p.SSAFunc(p.Func("ast", "NewSymbolEqualsStringQuery"))
	name := FnName(fn)
	c.Analysed(name)
	valFld := p.Field("ast", "StringConstNode", "value")
	n, ok := 0, true
	why := ""
	var valueParam *ssa.Parameter
	for _, prm := range fn.Params {
		if b, isB := prm.Type().Underlying().(*types.Basic); isB && b.Kind() == types.String && prm.Name() != "symbol" {
			valueParam = prm
		}
	}
	for _, b := range fn.Blocks {
		for _, in := range b.Instrs {
			st, isSt := in.(*ssa.Store)
			if !isSt {
				continue
			}
			if f, _ := fieldOfAddr(st.Addr); !sameVar(f, valFld) {
				continue
			}
			n++
			if valueParam == nil || st.Val != ssa.Value(valueParam) {
				ok = false
				why = "the constant's value at " + p.Pos(st.Pos()) + " is not the id parameter itself (" + describeValue(st.Val) + "): ids containing quotes or backslashes would select the referrers of a different id"
			}
			// the constant belongs to THIS call's query: the cascade is re-entrant (deleting a referrer runs the
			// same constraint again), so a constant node shared between calls is overwritten while the outer
			// call is still iterating with it
			if fa, isFa := st.Addr.(*ssa.FieldAddr); !isFa || !isFreshAlloc(fa.X) {
				ok = false
				why = "the id is written at " + p.Pos(st.Pos()) + " into a constant node that was not allocated by this call (" + describeValue(st.Addr.(*ssa.FieldAddr).X) + "): the filter of an outer, still running cascade over the same symbol is changed under it"
			}
		}
	}
	// ... and the function keeps no state between calls: it neither writes a package-level variable nor hands
	// one to a callee (cache lookups/stores)
	for _, b := range fn.Blocks {
		for _, in := range b.Instrs {
			for _, op := range in.Operands(nil) {
				g, isG := (*op).(*ssa.Global)
				if !isG || g.Pkg == nil || !strings.HasPrefix(g.Pkg.Pkg.Path(), modPath) {
					continue
				}
				if ld, isLd := in.(*ssa.UnOp); isLd && ld.Op == token.MUL {
					continue // reading a table
				}
				ok = false
				why = "the function uses the package-level variable " + g.Name() + " at " + p.Pos(in.Pos()) + " other than by reading it: queries (or parts of them) kept between calls are shared with an outer, still running cascade"
			}
		}
	}
	if n == 0 {
		ok, why = false, "no string constant holding the id is built"
	}
	c.Check(ok, rule, name, p.Pos(fn.Pos()), "the comparison constant is the id parameter, unchanged", why)
}

// ruleRemoteWrites: the remote-side operations of the reference-counted links really write: every
// successful return of setLinkCount / incrementLinkCount has passed the bucket write, except where
// the count is zero / the entity bucket is missing (reported as an error by C05.MISSING).
func ruleRemoteWrites(c *Ctx, rule string) {
	p := c.P
	for _, w := range []struct{ m, prim string }{{"setLinkCount", "SetLinkCount"}, {"incrementLinkCount", "IncrementLinkCount"}} {
		fn := p.SSAFunc(p.Method("boltz", "RefCountedLinkedSetSymbol", w.m))
		name := FnName(fn)
		c.Analysed(name)
		fi := factsOf(fn)
		prim := tbMethod(c, w.prim)
		isWrite := func(in ssa.Instruction) bool { return isCallTo(in, prim) }
		ok := noPathAvoidingSuccess(fn, fi, isWrite, nil)
		c.Check(ok, rule, name, p.Pos(fn.Pos()), "every successful return has written the count on this (remote) side through TypedBucket."+w.prim, "a successful return is reachable without writing the count on this side (for instance when the link bucket does not exist yet): the two sides of the link then disagree")
	}
	c.Floor(rule, 2)
}

// linkCleanupSite: where the link collections of a store are cleaned when an entity is deleted — the
// helper cleanupLinks if it exists, else (inlined by a maintainer) processDeleteConstraints itself.
// isStep recognises "the cleanup happens here" inside processDeleteConstraints.
func linkCleanupSite(c *Ctx) (fn *ssa.Function, isStep func(ssa.Instruction) bool, inlined bool) {
	p := c.P
	if m := p.MethodOpt("boltz", "BaseStore", "cleanupLinks"); m != nil {
		return p.SSAFunc(m), func(in ssa.Instruction) bool { return isCallTo(in, m) }, false
	}
	pdc := p.SSAFunc(p.Method("boltz", "BaseStore", "processDeleteConstraints"))
	// the loops over the link collections may run zero times: "the cleanup happens here" = the loop is entered
	headers := map[*ssa.BasicBlock]bool{}
	loops := loopsOf(pdc)
	for _, call := range callsIn(pdc) {
		if call.Common().IsInvoke() && call.Common().Method.Name() == "EntityDeleted" {
			if l := innermostLoop(loops, call.Block()); l != nil {
				headers[l.Header] = true
			}
		}
	}
	return pdc, func(in ssa.Instruction) bool { return headers[in.Block()] }, true
}

// isFreshAlloc: v is the address of an object allocated in this function (new / &T{...}).
func isFreshAlloc(v ssa.Value) bool {
	switch x := v.(type) {
	case *ssa.Alloc:
		return true
	case *ssa.Phi:
		for _, e := range x.Edges {
			if !isFreshAlloc(e) {
				return false
			}
		}
		return len(x.Edges) > 0
	}
	return false
}

// ruleOwnPresence: "is this id an entity of THIS store" is answered from the store's own entity bucket
// (for a child store: the child data below the parent's entity bucket) and from nothing else.  The foreign
// key existence checks, the scanners' child filter and the integrity checks all rely on that meaning; an
// answer delegated to the parent store makes parent-only ids count as entities of the child store.
func ruleOwnPresence(c *Ctx, rule string) {
	p := c.P
	fn := p.SSAFunc(p.Method("boltz", "BaseStore", "IsEntityPresent"))
	name := FnName(fn)
	c.Analysed(name)
	geb := p.Method("boltz", "BaseStore", "GetEntityBucket")
	var own func(v ssa.Value, depth int) bool
	own = func(v ssa.Value, depth int) bool {
		if depth > 4 {
			return false
		}
		switch x := v.(type) {
		case *ssa.BinOp:
			if x.Op != token.EQL && x.Op != token.NEQ {
				return false
			}
			other := x.X
			if isNilConst(x.X) {
				other = x.Y
			} else if !isNilConst(x.Y) {
				return false
			}
			call, ok := other.(*ssa.Call)
			return ok && isCallTo(call, geb) && len(call.Call.Args) > 0 && call.Call.Args[0] == ssa.Value(fn.Params[0])
		case *ssa.UnOp:
			return x.Op == token.NOT && own(x.X, depth+1)
		case *ssa.Phi:
			for _, e := range x.Edges {
				if _, isConst := boolConst(e); isConst {
					continue
				}
				if !own(e, depth+1) {
					return false
				}
			}
			return true
		}
		return false
	}
	ok, why := true, ""
	for _, r := range returnsOf(fn) {
		if len(r.Results) != 1 || !own(r.Results[0], 0) {
			ok = false
			why = "the answer returned at " + p.Pos(r.Pos()) + " is " + describeValue(r.Results[0]) + ", not a nil test of this store's own GetEntityBucket(tx, id): ids that exist only in another (parent) store count as entities of this store, so foreign keys into it accept them and scans surface them"
		}
	}
	c.Check(ok, rule, name, p.Pos(fn.Pos()), "presence is the existence of this store's own entity bucket for the id", why)
	c.Floor(rule, 1)
}

// ruleTaggedOnce: a stored key is the type tag followed by the value — once.  Functions that prepend the
// tag to one of their parameters (PrependFieldType and everything that hands a parameter on to it) are never
// given a value that already carries the tag: the entry would be stored under a doubly tagged key that no
// reader (IsKeyPresent, cursors, the remote side of a link) ever looks for.
func ruleTaggedOnce(c *Ctx, rule string) {
	p := c.P
	prepend := p.Func("boltz", "PrependFieldType")
	type slot struct {
		fn  *types.Func
		idx int // index into the call's Args (receiver included for methods)
	}
	taggers := map[slot]bool{{prepend, 1}: true}
	fns := c.prodFuncs("boltz")
	paramIndex := func(fn *ssa.Function, v ssa.Value) int {
		for i, q := range fn.Params {
			if ssa.Value(q) == v {
				return i
			}
		}
		return -1
	}
	for changed := true; changed; {
		changed = false
		for _, fn := range fns {
			obj, _ := fn.Object().(*types.Func)
			if obj == nil {
				continue
			}
			for _, call := range callsIn(fn) {
				cal, _ := calleeOf(call.Common())
				if cal == nil || call.Common().IsInvoke() {
					continue
				}
				for i, a := range call.Common().Args {
					if !taggers[slot{cal, i}] {
						continue
					}
					if pi := paramIndex(fn, a); pi >= 0 && !taggers[slot{obj.Origin(), pi}] {
						taggers[slot{obj.Origin(), pi}] = true
						changed = true
					}
				}
			}
		}
	}
	var tagged func(v ssa.Value, depth int) bool
	tagged = func(v ssa.Value, depth int) bool {
		if depth > 5 || v == nil {
			return false
		}
		switch x := v.(type) {
		case *ssa.Call:
			return isCallTo(x, prepend)
		case *ssa.Phi:
			for _, e := range x.Edges {
				if tagged(e, depth+1) {
					return true
				}
			}
		case *ssa.ChangeType:
			return tagged(x.X, depth+1)
		case *ssa.Convert:
			return tagged(x.X, depth+1)
		}
		return false
	}
	n, bad := 0, 0
	for _, fn := range fns {
		for _, call := range callsIn(fn) {
			cal, _ := calleeOf(call.Common())
			if cal == nil || call.Common().IsInvoke() {
				continue
			}
			for i, a := range call.Common().Args {
				if !taggers[slot{cal, i}] {
					continue
				}
				n++
				if tagged(a, 0) {
					bad++
					c.Bad(rule, FnName(fn)+": "+describeInstr(call), p.Pos(call.Pos()), "the value handed to "+shortObj(cal)+" already carries the type tag ("+describeValue(a)+") and is tagged again there: the entry is written under a doubly tagged key, so this side of the link/list never finds it again while the other side was written normally")
				}
			}
		}
	}
	if bad == 0 {
		c.OK(rule, "boltz: tagging sites", "-", fmt.Sprintf("%d call sites hand a value to a function that prepends the type tag (%d such parameters); none of the values is already tagged", n, len(taggers)))
	}
	c.CallSites(n)
	c.Floor(rule, 1)
}

// delegatesConstraintStep: fn hands a function that does nothing but call the constraint method named like f
// on its first parameter with its second (a method expression, or a literal that says the same) to a function
// of its own package.  Returns that function, the index of the step parameter and the call.
func delegatesConstraintStep(fn *ssa.Function, f *types.Func) (*ssa.Function, int, ssa.CallInstruction) {
	isStep := func(v ssa.Value) bool {
		var sf *ssa.Function
		for {
			ct, isCT := v.(*ssa.ChangeType)
			if !isCT {
				break
			}
			v = ct.X
		}
		switch x := v.(type) {
		case *ssa.Function:
			sf = x
		case *ssa.MakeClosure:
			if len(x.Bindings) == 0 {
				sf, _ = x.Fn.(*ssa.Function)
			}
		}
		if sf == nil || sf.Blocks == nil || len(sf.Params) != 2 {
			return false
		}
		calls := callsIn(sf)
		if len(calls) != 1 {
			return false
		}
		cc := calls[0].Common()
		if _, isCall := calls[0].(*ssa.Call); !isCall {
			return false
		}
		return cc.IsInvoke() && cc.Method.Name() == f.Name() && cc.Value == ssa.Value(sf.Params[0]) && len(cc.Args) == 1 && cc.Args[0] == ssa.Value(sf.Params[1])
	}
	for _, call := range callsIn(fn) {
		sc := call.Common().StaticCallee()
		if sc == nil || sc.Blocks == nil || sc.Pkg != fn.Pkg || sc == fn {
			continue
		}
		if _, isCall := call.(*ssa.Call); !isCall {
			continue
		}
		for i, a := range call.Common().Args {
			if isStep(a) && i < len(sc.Params) {
				return sc, i, call
			}
		}
	}
	return nil, 0, nil
}

// emptyPolicy: how an index or constraint struct records whether it tolerates an empty (nil) value: the field,
// and which of its values make the update step refuse one.  On the pinned tree this is the bool `nullable`
// (false refuses); the same thing kept as a named constant is recognised by the test that guards the refusal.
type emptyPolicy struct {
	fld      *types.Var
	isBool   bool
	refusing map[string]bool // constant values (ExactString) that refuse, for the non-bool form
	refuses  func(f Fact) bool
}

func (ep *emptyPolicy) zero() AV {
	if ep.isBool {
		return avBool(false)
	}
	return avInt(0)
}

// valueRefuses: does this built-in value make the struct refuse an empty value?
func (ep *emptyPolicy) valueRefuses(a AV) (refuses, known bool) {
	if a.Kind != "const" {
		return false, false
	}
	if ep.isBool {
		if a.C.Kind() != constant.Bool {
			return false, false
		}
		return !constant.BoolVal(a.C), true
	}
	return ep.refusing[a.C.ExactString()], true
}

var emptyPolicyCache = map[string]*emptyPolicy{}

func findEmptyPolicy(c *Ctx, typ string) *emptyPolicy {
	if ep, ok := emptyPolicyCache[typ]; ok && ep != nil && c.P.Named("boltz", typ).Underlying() != nil {
		if st, isSt := c.P.Named("boltz", typ).Underlying().(*types.Struct); isSt {
			for i := 0; i < st.NumFields(); i++ {
				if st.Field(i) == ep.fld {
					return ep
				}
			}
		}
	}
	p := c.P
	nm := p.Named("boltz", typ)
	st, _ := nm.Underlying().(*types.Struct)
	ep := &emptyPolicy{refusing: map[string]bool{}}
	for i := 0; st != nil && i < st.NumFields(); i++ {
		if f := st.Field(i); f.Name() == "nullable" && types.Identical(f.Type(), types.Typ[types.Bool]) {
			ep.fld, ep.isBool = f, true
		}
	}
	if ep.fld != nil {
		ep.refuses = func(f Fact) bool {
			ff, _ := loadedField(f.V)
			return f.Kind == "true" && !f.Pol && sameVar(ff, ep.fld)
		}
		emptyPolicyCache[typ] = ep
		return ep
	}
	// by role: in the struct's update step, an error made on the spot is recorded under a test of one of the
	// struct's own unexported fields against a constant; that field is the policy, that constant refuses
	cmpOf := func(f Fact) (*types.Var, string, bool) {
		bo, isB := f.V.(*ssa.BinOp)
		if f.Kind != "true" || !isB || (bo.Op != token.EQL && bo.Op != token.NEQ) {
			return nil, "", false
		}
		x, y := bo.X, bo.Y
		if _, isK := x.(*ssa.Const); isK {
			x, y = y, x
		}
		k, isK := y.(*ssa.Const)
		ff, _ := loadedField(x)
		if !isK || k.Value == nil || ff == nil || ff.Exported() {
			return nil, "", false
		}
		owner := false
		for i := 0; st != nil && i < st.NumFields(); i++ {
			if sameVar(st.Field(i), ff) {
				owner = true
			}
		}
		if !owner {
			return nil, "", false
		}
		return ff, k.Value.ExactString(), (bo.Op == token.EQL) == f.Pol
	}
	m := p.MethodOpt("boltz", typ, "ProcessAfterUpdate")
	if m != nil {
		fn := p.SSAFunc(m)
		fi := factsOf(fn)
		for _, call := range callsIn(fn) {
			if !invokeNamed(call, "SetError") || len(call.Common().Args) == 0 {
				continue
			}
			arg := call.Common().Args[len(call.Common().Args)-1]
			if k, isCall := arg.(*ssa.Call); !isCall || func() bool { cal, _ := calleeOf(k.Common()); return cal == nil || !isErrorCtor(cal) }() {
				continue
			}
			for f := range fi.At(call.Block()) {
				if ff, kv, equal := cmpOf(f); ff != nil && equal {
					ep.fld = ff
					ep.refusing[kv] = true
				}
			}
		}
	}
	if ep.fld == nil {
		panic(anchorLost{"boltz." + typ + ".nullable (field)"})
	}
	p.RenamedAnchors = append(p.RenamedAnchors, "boltz."+typ+".nullable -> "+ep.fld.Name()+" (the field tested where an empty value is refused)")
	ep.refuses = func(f Fact) bool {
		ff, kv, equal := cmpOf(f)
		return ff != nil && sameVar(ff, ep.fld) && equal && ep.refusing[kv]
	}
	emptyPolicyCache[typ] = ep
	return ep
}

// errorRecordedWhere: an error made where `where` holds reaches the error holder: a SetError call that stands
// there, or one further on that is handed the variable the error was assigned to there (the single-exit form:
// `violation = NewNotFoundError(…)` in the branch, `if violation != nil { holder.SetError(violation) }` at the end).
// isErr restricts the error values that count (nil: any value that is not the nil constant).
func errorRecordedWhere(fn *ssa.Function, fi *FactInfo, isErr func(ssa.Value) bool, where func(Fact) bool) bool {
	strip := func(v ssa.Value) ssa.Value {
		if mi, isMI := v.(*ssa.MakeInterface); isMI {
			return mi.X
		}
		return v
	}
	for _, call := range callsIn(fn) {
		if !invokeNamed(call, "SetError") || len(call.Common().Args) == 0 {
			continue
		}
		arg := call.Common().Args[len(call.Common().Args)-1]
		for _, leaf := range phiLeaves(arg) {
			if isNilConst(leaf) {
				continue
			}
			if isErr != nil && !isErr(strip(leaf)) && !isErr(leaf) {
				continue
			}
			at := call.Block()
			if leaf != arg {
				// assigned elsewhere: what holds where the value was made
				li, isInstr := leaf.(ssa.Instruction)
				if !isInstr || li.Block() == nil {
					continue
				}
				at = li.Block()
			}
			if fi.HoldsWhere(at, where) {
				return true
			}
		}
	}
	return false
}
