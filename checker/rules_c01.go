package main

import (
	"fmt"
	"go/constant"
	"go/token"
	"go/types"
	"os"
	"path/filepath"
	"regexp"
	"sort"
	"strings"

	"golang.org/x/tools/go/ssa"
)

func init() {
	register(&Property{
		ID:          "C01",
		Title:       "Filter evaluation returns exactly the entities satisfying the predicate",
		Technique:   "static analysis: complete decision tables of the typed comparison/between/null evaluators by abstract interpretation over (nil?, ordering, operator); decision table of the seek-shortcut admission; operator-token/spelling tables compared with the grammar; never-written-operand rule for typed nodes; cursor re-position rule for per-row set symbols; width/sign rule for every fixed-width decode; one-element-per-hop rule for dotted set symbols; id tie-break never cut off; no ==/!= on time.Time; negation stays above a hoisted set function",
		LevelText:   "Taken whole the property is about results on all datasets × filters and is not statically decidable here. Decided, for all values because values are only touched through comparisons: the full decision table of every Binary*ExprNode / *BetweenExprNode / IsNilExprNode evaluator against the documented semantics (null makes comparisons false except != and the negated contains forms; between is [lower, upper)); that the anyOf seek shortcut is admitted only for `=` (the only operator for which looking at the first element >= v decides the answer) and falls back to a scan when the cursor cannot seek; that every operator token and every spelling the grammar can produce has an operator; that icontains upper-cases both operands; that no typed node has an operand nobody ever sets; that a per-row set cursor is re-positioned whenever it is re-opened. Not decided: that cursors enumerate the right sets (partly C14), dotted-symbol resolution, sub-query scanning, numeric formatting. Added after the seeded rounds: every fixed-width decode runs only under a tag of that width and keeps the sign; a single-valued hop of a dotted set symbol always yields one (possibly null) element; the comparator of the sorted scan always ends with the id tie-break (no truncation after it is appended); datetimes are never compared with ==; what is handed to SetFunctionNode.MoveUpTree is never a NotExprNode. Added later: the per-row symbol cache of the row cursor is emptied by NextRow on every path (ROWCACHE). Added in rounds 8-9: the in-memory store's IsNil never answers from the interface-level nil comparison (NULL, cross-listed); every set predicate walks a cursor made for it (FRESHCURSOR). Added in round 10: a node that is itself a float64 node converts to float64 as itself (TOFLOAT); no BaseStore method hands out a cursor straight over the entities bucket (RAWROWS). Added in round 11: allOf never evaluates through the seek shortcut (SEEKANYOF); a dotted symbol's chain walk ends early only on a nil value (CHAINLEAF). Added in round 12: the key sought in a Seek method is made from that call's argument (SEEKARG). Added in round 13: the rows a child store scans are filtered for child data before the filter runs (SCANFILTER, as in C15); the `in` evaluators decide membership element by element, with no substring or join primitive (INEXACT).",
		LevelNote:   "Trusted: go/types, x/tools SSA, the DECIDE interpreter (rejects what it cannot evaluate), strings.Contains/ToUpper, time.Time comparisons.",
		DesignRef:   "DESIGN.md C01",
		Explanation: "Sites: 5 Binary*ExprNode.EvalBool, 3 *BetweenExprNode.EvalBool, IsNilExprNode.EvalBool, BinaryStringExprNode.IsSeekable/EvalBoolWithSeek, AnyOfSetExprNode.EvalBool, ToBoltListener.VisitTerminal, BinaryExprNode.handleCaseInsensitive, all ast.Node struct fields, entitySetSymbolRuntime.",
		Trusted:     []string{"go/types", "golang.org/x/tools/go/ssa v0.29.0", "strings, time"},
		Rules:       rulesC01,
	})
}

func rulesC01(c *Ctx) {
	ruleC01Tables(c)
	ruleC01Seek(c)
	ruleC01Ops(c)
	// the answer is the same whichever ast.Symbols implementation evaluates the filter: the in-memory store reports a
	// null field as null
	ruleC19Null(c)
	// every set predicate walks a cursor of its own
	ruleFreshSetCursor(c, "C01.FRESHCURSOR", "boltz", "objectz")
	ruleToFloatIdentity(c, "C01.TOFLOAT")
	ruleSeekOnlyAnyOf(c, "C01.SEEKANYOF")
	ruleChainLeaf(c, "C01.CHAINLEAF")
	ruleSeekFromArgument(c, "C01.SEEKARG")
	c.As("C15.SCANFILTER", "C01.SCANFILTER", func() { ruleC15ScanFilter(c) })
	ruleInArrayExact(c, "C01.INEXACT")
	ruleRawEntitiesCursor(c, "C01.RAWROWS")
	ruleNeverWritten(c, "C01.FIELDS", astNodeTypes(c))
	cts := c.cursorTypes()
	isCT := map[*types.Named]bool{}
	for _, ct := range cts {
		isCT[ct.named] = true
	}
	ruleC14Reposition(c, cts, isCT)
	// coercions decode the stored bytes: a fixed-width decode may run only under a tag of that width
	ruleDecodeWidth(c, "C01.DECODE")
	ruleC01NullElem(c)
	// the sorted scan keeps matching rows in a tree keyed by the row comparator: without the id
	// tie-break rows that compare equal replace each other and matching entities are lost
	ruleIdTieBreak(c, "C01.TIEBREAK", c.P.SSAFunc(c.P.Method("boltz", "BaseStore", "newRowComparator")))
	ruleC01TimeEquality(c)
	ruleC01NotOutermost(c)
	ruleC01Literal(c)
	ruleC01Coerce(c)
	ruleFreshRowCache(c, "C01.ROWCACHE")
	ruleEvalPure(c, "C01.PURE", "ast", "boltz", "objectz")
	ruleMapElementPath(c, "C01.MAPPATH")
}

// ruleC01Coerce: a number compared as a string has ONE textual form, whether it comes from a stored field,
// a literal or a count: every EvalString in package ast renders a float with strconv.FormatFloat(x, 'f',
// -1, 64) and an integer with base-10 strconv.FormatInt — never with the display form (String(), fmt %v:
// exponent notation from 1e21 / below 1e-4 on floats), otherwise a literal and the stored value it equals
// stop matching.
func ruleC01Coerce(c *Ctx) {
	p := c.P
	fmtFloat := p.ExtFunc("strconv", "FormatFloat")
	fmtInt := p.ExtFunc("strconv", "FormatInt")
	n := 0
	for _, fn := range c.prodFuncs("ast") {
		root := fn
		for root.Parent() != nil {
			root = root.Parent()
		}
		if root.Name() != "EvalString" || root.Signature.Recv() == nil {
			continue
		}
		name := FnName(fn)
		for _, call := range callsIn(fn) {
			cc := call.Common()
			cal, _ := calleeOf(cc)
			switch {
			case cal != nil && cal == fmtFloat:
				n++
				args := cc.Args
				ok := len(args) == 4
				if ok {
					f, okF := constantInt(asConst(args[1]))
					pr, okP := constantInt(asConst(args[2]))
					bs, okB := constantInt(asConst(args[3]))
					ok = okF && okP && okB && f == 'f' && pr == -1 && bs == 64
				}
				c.Check(ok, "C01.COERCE", name+": float as string", p.Pos(call.Pos()), "rendered with FormatFloat(x, 'f', -1, 64)", "a float is rendered for string comparison in a form other than FormatFloat(x, 'f', -1, 64): the same number has a different text on the two sides of a comparison")
			case cal != nil && cal == fmtInt:
				n++
				ok := len(cc.Args) == 2
				if ok {
					b, okB := constantInt(asConst(cc.Args[1]))
					ok = okB && b == 10
				}
				c.Check(ok, "C01.COERCE", name+": integer as string", p.Pos(call.Pos()), "rendered in base 10", "an integer is rendered for string comparison in a base other than 10")
			case cal != nil && cal.Pkg() != nil && cal.Pkg().Path() == "fmt" && strings.HasPrefix(cal.Name(), "Sprint"):
				n++
				c.Bad("C01.COERCE", name+": "+cal.Name(), p.Pos(call.Pos()), "EvalString builds its result with fmt."+cal.Name()+" (the display form: %v switches floats to exponent notation): a literal and the stored number it equals render differently and stop matching")
			case (cc.IsInvoke() && cc.Method.Name() == "String") || (cal != nil && cal.Name() == "String" && cal.Type().(*types.Signature).Recv() != nil && cal.Pkg() != nil && strings.HasPrefix(cal.Pkg().Path(), modPath)):
				n++
				c.Bad("C01.COERCE", name+": String()", p.Pos(call.Pos()), "EvalString takes its result from a node's String() (the display form, e.g. %v for floats) instead of the value: a literal and the stored number it equals render differently and stop matching")
			}
		}
	}
	c.CallSites(n)
	c.Floor("C01.COERCE", 4)
}

func asConst(v ssa.Value) *ssa.Const {
	if k, ok := v.(*ssa.Const); ok {
		return k
	}
	if cv, ok := v.(*ssa.Convert); ok {
		if k, ok := cv.X.(*ssa.Const); ok {
			return k
		}
	}
	return &ssa.Const{}
}

// ruleC01Literal: the type of a number constant is decided by how the literal is written: the parse
// listener builds an Int64ConstNode only from what strconv.ParseInt accepted (or a fixed marker constant)
// and a Float64ConstNode only from what strconv.ParseFloat returned.  The comparison type for untyped
// (map) symbols is taken from the constant, so a float literal turned into an integer constant loses the
// int-to-float coercion.
func ruleC01Literal(c *Ctx) {
	p := c.P
	lst := p.Named("ast", "ToBoltListener")
	want := map[*types.Var]*types.Func{
		p.Field("ast", "Int64ConstNode", "value"):   p.ExtFunc("strconv", "ParseInt"),
		p.Field("ast", "Float64ConstNode", "value"): p.ExtFunc("strconv", "ParseFloat"),
	}
	n := 0
	_ = lst
	for _, fn := range listenerFuncs(c) {
		for _, b := range fn.Blocks {
			for _, in := range b.Instrs {
				st, ok := in.(*ssa.Store)
				if !ok {
					continue
				}
				f, _ := fieldOfAddr(st.Addr)
				var src *types.Func
				found := false
				for fv, pf := range want {
					if sameVar(f, fv) {
						src, found = pf, true
					}
				}
				if !found {
					continue
				}
				n++
				key := FnName(fn) + ": " + f.Name() + " of " + namedOf(derefType(st.Addr.(*ssa.FieldAddr).X.Type())).Obj().Name()
				okv := false
				why := ""
				switch v := st.Val.(type) {
				case *ssa.Const:
					okv, why = true, "a fixed marker constant"
				case *ssa.Extract:
					if call, isCall := v.Tuple.(*ssa.Call); isCall && v.Index == 0 && isCallTo(call, src) {
						okv, why = true, "result #0 of "+shortObj(src)
					}
				}
				if okv {
					c.OK("C01.LITERAL", key, p.Pos(st.Pos()), "the constant's value is "+why+": the literal's written form decides the constant's type")
				} else {
					c.Bad("C01.LITERAL", key, p.Pos(st.Pos()), "the parse listener builds this constant from "+describeValue(st.Val)+" instead of the result of "+shortObj(src)+": a literal is given a type its written form does not have, and comparisons against untyped (map) symbols dispatch on the constant's type")
				}
			}
		}
	}
	c.CallSites(n)
	c.Floor("C01.LITERAL", 3)
}

// ruleC01TimeEquality: instants are compared with time.Time.Equal/Before/After, never with == or !=
// (which also compare the location pointer and the monotonic reading).
func ruleC01TimeEquality(c *Ctx) {
	p := c.P
	timeT := p.ExtNamed("time", "Time")
	n, bad := 0, 0
	for _, fn := range c.prodFuncs("ast", "boltz", "objectz") {
		for _, b := range fn.Blocks {
			for _, in := range b.Instrs {
				bo, ok := in.(*ssa.BinOp)
				if !ok || (bo.Op != token.EQL && bo.Op != token.NEQ) {
					continue
				}
				if namedOf(bo.X.Type()) != timeT {
					continue
				}
				if _, isPtr := bo.X.Type().(*types.Pointer); isPtr {
					continue // pointer identity / nil tests
				}
				n++
				bad++
				c.Bad("C01.TIMEEQ", FnName(fn)+": "+bo.Op.String()+" on time.Time", p.Pos(bo.Pos()), "two time.Time values are compared with "+bo.Op.String()+": equal instants with different locations (a constant written with an offset against a stored UTC value) compare unequal; use Equal")
			}
		}
		// uses of Equal count as sites
		for _, call := range callsIn(fn) {
			if cal, _ := calleeOf(call.Common()); cal != nil && cal.Name() == "Equal" && cal.Pkg() != nil && cal.Pkg().Path() == "time" {
				n++
			}
		}
	}
	if bad == 0 {
		c.OK("C01.TIMEEQ", "ast, boltz, objectz: datetime equality", "-", fmt.Sprintf("no ==/!= on time.Time values; %d comparisons go through time.Time.Equal", n))
	}
	c.Floor("C01.TIMEEQ", 1)
}

// ruleC01NotOutermost: when a comparison over a set function is typed, the set function is hoisted
// on top of the typed comparison (MoveUpTree); a negation belongs on top of the set function, so what
// is handed to MoveUpTree is never a NotExprNode.
func ruleC01NotOutermost(c *Ctx) {
	p := c.P
	mut := p.Method("ast", "SetFunctionNode", "MoveUpTree")
	notT := p.Named("ast", "NotExprNode")
	n := 0
	var hasNot func(v ssa.Value, depth int) bool
	hasNot = func(v ssa.Value, depth int) bool {
		if depth > 6 || v == nil {
			return false
		}
		switch x := v.(type) {
		case *ssa.MakeInterface:
			return namedOf(x.X.Type()) == notT
		case *ssa.ChangeInterface:
			return hasNot(x.X, depth+1)
		case *ssa.Phi:
			for _, e := range x.Edges {
				if hasNot(e, depth+1) {
					return true
				}
			}
		case *ssa.UnOp:
			if al, ok := x.X.(*ssa.Alloc); ok {
				for _, r := range *al.Referrers() {
					if st, ok := r.(*ssa.Store); ok && st.Addr == ssa.Value(al) && hasNot(st.Val, depth+1) {
						return true
					}
				}
			}
		}
		return false
	}
	ff := p.FuncFlow()
	for _, fn := range c.prodFuncs("ast") {
		for _, call := range callsIn(fn) {
			var arg ssa.Value
			if isCallTo(call, mut) {
				arg = call.Common().Args[1]
			} else if call.Common().StaticCallee() == nil && !call.Common().IsInvoke() {
				// through a function value that may be the bound method (setFunction.MoveUpTree handed around)
				for _, t := range ff.Resolve(call.Common().Value, 0) {
					if methodOf(t) == mut && strings.HasSuffix(t.Name(), "$bound") && len(call.Common().Args) == 1 {
						arg = call.Common().Args[0]
					}
				}
			}
			if arg == nil {
				continue
			}
			// the hoist in a helper that is handed the typed comparison: what its callers hand it
			if prm, isPrm := arg.(*ssa.Parameter); isPrm && prm.Parent() == fn {
				idx := -1
				for i, q := range fn.Params {
					if q == prm {
						idx = i
					}
				}
				for _, caller := range c.prodFuncs("ast") {
					for _, cs := range callsIn(caller) {
						if cs.Common().StaticCallee() != fn || idx < 0 || idx >= len(cs.Common().Args) {
							continue
						}
						n++
						c.Analysed(FnName(caller))
						c.Check(!hasNot(cs.Common().Args[idx], 0), "C01.NOTOUTER", FnName(caller)+": MoveUpTree argument (through "+fn.Name()+")", p.Pos(cs.Pos()), "the set function is hoisted over the plain typed comparison; a negation stays above the set function", "a negated comparison is handed to MoveUpTree: the NOT ends up inside the set function (anyOf(s) not in [...] would mean 'some element is not in the list')")
					}
				}
			}
			n++
			c.Analysed(FnName(fn))
			c.Check(!hasNot(arg, 0), "C01.NOTOUTER", FnName(fn)+": MoveUpTree argument", p.Pos(call.Pos()), "the set function is hoisted over the plain typed comparison; a negation stays above the set function", "a negated comparison is handed to MoveUpTree: the NOT ends up inside the set function (anyOf(s) not in [...] would mean 'some element is not in the list')")
		}
	}
	c.Floor("C01.NOTOUTER", 2)
}

// opConsts returns the BinaryOp constants by name.
func opConsts(c *Ctx) map[string]int64 {
	out := map[string]int64{}
	for _, n := range []string{"EQ", "NEQ", "LT", "LTE", "GT", "GTE", "In", "NotIn", "Between", "NotBetween", "Contains", "NotContains", "IContains", "NotIContains"} {
		out[n] = constInt(c.P.Obj("ast", "BinaryOp"+n))
	}
	return out
}

// evalCallOnField: v = <recv>.<field>.<method>(...) (interface call on a field of the receiver)
func evalCallOnField(v ssa.Value, fn *ssa.Function, field string) bool {
	call, ok := v.(*ssa.Call)
	if !ok || !call.Call.IsInvoke() {
		return false
	}
	f, base := loadedField(call.Call.Value)
	return f != nil && f.Name() == field && base == ssa.Value(fn.Params[0])
}

func ruleC01Tables(c *Ctx) {
	p := c.P
	ops := opConsts(c)
	ordered := []string{"EQ", "NEQ", "LT", "LTE", "GT", "GTE"}
	wantOrdered := func(op string, o int) bool {
		switch op {
		case "EQ":
			return o == 0
		case "NEQ":
			return o != 0
		case "LT":
			return o < 0
		case "LTE":
			return o <= 0
		case "GT":
			return o > 0
		case "GTE":
			return o >= 0
		}
		return false
	}
	for _, tn := range []string{"BinaryDatetimeExprNode", "BinaryFloat64ExprNode", "BinaryInt64ExprNode", "BinaryStringExprNode"} {
		fn := p.SSAFunc(p.Method("ast", tn, "EvalBool"))
		name := FnName(fn)
		c.Analysed(name)
		opFld := p.Field("ast", tn, "op")
		opList := append([]string{}, ordered...)
		if tn == "BinaryStringExprNode" {
			opList = append(opList, "Contains", "NotContains")
		}
		rows, bad := 0, 0
		for _, op := range opList {
			for _, n1 := range []bool{true, false} {
				for _, n2 := range []bool{true, false} {
					ords := []int{-1, 0, 1}
					if n1 || n2 {
						ords = []int{0}
					}
					for _, o := range ords {
						for _, contains := range []bool{true, false} {
							if !(op == "Contains" || op == "NotContains") && contains {
								continue
							}
							if (op == "Contains" || op == "NotContains") && o != 0 {
								continue
							}
							rows++
							res, err := Decide(fn, binaryOracle(fn, opFld, ops[op], n1, n2, o, contains), nil)
							var want bool
							switch {
							case n1 || n2:
								switch op {
								case "NEQ":
									want = n1 != n2
								case "NotContains":
									want = true
								default:
									want = false
								}
							case op == "Contains":
								want = contains
							case op == "NotContains":
								want = !contains
							default:
								want = wantOrdered(op, o)
							}
							desc := fmt.Sprintf("op=%s leftNil=%v rightNil=%v ord=%d contains=%v", op, n1, n2, o, contains)
							if err != "" {
								bad++
								c.Undecided("C01.TABLES", name+": "+desc, p.Pos(fn.Pos()), "not decidable: "+err)
								continue
							}
							if res[0].Kind != "const" || constant.BoolVal(res[0].C) != want {
								bad++
								c.Bad("C01.TABLES", name+": "+desc, p.Pos(fn.Pos()), fmt.Sprintf("evaluates to %v, documented semantics require %v", res[0], want))
							}
						}
					}
				}
			}
		}
		if bad == 0 {
			c.OK("C01.TABLES", name, p.Pos(fn.Pos()), fmt.Sprintf("decision table complete: %d rows (operator × null-ness × ordering) match the documented semantics", rows))
		}
	}
	// bool
	{
		fn := p.SSAFunc(p.Method("ast", "BinaryBoolExprNode", "EvalBool"))
		name := FnName(fn)
		c.Analysed(name)
		opFld := p.Field("ast", "BinaryBoolExprNode", "op")
		bad, rows := 0, 0
		for _, op := range []string{"EQ", "NEQ"} {
			for _, l := range []bool{true, false} {
				for _, r := range []bool{true, false} {
					rows++
					res, err := Decide(fn, func(v ssa.Value) (AV, bool) {
						if evalCallOnField(v, fn, "left") {
							return avBool(l), true
						}
						if evalCallOnField(v, fn, "right") {
							return avBool(r), true
						}
						if f, base := loadedField(v); sameVar(f, opFld) && base == ssa.Value(fn.Params[0]) {
							return avInt(ops[op]), true
						}
						return AV{}, false
					}, nil)
					want := (l == r) == (op == "EQ")
					if err != "" || res[0].Kind != "const" || constant.BoolVal(res[0].C) != want {
						bad++
						c.Bad("C01.TABLES", fmt.Sprintf("%s: op=%s %v,%v", name, op, l, r), p.Pos(fn.Pos()), fmt.Sprintf("evaluates to %v (%s), expected %v", res, err, want))
					}
				}
			}
		}
		if bad == 0 {
			c.OK("C01.TABLES", name, p.Pos(fn.Pos()), fmt.Sprintf("decision table complete: %d rows", rows))
		}
	}
	// between: any null -> false; else lower <= left < upper
	for _, tn := range []string{"Int64BetweenExprNode", "Float64BetweenExprNode", "DatetimeBetweenExprNode"} {
		fn := p.SSAFunc(p.Method("ast", tn, "EvalBool"))
		name := FnName(fn)
		c.Analysed(name)
		bad, rows := 0, 0
		for mask := 0; mask < 8; mask++ {
			nl, nlo, nup := mask&1 != 0, mask&2 != 0, mask&4 != 0
			ordsLo, ordsUp := []int{-1, 0, 1}, []int{-1, 0, 1}
			if nl || nlo || nup {
				ordsLo, ordsUp = []int{0}, []int{0}
			}
			for _, oLo := range ordsLo {
				for _, oUp := range ordsUp {
					rows++
					res, err := Decide(fn, betweenOracle(fn, nl, nlo, nup, oLo, oUp), nil)
					want := !(nl || nlo || nup) && oLo >= 0 && oUp < 0
					desc := fmt.Sprintf("leftNil=%v lowerNil=%v upperNil=%v left?lower=%d left?upper=%d", nl, nlo, nup, oLo, oUp)
					if err != "" {
						bad++
						c.Undecided("C01.TABLES", name+": "+desc, p.Pos(fn.Pos()), "not decidable: "+err)
					} else if res[0].Kind != "const" || constant.BoolVal(res[0].C) != want {
						bad++
						c.Bad("C01.TABLES", name+": "+desc, p.Pos(fn.Pos()), fmt.Sprintf("evaluates to %v; between is inclusive lower / exclusive upper and false on null, i.e. %v", res[0], want))
					}
				}
			}
		}
		if bad == 0 {
			c.OK("C01.TABLES", name, p.Pos(fn.Pos()), fmt.Sprintf("decision table complete: %d rows (null-ness × left?lower × left?upper)", rows))
		}
	}
	// IsNil
	{
		fn := p.SSAFunc(p.Method("ast", "IsNilExprNode", "EvalBool"))
		name := FnName(fn)
		c.Analysed(name)
		opFld := p.Field("ast", "IsNilExprNode", "op")
		bad := 0
		for _, op := range []string{"EQ", "NEQ"} {
			for _, isNil := range []bool{true, false} {
				res, err := Decide(fn, func(v ssa.Value) (AV, bool) {
					if call, ok := v.(*ssa.Call); ok && call.Call.IsInvoke() && call.Call.Method.Name() == "IsNil" {
						return avBool(isNil), true
					}
					if f, base := loadedField(v); sameVar(f, opFld) && base == ssa.Value(fn.Params[0]) {
						return avInt(ops[op]), true
					}
					if call, ok := v.(*ssa.Call); ok && call.Call.IsInvoke() && call.Call.Method.Name() == "Symbol" {
						return AV{Kind: "sym", Sym: "name"}, true
					}
					return AV{}, false
				}, nil)
				want := isNil == (op == "EQ")
				if err != "" || res[0].Kind != "const" || constant.BoolVal(res[0].C) != want {
					bad++
					c.Bad("C01.TABLES", fmt.Sprintf("%s: op=%s isNil=%v", name, op, isNil), p.Pos(fn.Pos()), fmt.Sprintf("evaluates to %v (%s), expected %v", res, err, want))
				}
			}
		}
		if bad == 0 {
			c.OK("C01.TABLES", name, p.Pos(fn.Pos()), "decision table complete: 4 rows")
		}
	}
	c.Floor("C01.TABLES", 9)
}

// binaryOracle: left/right are the pointer results of node.left/right.Eval*(s).
func binaryOracle(fn *ssa.Function, opFld *types.Var, op int64, n1, n2 bool, ord int, contains bool) Oracle {
	// the two operands as symbols, ordered by ord, for comparisons that happen in helpers or table entries
	decideSymCompare = func(a, b AV, tok token.Token) (bool, bool) {
		o := 0
		switch {
		case a.Sym == "v0" && b.Sym == "v1":
			o = ord
		case a.Sym == "v1" && b.Sym == "v0":
			o = -ord
		default:
			return false, false
		}
		switch tok {
		case token.LSS:
			return o < 0, true
		case token.GTR:
			return o > 0, true
		case token.LEQ:
			return o <= 0, true
		case token.GEQ:
			return o >= 0, true
		case token.EQL:
			return o == 0, true
		case token.NEQ:
			return o != 0, true
		}
		return false, false
	}
	decideFieldHook = func(origin ssa.Value, f *types.Var) (AV, bool) {
		if sameVar(f, opFld) && len(fn.Params) > 0 && origin == ssa.Value(fn.Params[0]) {
			return avInt(op), true
		}
		return AV{}, false
	}
	decideSymCall = func(callee *types.Func, args []AV) (AV, bool) {
		if callee.Pkg() == nil || len(args) != 2 || args[0].Kind != "sym" || args[1].Kind != "sym" {
			return AV{}, false
		}
		i, j := -1, -1
		for k, n := range []string{"v0", "v1"} {
			if args[0].Sym == n {
				i = k
			}
			if args[1].Sym == n {
				j = k
			}
		}
		if i < 0 || j < 0 || i == j {
			return AV{}, false
		}
		switch callee.Pkg().Path() {
		case "strings":
			if callee.Name() == "Contains" && i == 0 && j == 1 {
				return avBool(contains), true
			}
		case "time":
			o := ord
			if i == 1 {
				o = -o
			}
			switch callee.Name() {
			case "Before":
				return avBool(o < 0), true
			case "After":
				return avBool(o > 0), true
			case "Equal":
				return avBool(o == 0), true
			}
		}
		return AV{}, false
	}
	side := func(v ssa.Value) int {
		if evalCallOnField(v, fn, "left") {
			return 0
		}
		if evalCallOnField(v, fn, "right") {
			return 1
		}
		return -1
	}
	loadSide := func(v ssa.Value) int {
		if u, ok := v.(*ssa.UnOp); ok && u.Op == token.MUL {
			return side(u.X)
		}
		return -1
	}
	return func(v ssa.Value) (AV, bool) {
		if i := side(v); i >= 0 {
			isNil := n1
			if i == 1 {
				isNil = n2
			}
			if isNil {
				return AV{Kind: "nil"}, true
			}
			return AV{Kind: "nonnil", Sym: fmt.Sprintf("ptr:v%d", i)}, true
		}
		if f, base := loadedField(v); sameVar(f, opFld) && base == ssa.Value(fn.Params[0]) {
			return avInt(op), true
		}
		if i := loadSide(v); i >= 0 {
			return AV{Kind: "sym", Sym: fmt.Sprintf("v%d", i)}, true
		}
		if bo, ok := v.(*ssa.BinOp); ok {
			i, j := loadSide(bo.X), loadSide(bo.Y)
			if i >= 0 && j >= 0 && i != j {
				o := ord
				if i == 1 {
					o = -o
				}
				switch bo.Op {
				case token.LSS:
					return avBool(o < 0), true
				case token.GTR:
					return avBool(o > 0), true
				case token.LEQ:
					return avBool(o <= 0), true
				case token.GEQ:
					return avBool(o >= 0), true
				case token.EQL:
					return avBool(o == 0), true
				case token.NEQ:
					return avBool(o != 0), true
				}
			}
		}
		if call, ok := v.(*ssa.Call); ok {
			if cal, _ := calleeOf(call.Common()); cal != nil && cal.Pkg() != nil {
				if cal.Pkg().Path() == "time" && len(call.Call.Args) == 2 {
					i, j := loadSide(call.Call.Args[0]), loadSide(call.Call.Args[1])
					if i >= 0 && j >= 0 && i != j {
						o := ord
						if i == 1 {
							o = -o
						}
						switch cal.Name() {
						case "Before":
							return avBool(o < 0), true
						case "After":
							return avBool(o > 0), true
						case "Equal":
							return avBool(o == 0), true
						}
					}
				}
				if cal.Pkg().Path() == "strings" && cal.Name() == "Contains" && len(call.Call.Args) == 2 {
					if loadSide(call.Call.Args[0]) == 0 && loadSide(call.Call.Args[1]) == 1 {
						return avBool(contains), true
					}
				}
			}
		}
		return AV{}, false
	}
}

func betweenOracle(fn *ssa.Function, nl, nlo, nup bool, oLo, oUp int) Oracle {
	fields := []string{"left", "lower", "upper"}
	nils := []bool{nl, nlo, nup}
	side := func(v ssa.Value) int {
		for i, f := range fields {
			if evalCallOnField(v, fn, f) {
				return i
			}
		}
		return -1
	}
	loadSide := func(v ssa.Value) int {
		if u, ok := v.(*ssa.UnOp); ok && u.Op == token.MUL {
			return side(u.X)
		}
		return -1
	}
	// ordering of (i, j): only left(0) vs lower(1)/upper(2) are meaningful
	ordOf := func(i, j int) (int, bool) {
		switch {
		case i == 0 && j == 1:
			return oLo, true
		case i == 1 && j == 0:
			return -oLo, true
		case i == 0 && j == 2:
			return oUp, true
		case i == 2 && j == 0:
			return -oUp, true
		}
		return 0, false
	}
	return func(v ssa.Value) (AV, bool) {
		if i := side(v); i >= 0 {
			if nils[i] {
				return AV{Kind: "nil"}, true
			}
			return AV{Kind: "nonnil"}, true
		}
		if i := loadSide(v); i >= 0 {
			return AV{Kind: "sym", Sym: fields[i]}, true
		}
		cmp := func(i, j int, op string) (AV, bool) {
			o, ok := ordOf(i, j)
			if !ok {
				return AV{}, false
			}
			switch op {
			case "<":
				return avBool(o < 0), true
			case ">":
				return avBool(o > 0), true
			case "<=":
				return avBool(o <= 0), true
			case ">=":
				return avBool(o >= 0), true
			case "==":
				return avBool(o == 0), true
			case "!=":
				return avBool(o != 0), true
			}
			return AV{}, false
		}
		if bo, ok := v.(*ssa.BinOp); ok {
			i, j := loadSide(bo.X), loadSide(bo.Y)
			if i >= 0 && j >= 0 {
				return cmp(i, j, bo.Op.String())
			}
		}
		if call, ok := v.(*ssa.Call); ok {
			if cal, _ := calleeOf(call.Common()); cal != nil && cal.Pkg() != nil && cal.Pkg().Path() == "time" && len(call.Call.Args) == 2 {
				i, j := loadSide(call.Call.Args[0]), loadSide(call.Call.Args[1])
				if i >= 0 && j >= 0 {
					switch cal.Name() {
					case "Before":
						return cmp(i, j, "<")
					case "After":
						return cmp(i, j, ">")
					case "Equal":
						return cmp(i, j, "==")
					}
				}
			}
		}
		return AV{}, false
	}
}

// ---- SEEK ----------------------------------------------------------------------------------------

func ruleC01Seek(c *Ctx) {
	p := c.P
	ops := opConsts(c)
	// every type with an IsSeekable method
	n := 0
	for _, nt := range astNodeTypes(c) {
		var isk, ews *ssa.Function
		for i := 0; i < nt.named.NumMethods(); i++ {
			switch nt.named.Method(i).Name() {
			case "IsSeekable":
				isk = p.SSA.FuncValue(nt.named.Method(i))
			case "EvalBoolWithSeek":
				ews = p.SSA.FuncValue(nt.named.Method(i))
			}
		}
		if isk == nil {
			continue
		}
		n++
		name := FnName(isk)
		c.Analysed(name)
		var opFld *types.Var
		for i := 0; i < nt.st.NumFields(); i++ {
			if nt.st.Field(i).Name() == "op" {
				opFld = nt.st.Field(i)
			}
		}
		var admitted []string
		undec := ""
		var names []string
		for k := range ops {
			names = append(names, k)
		}
		sort.Strings(names)
		for _, opn := range names {
			for _, lc := range []bool{true, false} {
				for _, rc := range []bool{true, false} {
					res, err := Decide(isk, func(v ssa.Value) (AV, bool) {
						if f, base := loadedField(v); sameVar(f, opFld) && base == ssa.Value(isk.Params[0]) {
							return avInt(ops[opn]), true
						}
						if call, ok := v.(*ssa.Call); ok && call.Call.IsInvoke() && call.Call.Method.Name() == "IsConst" {
							if f, _ := loadedField(call.Call.Value); f != nil && f.Name() == "left" {
								return avBool(lc), true
							}
							return avBool(rc), true
						}
						return AV{}, false
					}, nil)
					if err != "" {
						undec = err
						continue
					}
					if res[0].Kind == "const" && constant.BoolVal(res[0].C) {
						admitted = append(admitted, opn)
					}
				}
			}
		}
		if undec != "" {
			c.Undecided("C01.SEEK", name, p.Pos(isk.Pos()), "IsSeekable is not loop-free-decidable: "+undec)
			continue
		}
		only := true
		set := map[string]bool{}
		for _, a := range admitted {
			set[a] = true
			if a != "EQ" {
				only = false
			}
		}
		var list []string
		for k := range set {
			list = append(list, k)
		}
		sort.Strings(list)
		c.Check(only && set["EQ"], "C01.SEEK", name, p.Pos(isk.Pos()), "the seek shortcut is admitted for `=` only",
			"the seek shortcut is admitted for operators "+strings.Join(list, ", ")+": it positions on the first element >= v and tests that single element, which decides anyOf only for `=` (for !=, <, >, >= … another element can satisfy the predicate)")
		if ews != nil {
			// EvalBoolWithSeek: seeks to the right operand and evaluates only when the cursor is valid
			fi := ComputeFacts(ews)
			c.Analysed(FnName(ews))
			okS := false
			for _, call := range callsIn(ews) {
				if cal, _ := calleeOf(call.Common()); cal != nil && cal.Name() == "EvalBool" && cal.Type().(*types.Signature).Recv() != nil {
					if fi.HoldsWhere(call.Block(), func(f Fact) bool {
						k, isCall := f.V.(*ssa.Call)
						return f.Kind == "true" && f.Pol && isCall && invokeNamed(k, "IsValid")
					}) {
						okS = true
					}
				}
			}
			c.Check(okS, "C01.SEEK", FnName(ews), p.Pos(ews.Pos()), "after seeking, the predicate is evaluated only when the cursor landed on an element", "the predicate is evaluated although the seek ran past the end of the set")
		}
	}
	// AnyOfSetExprNode.EvalBool: seek branch only for seekable cursors, otherwise the scan loop
	fn := p.SSAFunc(p.Method("ast", "AnyOfSetExprNode", "EvalBool"))
	c.Analysed(FnName(fn))
	fi := ComputeFacts(fn)
	okBranch := false
	for _, call := range callsIn(fn) {
		if invokeNamed(call, "EvalBoolWithSeek") {
			okBranch = fi.HoldsWhere(call.Block(), func(f Fact) bool {
				ex, isEx := f.V.(*ssa.Extract)
				if f.Kind != "true" || !f.Pol || !isEx || ex.Index != 1 {
					return false
				}
				ta, isTA := ex.Tuple.(*ssa.TypeAssert)
				return isTA && ta.CommaOk
			})
		}
	}
	hasScan := false
	for _, l := range loopsOf(fn) {
		for b := range l.Blocks {
			for _, in := range b.Instrs {
				if invokeNamed(in, "EvalBool") {
					hasScan = true
				}
			}
		}
	}
	c.Check(okBranch && hasScan, "C01.SEEK", FnName(fn), p.Pos(fn.Pos()), "the shortcut is taken only when the cursor can seek; otherwise every element is scanned", "anyOf lost its scan fallback or takes the seek path for cursors that cannot seek")
	c.Floor("C01.SEEK", 3)
	_ = n
}

// ---- OPS -----------------------------------------------------------------------------------------

func ruleC01Ops(c *Ctx) {
	p := c.P
	vt := p.SSAFunc(p.Method("ast", "ToBoltListener", "VisitTerminal"))
	c.Analysed(FnName(vt))
	fi := ComputeFacts(vt)
	push := p.Method("ast", "ToBoltListener", "pushStack")
	binOp := p.Named("ast", "BinaryOp")
	// (a) every operator token pushes a BinaryOp — decided by running VisitTerminal for each operator token
	// type (and, for the word operators, for both answers of the "not" test): exactly one operator is
	// pushed, and for a word operator it is the plain resp. the negated operator of that word.  The
	// dispatch may be a switch, an if-chain or a constant table.
	_ = fi
	ops0 := opConsts(c)
	strContains := p.ExtFunc("strings", "Contains")
	strHasPrefix := p.ExtFunc("strings", "HasPrefix")
	type tokRow struct {
		tok          string
		plain, neg   string
		wordOperator bool
	}
	for _, row := range []tokRow{{"LT", "", "", false}, {"GT", "", "", false}, {"EQ", "", "", false},
		{"IN", "In", "NotIn", true}, {"BETWEEN", "Between", "NotBetween", true}, {"CONTAINS", "Contains", "NotContains", true}, {"ICONTAINS", "IContains", "NotIContains", true}} {
		k := constInt(p.Obj("zitiql", "ZitiQlLexer"+row.tok))
		construct := "(*ast.ToBoltListener).VisitTerminal: token " + row.tok
		ok, why := true, ""
		undecided := ""
		for _, negated := range []bool{false, true} {
			if !row.wordOperator && negated {
				continue
			}
			oracle := func(v ssa.Value) (AV, bool) {
				if call, isCall := v.(*ssa.Call); isCall {
					if invokeNamed(call, "GetTokenType") {
						return avInt(k), true
					}
					if invokeNamed(call, "HasError") {
						return avBool(false), true
					}
					if isCallTo(call, strContains) || isCallTo(call, strHasPrefix) {
						return avBool(negated), true
					}
				}
				if u, isU := v.(*ssa.UnOp); isU && u.Op == token.MUL {
					if f, base := loadedField(u); f != nil && base == ssa.Value(vt.Params[0]) {
						if bt, isB := f.Type().Underlying().(*types.Basic); isB && bt.Kind() == types.Bool {
							return avBool(false), true // debug printing switches of the listener
						}
					}
				}
				return AV{}, false
			}
			evs, err := DecideCalls(vt, oracle, func(ci ssa.CallInstruction) bool { return isCallTo(ci, push) })
			if err != "" {
				undecided = err
				continue
			}
			nOps := 0
			for _, ev := range evs {
				// what is pushed, by its dynamic type (boxed at the push, or earlier on the path when the
				// value travels in an interface-typed variable or field)
				args := ev.Call.Common().Args
				var dyn types.Type
				if mi, isMI := args[len(args)-1].(*ssa.MakeInterface); isMI {
					dyn = mi.X.Type()
				} else {
					dyn = ev.Args[len(ev.Args)-1].Dyn
				}
				if dyn == nil || namedOf(dyn) != binOp {
					continue
				}
				nOps++
				if row.wordOperator {
					wantName := row.plain
					if negated {
						wantName = row.neg
					}
					got := ev.Args[len(ev.Args)-1]
					if got.Kind != "const" {
						undecided = "the operator pushed for " + row.tok + " is not a decided constant"
						continue
					}
					if g, _ := constant.Int64Val(got.C); g != ops0[wantName] {
						ok, why = false, fmt.Sprintf("token %s with negation=%v pushes operator %d, expected BinaryOp%s (%d): the (negated) word operator is turned into a different operator", row.tok, negated, g, wantName, ops0[wantName])
					}
				}
			}
			if undecided == "" && nOps != 1 {
				ok, why = false, fmt.Sprintf("operator token %s (negation=%v) pushes %d operators instead of one: the following Exit*Op would mis-read the stack", row.tok, negated, nOps)
			}
		}
		if ok && undecided != "" {
			c.Undecided("C01.OPS", construct, p.Pos(vt.Pos()), "VisitTerminal could not be evaluated for this token: "+undecided)
			continue
		}
		c.Check(ok, "C01.OPS", construct, p.Pos(vt.Pos()), "the operator token pushes exactly one BinaryOp (word operators: the plain / negated operator of that word)", why)
	}
	// (b) spellings the grammar can produce for LT/GT/EQ are keys of binaryOpValues
	g4, err := os.ReadFile(filepath.Join(p.Root, "zitiql", "ZitiQl.g4"))
	if err != nil {
		c.Undecided("C01.OPS", "zitiql/ZitiQl.g4", "-", err.Error())
		return
	}
	var keys []string
	for _, m := range p.SSAPkgs["ast"].Members {
		if g, ok := m.(*ssa.Global); ok && g.Name() == "binaryOpValues" {
			keys = globalMapStringKeys(p, g)
		}
	}
	keySet := map[string]bool{}
	for _, k := range keys {
		keySet[k] = true
	}
	re := regexp.MustCompile(`(?m)^(LT|GT|EQ)\s*:\s*'([^']+)'(\?)?\s*'([^']+)'(\?)?\s*;`)
	n := 0
	for _, m := range re.FindAllStringSubmatch(string(g4), -1) {
		a, aOpt, b, bOpt := m[2], m[3] == "?", m[4], m[5] == "?"
		var spellings []string
		spellings = append(spellings, a+b)
		if aOpt {
			spellings = append(spellings, b)
		}
		if bOpt {
			spellings = append(spellings, a)
		}
		for _, s := range spellings {
			n++
			c.Check(keySet[s], "C01.OPS", "ast.binaryOpValues["+s+"]", "-", "spelling produced by lexer rule "+m[1]+" has an operator", "the lexer can produce `"+s+"` (rule "+m[1]+") but binaryOpValues has no entry: the zero operator (=) would be used silently")
		}
	}
	if n < 6 {
		c.Undecided("C01.OPS", "zitiql/ZitiQl.g4: LT/GT/EQ rules", "-", fmt.Sprintf("expected 6 operator spellings from the grammar, derived %d", n))
	}
	// (c) case-insensitive contains: maps to the case-sensitive operator and upper-cases BOTH operands —
	// decided by running the type transform of a binary expression with two string operands for the two
	// case-insensitive operators and looking at the node it returns (wherever the mapping is written: a
	// helper, the caller, a table).
	tt := p.SSAFunc(p.Method("ast", "BinaryExprNode", "TypeTransformBool"))
	c.Analysed(FnName(tt))
	// the upper-casing helper, found by role: the function of the package that takes a StringNode, answers a
	// StringNode and upper-cases (strings.ToUpper, itself or in a closure it makes) — a method of the
	// expression or a free function, under whatever name
	var toUpper *types.Func
	{
		strNode := p.Named("ast", "StringNode")
		var cands []*types.Func
		for _, f := range c.prodFuncs("ast") {
			obj, _ := f.Object().(*types.Func)
			if obj == nil || f.Signature.Results().Len() != 1 || !types.Identical(f.Signature.Results().At(0).Type(), strNode) {
				continue
			}
			takes := false
			for i := 0; i < f.Signature.Params().Len(); i++ {
				if types.Identical(f.Signature.Params().At(i).Type(), strNode) {
					takes = true
				}
			}
			if !takes || f.Signature.Params().Len() != 1 {
				continue
			}
			uppers := false
			for _, g := range allFuncsWithAnon(f) {
				for _, call := range callsIn(g) {
					if cal, _ := calleeOf(call.Common()); cal != nil && cal.Pkg() != nil && cal.Pkg().Path() == "strings" && cal.Name() == "ToUpper" {
						uppers = true
					}
				}
			}
			if uppers {
				cands = append(cands, obj)
			}
		}
		if len(cands) == 1 {
			toUpper = cands[0]
		} else {
			toUpper = p.Method("ast", "BinaryExprNode", "toUpper")
		}
	}
	bsn := p.Named("ast", "BinaryStringExprNode")
	ops := opConsts(c)
	opFld := p.Field("ast", "BinaryExprNode", "op")
	strType := constInt(p.Obj("ast", "NodeTypeString"))
	// the expression under transform: the receiver, also as a helper sees it (there is one binary expression
	// in an evaluation; a helper or a dispatch-table entry receives it as its own parameter)
	isNode := func(base ssa.Value) bool {
		if base == ssa.Value(tt.Params[0]) {
			return true
		}
		prm, isPrm := base.(*ssa.Parameter)
		return isPrm && types.Identical(prm.Type(), tt.Params[0].Type())
	}
	operandName := func(v ssa.Value) string {
		for i := 0; i < 4; i++ {
			v = assertSource(v)
			if ta, isTA := v.(*ssa.TypeAssert); isTA {
				v = ta.X
				continue
			}
			break
		}
		if f, base := loadedField(v); f != nil && isNode(base) && (f.Name() == "left" || f.Name() == "right") {
			return f.Name()
		}
		return ""
	}
	fieldIdx := func(name string) string {
		st, _ := bsn.Underlying().(*types.Struct)
		for i := 0; st != nil && i < st.NumFields(); i++ {
			if st.Field(i).Name() == name {
				return fmt.Sprintf(".f%d", i)
			}
		}
		return ".f?"
	}
	for _, w := range []struct {
		in, out string
		upper   bool
	}{{"IContains", "Contains", true}, {"NotIContains", "NotContains", true}, {"Contains", "Contains", false}, {"NotContains", "NotContains", false}} {
		oracle := func(v ssa.Value) (AV, bool) {
			switch x := v.(type) {
			case *ssa.UnOp:
				if f, base := loadedField(x); sameVar(f, opFld) && isNode(base) {
					return avInt(ops[w.in]), true
				}
				if nm := operandName(x); nm != "" {
					return AV{Kind: "nonnil", Sym: "operand:" + nm}, true
				}
			case *ssa.TypeAssert:
				nm := operandName(x.X)
				isString := false
				if it, isI := x.AssertedType.Underlying().(*types.Interface); isI {
					for i := 0; i < it.NumMethods(); i++ {
						if it.Method(i).Name() == "EvalString" {
							isString = true
						}
					}
				}
				if nm != "" && isString {
					node := AV{Kind: "nonnil", Sym: "operand:" + nm}
					if x.CommaOk {
						return AV{Kind: "tuple", Tup: []AV{node, avBool(true)}}, true
					}
					return node, true
				}
				if x.CommaOk {
					// plain string operands are nothing else (not transformable, not a set function, not null)
					return AV{Kind: "tuple", Tup: []AV{{Kind: "nil"}, avBool(false)}}, true
				}
			case *ssa.Call:
				if invokeNamed(x, "GetType") && x.Call.IsInvoke() && operandName(x.Call.Value) != "" {
					return avInt(strType), true
				}
				if isCallTo(x, toUpper) && len(x.Call.Args) >= 1 {
					if nm := operandName(x.Call.Args[len(x.Call.Args)-1]); nm != "" {
						return AV{Kind: "nonnil", Sym: "upper:" + nm}, true
					}
					return AV{Kind: "nonnil", Sym: "upper:?"}, true
				}
				if cal, _ := calleeOf(x.Common()); cal != nil && isErrorCtor(cal) {
					return AV{Kind: "nonnil"}, true
				}
			}
			return AV{}, false
		}
		res, typeOf, fieldsOf, err := DecideObjects(tt, oracle)
		construct := FnName(tt) + ": " + w.in
		if err != "" {
			c.Undecided("C01.OPS", construct, p.Pos(tt.Pos()), "the type transform could not be evaluated for this operator: "+err)
			continue
		}
		ok, why := true, ""
		switch {
		case len(res) != 2 || res[1].Kind != "nil":
			ok, why = false, fmt.Sprintf("the transform of two string operands under %s reports an error (%v)", w.in, res)
		case typeOf(res[0]) == nil || namedOf(typeOf(res[0])) != bsn:
			ok, why = false, fmt.Sprintf("the result is not a BinaryStringExprNode (%v)", typeOf(res[0]))
		default:
			f := fieldsOf(res[0])
			l, r, o := f[fieldIdx("left")], f[fieldIdx("right")], f[fieldIdx("op")]
			if w.upper && (l.Sym != "upper:left" || r.Sym != "upper:right") {
				ok, why = false, fmt.Sprintf("the operands of the typed node are (%s, %s) instead of the upper-cased left and right operands: icontains does not fold both operands to the same case", l.Sym, r.Sym)
			} else if !w.upper && (l.Sym != "operand:left" || r.Sym != "operand:right") {
				ok, why = false, fmt.Sprintf("the operands of the typed node are (%s, %s) instead of the left and right operands as written: the case-sensitive %s compares something other than the operands (for instance their upper-cased forms, which makes it case-insensitive)", l.Sym, r.Sym, strings.ToLower(w.in))
			} else if o.Kind != "const" {
				ok, why = false, "the operator of the typed node is not decided"
			} else if g, _ := constant.Int64Val(o.C); g != ops[w.out] {
				ok, why = false, fmt.Sprintf("the operator of the typed node is %d instead of BinaryOp%s (%d): the case-insensitive operators are not mapped to their case-sensitive counterparts", g, w.out, ops[w.out])
			}
		}
		okText := w.in + " over strings becomes " + w.out + " over both operands upper-cased"
		if !w.upper {
			okText = w.in + " over strings stays " + w.out + " over the operands as written"
		}
		c.Check(ok, "C01.OPS", construct, p.Pos(tt.Pos()), okText, why)
	}
	c.Floor("C01.OPS", 12)
}

// storedOpFor evaluates the op value stored by handleCaseInsensitive for a given input operator:
// the value is a phi of constants selected by a comparison of node.op with a constant.
func storedOpFor(fn *ssa.Function, v ssa.Value, opFld *types.Var, in int64) int64 {
	switch x := v.(type) {
	case *ssa.Const:
		n, _ := constant.Int64Val(x.Value)
		return n
	case *ssa.Phi:
		for i, e := range x.Edges {
			pred := x.Block().Preds[i]
			// which edge is taken for op == in ?
			taken := edgeTakenFor(pred, x.Block(), opFld, in)
			if taken {
				return storedOpFor(fn, e, opFld, in)
			}
		}
	}
	return -1
}

// edgeTakenFor: following the function from its entry with node.op == in, is edge pred->blk taken?
func edgeTakenFor(pred, blk *ssa.BasicBlock, opFld *types.Var, in int64) bool {
	fn := pred.Parent()
	cur := fn.Blocks[0]
	var prev *ssa.BasicBlock
	for steps := 0; steps < 64; steps++ {
		if cur == blk && prev == pred {
			return true
		}
		if len(cur.Succs) == 0 {
			return false
		}
		next := cur.Succs[0]
		if iff, ok := cur.Instrs[len(cur.Instrs)-1].(*ssa.If); ok {
			bo, isB := iff.Cond.(*ssa.BinOp)
			if !isB {
				return false
			}
			f, _ := loadedField(bo.X)
			k, isK := bo.Y.(*ssa.Const)
			if !sameVar(f, opFld) || !isK || k.Value == nil {
				return false
			}
			kv, _ := constant.Int64Val(k.Value)
			cond := (kv == in) == (bo.Op == token.EQL)
			if !cond {
				next = cur.Succs[1]
			}
		}
		prev, cur = cur, next
	}
	return false
}

// ruleC01NullElem: a single-valued hop of a dotted set symbol contributes exactly one element per
// linked entity — including a null one (the type-tagged nil), which the set operators must see.
// fkQueryPath.Next hands out `value` once and nil ("exhausted") afterwards, so every constructed
// fkQueryPath must have `value` set to a provably non-nil slice before it leaves its constructor.
func ruleC01NullElem(c *Ctx) {
	p := c.P
	fk := p.Named("boltz", "fkQueryPath")
	valueFld := p.Field("boltz", "fkQueryPath", "value")
	prepend := p.Func("boltz", "PrependFieldType")
	// PrependFieldType never returns nil: every return is a fresh make()
	pf := p.SSAFunc(prepend)
	okP := true
	for _, r := range returnsOf(pf) {
		if _, isMake := r.Results[0].(*ssa.MakeSlice); !isMake {
			okP = false
		}
	}
	c.Check(okP, "C01.NULLELEM", FnName(pf)+": result is never nil", p.Pos(pf.Pos()), "every return is a freshly made slice holding at least the type tag", "PrependFieldType can return something other than a fresh slice: a nil value would read as an exhausted path element")
	nonNilSlice := func(v ssa.Value) bool {
		switch x := v.(type) {
		case *ssa.MakeSlice:
			return true
		case *ssa.Call:
			return isCallTo(x, prepend)
		}
		return false
	}
	n := 0
	for _, fn := range c.prodFuncs("boltz") {
		for _, b := range fn.Blocks {
			for _, in := range b.Instrs {
				al, ok := in.(*ssa.Alloc)
				if !ok || namedOf(derefType(al.Type())) != fk {
					continue
				}
				n++
				c.Analysed(FnName(fn))
				good := func(i ssa.Instruction) bool {
					st, ok := i.(*ssa.Store)
					if !ok {
						return false
					}
					f, base := fieldOfAddr(st.Addr)
					return sameVar(f, valueFld) && base == ssa.Value(al) && nonNilSlice(st.Val)
				}
				ri := reachWithoutFrom(fn, al, good)
				escape := ""
				for _, r := range *al.Referrers() {
					switch r.(type) {
					case *ssa.FieldAddr, *ssa.DebugRef:
						continue
					}
					if ri.Reaches(r) {
						escape = describeInstr(r) + " at " + p.Pos(r.Pos())
					}
				}
				c.Check(escape == "", "C01.NULLELEM", FnName(fn)+": fkQueryPath construction", p.Pos(al.Pos()), "value is set from PrependFieldType (type tag + bytes, never nil) on every path before the element is handed out, so a null field still yields one element", "a path hands out the element ("+escape+") without value set to a non-nil tagged slice: a null field then contributes no element, and allOf/anyOf/count over the dotted symbol silently ignore it")
			}
		}
	}
	c.Floor("C01.NULLELEM", 2)
}
