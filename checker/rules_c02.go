package main

import (
	"fmt"
	"go/constant"
	"go/token"
	"go/types"
	"math"
	"strings"

	"golang.org/x/tools/go/ssa"
)

func init() {
	register(&Property{
		ID:          "C02",
		Title:       "Sort order, skip, limit and total count are exact",
		Technique:   "static analysis: sentinel/overflow rule for every arithmetic on paging values, path rule for the paging defaults (set-on-nil/negative edge), control-dependence rule for the total count, exhaustive decision tables of the five row comparators (abstract interpretation over nil/ordering/direction), listener pop-order rule; role-based rule for the counting scan's step; decode width/sign rule for sort keys",
		LevelText:   "Necessary conditions visible in the code's shape, decided for all inputs: paging arithmetic can neither overflow on the MaxInt64 'unbounded' sentinel nor see a negative skip; absent/negative skip and limit are replaced by 0 / unbounded before use on every path; the running total is incremented under the row-match condition only, never under a paging comparison, and the counting loop uses the unpaged step; each comparator returns nil-first, sign-of-ordering, negated iff descending for all 24 abstract cases; the comparator list always ends with id ascending; the query listener pops limit, skip, sort, predicate in that order and accepts only integer constants for skip/limit. Not decided: that llrb orders correctly and that the two scan strategies agree on real data. The step that advances the cursor inside the counting loop reads no paging value (found by role, not by name); the paging counters advance only for rows that matched; fixed-width sort keys are decoded with their stored width and sign. Added later: a typed query object is never kept in a package-level cache and mutated per call (FRESHQUERY); the compound comparator is decided by running it over given answers of three field comparators (first non-zero in order, zero when all tie), whatever loop form it has; the NONE marker is what VisitTerminal pushes for the NONE token. Added in rounds 8-9: the comparator is built from the query's whole sort list (SORTWHOLE); an object cached in a sync.Map of a store is built only from inputs that are part of its key (CACHEKEY); a package-level instance of a mutable type is followed through joins (FRESHQUERY). Added in round 10: the comparator picked for a symbol type reads its values with that type's decoder (CMPTYPE); every field comparator built has its direction stored from a value (CMPDIR). Added in round 11: the scanner is chosen by the query's own sort fields (SCANSORT); the union cursor's decision table is cross-listed (UNION). Added in round 12: the id scan's cursor provider looks at the direction it is asked for (CURSORDIR/DIRPARAM, function literals included). Added in round 13: SCANFILTER as in C15 (paging counts the right rows); every cursor a direction-taking function hands out was made by a call told the direction or on a path that branched on it (DIRPARAM per return).",
		LevelNote:   "Trusted: go/types, x/tools SSA, llrb ordering, the DECIDE interpreter in checker/decide.go (rejects anything it cannot evaluate).",
		DesignRef:   "DESIGN.md C02",
		Explanation: "Sites: every ADD/SUB/MUL with a targetLimit/targetOffset operand; every store to a count field in the scan functions; both paging normalisations (wherever they are expanded); the five Compare methods; newRowComparator; ExitSkipExpr/ExitLimitExpr/ExitQueryStmt.",
		Trusted:     []string{"go/types", "golang.org/x/tools/go/ssa v0.29.0", "github.com/biogo/store/llrb"},
		Rules:       rulesC02,
		Controls: []controlExpect{
			{"C02.ARITH", "zzControlBad_C02_ARITH", true},
			{"C02.CMP", "zzControlBadCmpC02", true},
		},
	})
}

func rulesC02(c *Ctx) {
	// ast.Parse hands out a private query: the scanners write the paging defaults back into it
	ruleSharedInstance(c, "C02.FRESHQUERY")
	rulePagingArith(c, "C02.ARITH", "boltz")
	c.Floor("C02.ARITH", 1)
	rulePagingDefaults(c, "C02.DEFAULTS", "boltz")
	c.Floor("C02.DEFAULTS", 4)
	ruleCount(c, "C02.COUNT", "boltz")
	c.Floor("C02.COUNT", 2)
	ruleComparators(c, "C02.CMP", "boltz", "Compare")
	ruleComparatorDirectionSet(c, "C02.CMPDIR", "boltz", "Compare")
	ruleComparatorDecoder(c, "C02.CMPTYPE", "boltz", "Compare")
	ruleScannerSortFields(c, "C02.SCANSORT")
	// the id scan honours the direction the first sort field asks for
	ruleCursorDirection(c, c.cursorTypes(), "C02.CURSORDIR", "C02.DIRPARAM")
	// candidate ids handed in through a union cursor come once each, in the direction asked for
	c.As("C14.UNION", "C02.UNION", func() { ruleC14Union(c) })
	c.Floor("C02.CMP", 5)
	ruleIdTieBreak(c, "C02.TIEBREAK", c.P.SSAFunc(c.P.Method("boltz", "BaseStore", "newRowComparator")))
	ruleRowComparatorFirstNonZero(c, "C02.CMP", c.P.SSAFunc(c.P.Method("boltz", "rowComparatorImpl", "Compare")))
	ruleC02Parse(c)
	ruleSortFieldsVerbatim(c, "C02.SORTFIELDS")
	ruleBoundedResultTree(c, "C02.BOUNDEDPAGE", "boltz")
	ruleSortWhole(c, "C02.SORTWHOLE", "boltz")
	ruleCacheKey(c, "C02.CACHEKEY", "boltz")
	ruleC02Scanner(c)
	rulePageMatch(c, "C02.PAGEMATCH", "boltz")
	// sort keys are decoded from the stored bytes: width/sign of every fixed-width decode
	ruleDecodeWidth(c, "C02.DECODE")
	c.As("C15.SCANFILTER", "C02.SCANFILTER", func() { ruleC15ScanFilter(c) })
}

// rulePageMatch: the skip/collected counters of the paged cursor count MATCHING rows: every
// increment is control-dependent on the row-match result.
func rulePageMatch(c *Ctx, rule, pkg string) {
	p := c.P
	n := 0
	for _, fn := range c.prodFuncs(pkg) {
		// only functions that evaluate the filter per row
		hasEval := false
		for _, call := range callsIn(fn) {
			if invokeNamed(call, "EvalBool") {
				hasEval = true
			}
		}
		if !hasEval {
			continue
		}
		fi := ComputeFacts(fn)
		for _, b := range fn.Blocks {
			for _, in := range b.Instrs {
				st, ok := in.(*ssa.Store)
				if !ok {
					continue
				}
				f, _ := fieldOfAddr(st.Addr)
				if f == nil || (f.Name() != "offset" && f.Name() != "collected") {
					continue
				}
				if bo, isB := st.Val.(*ssa.BinOp); !isB || bo.Op != token.ADD {
					continue
				}
				n++
				c.Analysed(FnName(fn))
				matched := fi.HoldsWhere(b, func(ft Fact) bool {
					k, isCall := ft.V.(*ssa.Call)
					if ft.Kind != "true" || !ft.Pol || !isCall {
						return false
					}
					// ... or the scanner says it is positioned on a row (it positions itself on matching rows only:
					// the step functions are checked by this rule themselves)
					return invokeNamed(k, "EvalBool") || (invokeNamed(k, "IsValid") && !k.Call.IsInvoke() && len(k.Call.Args) == 1 && len(fn.Params) > 0 && k.Call.Args[0] == ssa.Value(fn.Params[0]))
				})
				c.Check(matched, rule, FnName(fn)+": "+f.Name()+"++", p.Pos(st.Pos()), "the paging counter advances only for rows that matched the filter", "the paging counter `"+f.Name()+"` advances for rows that were not (yet) tested against the filter: skip/limit would count non-matching rows")
			}
		}
	}
	c.Floor(rule, 2)
	_ = n
}

// ---- ARITH -------------------------------------------------------------------------------------

func pagingFields(c *Ctx, pkg string) (limit, offset *types.Var) {
	// the struct that carries the paging targets: the shared `scanner` base, or, where that has been folded into
	// the scanners themselves, the one struct of the package with both fields
	if pk := c.P.pkg(pkg); pk != nil {
		if tn, _ := pk.Types.Scope().Lookup("scanner").(*types.TypeName); tn == nil {
			var ls, os []*types.Var
			for _, name := range pk.Types.Scope().Names() {
				tn, isTN := pk.Types.Scope().Lookup(name).(*types.TypeName)
				if !isTN {
					continue
				}
				st, isSt := tn.Type().Underlying().(*types.Struct)
				if !isSt {
					continue
				}
				var l, o *types.Var
				for i := 0; i < st.NumFields(); i++ {
					switch st.Field(i).Name() {
					case "targetLimit":
						l = st.Field(i)
					case "targetOffset":
						o = st.Field(i)
					}
				}
				if l != nil && o != nil {
					ls, os = append(ls, l), append(os, o)
				}
			}
			if len(ls) == 1 {
				c.P.RenamedAnchors = append(c.P.RenamedAnchors, pkg+".scanner -> "+ls[0].Pkg().Name()+" struct holding targetLimit/targetOffset")
				return ls[0], os[0]
			}
		}
	}
	return c.P.Field(pkg, "scanner", "targetLimit"), c.P.Field(pkg, "scanner", "targetOffset")
}

func isMaxInt64(v ssa.Value) bool {
	k, ok := v.(*ssa.Const)
	if !ok || k.Value == nil || k.Value.Kind() != constant.Int {
		return false
	}
	n, exact := constant.Int64Val(k.Value)
	return exact && n == math.MaxInt64
}

func rulePagingArith(c *Ctx, rule, pkg string) {
	p := c.P
	limitF, offsetF := pagingFields(c, pkg)
	isLoadOf := func(v ssa.Value, f *types.Var) bool {
		ff, _ := loadedField(v)
		return sameVar(ff, f)
	}
	for _, fn := range c.prodFuncs(pkg) {
		var fi *FactInfo
		for _, b := range fn.Blocks {
			for _, in := range b.Instrs {
				bo, ok := in.(*ssa.BinOp)
				if !ok || (bo.Op != token.ADD && bo.Op != token.SUB && bo.Op != token.MUL) {
					continue
				}
				xl, yl := isLoadOf(bo.X, limitF), isLoadOf(bo.Y, limitF)
				xo, yo := isLoadOf(bo.X, offsetF), isLoadOf(bo.Y, offsetF)
				if !(xl || yl || xo || yo) {
					continue
				}
				if fi == nil {
					fi = ComputeFacts(fn)
					c.Analysed(FnName(fn))
				}
				construct := FnName(fn) + ": " + bo.Op.String() + " on paging values"
				pos := p.Pos(bo.Pos())
				// MaxInt64 - targetOffset: safe iff the offset is clamped non-negative (C02.DEFAULTS)
				if bo.Op == token.SUB && isMaxInt64(bo.X) && yo {
					c.OK(rule, construct, pos, "MaxInt64 - targetOffset cannot overflow because targetOffset is clamped to >= 0 by the paging normalisation (DEFAULTS rule)")
					continue
				}
				// targetOffset + targetLimit under  targetLimit <= MaxInt64 - targetOffset
				if bo.Op == token.ADD && ((xl && yo) || (xo && yl)) {
					guard := fi.HoldsWhere(b, func(f Fact) bool {
						if f.Kind != "true" {
							return false
						}
						cmp, ok := f.V.(*ssa.BinOp)
						if !ok {
							return false
						}
						sub, ok := cmp.Y.(*ssa.BinOp)
						lim := cmp.X
						op := cmp.Op
						if !ok {
							// MaxInt64 - offset >= limit
							sub, ok = cmp.X.(*ssa.BinOp)
							lim = cmp.Y
							switch op {
							case token.GEQ:
								op = token.LEQ
							case token.GTR:
								op = token.LSS
							case token.LEQ:
								op = token.GEQ
							case token.LSS:
								op = token.GTR
							}
						}
						if !ok || sub.Op != token.SUB || !isMaxInt64(sub.X) || !isLoadOf(sub.Y, offsetF) || !isLoadOf(lim, limitF) {
							return false
						}
						return ((op == token.LEQ || op == token.LSS) && f.Pol) || ((op == token.GTR || op == token.GEQ) && !f.Pol)
					})
					c.Check(guard, rule, construct, pos, "the sum is computed only where targetLimit <= MaxInt64 - targetOffset (saturating bound)",
						"targetOffset + targetLimit is computed although targetLimit may be the MaxInt64 'unbounded' sentinel: any positive skip overflows and the window becomes negative")
					continue
				}
				c.Bad(rule, construct, pos, "arithmetic on a paging value (MaxInt64 sentinel / user skip) in a shape the checker cannot prove overflow-free")
			}
		}
	}
}

// ---- DEFAULTS ------------------------------------------------------------------------------------

// noPathToAvoiding: no path from entry to target avoids all `avoid` instructions and all `allowed` edges.
func noPathToAvoiding(fn *ssa.Function, target ssa.Instruction, avoid func(ssa.Instruction) bool, allowed func(from, to *ssa.BasicBlock) bool) bool {
	ps := &pathSearch{fn: fn, start: fn.Blocks[0], stop: avoid, skipEdge: allowed,
		target: func(in ssa.Instruction) bool { return in == target }}
	return !ps.run()
}

func rulePagingDefaults(c *Ctx, rule, pkg string) {
	p := c.P
	limitF, offsetF := pagingFields(c, pkg)
	// every function that assigns a paging target (the helper that normalises skip/limit is expanded into
	// its callers by the normalisation pass; a target may also be given a constant)
	nFns := 0
	for _, fn := range c.prodFuncs(pkg) {
		var stores []*ssa.Store
		for _, b := range fn.Blocks {
			for _, in := range b.Instrs {
				if st, ok := in.(*ssa.Store); ok {
					if f, _ := fieldOfAddr(st.Addr); sameVar(f, limitF) || sameVar(f, offsetF) {
						stores = append(stores, st)
					}
				}
			}
		}
		if len(stores) == 0 {
			continue
		}
		nFns++
		rulePagingDefaultsFn(c, rule, fn, stores, limitF, offsetF)
	}
	if nFns == 0 {
		c.Undecided(rule, pkg+": paging targets", "-", "no function assigns the paging targets")
	}
	// the getter/setter pair stores and returns the same field (ast.queryNode)
	for _, pr := range []struct{ get, set, fld string }{{"GetSkip", "SetSkip", "Skip"}, {"GetLimit", "SetLimit", "Limit"}} {
		g := p.SSAFunc(p.Method("ast", "queryNode", pr.get))
		s := p.SSAFunc(p.Method("ast", "queryNode", pr.set))
		fld := p.Field("ast", "queryNode", pr.fld)
		setsNonNil := false
		for _, b := range s.Blocks {
			for _, in := range b.Instrs {
				if st, ok := in.(*ssa.Store); ok {
					if f, _ := fieldOfAddr(st.Addr); sameVar(f, fld) {
						if _, isAlloc := st.Val.(*ssa.Alloc); isAlloc {
							setsNonNil = true
						}
					}
				}
			}
		}
		fi := ComputeFacts(g)
		getOK := true
		for _, r := range returnsOf(g) {
			if isNilConst(r.Results[0]) {
				if !fi.HoldsWhere(r.Block(), func(f Fact) bool {
					ff, _ := loadedField(f.V)
					return f.Kind == "nonnil" && !f.Pol && sameVar(ff, fld)
				}) {
					getOK = false
				}
			}
		}
		c.Check(setsNonNil && getOK, rule, "ast.queryNode."+pr.get+"/"+pr.set, p.Pos(g.Pos()), pr.set+" stores a fresh non-nil node and "+pr.get+" returns nil only when the field is nil", "getter/setter pair does not guarantee a non-nil result after the setter ran")
	}
}

// ---- COUNT ---------------------------------------------------------------------------------------

func rulePagingDefaultsFn(c *Ctx, rule string, fn *ssa.Function, stores []*ssa.Store, limitF, offsetF *types.Var) {
	p := c.P
	name := FnName(fn)
	c.Analysed(name)
	fi := factsOf(fn)
	for _, w := range []struct {
		get, set string
		fld      *types.Var
		isDef    func(v ssa.Value) bool
		what     string
	}{
		{"GetSkip", "SetSkip", offsetF, func(v ssa.Value) bool {
			k, ok := v.(*ssa.Const)
			return ok && k.Value != nil && constant.Sign(k.Value) == 0
		}, "skip"},
		{"GetLimit", "SetLimit", limitF, isMaxInt64, "limit"},
	} {
		dflt := map[string]string{"skip": "0", "limit": "MaxInt64 (unbounded)"}[w.what]
		for _, store := range stores {
			if f, _ := fieldOfAddr(store.Addr); !sameVar(f, w.fld) {
				continue
			}
			construct := name + ": " + w.what
			// a constant target: must be the default itself
			if _, isK := store.Val.(*ssa.Const); isK {
				c.Check(w.isDef(store.Val), rule, construct+": constant", p.Pos(store.Pos()), "a paging target given as a constant is the default "+dflt, "the paging target is set to a constant other than the default "+dflt)
				continue
			}
			// stored value is *q.GetX() for some query q
			var q ssa.Value
			if u, ok := store.Val.(*ssa.UnOp); ok && u.Op == token.MUL {
				if call, isCall := u.X.(*ssa.Call); isCall && call.Call.IsInvoke() && call.Call.Method.Name() == w.get {
					q = call.Call.Value
				}
			}
			c.Check(q != nil, rule, construct+": source", p.Pos(store.Pos()), "the target is read back from query."+w.get+"() after defaults were applied", "the paging target is not taken from query."+w.get+"()")
			if q == nil {
				continue
			}
			getterOf := func(v ssa.Value, name string) bool {
				call, ok := v.(*ssa.Call)
				return ok && call.Call.IsInvoke() && call.Call.Method.Name() == name && call.Call.Value == q
			}
			isSet := func(in ssa.Instruction) bool {
				call, ok := in.(ssa.CallInstruction)
				if !ok || !call.Common().IsInvoke() || call.Common().Method.Name() != w.set || call.Common().Value != q {
					return false
				}
				return w.isDef(call.Common().Args[0])
			}
			// every path to the store passes SetX(default) unless it passed the edges "non-nil" and "not negative"
			nonNegEdge := func(from, to *ssa.BasicBlock) bool {
				for f := range fi.edgeFacts(from, to) {
					if f.Kind != "true" {
						continue
					}
					bo, ok := f.V.(*ssa.BinOp)
					if !ok {
						continue
					}
					u, ok := bo.X.(*ssa.UnOp)
					if !ok || u.Op != token.MUL || !getterOf(u.X, w.get) {
						continue
					}
					k, ok := bo.Y.(*ssa.Const)
					if !ok || k.Value == nil || constant.Sign(k.Value) != 0 {
						continue
					}
					if (bo.Op == token.LSS && !f.Pol) || (bo.Op == token.GEQ && f.Pol) {
						return true
					}
				}
				return false
			}
			ok := noPathToAvoiding(fn, store, isSet, nonNegEdge)
			c.Check(ok, rule, construct+": absent or negative ⇒ default", p.Pos(store.Pos()),
				"every path to the assignment either sets the default "+dflt+" or has established that the value is present and not negative",
				"a path reaches the assignment with an absent or negative "+w.what+" without replacing it by "+dflt)
			// dereferences of GetX() results: preceded by SetX(default) or by a non-nil test of a GetX() result
			nonNilEdge := func(from, to *ssa.BasicBlock) bool {
				for f := range fi.edgeFacts(from, to) {
					if f.Kind == "nonnil" && f.Pol && getterOf(f.V, w.get) {
						return true
					}
				}
				return false
			}
			for _, b := range fn.Blocks {
				for _, in := range b.Instrs {
					if u, ok := in.(*ssa.UnOp); ok && u.Op == token.MUL && getterOf(u.X, w.get) {
						ok := noPathToAvoiding(fn, u, isSet, nonNilEdge)
						c.Check(ok, rule, construct+": dereference", p.Pos(u.Pos()), "*query."+w.get+"() is reached only after the default was set or a non-nil test", "*query."+w.get+"() can be reached with a nil result")
					}
				}
			}
		}
	}
}

func ruleCount(c *Ctx, rule, pkg string) {
	p := c.P
	limitF, offsetF := pagingFields(c, pkg)
	pagingNames := map[string]bool{"offset": true, "collected": true}
	for _, fn := range c.prodFuncs(pkg) {
		var fi *FactInfo
		for _, b := range fn.Blocks {
			for _, in := range b.Instrs {
				st, ok := in.(*ssa.Store)
				if !ok {
					continue
				}
				f, _ := fieldOfAddr(st.Addr)
				if f == nil || f.Name() != "count" {
					continue
				}
				if n := namedOf(f.Type()); n != nil {
					continue
				}
				if fi == nil {
					fi = ComputeFacts(fn)
					c.Analysed(FnName(fn))
				}
				construct := FnName(fn) + ": total count"
				// no fact at this block may involve a paging value
				culprit := ""
				for ft := range fi.At(b) {
					bo, ok := ft.V.(*ssa.BinOp)
					if !ok {
						continue
					}
					for _, op := range []ssa.Value{bo.X, bo.Y} {
						if ff, _ := loadedField(op); ff != nil {
							if sameVar(ff, limitF) || sameVar(ff, offsetF) || pagingNames[ff.Name()] {
								culprit = ff.Name()
							}
						}
					}
				}
				c.Check(culprit == "", rule, construct, p.Pos(st.Pos()), "the increment is control-dependent on the row match only ("+fi.Describe(b)+")",
					"the total is incremented under a comparison involving the paging value `"+culprit+"`: the count would depend on skip/limit")
			}
		}
	}
}

// ---- comparators (DECIDE) ---------------------------------------------------------------------------

func ruleComparators(c *Ctx, rule, pkg, method string) {
	p := c.P
	var dirs map[*types.Var]map[bool]AV
	for _, fn := range c.prodFuncs(pkg) {
		if fn.Parent() != nil || fn.Signature.Recv() == nil || fn.Name() != method {
			continue
		}
		recv := namedOf(fn.Signature.Recv().Type())
		if recv == nil {
			continue
		}
		st, ok := recv.Underlying().(*types.Struct)
		if !ok {
			continue
		}
		var fwd *types.Var
		dirVal := map[bool]AV{true: avBool(true), false: avBool(false)}
		for i := 0; i < st.NumFields(); i++ {
			if st.Field(i).Name() == "forward" && types.Identical(st.Field(i).Type(), types.Typ[types.Bool]) {
				fwd = st.Field(i)
			}
		}
		if fwd == nil {
			// the direction kept in another form (a two-valued named constant): the field the comparator's
			// constructor fills from the sort field's IsAscending(), with the value it gets for each answer
			if dirs == nil {
				dirs = comparatorDirections(c, pkg)
			}
			for i := 0; i < st.NumFields(); i++ {
				if d, has := dirs[st.Field(i).Origin()]; has {
					fwd, dirVal = st.Field(i), d
				}
			}
		}
		if fwd == nil && len(fn.Params) == 3 {
			// no direction in the comparator at all: descending order is made by a wrapper that negates the answer
			// (decided below); the comparator itself is decided for ascending order
			compound := false
			for i := 0; i < st.NumFields(); i++ {
				if _, isSl := st.Field(i).Type().Underlying().(*types.Slice); isSl {
					compound = true // the comparator that runs the list of field comparators (decided by its own rule)
				}
			}
			if w := reversingWrapper(c, pkg, method); w != nil && w != recv && !compound {
				name := FnName(fn)
				c.Analysed(name)
				decideComparator(c, rule, fn, nil, dirVal)
			}
			continue
		}
		if fwd == nil || len(fn.Params) != 3 {
			continue
		}
		name := FnName(fn)
		c.Analysed(name)
		decideComparator(c, rule, fn, fwd, dirVal)
		_ = p
	}
}

// reversingWrapper: a comparator type of pkg that answers the negation of what the comparator it wraps answers.
func reversingWrapper(c *Ctx, pkg, method string) *types.Named {
	for _, fn := range c.prodFuncs(pkg) {
		if fn.Parent() != nil || fn.Signature.Recv() == nil || fn.Name() != method || len(fn.Params) != 3 || len(fn.Blocks) != 1 {
			continue
		}
		rets := returnsOf(fn)
		if len(rets) != 1 || len(rets[0].Results) != 1 {
			continue
		}
		neg, isNeg := rets[0].Results[0].(*ssa.UnOp)
		if !isNeg || neg.Op != token.SUB {
			continue
		}
		inner, isCall := neg.X.(*ssa.Call)
		if !isCall || !inner.Call.IsInvoke() || inner.Call.Method.Name() != method || len(inner.Call.Args) != 2 {
			continue
		}
		if inner.Call.Args[0] != ssa.Value(fn.Params[1]) || inner.Call.Args[1] != ssa.Value(fn.Params[2]) {
			continue
		}
		if f, base := loadedField(inner.Call.Value); f == nil || base != ssa.Value(fn.Params[0]) {
			continue
		}
		return namedOf(fn.Signature.Recv().Type())
	}
	return nil
}

// comparatorDirections: the fields of comparator structs that newRowComparator fills from IsAscending() through a
// conversion function of the module (sortDirectionOf(asc)), with the constant stored for true and for false.
func comparatorDirections(c *Ctx, pkg string) map[*types.Var]map[bool]AV {
	out := map[*types.Var]map[bool]AV{}
	for _, fn := range c.prodFuncs(pkg) {
		if fn.Name() != "newRowComparator" {
			continue
		}
		for _, b := range fn.Blocks {
			for _, in := range b.Instrs {
				st, isSt := in.(*ssa.Store)
				if !isSt {
					continue
				}
				f, _ := fieldOfAddr(st.Addr)
				if f == nil {
					continue
				}
				// the conversion expanded in place: a join of two constants under a branch on IsAscending()
				if phi, isPhi := st.Val.(*ssa.Phi); isPhi && len(phi.Edges) == 2 {
					vals := map[bool]AV{}
					for i, e := range phi.Edges {
						k, isK := e.(*ssa.Const)
						if !isK || k.Value == nil {
							continue
						}
						// which way round the branch this edge came
						blk, prev := phi.Block().Preds[i], phi.Block()
						for steps := 0; steps < 4; steps++ {
							if iff, isIf := blk.Instrs[len(blk.Instrs)-1].(*ssa.If); isIf {
								if asc, isAsc := iff.Cond.(*ssa.Call); isAsc && invokeNamed(asc, "IsAscending") {
									vals[blk.Succs[0] == prev] = avConst(k.Value)
								}
								break
							}
							if len(blk.Preds) != 1 {
								break
							}
							blk, prev = blk.Preds[0], blk
						}
					}
					if len(vals) == 2 && !constant.Compare(vals[true].C, token.EQL, vals[false].C) {
						out[f.Origin()] = vals
					}
					continue
				}
				conv, isCall := st.Val.(*ssa.Call)
				if !isCall || conv.Call.IsInvoke() || len(conv.Call.Args) != 1 {
					continue
				}
				asc, isAsc := conv.Call.Args[0].(*ssa.Call)
				if !isAsc || !invokeNamed(asc, "IsAscending") {
					continue
				}
				sc := conv.Call.StaticCallee()
				if sc == nil || sc.Blocks == nil || !inModule(sc) || len(sc.Params) != 1 {
					continue
				}
				vals := map[bool]AV{}
				for _, x := range []bool{true, false} {
					x := x
					res, err := Decide(sc, func(v ssa.Value) (AV, bool) {
						if v == ssa.Value(sc.Params[0]) {
							return avBool(x), true
						}
						return AV{}, false
					}, nil)
					if err == "" && len(res) == 1 && res[0].Kind == "const" {
						vals[x] = res[0]
					}
				}
				if len(vals) == 2 && !constant.Compare(vals[true].C, token.EQL, vals[false].C) {
					out[f.Origin()] = vals
					c.Analysed(FnName(sc))
				}
			}
		}
	}
	return out
}

func decideComparator(c *Ctx, rule string, fn *ssa.Function, fwd *types.Var, dirVal map[bool]AV) {
	p := c.P
	name := FnName(fn)
	// s1 / s2: the pointer values compared with nil, attributed to parameter 1 / 2
	var s [2]ssa.Value
	for _, b := range fn.Blocks {
		for _, in := range b.Instrs {
			bo, ok := in.(*ssa.BinOp)
			if !ok || (bo.Op != token.EQL && bo.Op != token.NEQ) || !isNilConst(bo.Y) {
				continue
			}
			if _, isPtr := bo.X.Type().Underlying().(*types.Pointer); !isPtr {
				continue
			}
			for i := 0; i < 2; i++ {
				if reachesParam(bo.X, fn.Params[i+1], 0) && s[i] == nil {
					s[i] = bo.X
				}
			}
		}
	}
	if s[0] == nil || s[1] == nil || s[0] == s[1] {
		c.Undecided(rule, name, p.Pos(fn.Pos()), "cannot identify the two compared values")
		return
	}
	isBool := false
	if pt, ok := s[0].Type().Underlying().(*types.Pointer); ok {
		if b, ok := pt.Elem().Underlying().(*types.Basic); ok && b.Info()&types.IsBoolean != 0 {
			isBool = true
		}
	}
	which := func(v ssa.Value) int { // 0: s1, 1: s2 (as pointer)
		for i := 0; i < 2; i++ {
			if v == s[i] {
				return i
			}
		}
		return -1
	}
	loadOf := func(v ssa.Value) int {
		if u, ok := v.(*ssa.UnOp); ok && u.Op == token.MUL {
			return which(u.X)
		}
		return -1
	}
	type tcase struct {
		nil1, nil2 bool
		ord        int // -1, 0, +1  (for bool: encoded pairs)
		b1, b2     bool
		forward    bool
	}
	var cases []tcase
	directions := []bool{true, false}
	if fwd == nil {
		directions = []bool{true} // the comparator only knows ascending order (a wrapper reverses it)
	}
	for _, f := range directions {
		cases = append(cases, tcase{nil1: true, nil2: true, forward: f}, tcase{nil1: true, forward: f}, tcase{nil2: true, forward: f})
		if isBool {
			for _, b1 := range []bool{false, true} {
				for _, b2 := range []bool{false, true} {
					o := 0
					if !b1 && b2 {
						o = -1
					} else if b1 && !b2 {
						o = 1
					}
					cases = append(cases, tcase{ord: o, b1: b1, b2: b2, forward: f})
				}
			}
		} else {
			for _, o := range []int{-1, 0, 1} {
				cases = append(cases, tcase{ord: o, forward: f})
			}
		}
	}
	nOK := 0
	for _, tc := range cases {
		tc := tc
		oracle := func(v ssa.Value) (AV, bool) {
			if i := which(v); i >= 0 {
				isNil := tc.nil1
				if i == 1 {
					isNil = tc.nil2
				}
				if isNil {
					return AV{Kind: "nil"}, true
				}
				return AV{Kind: "nonnil"}, true
			}
			if ff, base := loadedField(v); sameVar(ff, fwd) && base == ssa.Value(fn.Params[0]) {
				return dirVal[tc.forward], true
			}
			if i := loadOf(v); i >= 0 {
				if isBool {
					if i == 0 {
						return avBool(tc.b1), true
					}
					return avBool(tc.b2), true
				}
				return AV{Kind: "sym", Sym: fmt.Sprintf("v%d", i+1)}, true
			}
			// ordered comparison between the two loaded values
			if bo, ok := v.(*ssa.BinOp); ok {
				i, j := loadOf(bo.X), loadOf(bo.Y)
				if i >= 0 && j >= 0 && i != j && !isBool {
					o := tc.ord
					if i == 1 {
						o = -o
					}
					switch bo.Op {
					case token.LSS:
						return avBool(o < 0), true
					case token.GTR:
						return avBool(o > 0), true
					case token.LEQ:
						return avBool(o <= 0), true
					case token.GEQ:
						return avBool(o >= 0), true
					case token.EQL:
						return avBool(o == 0), true
					case token.NEQ:
						return avBool(o != 0), true
					}
				}
			}
			// time comparisons: (*s1).Before(*s2) etc.
			if call, ok := v.(*ssa.Call); ok {
				if cal, _ := calleeOf(call.Common()); cal != nil && cal.Pkg() != nil && cal.Pkg().Path() == "time" && len(call.Call.Args) == 2 {
					i, j := loadOf(call.Call.Args[0]), loadOf(call.Call.Args[1])
					if i >= 0 && j >= 0 && i != j {
						o := tc.ord
						if i == 1 {
							o = -o
						}
						switch cal.Name() {
						case "Before":
							return avBool(o < 0), true
						case "After":
							return avBool(o > 0), true
						case "Equal":
							return avBool(o == 0), true
						case "Compare":
							return avInt(int64(o)), true
						}
					}
				}
			}
			return AV{}, false
		}
		// the same questions asked inside a helper the two values were handed to (compareNillable(s1, s2, forward,
		// valueOrder): there the operands are the helper's parameters, known by the names given above)
		symSide := func(a AV) int {
			if a.Kind != "sym" || a.Neg || a.Off != 0 {
				return -1
			}
			switch a.Sym {
			case "v1":
				return 0
			case "v2":
				return 1
			}
			return -1
		}
		savedCmp, savedCall := decideSymCompare, decideSymCall
		decideSymCompare = func(a, b AV, op token.Token) (bool, bool) {
			i, j := symSide(a), symSide(b)
			if i < 0 || j < 0 || i == j || isBool {
				return false, false
			}
			o := tc.ord
			if i == 1 {
				o = -o
			}
			switch op {
			case token.LSS:
				return o < 0, true
			case token.GTR:
				return o > 0, true
			case token.LEQ:
				return o <= 0, true
			case token.GEQ:
				return o >= 0, true
			case token.EQL:
				return o == 0, true
			case token.NEQ:
				return o != 0, true
			}
			return false, false
		}
		decideSymCall = func(callee *types.Func, args []AV) (AV, bool) {
			if callee.Pkg() == nil || callee.Pkg().Path() != "time" || len(args) != 2 {
				return AV{}, false
			}
			i, j := symSide(args[0]), symSide(args[1])
			if i < 0 || j < 0 || i == j {
				return AV{}, false
			}
			o := tc.ord
			if i == 1 {
				o = -o
			}
			switch callee.Name() {
			case "Before":
				return avBool(o < 0), true
			case "After":
				return avBool(o > 0), true
			case "Equal":
				return avBool(o == 0), true
			case "Compare":
				return avInt(int64(o)), true
			}
			return AV{}, false
		}
		res, err := Decide(fn, oracle, nil)
		decideSymCompare, decideSymCall = savedCmp, savedCall
		desc := fmt.Sprintf("nil1=%v nil2=%v ord=%d forward=%v", tc.nil1, tc.nil2, tc.ord, tc.forward)
		if err != "" {
			c.Undecided(rule, name+": case "+desc, p.Pos(fn.Pos()), "not loop-free-decidable: "+err)
			continue
		}
		want := int64(0)
		switch {
		case tc.nil1 && tc.nil2:
			want = 0
		case tc.nil1:
			want = -1
		case tc.nil2:
			want = 1
		default:
			want = int64(tc.ord)
		}
		if !tc.forward {
			want = -want
		}
		got, ok := int64(0), false
		if len(res) == 1 && res[0].Kind == "const" {
			got, ok = constant.Int64Val(res[0].C)
		}
		if ok && got == want {
			nOK++
		} else {
			c.Bad(rule, name+": case "+desc, p.Pos(fn.Pos()), fmt.Sprintf("comparator returns %v, the documented order (nulls first when ascending, sign of the ordering, negated when descending) requires %d", res, want))
		}
	}
	if nOK == len(cases) {
		c.OK(rule, name, p.Pos(fn.Pos()), fmt.Sprintf("decision table complete: %d/%d abstract cases (nil×nil×ordering×direction) give the documented result", nOK, len(cases)))
	}
}

// reachesParam: v is computed from parameter prm (through calls, extracts, loads).
func reachesParam(v ssa.Value, prm ssa.Value, depth int) bool {
	if depth > 6 || v == nil {
		return false
	}
	if v == prm {
		return true
	}
	switch x := v.(type) {
	case *ssa.Call:
		if x.Call.IsInvoke() && reachesParam(x.Call.Value, prm, depth+1) {
			return true
		}
		for _, a := range x.Call.Args {
			if reachesParam(a, prm, depth+1) {
				return true
			}
		}
	case *ssa.Extract:
		return reachesParam(x.Tuple, prm, depth+1)
	case *ssa.UnOp:
		return reachesParam(x.X, prm, depth+1)
	case *ssa.MakeInterface:
		return reachesParam(x.X, prm, depth+1)
	case *ssa.ChangeInterface:
		return reachesParam(x.X, prm, depth+1)
	case *ssa.Phi:
		for _, e := range x.Edges {
			if reachesParam(e, prm, depth+1) {
				return true
			}
		}
	}
	return false
}

// ruleIdTieBreak: newRowComparator appends the "id" ascending sort field before building comparators.
func ruleIdTieBreak(c *Ctx, rule string, fn *ssa.Function) {
	p := c.P
	name := FnName(fn)
	c.Analysed(name)
	mk := p.Func("ast", "NewSortFieldNode")
	var site *ssa.Call
	for _, call := range callsIn(fn) {
		if isCallTo(call, mk) {
			site, _ = call.(*ssa.Call)
		}
	}
	ok := site != nil
	why := "no ast.NewSortFieldNode(\"id\", true) appended to the sort fields"
	if ok {
		k, isK := site.Call.Args[0].(*ssa.Const)
		asc, isB := boolConst(site.Call.Args[1])
		ok = isK && k.Value != nil && constant.StringVal(k.Value) == "id" && isB && asc
		why = "the appended tie-break field is not (\"id\", ascending)"
		// appended to the parameter slice, and the loop ranges over the result of that append
		if ok {
			appended := false
			for _, b := range fn.Blocks {
				for _, in := range b.Instrs {
					if call, isCall := in.(*ssa.Call); isCall {
						if bi, isBi := call.Call.Value.(*ssa.Builtin); isBi && bi.Name() == "append" && call.Call.Args[0] == ssa.Value(fn.Params[1]) {
							// loop over it
							for _, r := range *call.Referrers() {
								if lc, isLen := r.(*ssa.Call); isLen {
									if b2, isB2 := lc.Call.Value.(*ssa.Builtin); isB2 && b2.Name() == "len" {
										appended = true
									}
								}
							}
						}
					}
				}
			}
			ok = appended && site.Block() == fn.Blocks[0]
			why = "the id tie-break is not appended unconditionally before the comparator loop"
			// nothing may cut the extended list again (the tie-break is its last element)
			if ok {
				derived := map[ssa.Value]bool{}
				for _, b := range fn.Blocks {
					for _, in := range b.Instrs {
						if call, isCall := in.(*ssa.Call); isCall {
							if bi, isBi := call.Call.Value.(*ssa.Builtin); isBi && bi.Name() == "append" && call.Call.Args[0] == ssa.Value(fn.Params[1]) {
								derived[call] = true
							}
						}
					}
				}
				for changed := true; changed; {
					changed = false
					for _, b := range fn.Blocks {
						for _, in := range b.Instrs {
							if phi, isPhi := in.(*ssa.Phi); isPhi && !derived[phi] {
								for _, e := range phi.Edges {
									if derived[e] {
										derived[phi] = true
										changed = true
									}
								}
							}
						}
					}
				}
				for _, b := range fn.Blocks {
					for _, in := range b.Instrs {
						if sl, isSl := in.(*ssa.Slice); isSl && derived[sl.X] && sl.High != nil {
							ok = false
							why = "the extended sort list is cut again at " + p.Pos(sl.Pos()) + " after the id tie-break was appended: with enough sort fields the tie-break is dropped and rows that tie on the rest collapse into one"
						}
					}
				}
			}
		}
	}
	c.Check(ok, rule, name, p.Pos(fn.Pos()), "(\"id\", ascending) is appended unconditionally and the comparator loop ranges over the extended list", why)
}

// ruleRowComparatorFirstNonZero: the compound comparator returns the first non-zero result of its field
// comparators, in order, and zero when all of them tie — decided by running the function over three field
// comparators whose results are given (however the loop is written: range with an early return, an index loop
// with the result in the condition, a flag).
func ruleRowComparatorFirstNonZero(c *Ctx, rule string, fn *ssa.Function) {
	p := c.P
	name := FnName(fn)
	c.Analysed(name)
	ok, why, undecided := true, "", ""
	for _, sc := range []struct {
		results []int64
		want    int64
	}{
		{[]int64{0, 5, 9}, 5},
		{[]int64{0, 0, 0}, 0},
		{[]int64{-3, 1, 1}, -3},
		{[]int64{0, 0, -7}, -7},
		{nil, 0},
	} {
		k := 0
		oracle := func(v ssa.Value) (AV, bool) {
			call, isCall := v.(*ssa.Call)
			if !isCall {
				return AV{}, false
			}
			if bi, isB := call.Call.Value.(*ssa.Builtin); isB && bi.Name() == "len" {
				return avInt(int64(len(sc.results))), true
			}
			// a field comparator's verdict: the k-th one asked
			isInt := false
			if b, okB := call.Type().Underlying().(*types.Basic); okB && b.Kind() == types.Int {
				isInt = true
			}
			if isInt && (call.Call.IsInvoke() || call.Call.StaticCallee() == nil) && len(call.Call.Args) == 2 {
				if k < len(sc.results) {
					k++
					return avInt(sc.results[k-1]), true
				}
				k++
				return avInt(0), true
			}
			return AV{}, false
		}
		res, err := Decide(fn, oracle, nil)
		if err != "" || len(res) != 1 || res[0].Kind != "const" {
			if err == "" {
				err = "the result is not a decided constant"
			}
			undecided = fmt.Sprintf("field results %v: %s", sc.results, err)
			continue
		}
		got, _ := constant.Int64Val(res[0].C)
		if got != sc.want {
			ok = false
			why = fmt.Sprintf("with field comparators answering %v the compound comparator returns %d, expected %d (the first non-zero answer in order, 0 when all tie): the sort order of rows is not the lexicographic order of the sort fields", sc.results, got, sc.want)
		}
		if k > len(sc.results) {
			ok = false
			why = fmt.Sprintf("with %d field comparators the compound comparator asks for a %d-th verdict", len(sc.results), k)
		}
	}
	if ok && undecided != "" {
		c.Undecided(rule, name, p.Pos(fn.Pos()), "the compound comparator could not be evaluated: "+undecided)
		return
	}
	c.Check(ok, rule, name, p.Pos(fn.Pos()), "returns the first non-zero answer of the field comparators in order, zero when all tie (decided for 0 and 3 field comparators, five answer patterns)", why)
}

// ---- PARSE -------------------------------------------------------------------------------------------

func ruleC02Parse(c *Ctx) {
	p := c.P
	intConst := p.Named("ast", "Int64ConstNode")
	for _, pr := range []struct{ m, t string }{{"ExitSkipExpr", "SkipExprNode"}, {"ExitLimitExpr", "LimitExprNode"}} {
		fn := p.SSAFunc(p.Method("ast", "ToBoltListener", pr.m))
		c.Analysed(FnName(fn))
		fi := ComputeFacts(fn)
		push := p.Method("ast", "ToBoltListener", "pushStack")
		ok, n := true, 0
		for _, call := range callsIn(fn) {
			if !isCallTo(call, push) {
				continue
			}
			n++
			// under a successful comma-ok assertion to *Int64ConstNode
			if !fi.HoldsWhere(call.Block(), func(f Fact) bool {
				ex, isEx := f.V.(*ssa.Extract)
				if f.Kind != "true" || !f.Pol || !isEx || ex.Index != 1 {
					return false
				}
				ta, isTA := ex.Tuple.(*ssa.TypeAssert)
				return isTA && namedOf(ta.AssertedType) == intConst
			}) {
				ok = false
			}
		}
		c.Check(ok && n > 0, "C02.PARSE", FnName(fn), p.Pos(fn.Pos()), "pushes the "+pr.t+" only for an integer constant operand", "accepts a non-integer skip/limit operand")
	}
	// NONE -> -1
	vt := p.SSAFunc(p.Method("ast", "ToBoltListener", "VisitTerminal"))
	c.Analysed(FnName(vt))
	noneTok := constInt(p.Obj("zitiql", "ZitiQlLexerNONE"))
	okNone := false
	fi := ComputeFacts(vt)
	for _, b := range vt.Blocks {
		for _, in := range b.Instrs {
			st, ok := in.(*ssa.Store)
			if !ok {
				continue
			}
			if f, base := fieldOfAddr(st.Addr); f != nil && f.Name() == "value" && namedOf(base.Type()) == intConst {
				if k, ok := st.Val.(*ssa.Const); ok && k.Value != nil {
					if n, _ := constant.Int64Val(k.Value); n == -1 {
						// under token type == NONE
						if fi.HoldsWhere(b, func(f Fact) bool {
							bo, isB := f.V.(*ssa.BinOp)
							if f.Kind != "true" || !f.Pol || !isB || bo.Op != token.EQL {
								return false
							}
							kk, isK := bo.Y.(*ssa.Const)
							if !isK || kk.Value == nil {
								return false
							}
							v, _ := constant.Int64Val(kk.Value)
							return v == noneTok
						}) {
							okNone = true
						}
					}
				}
			}
		}
	}
	// ... wherever the mapping is written (a switch, a dispatch table, a handler a factory built): decided by
	// running VisitTerminal for the NONE token and looking at what it pushes
	push := p.Method("ast", "ToBoltListener", "pushStack")
	noneOracle := func(v ssa.Value) (AV, bool) {
		if call, isCall := v.(*ssa.Call); isCall {
			if invokeNamed(call, "GetTokenType") {
				return avInt(noneTok), true
			}
			if invokeNamed(call, "HasError") {
				return avBool(false), true
			}
		}
		if u, isU := v.(*ssa.UnOp); isU && u.Op == token.MUL {
			if f, base := loadedField(u); f != nil && base == ssa.Value(vt.Params[0]) {
				if bt, isB := f.Type().Underlying().(*types.Basic); isB && bt.Kind() == types.Bool {
					return avBool(false), true // debug printing switches of the listener
				}
			}
		}
		return AV{}, false
	}
	evs, derr := DecideCalls(vt, noneOracle, func(ci ssa.CallInstruction) bool { return isCallTo(ci, push) })
	if derr == "" {
		valueIdx := ".f?"
		if st, isSt := intConst.Underlying().(*types.Struct); isSt {
			for i := 0; i < st.NumFields(); i++ {
				if st.Field(i).Name() == "value" {
					valueIdx = fmt.Sprintf(".f%d", i)
				}
			}
		}
		okNone = false
		if len(evs) == 1 {
			ev := evs[0]
			last := len(ev.Args) - 1
			if last >= 0 && ev.ArgTypes[last] != nil && namedOf(ev.ArgTypes[last]) == intConst {
				if v, has := ev.ArgFields[last][valueIdx]; has && v.Kind == "const" {
					if k, exact := constant.Int64Val(v.C); exact && k == -1 {
						okNone = true
					}
				}
			}
		}
	} else if !okNone {
		c.Undecided("C02.PARSE", FnName(vt)+": NONE", p.Pos(vt.Pos()), "what VisitTerminal pushes for the NONE token could not be decided: "+derr)
		return
	}
	c.Check(okNone, "C02.PARSE", FnName(vt)+": NONE", p.Pos(vt.Pos()), "the NONE token is turned into the -1 marker (unbounded)", "LIMIT NONE is not mapped to the -1 'unbounded' marker")
	// pop order in ExitQueryStmt: limit, skip, sortBy, predicate
	eq := p.SSAFunc(p.Method("ast", "ToBoltListener", "ExitQueryStmt"))
	c.Analysed(FnName(eq))
	order := []string{"LimitExprNode", "SkipExprNode", "SortByNode"}
	var asserts []*ssa.TypeAssert
	for _, want := range order {
		var found *ssa.TypeAssert
		for _, b := range eq.Blocks {
			for _, in := range b.Instrs {
				if ta, ok := in.(*ssa.TypeAssert); ok && ta.CommaOk {
					if n := namedOf(ta.AssertedType); n != nil && n.Obj().Name() == want {
						found = ta
					}
				}
			}
		}
		asserts = append(asserts, found)
	}
	okOrder := true
	whyOrder := ""
	for i, ta := range asserts {
		if ta == nil {
			okOrder, whyOrder = false, "no type test for "+order[i]
			break
		}
		if i > 0 {
			prev := asserts[i-1]
			ri := reachWithout(eq, func(in ssa.Instruction) bool { return in == ssa.Instruction(prev) })
			if ri.Reaches(ta) {
				okOrder, whyOrder = false, order[i]+" can be popped before "+order[i-1]
			}
		}
	}
	c.Check(okOrder, "C02.PARSE", FnName(eq)+": pop order", p.Pos(eq.Pos()), "limit, skip and sort are taken off the stack in the reverse of the grammar order, each optional", whyOrder)
	c.Floor("C02.PARSE", 4)
}

// ---- scanner choice / unpaged step -------------------------------------------------------------------------

func ruleC02Scanner(c *Ctx) {
	p := c.P
	// the counting loop of uniqueIndexScanner.ScanCursor advances with nextUnpaged, never with the paged Next
	sc := p.SSAFunc(p.Method("boltz", "uniqueIndexScanner", "ScanCursor"))
	c.Analysed(FnName(sc))
	// stated on effects, not on helper names: the counting scan ends when the scanner's current row
	// becomes nil.  Nowhere in what the counting loop executes (its own body and the functions it calls
	// statically, helpers expanded) may that marker be cleared under a condition that depends on a
	// paging value — a step that stops at the limit truncates the total.
	limitF, offsetF := pagingFields(c, "boltz")
	isPagingLoad := func(v ssa.Value) bool {
		u, ok := v.(*ssa.UnOp)
		if !ok || u.Op != token.MUL {
			return false
		}
		f, _ := loadedField(u)
		return f != nil && (sameVar(f, limitF) || sameVar(f, offsetF) || f.Name() == "collected")
	}
	var dependsOnPaging func(v ssa.Value, depth int) bool
	dependsOnPaging = func(v ssa.Value, depth int) bool {
		if v == nil || depth > 5 {
			return false
		}
		if isPagingLoad(v) {
			return true
		}
		switch x := v.(type) {
		case *ssa.BinOp:
			return dependsOnPaging(x.X, depth+1) || dependsOnPaging(x.Y, depth+1)
		case *ssa.UnOp:
			return dependsOnPaging(x.X, depth+1)
		case *ssa.Phi:
			for _, e := range x.Edges {
				if dependsOnPaging(e, depth+1) {
					return true
				}
			}
		}
		return false
	}
	curFld := p.Field("boltz", "uniqueIndexScanner", "current")
	// clearsUnderPaging: a feasible path in fn reaches `scanner.current = nil` after taking a branch on a
	// paging-dependent condition
	clearsUnderPaging := func(fn *ssa.Function, startBlock *ssa.BasicBlock, within func(*ssa.BasicBlock) bool) (bool, string) {
		fi := factsOf(fn)
		for _, b := range fn.Blocks {
			if within != nil && !within(b) {
				continue
			}
			for _, in := range b.Instrs {
				st, ok := in.(*ssa.Store)
				if !ok || !isNilConst(st.Val) {
					continue
				}
				if f, _ := fieldOfAddr(st.Addr); !sameVar(f, curFld) {
					continue
				}
				// the store is governed by a paging-dependent condition (a fact that holds on every path
				// to it) and is feasibly reachable
				governed := fi.HoldsWhere(b, func(f Fact) bool { return f.Kind == "true" && dependsOnPaging(f.V, 0) })
				if !governed {
					continue
				}
				reach := &pathSearch{fn: fn, fi: fi, start: startBlock, target: func(x ssa.Instruction) bool { return x == ssa.Instruction(st) }}
				if within != nil {
					reach.skipEdge = func(from, to *ssa.BasicBlock) bool { return !within(to) }
				}
				if reach.run() {
					return true, p.Pos(st.Pos())
				}
			}
		}
		return false, ""
	}
	loops := loopsOf(sc)
	var countLoop *Loop
	for _, b := range sc.Blocks {
		for _, in := range b.Instrs {
			if bo, ok := in.(*ssa.BinOp); ok && bo.Op == token.ADD {
				if k, isK := bo.Y.(*ssa.Const); isK && k.Value != nil && k.Value.ExactString() == "1" && types.Identical(bo.Type().Underlying(), types.Typ[types.Int64]) {
					if l := innermostLoop(loops, b); l != nil {
						countLoop = l
					}
				}
			}
		}
	}
	okCount, whyCount := countLoop != nil, "no counting loop found in the scan"
	if okCount {
		if bad, where := clearsUnderPaging(sc, countLoop.Header, func(b *ssa.BasicBlock) bool { return countLoop.Blocks[b] }); bad {
			okCount, whyCount = false, "inside the counting loop the scanner's current row is cleared at "+where+" under a condition on a paging value"
		}
		seenF := map[*ssa.Function]bool{}
		var visit func(f *ssa.Function, depth int)
		visit = func(f *ssa.Function, depth int) {
			if f == nil || f.Blocks == nil || seenF[f] || depth > 3 || !okCount {
				return
			}
			seenF[f] = true
			if bad, where := clearsUnderPaging(f, f.Blocks[0], nil); bad {
				okCount, whyCount = false, "the counting scan advances through "+FnName(f)+", which clears the current row at "+where+" under a condition on a paging value: it stops at the limit, so the total would be truncated"
				return
			}
			for _, k := range callsIn(f) {
				if !k.Common().IsInvoke() {
					visit(k.Common().StaticCallee(), depth+1)
				}
			}
		}
		for b := range countLoop.Blocks {
			for _, in := range b.Instrs {
				if call, ok := in.(ssa.CallInstruction); ok && !call.Common().IsInvoke() {
					visit(call.Common().StaticCallee(), 0)
				}
			}
		}
	}
	c.Check(okCount, "C02.COUNT", FnName(sc)+": unpaged step", p.Pos(sc.Pos()), "nothing the counting loop executes (body and static callees) clears the scanner's current row under a paging-dependent condition", whyCount)
	// NewScanner: id order -> uniqueIndexScanner with matching direction, otherwise sortingScanner
	ns := p.SSAFunc(p.Method("boltz", "BaseStore", "NewScanner"))
	c.Analysed(FnName(ns))
	nUI, nSort := 0, 0
	for _, r := range returnsOf(ns) {
		if mi, ok := r.Results[0].(*ssa.MakeInterface); ok {
			switch namedOf(mi.X.Type()).Obj().Name() {
			case "uniqueIndexScanner":
				nUI++
			case "sortingScanner":
				nSort++
			}
		}
	}
	c.Check(nUI >= 1 && nSort >= 1, "C02.SCANNER", FnName(ns), p.Pos(ns.Pos()), fmt.Sprintf("chooses between the id-order scanner (%d returns) and the sorting scanner (%d)", nUI, nSort), "scanner choice lost one of its strategies")
	_ = strings.TrimSpace
}
