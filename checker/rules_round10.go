package main

import (
	"go/constant"
	"go/token"
	"go/types"
	"strings"

	"golang.org/x/tools/go/ssa"
)

// Rules added after the tenth round of seeded changes.

// sameSource: two values are the same computation — the same SSA value, or loads of the same field of the same
// base (go/ssa does no common-subexpression elimination: index.symbol read twice is two loads).
func sameSource(a, b ssa.Value) bool {
	if a == b {
		return true
	}
	fa, ba := loadedField(a)
	fb, bb := loadedField(b)
	return fa != nil && fb != nil && sameVar(fa, fb) && (ba == bb || sameSourceShallow(ba, bb))
}

func sameSourceShallow(a, b ssa.Value) bool {
	if a == b {
		return true
	}
	fa, ba := loadedField(a)
	fb, bb := loadedField(b)
	return fa != nil && fb != nil && sameVar(fa, fb) && ba == bb
}

// ruleRefStore: a reference read from an entity through a symbol (the value part of S.Eval) names an entity of
// the store the symbol LINKS TO, not of the store the symbol belongs to.  Asking S.GetStore() whether the
// referenced id exists is right only for a self-referential field (where both are the same store) — for a field
// pointing at another store every valid reference is reported dangling (and nulled in fix mode), and a dangling
// one that happens to be an id of the owning store goes unreported.
func ruleRefStore(c *Ctx, rule string) {
	p := c.P
	n := 0
	for _, fn := range c.prodFuncs("boltz") {
		for _, call := range callsIn(fn) {
			if !invokeNamed(call, "IsEntityPresent") || !call.Common().IsInvoke() || len(call.Common().Args) != 2 {
				continue
			}
			cv, isConv := call.Common().Args[1].(*ssa.Convert)
			if !isConv {
				continue
			}
			ex, isEx := cv.X.(*ssa.Extract)
			if !isEx || ex.Index != 1 {
				continue
			}
			src, isCall := ex.Tuple.(*ssa.Call)
			if !isCall || !invokeNamed(src, "Eval") || !src.Call.IsInvoke() {
				continue
			}
			n++
			c.Analysed(FnName(fn))
			asked, isAsked := call.Common().Value.(*ssa.Call)
			own := isAsked && asked.Call.IsInvoke() && asked.Call.Method.Name() == "GetStore" && sameSource(asked.Call.Value, src.Call.Value)
			c.Check(!own, rule, FnName(fn)+": "+describeInstr(call), p.Pos(call.Pos()), "the reference value is looked up in a store other than the one the field belongs to (the linked type)",
				"the reference read through a symbol is looked up in that same symbol's own store (GetStore()), not in the store it links to (GetLinkedType()): for a field that points at another store every valid reference is reported dangling — and nulled in fix mode — and a dangling one that is an id of the owning store goes unreported")
		}
	}
	c.CallSites(n)
	c.Floor(rule, 2)
}

// ruleToFloatIdentity: a node type that is itself a float64 node (it has EvalFloat64) converts to float64 as
// itself — or as something that evaluates through its EvalFloat64.  A wrapper that evaluates through EvalInt64
// reads the stored value as an integer: for the untyped (map/tags) symbol a value stored as float64 then reads
// as null and every comparison against a float operand is decided on a null operand.
func ruleToFloatIdentity(c *Ctx, rule string) {
	p := c.P
	n := 0
	for _, fn := range c.prodFuncs("ast") {
		if fn.Parent() != nil || fn.Name() != "ToFloat64" || fn.Signature.Recv() == nil || len(fn.Params) != 1 {
			continue
		}
		recvT := fn.Signature.Recv().Type()
		ms := types.NewMethodSet(recvT)
		hasF, hasI := false, false
		for i := 0; i < ms.Len(); i++ {
			switch ms.At(i).Obj().Name() {
			case "EvalFloat64":
				hasF = true
			case "EvalInt64":
				hasI = true
			}
		}
		if !hasF || !hasI {
			continue
		}
		n++
		name := FnName(fn)
		c.Analysed(name)
		ok, why := true, ""
		for _, r := range returnsOf(fn) {
			if len(r.Results) != 1 {
				continue
			}
			ts, known := possibleDynTypes(r.Results[0], 0)
			if !known {
				continue // cannot be followed: not decided here
			}
			for _, t := range ts {
				if types.Identical(t, recvT) {
					continue
				}
				dms := types.NewMethodSet(t)
				sel := dms.Lookup(fn.Pkg.Pkg, "EvalFloat64")
				if sel == nil {
					continue
				}
				ef := p.SSA.MethodValue(sel)
				if ef == nil || ef.Blocks == nil {
					continue
				}
				viaInt, viaFloat := false, false
				for _, k := range callsIn(ef) {
					if invokeNamed(k, "EvalInt64") {
						viaInt = true
					}
					if invokeNamed(k, "EvalFloat64") {
						viaFloat = true
					}
				}
				if viaInt && !viaFloat {
					ok = false
					why = "the node is a float64 node itself (it has EvalFloat64) but converts to " + types.TypeString(t, func(*types.Package) string { return "" }) + ", which evaluates through EvalInt64: a value stored as float64 reads as null through the integer reading, so comparisons of the untyped symbol against float operands are decided on a null operand"
				}
			}
		}
		c.Check(ok, rule, name, p.Pos(fn.Pos()), "a node that already is a float64 node converts to itself (or to something evaluating its EvalFloat64)", why)
	}
	c.CallSites(n)
	c.Floor(rule, 1)
}

// ruleRawEntitiesCursor: the ids a store hands out are those of ITS entities.  The entities bucket of a child
// store is the parent's: a cursor straight over that bucket enumerates the parent's rows too.  Every id cursor a
// store returns therefore goes through the scanner that drops rows without child data (decided by SCANFILTER) —
// a raw cursor over the entities bucket may only be returned where the store is known not to be a child store.
func ruleRawEntitiesCursor(c *Ctx, rule string) {
	p := c.P
	getEntities := p.Method("boltz", "BaseStore", "GetEntitiesBucket")
	tb := p.Named("boltz", "TypedBucket")
	n := 0
	for _, fn := range c.prodFuncs("boltz") {
		if fn.Parent() != nil || fn.Blocks == nil || fn.Signature.Recv() == nil || fn.Signature.Results().Len() != 1 || !isSetCursorIface(fn.Signature.Results().At(0).Type()) {
			continue
		}
		if rn := namedOf(fn.Signature.Recv().Type()); rn == nil || rn.Obj().Name() != "BaseStore" {
			continue
		}
		n++
		name := FnName(fn)
		c.Analysed(name)
		var fi *FactInfo
		ok, why := true, ""
		fromEntities := func(v ssa.Value) bool {
			seen := map[ssa.Value]bool{}
			var walk func(v ssa.Value, d int) bool
			walk = func(v ssa.Value, d int) bool {
				if v == nil || d > 6 || seen[v] {
					return false
				}
				seen[v] = true
				switch x := v.(type) {
				case *ssa.Call:
					if isCallTo(x, getEntities) {
						return true
					}
				case *ssa.Phi:
					for _, e := range x.Edges {
						if walk(e, d+1) {
							return true
						}
					}
				case *ssa.Extract:
					return walk(x.Tuple, d+1)
				}
				return false
			}
			return walk(v, 0)
		}
		for _, r := range returnsOf(fn) {
			seen := map[ssa.Value]bool{}
			var raw func(v ssa.Value, d int) *ssa.Call
			raw = func(v ssa.Value, d int) *ssa.Call {
				if v == nil || d > 6 || seen[v] {
					return nil
				}
				seen[v] = true
				switch x := v.(type) {
				case *ssa.MakeInterface:
					return raw(x.X, d+1)
				case *ssa.ChangeInterface:
					return raw(x.X, d+1)
				case *ssa.Phi:
					for _, e := range x.Edges {
						if k := raw(e, d+1); k != nil {
							return k
						}
					}
				case *ssa.Call:
					if x.Call.IsInvoke() || len(x.Call.Args) == 0 {
						return nil
					}
					cal, _ := calleeOf(&x.Call)
					if cal == nil {
						return nil
					}
					sig, _ := cal.Type().(*types.Signature)
					if sig == nil || sig.Recv() == nil || namedOf(sig.Recv().Type()) != tb {
						return nil
					}
					if fromEntities(x.Call.Args[0]) {
						return x
					}
				}
				return nil
			}
			k := raw(r.Results[0], 0)
			if k == nil {
				continue
			}
			if fi == nil {
				fi = factsOf(fn)
			}
			notChild := func(b *ssa.BasicBlock) bool {
				return fi.HoldsWhere(b, func(f Fact) bool {
					call, isCall := f.V.(*ssa.Call)
					return f.Kind == "true" && isCall && ((invokeNamed(call, "IsChildStore") && !f.Pol) || (invokeNamed(call, "IsExtended") && f.Pol))
				})
			}
			if notChild(r.Block()) || notChild(k.Block()) {
				continue
			}
			ok = false
			why = "the cursor returned at " + p.Pos(r.Pos()) + " is opened straight over the store's entities bucket (" + describeInstr(k) + "): for a child store that bucket is the parent's, so ids of plain parent entities are handed out as the child store's"
		}
		c.Check(ok, rule, name, p.Pos(fn.Pos()), "no cursor straight over the entities bucket is handed out (ids go through the scanner that drops rows without child data)", why)
	}
	c.CallSites(n)
	c.Floor(rule, 1)
}

// comparatorTypes: the struct types of pkg with the comparator method and a direction field.
func comparatorTypes(c *Ctx, pkg, method string) map[*types.Named]*types.Var {
	out := map[*types.Named]*types.Var{}
	var dirs map[*types.Var]map[bool]AV
	for _, fn := range c.prodFuncs(pkg) {
		if fn.Parent() != nil || fn.Signature.Recv() == nil || fn.Name() != method || len(fn.Params) != 3 {
			continue
		}
		recv := namedOf(fn.Signature.Recv().Type())
		if recv == nil {
			continue
		}
		st, ok := recv.Underlying().(*types.Struct)
		if !ok {
			continue
		}
		var fwd *types.Var
		for i := 0; i < st.NumFields(); i++ {
			if st.Field(i).Name() == "forward" && types.Identical(st.Field(i).Type(), types.Typ[types.Bool]) {
				fwd = st.Field(i)
			}
		}
		if fwd == nil {
			if dirs == nil {
				dirs = comparatorDirections(c, pkg)
			}
			for i := 0; i < st.NumFields(); i++ {
				if _, has := dirs[st.Field(i).Origin()]; has {
					fwd = st.Field(i)
				}
			}
		}
		if fwd != nil {
			out[recv] = fwd
		}
	}
	return out
}

// ruleComparatorDirectionSet: every field comparator that is built is told its direction.  The direction field
// left at its zero value means "descending" whatever the query says.
func ruleComparatorDirectionSet(c *Ctx, rule, pkg, method string) {
	p := c.P
	cts := comparatorTypes(c, pkg, method)
	n := 0
	if w := reversingWrapper(c, pkg, method); w != nil && len(cts) == 0 {
		// the comparators know ascending order only; descending is a wrapper that negates: it is put around a
		// comparator exactly where the sort field is not ascending
		for _, fn := range c.prodFuncs(pkg) {
			var fi *FactInfo
			for _, b := range fn.Blocks {
				for _, in := range b.Instrs {
					al, isAl := in.(*ssa.Alloc)
					if !isAl || namedOf(al.Type()) != w {
						continue
					}
					if fi == nil {
						fi = factsOf(fn)
					}
					n++
					c.Analysed(FnName(fn))
					ok := fi.HoldsWhere(b, func(f Fact) bool {
						k, isCall := f.V.(*ssa.Call)
						return f.Kind == "true" && !f.Pol && isCall && invokeNamed(k, "IsAscending")
					})
					c.Check(ok, rule, FnName(fn)+": wraps in "+w.Obj().Name(), p.Pos(al.Pos()), "the reversing wrapper is put around a comparator exactly where IsAscending() answered false", "the reversing wrapper is applied on a path where the sort field was not established to be descending: the direction the query asks for is not the one the rows are ordered in")
				}
			}
		}
		// the plain comparators: decided for ascending order by CMP
		for _, fn := range c.prodFuncs(pkg) {
			if fn.Parent() != nil || fn.Signature.Recv() == nil || fn.Name() != method || len(fn.Params) != 3 {
				continue
			}
			if rn := namedOf(fn.Signature.Recv().Type()); rn != nil && rn != w {
				if stt, isStruct := rn.Underlying().(*types.Struct); isStruct && len(fn.Blocks) > 1 && !hasSliceField(stt) {
					n++
					c.OK(rule, FnName(fn)+": direction", p.Pos(fn.Pos()), "the comparator knows ascending order only; descending order is the reversing wrapper's")
				}
			}
		}
		c.CallSites(n)
		c.Floor(rule, 3)
		return
	}
	for _, fn := range c.prodFuncs(pkg) {
		for _, b := range fn.Blocks {
			for _, in := range b.Instrs {
				al, isAl := in.(*ssa.Alloc)
				if !isAl {
					continue
				}
				nm := namedOf(al.Type())
				fwd := cts[nm]
				if nm == nil || fwd == nil {
					continue
				}
				n++
				c.Analysed(FnName(fn))
				set, constant := false, false
				if refs := al.Referrers(); refs != nil {
					for _, r := range *refs {
						fa, isFA := r.(*ssa.FieldAddr)
						if !isFA {
							continue
						}
						if f, _ := fieldOfAddr(fa); !sameVar(f, fwd) {
							continue
						}
						if fr := fa.Referrers(); fr != nil {
							for _, u := range *fr {
								if st, isSt := u.(*ssa.Store); isSt && st.Addr == ssa.Value(fa) {
									set = true
									if _, isK := st.Val.(*ssa.Const); isK {
										constant = true
									}
								}
							}
						}
					}
				}
				why := ""
				switch {
				case !set:
					why = "the comparator is built without its direction field " + fwd.Name() + " being set: it stays at the zero value, so sorting by this field type is descending whatever the query says"
				case constant:
					why = "the direction field " + fwd.Name() + " is set to a constant: sorting by this field type ignores the direction the query asks for"
				}
				c.Check(set && !constant, rule, FnName(fn)+": builds "+nm.Obj().Name(), p.Pos(al.Pos()), "the direction field is set from a value", why)
			}
		}
	}
	c.CallSites(n)
	c.Floor(rule, 3)
}

// ruleComparatorDecoder: the comparator chosen for a symbol type reads the two values with the decoder of that
// type.  An int64 sort key read through the float64 decoder collapses distinct values above 2^53 into ties
// (the rows then fall back to id order); a float read as int is null.
func ruleComparatorDecoder(c *Ctx, rule, pkg, method string) {
	p := c.P
	astPkg := p.pkg("ast")
	if astPkg == nil {
		c.Undecided(rule, pkg+": comparator per symbol type", "-", "package ast not loaded")
		return
	}
	// NodeType constant value -> expected element type
	expect := map[int64]string{}
	names := map[int64]string{}
	for _, nmv := range astPkg.Types.Scope().Names() {
		k, isK := astPkg.Types.Scope().Lookup(nmv).(*types.Const)
		if !isK || !strings.HasPrefix(nmv, "NodeType") {
			continue
		}
		v, exact := constant.Int64Val(k.Val())
		if !exact {
			continue
		}
		switch strings.TrimPrefix(nmv, "NodeType") {
		case "Bool":
			expect[v] = "bool"
		case "Datetime":
			expect[v] = "time.Time"
		case "Float64":
			expect[v] = "float64"
		case "Int64":
			expect[v] = "int64"
		case "String":
			expect[v] = "string"
		}
		names[v] = nmv
	}
	n := 0
	cts := comparatorTypes(c, pkg, method)
	// one (symbol type, comparator built for it) pair
	checkPair := func(fn *ssa.Function, kval int64, al *ssa.Alloc) {
		want := expect[kval]
		nm := namedOf(al.Type())
		if nm == nil || cts[nm] == nil {
			return // not a field comparator (the compound one is built after the loop)
		}
		var cmp *ssa.Function
		ms := types.NewMethodSet(al.Type())
		for i := 0; i < ms.Len(); i++ {
			if ms.At(i).Obj().Name() == method {
				cmp = p.SSA.MethodValue(ms.At(i))
			}
		}
		if cmp == nil || cmp.Blocks == nil {
			return
		}
		n++
		got := map[string]bool{}
		seenFn := map[*ssa.Function]bool{}
		var collect func(f *ssa.Function, d int)
		collect = func(f *ssa.Function, d int) {
			if f == nil || f.Blocks == nil || seenFn[f] || d > 3 {
				return
			}
			seenFn[f] = true
			for _, k := range callsIn(f) {
				var targets []*ssa.Function
				if sc := k.Common().StaticCallee(); sc != nil {
					targets = append(targets, sc)
				} else if !k.Common().IsInvoke() {
					if fld, _ := loadedField(k.Common().Value); fld != nil {
						targets = append(targets, fieldFuncTargets(fld)...)
					}
				}
				// decoders handed on as function values (compareNullable(..., FieldToInt64))
				for _, a := range k.Common().Args {
					if fv, isF := a.(*ssa.Function); isF {
						targets = append(targets, fv)
					}
				}
				for _, t := range targets {
					if !inModule(t) {
						continue
					}
					if et := decoderElem(t); et != "" {
						got[et] = true
						continue
					}
					collect(t, d+1)
				}
			}
		}
		collect(cmp, 0)
		construct := FnName(fn) + ": " + names[kval] + " -> " + nm.Obj().Name()
		if len(got) == 0 {
			c.Undecided(rule, construct, p.Pos(al.Pos()), "cannot find the field decoder the comparator reads its values with")
			return
		}
		var others []string
		for t := range got {
			if t != want {
				others = append(others, t)
			}
		}
		c.Check(len(others) == 0, rule, construct, p.Pos(al.Pos()), "the comparator for this symbol type reads the values with the "+want+" decoder",
			"the comparator chosen for "+names[kval]+" reads the stored values with the "+strings.Join(others, "/")+" decoder instead of the "+want+" one: values that differ only beyond that type's precision (or are stored in the other encoding) compare equal or null, so rows come back in id order instead of value order")
	}
	allocsOf := func(f *ssa.Function) []*ssa.Alloc {
		var out []*ssa.Alloc
		for _, g := range allFuncsWithAnon(f) {
			for _, b := range g.Blocks {
				for _, in := range b.Instrs {
					if al, isAl := in.(*ssa.Alloc); isAl {
						out = append(out, al)
					}
				}
			}
		}
		return out
	}
	for _, fn := range c.prodFuncs(pkg) {
		if fn.Name() != "newRowComparator" || fn.Blocks == nil {
			continue
		}
		c.Analysed(FnName(fn))
		for _, b := range fn.Blocks {
			// the choice written as a table keyed by the symbol type: each entry builds the comparator of its key
			for _, in := range b.Instrs {
				lk, isLk := in.(*ssa.Lookup)
				if !isLk {
					continue
				}
				if tcall, isCall := lk.Index.(*ssa.Call); !isCall || !invokeNamed(tcall, "GetType") {
					continue
				}
				var entries []tableEntry
				if ld, isLd := lk.X.(*ssa.UnOp); isLd {
					if g, isG := ld.X.(*ssa.Global); isG {
						entries, _ = constTable(g)
					}
				}
				if k, isCall := lk.X.(*ssa.Call); isCall && len(entries) == 0 {
					// ... or built by a function of the package (generic code cannot keep it in a variable)
					if sc := k.Call.StaticCallee(); sc != nil && inModule(sc) {
						for _, sb := range sc.Blocks {
							for _, si := range sb.Instrs {
								if mu, isMU := si.(*ssa.MapUpdate); isMU {
									if kk, isK := mu.Key.(*ssa.Const); isK && kk.Value != nil {
										entries = append(entries, tableEntry{kk.Value, mu.Value})
									}
								}
							}
						}
					}
				}
				for _, e := range entries {
					kval, exact := constant.Int64Val(constant.ToInt(e.key))
					if _, known := expect[kval]; !exact || !known {
						continue
					}
					var ef *ssa.Function
					ev := e.val
					if ct, isCT := ev.(*ssa.ChangeType); isCT {
						ev = ct.X
					}
					switch v := ev.(type) {
					case *ssa.Function:
						ef = v
					case *ssa.MakeClosure:
						ef, _ = v.Fn.(*ssa.Function)
					}
					if ef == nil {
						continue
					}
					for _, al := range allocsOf(ef) {
						checkPair(fn, kval, al)
					}
					// a constructor named in the table that builds through a further constructor
					for _, k := range callsIn(ef) {
						if sc := k.Common().StaticCallee(); sc != nil && inModule(sc) && sc != ef {
							for _, al := range allocsOf(sc) {
								checkPair(fn, kval, al)
							}
						}
					}
				}
			}
			iff, isIf := b.Instrs[len(b.Instrs)-1].(*ssa.If)
			if !isIf {
				continue
			}
			bo, isBo := iff.Cond.(*ssa.BinOp)
			if !isBo || bo.Op != token.EQL {
				continue
			}
			tag, kv := bo.X, bo.Y
			if _, isK := tag.(*ssa.Const); isK {
				tag, kv = kv, tag
			}
			k, isK := kv.(*ssa.Const)
			tcall, isCall := tag.(*ssa.Call)
			if !isK || !isCall || k.Value == nil || !invokeNamed(tcall, "GetType") {
				continue
			}
			kval, exact := constant.Int64Val(constant.ToInt(k.Value))
			if _, known := expect[kval]; !exact || !known {
				continue
			}
			// blocks of this case: reachable from the true edge without passing the block that computes the tag
			seen := map[*ssa.BasicBlock]bool{tcall.Block(): true}
			work := []*ssa.BasicBlock{b.Succs[0]}
			for len(work) > 0 {
				x := work[len(work)-1]
				work = work[:len(work)-1]
				if seen[x] {
					continue
				}
				seen[x] = true
				for _, in := range x.Instrs {
					if al, isAl := in.(*ssa.Alloc); isAl {
						checkPair(fn, kval, al)
					}
					// built by a constructor called in this case
					if call, isCall := in.(*ssa.Call); isCall {
						if sc := call.Call.StaticCallee(); sc != nil && inModule(sc) {
							for _, al := range allocsOf(sc) {
								checkPair(fn, kval, al)
							}
						}
					}
				}
				work = append(work, x.Succs...)
			}
		}
	}
	c.CallSites(n)
	c.Floor(rule, 3)
}

// decoderElem: fn is a field decoder — (FieldType, []byte[, string]) *T — and T's name is returned.
func decoderElem(fn *ssa.Function) string {
	sig := fn.Signature
	if sig.Recv() != nil || sig.Params().Len() < 2 || sig.Params().Len() > 3 || sig.Results().Len() != 1 {
		return ""
	}
	if nm := namedOf(sig.Params().At(0).Type()); nm == nil || nm.Obj().Name() != "FieldType" {
		return ""
	}
	if sl, ok := sig.Params().At(1).Type().Underlying().(*types.Slice); !ok || !types.Identical(sl.Elem(), types.Typ[types.Byte]) {
		return ""
	}
	ptr, ok := sig.Results().At(0).Type().(*types.Pointer)
	if !ok {
		return ""
	}
	return types.TypeString(ptr.Elem(), func(p *types.Package) string { return p.Name() })
}

// singleStoreTo: the one store into a local cell (nil if there are none or several).
func singleStoreTo(cell *ssa.Alloc) *ssa.Store {
	var out *ssa.Store
	if refs := cell.Referrers(); refs != nil {
		for _, r := range *refs {
			if st, ok := r.(*ssa.Store); ok && st.Addr == ssa.Value(cell) {
				if out != nil {
					return nil
				}
				out = st
			}
		}
	}
	return out
}

// ruleScopePush: a visitor that keeps its current scope in a field and the enclosing scopes on a stack saves the
// scope it LEAVES: the value pushed is the field as it was before the new scope was stored into it.  Pushing
// after the store saves the new scope — the enclosing one is lost, and everything after the nested part is
// resolved against the nested scope.
func ruleScopePush(c *Ctx, rule string, pkgs ...string) {
	p := c.P
	n := 0
	for _, fn := range c.prodFuncs(pkgs...) {
		if fn.Signature.Recv() == nil || fn.Parent() != nil || len(fn.Params) == 0 {
			continue
		}
		recvN := namedOf(fn.Signature.Recv().Type())
		if recvN == nil {
			continue
		}
		st, isSt := recvN.Underlying().(*types.Struct)
		if !isSt {
			continue
		}
		// the scope field F (an interface) and the stack field S ([]F's type)
		var F, S *types.Var
		for i := 0; i < st.NumFields(); i++ {
			sl, isSl := st.Field(i).Type().Underlying().(*types.Slice)
			if !isSl {
				continue
			}
			if _, isIface := sl.Elem().Underlying().(*types.Interface); !isIface {
				continue
			}
			for j := 0; j < st.NumFields(); j++ {
				if j != i && types.Identical(st.Field(j).Type(), sl.Elem()) {
					// the one that is current: several fields of the type (a pending one) — the one pushed is
					// decided per push below
					S = st.Field(i)
					if F == nil {
						F = st.Field(j)
					}
				}
			}
		}
		if S == nil || F == nil {
			continue
		}
		elemT := S.Type().Underlying().(*types.Slice).Elem()
		recv := ssa.Value(fn.Params[0])
		storesS := false
		var storesF []*ssa.Store
		for _, b := range fn.Blocks {
			for _, in := range b.Instrs {
				if stI, ok := in.(*ssa.Store); ok {
					if f, base := fieldOfAddr(stI.Addr); f != nil && base == recv {
						if sameVar(f, S) {
							storesS = true
						}
						if types.Identical(f.Type(), elemT) {
							storesF = append(storesF, stI)
						}
					}
				}
			}
		}
		if !storesS || len(storesF) == 0 {
			continue
		}
		// the values packed for an append in this function: stores into elements of a local array of the scope type
		for _, b := range fn.Blocks {
			for _, in := range b.Instrs {
				stI, ok := in.(*ssa.Store)
				if !ok {
					continue
				}
				ia, isIA := stI.Addr.(*ssa.IndexAddr)
				if !isIA {
					continue
				}
				al, isAl := ia.X.(*ssa.Alloc)
				if !isAl {
					continue
				}
				arr, isArr := derefType(al.Type()).Underlying().(*types.Array)
				if !isArr || !types.Identical(arr.Elem(), elemT) {
					continue
				}
				ld, isLd := stI.Val.(*ssa.UnOp)
				if !isLd || ld.Op != token.MUL {
					continue
				}
				lf, lbase := fieldOfAddr(ld.X)
				if lf == nil || lbase != recv || !types.Identical(lf.Type(), elemT) {
					continue
				}
				n++
				c.Analysed(FnName(fn))
				// a store to that same field that can run before the load
				bad := ""
				for _, w := range storesF {
					wf, _ := fieldOfAddr(w.Addr)
					if !sameVar(wf, lf) {
						continue
					}
					before := false
					if w.Block() == ld.Block() {
						before = instrIndex(w) < instrIndex(ld)
					} else {
						before = blockReaches(w.Block(), ld.Block())
					}
					if before {
						bad = "the scope pushed at " + p.Pos(stI.Pos()) + " is read from " + lf.Name() + " after " + lf.Name() + " was already overwritten at " + p.Pos(w.Pos()) + ": the new scope is saved instead of the one being left, so the enclosing scope is never restored and everything after the nested part is resolved against the nested scope"
					}
				}
				c.Check(bad == "", rule, FnName(fn)+": scope pushed", p.Pos(stI.Pos()), "the scope saved on the stack is read before the field is overwritten", bad)
			}
		}
	}
	c.CallSites(n)
	c.Floor(rule, 1)
}

// blockReaches: b can be reached from a (by at least one edge).
func blockReaches(a, b *ssa.BasicBlock) bool {
	seen := map[*ssa.BasicBlock]bool{}
	work := append([]*ssa.BasicBlock{}, a.Succs...)
	for len(work) > 0 {
		x := work[len(work)-1]
		work = work[:len(work)-1]
		if seen[x] {
			continue
		}
		seen[x] = true
		if x == b {
			return true
		}
		work = append(work, x.Succs...)
	}
	return false
}

// ruleCowMapReadOnly: the map a copy-on-write map hands out (AsMap) is the published one, shared with every
// concurrent reader: it is only read.  Changes go through Put/Delete, which publish a new copy.
func ruleCowMapReadOnly(c *Ctx, rule string, pkgs ...string) {
	p := c.P
	n := 0
	for _, fn := range c.prodFuncs(pkgs...) {
		for _, call := range callsIn(fn) {
			cal, _ := calleeOf(call.Common())
			if cal == nil || cal.Name() != "AsMap" {
				continue
			}
			sig, _ := cal.Type().(*types.Signature)
			if sig == nil || sig.Recv() == nil {
				continue
			}
			rn := namedOf(sig.Recv().Type())
			if rn == nil || !strings.Contains(rn.Obj().Name(), "CopyOnWrite") {
				continue
			}
			v, isV := call.(ssa.Value)
			if !isV {
				continue
			}
			n++
			c.Analysed(FnName(fn))
			bad := ""
			seen := map[ssa.Value]bool{}
			var walk func(v ssa.Value, d int)
			walk = func(v ssa.Value, d int) {
				if v == nil || seen[v] || d > 5 || v.Referrers() == nil {
					return
				}
				seen[v] = true
				for _, r := range *v.Referrers() {
					switch u := r.(type) {
					case *ssa.MapUpdate:
						if u.Map == v {
							bad = "written at " + p.Pos(u.Pos())
						}
					case *ssa.Phi:
						walk(u, d+1)
					case *ssa.ChangeType:
						walk(u, d+1)
					case *ssa.Call:
						if bi, isB := u.Call.Value.(*ssa.Builtin); isB && (bi.Name() == "delete" || bi.Name() == "clear") && len(u.Call.Args) > 0 && u.Call.Args[0] == v {
							bad = "changed by " + bi.Name() + " at " + p.Pos(u.Pos())
						}
					case *ssa.Store:
						// kept in a local cell (captured by a closure): follow the loads of that cell
						if u.Val == v {
							if cell, isAl := u.Addr.(*ssa.Alloc); isAl && cell.Referrers() != nil {
								for _, cr := range *cell.Referrers() {
									if ld, isLd := cr.(*ssa.UnOp); isLd && ld.Op == token.MUL {
										walk(ld, d+1)
									}
								}
							}
						}
					}
				}
			}
			walk(v, 0)
			c.Check(bad == "", rule, FnName(fn)+": "+describeInstr(call), p.Pos(call.Pos()), "the published map is only read", "the map handed out by the copy-on-write map is the published one, shared with every concurrent reader, and it is "+bad+": a data race with (and a runtime abort of) every goroutine resolving symbols or parsing a query against this store")
		}
	}
	c.CallSites(n)
	// no floor: the sites exist only as long as the code asks for the published map; the seeded control pair
	// shows on every run that the rule still sees such a site
}

// ruleChildNotDropped: a child of a node (a field holding a node) is never overwritten with nil.  What Accept does
// not forward to, the validator never sees: a clause cleared "because evaluation does not need it" is a clause
// whose symbols are no longer checked.
func ruleChildNotDropped(c *Ctx, rule string, nts []nodeType) {
	p := c.P
	nodeIface := p.Iface("ast", "Node")
	owner := map[*types.Var]*types.Named{}
	for _, nt := range nts {
		for i := 0; i < nt.st.NumFields(); i++ {
			f := nt.st.Field(i)
			t := f.Type()
			if nodeIface != nil && (types.Implements(t, nodeIface) || types.Implements(types.NewPointer(t), nodeIface)) {
				owner[f] = nt.named
			}
		}
	}
	n, bad := 0, 0
	for _, fn := range c.prodFuncs("ast") {
		for _, b := range fn.Blocks {
			for _, in := range b.Instrs {
				st, ok := in.(*ssa.Store)
				if !ok {
					continue
				}
				f, base := fieldOfAddr(st.Addr)
				if f == nil || owner[f.Origin()] == nil {
					continue
				}
				n++
				if !isNilConst(st.Val) {
					continue
				}
				// the zero value spelled out in the literal that builds the node is not a drop
				if _, fresh := base.(*ssa.Alloc); fresh {
					continue
				}
				bad++
				c.Analysed(FnName(fn))
				c.Check(false, rule, FnName(fn)+": clears "+owner[f.Origin()].Obj().Name()+"."+f.Name(), p.Pos(st.Pos()), "", "the child "+f.Name()+" of an existing "+owner[f.Origin()].Obj().Name()+" is overwritten with nil: Accept no longer forwards the visitor to it, so the symbols of that clause are never shown to the validator (a non-public symbol used there is accepted)")
			}
		}
	}
	if bad == 0 {
		c.OK(rule, "ast: child fields of nodes", "-", "no store clears a child of an existing node")
	}
	c.CallSites(n)
	c.Floor(rule, 1)
}

// ruleChildUpdateHandled: the handler that passes an update of a parent entity on to the child store answers
// "handled" with exactly what the child store's Update answered.  The child's Update has already written the new
// values (and the parent chain's indexes) when a constraint fails after the persist — answering "not handled"
// for some failure makes the parent store run the update again on top of that partial write, where old == new
// lets the failed check pass.
func ruleChildUpdateHandled(c *Ctx, rule string) {
	p := c.P
	n := 0
	for _, fn := range c.prodFuncs("boltz") {
		if fn.Parent() != nil || fn.Name() != "HandleUpdate" || fn.Signature.Recv() == nil || fn.Signature.Results().Len() != 2 || errorResultIndex(fn.Signature) != 1 {
			continue
		}
		var upd *ssa.Call
		for _, call := range callsIn(fn) {
			if k, isCall := call.(*ssa.Call); isCall && invokeNamed(call, "Update") && call.Common().IsInvoke() {
				upd = k
			}
		}
		if upd == nil {
			continue
		}
		n++
		name := FnName(fn)
		c.Analysed(name)
		ri := reachWithoutFrom(fn, upd, func(ssa.Instruction) bool { return false })
		ok, why := true, ""
		for _, r := range returnsOf(fn) {
			if r.Block() != upd.Block() && !ri.Reaches(r) {
				continue
			}
			if r.Block() == upd.Block() && instrIndex(r) < instrIndex(upd) {
				continue
			}
			handled, isK := boolConst(r.Results[0])
			sameAnswer := r.Results[1] == ssa.Value(upd)
			if !sameAnswer && isNilConst(r.Results[1]) {
				// nil spelled out where that result is known to be nil
				sameAnswer = factsOf(fn).Holds(r.Block(), Fact{"nonnil", upd, false})
			}
			if !sameAnswer {
				ok, why = false, "a return after the child store's Update ("+p.Pos(r.Pos())+") does not answer with that Update's own result"
			} else if !isK || !handled {
				ok, why = false, "a return after the child store's Update ("+p.Pos(r.Pos())+") does not answer 'handled'"
			}
		}
		c.Check(ok, rule, name, p.Pos(upd.Pos()), "once the child store's Update has run, the handler answers (true, that Update's result)", why+": the child's Update may already have written the entity and run the parent chain's indexes when it fails after the persist; handing the update back to the parent store runs it again on top of the partial write, where the failed check sees old == new and passes")
	}
	c.CallSites(n)
	c.Floor(rule, 1)
}

// lenOf: v is len(x) (possibly converted); x is returned.
func lenOf(v ssa.Value) ssa.Value {
	for i := 0; i < 3; i++ {
		if cv, ok := v.(*ssa.Convert); ok {
			v = cv.X
		}
	}
	k, ok := v.(*ssa.Call)
	if !ok {
		return nil
	}
	if bi, isB := k.Call.Value.(*ssa.Builtin); isB && bi.Name() == "len" && len(k.Call.Args) == 1 {
		return k.Call.Args[0]
	}
	return nil
}

func intConst(v ssa.Value) (int64, bool) {
	k, ok := v.(*ssa.Const)
	if !ok || k.Value == nil || k.Value.Kind() != constant.Int {
		return 0, false
	}
	return constant.Int64Val(k.Value)
}

// lenAtLeast: the facts holding at b establish len(x) >= need.
func lenAtLeast(fi *FactInfo, b *ssa.BasicBlock, x ssa.Value, need int64) bool {
	same := func(a ssa.Value) bool { return a == x || fi.canon(a) == fi.canon(x) }
	// the small lengths excluded one by one (switch { case len == 0: …; case len == 1: …; default: here }),
	// together with the best lower bound known
	if need > 0 && need <= 8 {
		excluded := map[int64]bool{}
		lower := int64(0)
		for f := range fi.At(b) {
			bo, isB := f.V.(*ssa.BinOp)
			if f.Kind != "true" || !isB {
				continue
			}
			l, r, op := bo.X, bo.Y, bo.Op
			if _, isK := intConst(l); isK {
				l, r = r, l
				switch op {
				case token.LSS:
					op = token.GTR
				case token.LEQ:
					op = token.GEQ
				case token.GTR:
					op = token.LSS
				case token.GEQ:
					op = token.LEQ
				}
			}
			lx := lenOf(l)
			k, isK := intConst(r)
			if lx == nil || !isK || !same(lx) {
				continue
			}
			switch {
			case (op == token.EQL && !f.Pol) || (op == token.NEQ && f.Pol):
				excluded[k] = true
			case (op == token.GEQ && f.Pol) || (op == token.LSS && !f.Pol):
				if k > lower {
					lower = k
				}
			case (op == token.GTR && f.Pol) || (op == token.LEQ && !f.Pol):
				if k+1 > lower {
					lower = k + 1
				}
			}
		}
		all := true
		for v := lower; v < need; v++ {
			if !excluded[v] {
				all = false
			}
		}
		if all {
			return true
		}
	}
	return fi.HoldsWhere(b, func(f Fact) bool {
		if f.Kind != "true" {
			return false
		}
		// strings.HasPrefix(x, "lit") / HasSuffix answered true: x is at least as long as the literal
		if call, isCall := f.V.(*ssa.Call); isCall && f.Pol && len(call.Call.Args) == 2 {
			if cal, _ := calleeOf(&call.Call); cal != nil && cal.Pkg() != nil && (cal.Pkg().Path() == "strings" || cal.Pkg().Path() == "bytes") && (cal.Name() == "HasPrefix" || cal.Name() == "HasSuffix") && same(call.Call.Args[0]) {
				if k, isK := call.Call.Args[1].(*ssa.Const); isK && k.Value != nil && k.Value.Kind() == constant.String {
					return int64(len(constant.StringVal(k.Value))) >= need
				}
			}
		}
		bo, isB := f.V.(*ssa.BinOp)
		if !isB {
			return false
		}
		// x != "" (or "" != x)
		if (bo.Op == token.NEQ && f.Pol) || (bo.Op == token.EQL && !f.Pol) {
			for _, pair := range [][2]ssa.Value{{bo.X, bo.Y}, {bo.Y, bo.X}} {
				if k, isK := pair[1].(*ssa.Const); isK && k.Value != nil && k.Value.Kind() == constant.String && constant.StringVal(k.Value) == "" && same(pair[0]) {
					return need <= 1
				}
			}
		}
		op, l, r := bo.Op, bo.X, bo.Y
		if _, isK := intConst(l); isK {
			// mirror: K op len  ==  len op' K
			l, r = r, l
			switch op {
			case token.LSS:
				op = token.GTR
			case token.LEQ:
				op = token.GEQ
			case token.GTR:
				op = token.LSS
			case token.GEQ:
				op = token.LEQ
			}
		}
		lx := lenOf(l)
		k, isK := intConst(r)
		if lx == nil || !isK || (lx != x && fi.canon(lx) != fi.canon(x)) {
			return false
		}
		switch {
		case op == token.GEQ && f.Pol, op == token.LSS && !f.Pol, op == token.EQL && f.Pol, op == token.NEQ && !f.Pol:
			return k >= need
		case op == token.GTR && f.Pol, op == token.LEQ && !f.Pol:
			return k+1 >= need
		}
		return false
	})
}

// ruleStringBounds: a string cut or indexed at a constant position is known to be that long.  The texts the
// parse path handles are whatever the grammar lets through (a date-time with a one-digit year is a sentence): a
// fixed offset into such a text without a length test is an out-of-range panic for some input.
func ruleStringBounds(c *Ctx, rule string, pkgs ...string) {
	p := c.P
	n := 0
	for _, fn := range c.prodFuncs(pkgs...) {
		if p.isGenerated(fn.Pos()) {
			continue
		}
		var fi *FactInfo
		for _, b := range fn.Blocks {
			for _, in := range b.Instrs {
				var x ssa.Value
				var need int64
				what := ""
				switch s := in.(type) {
				case *ssa.Slice:
					if bt, isB := s.X.Type().Underlying().(*types.Basic); !isB || bt.Info()&types.IsString == 0 {
						continue
					}
					for _, bound := range []ssa.Value{s.Low, s.High} {
						if bound == nil {
							continue
						}
						if k, isK := intConst(bound); isK && k > need {
							need = k
						}
					}
					x, what = s.X, "cut"
				case *ssa.Lookup:
					if bt, isB := s.X.Type().Underlying().(*types.Basic); !isB || bt.Info()&types.IsString == 0 {
						continue
					}
					k, isK := intConst(s.Index)
					if !isK {
						continue
					}
					x, need, what = s.X, k+1, "indexed"
				default:
					continue
				}
				if need <= 0 {
					continue
				}
				if k, isK := x.(*ssa.Const); isK && k.Value != nil && k.Value.Kind() == constant.String {
					if int64(len(constant.StringVal(k.Value))) >= need {
						continue
					}
				}
				if fi == nil {
					fi = factsOf(fn)
				}
				n++
				c.Analysed(FnName(fn))
				ok := lenAtLeast(fi, b, x, need)
				c.Check(ok, rule, FnName(fn)+": string "+what+" at a constant position", p.Pos(in.Pos()), "the string is known to be at least that long here ("+fi.Describe(b)+")",
					"a string is "+what+" at a fixed position needing at least "+itoa64(need)+" bytes, and nothing on the way here establishes that length: for a shorter text (the grammar allows it) this is an out-of-range panic instead of an error")
			}
		}
	}
	c.CallSites(n)
}

func itoa64(n int64) string { return constant.MakeInt64(n).ExactString() }

// ruleMakeNonNeg: a slice made with a length or capacity computed by a subtraction needs the difference to be
// known non-negative: make panics on a negative size (a skip beyond the number of rows kept is the usual way to
// get one).
func ruleMakeNonNeg(c *Ctx, rule string, pkgs ...string) {
	p := c.P
	n := 0
	for _, fn := range c.prodFuncs(pkgs...) {
		if p.isGenerated(fn.Pos()) {
			continue
		}
		var fi *FactInfo
		for _, b := range fn.Blocks {
			for _, in := range b.Instrs {
				mk, ok := in.(*ssa.MakeSlice)
				if !ok {
					continue
				}
				for _, sz := range []ssa.Value{mk.Len, mk.Cap} {
					v := sz
					for i := 0; i < 3; i++ {
						if cv, isCv := v.(*ssa.Convert); isCv {
							v = cv.X
						}
					}
					sub, isSub := v.(*ssa.BinOp)
					if !isSub || sub.Op != token.SUB {
						continue
					}
					if _, isK := intConst(sub.Y); isK {
						if lenOf(sub.X) == nil {
							continue
						}
					}
					if fi == nil {
						fi = factsOf(fn)
					}
					n++
					c.Analysed(FnName(fn))
					okSz := fi.HoldsWhere(b, func(f Fact) bool {
						bo, isB := f.V.(*ssa.BinOp)
						if f.Kind != "true" || !isB {
							return false
						}
						same := func(a, b ssa.Value) bool { return a == b || fi.canon(a) == fi.canon(b) || sameExprPure(a, b, 0) }
						switch {
						case same(bo.X, sub.X) && same(bo.Y, sub.Y):
							return (bo.Op == token.GEQ && f.Pol) || (bo.Op == token.GTR && f.Pol) || (bo.Op == token.LSS && !f.Pol) || (bo.Op == token.EQL && f.Pol)
						case same(bo.X, sub.Y) && same(bo.Y, sub.X):
							return (bo.Op == token.LEQ && f.Pol) || (bo.Op == token.LSS && f.Pol) || (bo.Op == token.GTR && !f.Pol) || (bo.Op == token.EQL && f.Pol)
						case same(bo.X, v):
							if k, isK := intConst(bo.Y); isK {
								return (bo.Op == token.GEQ && f.Pol && k >= 0) || (bo.Op == token.GTR && f.Pol && k >= -1) || (bo.Op == token.LSS && !f.Pol && k >= 0)
							}
						}
						return false
					})
					c.Check(okSz, rule, FnName(fn)+": make with a subtracted size", p.Pos(mk.Pos()), "the difference is known non-negative here ("+fi.Describe(b)+")",
						"a slice is made with the size "+describeValue(sub.X)+" - "+describeValue(sub.Y)+" and nothing on the way here establishes that the difference is not negative: make panics on a negative size (e.g. a skip beyond the rows that were kept)")
				}
			}
		}
	}
	c.CallSites(n)
}

// sameExprPure: the two values are the same pure expression: field loads of the same field, len/Len() of the
// same thing, conversions of the same thing.
func sameExprPure(a, b ssa.Value, d int) bool {
	if a == b {
		return true
	}
	if d > 4 || a == nil || b == nil {
		return false
	}
	switch x := a.(type) {
	case *ssa.Convert:
		y, ok := b.(*ssa.Convert)
		return ok && types.Identical(x.Type(), y.Type()) && sameExprPure(x.X, y.X, d+1)
	case *ssa.UnOp:
		y, ok := b.(*ssa.UnOp)
		if !ok || x.Op != y.Op || x.Op != token.MUL {
			return false
		}
		fx, bx := fieldOfAddr(x.X)
		fy, by := fieldOfAddr(y.X)
		return fx != nil && fy != nil && sameVar(fx, fy) && sameExprPure(bx, by, d+1)
	case *ssa.FieldAddr:
		y, ok := b.(*ssa.FieldAddr)
		return ok && x.Field == y.Field && sameExprPure(x.X, y.X, d+1)
	case *ssa.Call:
		y, ok := b.(*ssa.Call)
		if !ok || len(x.Call.Args) != len(y.Call.Args) {
			return false
		}
		if bx, isB := x.Call.Value.(*ssa.Builtin); isB {
			by, isBy := y.Call.Value.(*ssa.Builtin)
			if !isBy || bx.Name() != by.Name() || bx.Name() != "len" {
				return false
			}
		} else {
			cx, _ := calleeOf(&x.Call)
			cy, _ := calleeOf(&y.Call)
			if cx == nil || cx != cy || cx.Name() != "Len" {
				return false
			}
			if x.Call.IsInvoke() != y.Call.IsInvoke() || (x.Call.IsInvoke() && !sameExprPure(x.Call.Value, y.Call.Value, d+1)) {
				return false
			}
		}
		for i := range x.Call.Args {
			if !sameExprPure(x.Call.Args[i], y.Call.Args[i], d+1) {
				return false
			}
		}
		return true
	}
	return false
}

// ruleWithDefault: a typed getter with a default (name, default) answers the default exactly where the stored
// value is absent (the typed read answered nil), and the stored value otherwise.  Deciding "absent" by the value
// (zero → default) makes a stored false / 0 / "" read back as the default.
func ruleWithDefault(c *Ctx, rule string) {
	p := c.P
	tb := p.Named("boltz", "TypedBucket")
	n := 0
	for _, fn := range c.prodFuncs("boltz") {
		if fn.Parent() != nil || fn.Signature.Recv() == nil || namedOf(fn.Signature.Recv().Type()) != tb || len(fn.Params) != 3 {
			continue
		}
		sig := fn.Signature
		if sig.Results().Len() != 1 || !types.Identical(sig.Results().At(0).Type(), sig.Params().At(1).Type()) {
			continue
		}
		if bt, isB := sig.Params().At(0).Type().Underlying().(*types.Basic); !isB || bt.Kind() != types.String {
			continue
		}
		def := fn.Params[2]
		n++
		name := FnName(fn)
		c.Analysed(name)
		fi := factsOf(fn)
		// the stored value: what a pointer-typed read answered
		isRead := func(v ssa.Value) bool {
			_, isPtr := v.Type().Underlying().(*types.Pointer)
			if !isPtr {
				return false
			}
			switch v.(type) {
			case *ssa.Call, *ssa.Phi, *ssa.Extract:
				return true
			}
			return false
		}
		ok, why := true, ""
		var decide func(v ssa.Value, b *ssa.BasicBlock, edgeFrom *ssa.BasicBlock, d int) bool
		decide = func(v ssa.Value, b *ssa.BasicBlock, edgeFrom *ssa.BasicBlock, d int) bool {
			if d > 4 {
				return false
			}
			holds := func(pred func(Fact) bool) bool {
				if edgeFrom != nil {
					for f := range fi.outFacts(edgeFrom, b) {
						if pred(f) {
							return true
						}
					}
					return false
				}
				return fi.HoldsWhere(b, pred)
			}
			switch x := v.(type) {
			case *ssa.Parameter:
				if x != def {
					return false
				}
				// the default: only where a read is known to have answered nil
				return holds(func(f Fact) bool { return f.Kind == "nonnil" && !f.Pol && isRead(f.V) })
			case *ssa.UnOp:
				if x.Op != token.MUL || !isRead(x.X) {
					return false
				}
				return true // the stored value itself (a nil dereference is NILDEREF's business)
			case *ssa.Phi:
				for i, e := range x.Edges {
					if !decide(e, x.Block(), x.Block().Preds[i], d+1) {
						return false
					}
				}
				return true
			}
			return false
		}
		for _, r := range returnsOf(fn) {
			if len(r.Results) != 1 {
				continue
			}
			if !decide(r.Results[0], r.Block(), nil, 0) {
				ok = false
				why = "the value returned at " + p.Pos(r.Pos()) + " (" + describeValue(r.Results[0]) + ") is neither the stored value nor the default on a path where the read answered nil: a stored zero value (false, 0, \"\") can read back as the default"
			}
		}
		c.Check(ok, rule, name, p.Pos(fn.Pos()), "answers the stored value, and the default only where the typed read answered nil", why)
	}
	c.CallSites(n)
	c.Floor(rule, 3)
}

func hasSliceField(st *types.Struct) bool {
	for i := 0; i < st.NumFields(); i++ {
		if _, isSl := st.Field(i).Type().Underlying().(*types.Slice); isSl {
			return true
		}
	}
	return false
}
