package main

// Function-value flow inside the repository (a small, flow-insensitive points-to for function
// values that travel through parameters and captured variables), and on top of it the discovery of
// the places where a bolt write transaction is entered and of the closures that run inside it.
// This lets the transaction rules (C07.TXFN, C08.TXCOMPLETE, C17.LOCK) see through
//     db.Update(func(tx){...})                         the direct form,
//     mutate(ctx, fn, (*bbolt.DB).Update)              a method expression handed to a shared helper,
//     runIn(func(f) error { return self.db.Batch(f) }) a forwarding closure.

import (
	"go/types"

	"golang.org/x/tools/go/ssa"
)

type funcFlow struct {
	p *Prog
	// args passed for parameter i of function f (over all resolved call sites)
	paramArgs map[*ssa.Function]map[int][]ssa.Value
	binding   map[*ssa.FreeVar]ssa.Value
	funcs     []*ssa.Function
}

var funcFlowCache = map[*Prog]*funcFlow{}

func (p *Prog) FuncFlow() *funcFlow {
	if ff := funcFlowCache[p]; ff != nil {
		return ff
	}
	ff := &funcFlow{p: p, paramArgs: map[*ssa.Function]map[int][]ssa.Value{}, binding: map[*ssa.FreeVar]ssa.Value{}}
	ff.funcs = p.SrcFuncs("ast", "boltz", "objectz", "zitiql")
	for _, fn := range ff.funcs {
		for _, b := range fn.Blocks {
			for _, in := range b.Instrs {
				if mc, ok := in.(*ssa.MakeClosure); ok {
					if f, ok := mc.Fn.(*ssa.Function); ok {
						for i, fv := range f.FreeVars {
							if i < len(mc.Bindings) {
								ff.binding[fv] = mc.Bindings[i]
							}
						}
					}
				}
			}
		}
	}
	add := func(f *ssa.Function, i int, v ssa.Value) bool {
		if ff.paramArgs[f] == nil {
			ff.paramArgs[f] = map[int][]ssa.Value{}
		}
		for _, x := range ff.paramArgs[f][i] {
			if x == v {
				return false
			}
		}
		ff.paramArgs[f][i] = append(ff.paramArgs[f][i], v)
		return true
	}
	for round := 0; round < 4; round++ {
		changed := false
		for _, fn := range ff.funcs {
			for _, call := range callsIn(fn) {
				cc := call.Common()
				if cc.IsInvoke() {
					continue
				}
				var targets []*ssa.Function
				if sc := cc.StaticCallee(); sc != nil {
					targets = []*ssa.Function{sc}
				} else {
					targets = ff.Resolve(cc.Value, 0)
				}
				for _, t := range targets {
					if t.Blocks == nil {
						continue
					}
					for i, a := range cc.Args {
						if i < len(t.Params) {
							if _, isFn := a.Type().Underlying().(*types.Signature); isFn {
								if add(t, i, a) {
									changed = true
								}
							}
						}
					}
				}
			}
		}
		if !changed {
			break
		}
	}
	funcFlowCache[p] = ff
	return ff
}

// Resolve lists the functions a function-typed value may denote (repository closures and named
// functions, method-expression thunks and bound-method wrappers of any package).
func (ff *funcFlow) Resolve(v ssa.Value, depth int) []*ssa.Function {
	if v == nil || depth > 6 {
		return nil
	}
	switch x := v.(type) {
	case *ssa.Function:
		return []*ssa.Function{x}
	case *ssa.MakeClosure:
		if f, ok := x.Fn.(*ssa.Function); ok {
			return []*ssa.Function{f}
		}
	case *ssa.ChangeType:
		return ff.Resolve(x.X, depth+1)
	case *ssa.Phi:
		var out []*ssa.Function
		for _, e := range x.Edges {
			out = append(out, ff.Resolve(e, depth+1)...)
		}
		return out
	case *ssa.FreeVar:
		return ff.Resolve(ff.binding[x], depth+1)
	case *ssa.Parameter:
		f := x.Parent()
		for i, prm := range f.Params {
			if prm == x {
				var out []*ssa.Function
				for _, a := range ff.paramArgs[f][i] {
					out = append(out, ff.Resolve(a, depth+1)...)
				}
				return out
			}
		}
	case *ssa.Call:
		// a function that returns a function (e.g. a selector returning the method value db.Update)
		var cands []*ssa.Function
		if sc := x.Call.StaticCallee(); sc != nil {
			cands = []*ssa.Function{sc}
		} else if !x.Call.IsInvoke() {
			cands = ff.Resolve(x.Call.Value, depth+1)
		}
		var out []*ssa.Function
		for _, f := range cands {
			if f.Blocks == nil {
				continue
			}
			for _, r := range returnsOf(f) {
				if len(r.Results) == 1 {
					out = append(out, ff.Resolve(r.Results[0], depth+1)...)
				}
			}
		}
		return out
	case *ssa.UnOp:
		// a variable captured by reference, read inside the closure
		if fv, ok := x.X.(*ssa.FreeVar); ok {
			if al, isAl := ff.binding[fv].(*ssa.Alloc); isAl {
				var out []*ssa.Function
				for _, r := range *al.Referrers() {
					if st, ok := r.(*ssa.Store); ok && st.Addr == ssa.Value(al) {
						out = append(out, ff.Resolve(st.Val, depth+1)...)
					}
				}
				return out
			}
			return nil
		}
		// a package-level function variable that only its initialiser assigns
		if g, ok := x.X.(*ssa.Global); ok {
			if v := globalInitStore(g); v != nil {
				return ff.Resolve(v, depth+1)
			}
			return nil
		}
		// a local spilled to memory because a closure captures it: its single store
		if al, ok := x.X.(*ssa.Alloc); ok {
			var out []*ssa.Function
			for _, r := range *al.Referrers() {
				if st, ok := r.(*ssa.Store); ok && st.Addr == ssa.Value(al) {
					out = append(out, ff.Resolve(st.Val, depth+1)...)
				}
			}
			return out
		}
	}
	return nil
}

// methodOf: the declared method a thunk / bound wrapper / plain function stands for.
func methodOf(f *ssa.Function) *types.Func {
	if f == nil {
		return nil
	}
	if o, ok := f.Object().(*types.Func); ok && o != nil {
		return o.Origin()
	}
	return nil
}

// txSite is one place where a bolt transaction is entered.
type txSite struct {
	Outer *ssa.Function       // the function containing the entering call
	Call  ssa.CallInstruction // the entering call (a bbolt DB method, a function value standing for one, or a forwarder)
	Kinds map[string]bool     // Update / Batch / View
	Body  []*ssa.Function     // the closures that run inside the transaction
	// Forwarder: the transaction body is a parameter of Outer (Outer's callers supply it)
	Forwarder bool
}

// txSites finds the bolt transaction entries of package boltz.
func txSites(c *Ctx) []txSite {
	p := c.P
	ff := p.FuncFlow()
	kindOf := map[*types.Func]string{}
	for _, m := range []string{"Update", "Batch", "View"} {
		kindOf[p.ExtMethod(bboltPath, "DB", m)] = m
	}
	txT := types.NewPointer(p.ExtNamed(bboltPath, "Tx"))
	isTxBodyType := func(t types.Type) bool {
		sig, ok := t.Underlying().(*types.Signature)
		return ok && sig.Params().Len() == 1 && types.Identical(sig.Params().At(0).Type(), txT) && sig.Results().Len() == 1 && isErrorType(sig.Results().At(0).Type())
	}
	// direct kinds of a call: which bbolt entry methods it may invoke itself
	directKinds := func(call ssa.CallInstruction) map[string]bool {
		cc := call.Common()
		out := map[string]bool{}
		if cc.IsInvoke() {
			return out
		}
		var ts []*ssa.Function
		if sc := cc.StaticCallee(); sc != nil {
			ts = []*ssa.Function{sc}
		} else {
			ts = ff.Resolve(cc.Value, 0)
		}
		for _, t := range ts {
			if k, ok := kindOf[methodOf(t)]; ok {
				out[k] = true
			}
		}
		return out
	}
	// forwarders: functions that hand one of their own parameters straight to a bolt entry
	forwards := map[*ssa.Function]map[string]bool{}
	fns := c.prodFuncs("boltz")
	for _, fn := range fns {
		for _, call := range callsIn(fn) {
			ks := directKinds(call)
			if len(ks) == 0 || len(call.Common().Args) == 0 {
				continue
			}
			last := call.Common().Args[len(call.Common().Args)-1]
			if prm, ok := last.(*ssa.Parameter); ok && prm.Parent() == fn {
				if forwards[fn] == nil {
					forwards[fn] = map[string]bool{}
				}
				for k := range ks {
					forwards[fn][k] = true
				}
			}
		}
	}
	var out []txSite
	for _, fn := range fns {
		for _, call := range callsIn(fn) {
			cc := call.Common()
			if cc.IsInvoke() || len(cc.Args) == 0 {
				continue
			}
			last := cc.Args[len(cc.Args)-1]
			if !isTxBodyType(last.Type()) {
				continue
			}
			kinds := directKinds(call)
			var ts []*ssa.Function
			if sc := cc.StaticCallee(); sc != nil {
				ts = []*ssa.Function{sc}
			} else {
				ts = ff.Resolve(cc.Value, 0)
			}
			for _, t := range ts {
				for k := range forwards[t] {
					kinds[k] = true
				}
			}
			if len(kinds) == 0 {
				continue
			}
			forwarder := false
			if prm, ok := last.(*ssa.Parameter); ok && prm.Parent() == fn {
				forwarder = true // its callers are the real sites; reported for rules about the forwarder itself
			}
			var bodies []*ssa.Function
			for _, b := range ff.Resolve(last, 0) {
				if b.Blocks != nil {
					bodies = append(bodies, b)
				}
			}
			out = append(out, txSite{Outer: fn, Call: call, Kinds: kinds, Body: bodies, Forwarder: forwarder})
		}
	}
	return out
}
