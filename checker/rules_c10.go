package main

import (
	"fmt"
	"go/constant"
	"go/token"
	"go/types"
	"os"
	"sort"
	"strings"

	"golang.org/x/tools/go/ssa"
)

func init() {
	register(&Property{
		ID:          "C10",
		Title:       "Parsing and evaluation are total: no panics, invalid input is rejected",
		Technique:   "static analysis: every unchecked type assertion discharged by a dominating type-tag guard + GetType/interface table, an only-writer container rule or a tabled reason; nil-guard dominance for every dereference of a nullable Eval*/Get*/FieldTo* result; must-pass rule for lexer+parser error listeners; explicit-panic reachability from the query entry points; nil-bucket rule on the query path",
		LevelText:   "Panic-freedom of this repository's own parse→type→evaluate code is decided as a finite list of obligation kinds, each complete over its sites: unchecked type assertions, dereferences of nullable results, lexer/parser error reporting, explicit panics reachable from query entry points. Termination, stack depth, index/arith faults and panics inside ANTLR or other dependencies are not decided. Lookups that can yield a nil *TypedBucket and the TypedBucket methods that tolerate a nil receiver are computed; on the query path a possibly-nil bucket is not dereferenced (also not through a bound method value) without a nil test. Added later: a type transform that fails leaves its operands untouched (ASSERT.UNTOUCHED); a runtime set symbol's Eval tests its cursor before it dereferences it (LATECURSOR, found as a genuine defect and repaired); the possible dynamic types of TypeTransform results are computed through constructors and constant constructor tables (SYMCLOSED). Added in rounds 8-9: no method call on an untested token accessor result (TERMINALNIL); no append to a slice of nil-able elements made with a length (MAKEAPPEND). Added in round 10: a string cut or indexed at a constant position is dominated by a length test (STRBOUNDS, seeded control pair). Added in round 11: a pointer that can be nil is not put into an interface without a nil test (TYPEDNIL, seeded control pair); the in-memory symbol table is asked for the name given (SYMSAME). Added in round 12: the found answer of a symbol-table lookup is looked at where the value is used (FOUNDUSED); no write through a slice-element pointer after an append to the slice (STALEELEM). Added in round 13: the answer of llrb Max()/Min() is tested before use (LLRBNIL); an array with an entry for every value of the index type needs no bound. Where a bbolt cursor kept in a field is treated as possibly absent by one function, every call through that field is made where it is known to be non-nil (NILFIELD, a contradiction rule).",
		LevelNote:   "Trusted: go/types, x/tools SSA, ANTLR runtime and generated parser; tabled reasons in checker/rules_c10.go (each names one construct).",
		DesignRef:   "DESIGN.md C10",
		Explanation: "ASSERT sites: all single-result type assertions in non-generated production code. NILDEREF sites: every load through a pointer produced by a nullable source call. LEXERR: paths of zitiql.parse to Start_(). PANIC: call-graph reachability of panic instructions from the public query entry points.",
		Trusted:     []string{"go/types", "golang.org/x/tools/go/ssa v0.29.0", "ANTLR runtime + generated lexer/parser", "exception tables in checker/rules_c10.go"},
		Rules:       rulesC10,
		Controls: []controlExpect{
			{"C10.ASSERT", "zzControlBad_C10_ASSERT", true},
			{"C10.NILDEREF", "zzControlBad_C10_NILDEREF", true},
			{"C10.NILDEREF", "zzControlGood_C10_NILDEREF", false},
			{"C10.TERMINALNIL", "zzControlBad_C10_TERMINALNIL", true},
			{"C10.TERMINALNIL", "zzControlGood_C10_TERMINALNIL", false},
			{"C10.MAKEAPPEND", "zzControlBad_C10_MAKEAPPEND", true},
			{"C10.MAKEAPPEND", "zzControlGood_C10_MAKEAPPEND", false},
			{"C10.TABLEINDEX", "zzControlBad_C10_TABLEINDEX", true},
			{"C10.STRBOUNDS", "zzControlBad_C10_STRBOUNDS", true},
			{"C10.STRBOUNDS", "zzControlGood_C10_STRBOUNDS", false},
			{"C10.TYPEDNIL", "zzControlBad_C10_TYPEDNIL", true},
			{"C10.TYPEDNIL", "zzControlGood_C10_TYPEDNIL", false},
			{"C10.STALEELEM", "zzControlBad_C10_STALEELEM", true},
			{"C10.TABLEINDEX", "zzControlGood_C10_TABLEINDEX", false},
		},
	})
}

func rulesC10(c *Ctx) {
	ruleTreeExtremeNilChecked(c, "C10.LLRBNIL", "boltz", "objectz", "ast")
	ruleNilFieldBelief(c, "C10.NILFIELD")
	ruleC10Assert(c)
	ruleNilDeref(c, "C10.NILDEREF", c.prodFuncs("ast", "objectz", "boltz"))
	c.Floor("C10.NILDEREF", 60)
	ruleTerminalNil(c, "C10.TERMINALNIL")
	ruleMakeThenAppend(c, "C10.MAKEAPPEND", "ast", "boltz", "objectz")
	ruleStringBounds(c, "C10.STRBOUNDS", "ast", "zitiql")
	ruleTypedNil(c, "C10.TYPEDNIL", "ast", "objectz", "zitiql")
	ruleSymbolSameName(c, "C10.SYMSAME")
	ruleFoundLookedAt(c, "C10.FOUNDUSED")
	ruleStaleElementPointer(c, "C10.STALEELEM", "zitiql", "ast", "boltz", "objectz")
	ruleC10LexErr(c)
	ruleC10Panic(c)
	ruleC10NilRecv(c)
	ruleStackIndexGuard(c, "C10.STACKGUARD")
	ruleC10NilBucket(c)
	ruleC10TableIndex(c)
	ruleC10LateCursor(c)
	ruleTransformKeepsOperandOnError(c, "C10.ASSERT.UNTOUCHED")
}

// ruleC10TableIndex: a package-level array or slice used as a lookup table is indexed only by a constant,
// or under a bound established on the path (i < len(table), i < K, a range loop).  A table indexed by an
// enumeration value panics for the first value somebody forgets to give an entry; the map form answers
// the zero value instead.
func ruleC10TableIndex(c *Ctx) {
	p := c.P
	n, bad := 0, 0
	for _, fn := range c.prodFuncs("ast", "boltz", "objectz", "zitiql") {
		var fi *FactInfo
		for _, b := range fn.Blocks {
			for _, in := range b.Instrs {
				var tbl, idx ssa.Value
				switch x := in.(type) {
				case *ssa.IndexAddr:
					tbl, idx = x.X, x.Index
				case *ssa.Index:
					tbl, idx = x.X, x.Index
				default:
					continue
				}
				var g *ssa.Global
				switch t := tbl.(type) {
				case *ssa.Global:
					g = t
				case *ssa.UnOp:
					g, _ = t.X.(*ssa.Global)
				}
				if g == nil || g.Pkg == nil || !strings.HasPrefix(g.Pkg.Pkg.Path(), modPath) {
					continue
				}
				switch derefType(g.Type()).Underlying().(type) {
				case *types.Array, *types.Slice:
				default:
					continue
				}
				n++
				if _, isConst := idx.(*ssa.Const); isConst {
					continue // the compiler checks constant indexes of arrays; a constant slice index is a fixed slot
				}
				// an array with an entry for every value of the index's type (a [256] table indexed by a byte)
				if arr, isArr := derefType(g.Type()).Underlying().(*types.Array); isArr {
					if bt, isB := idx.Type().Underlying().(*types.Basic); isB && (bt.Kind() == types.Uint8 && arr.Len() >= 256 || bt.Kind() == types.Uint16 && arr.Len() >= 65536) {
						c.OK("C10.TABLEINDEX", FnName(fn)+": "+g.Name()+"[...]", p.Pos(in.Pos()), "the array has an entry for every value of the index's type")
						continue
					}
				}
				if fi == nil {
					fi = factsOf(fn)
				}
				ci := fi.canon(idx)
				guarded := fi.HoldsWhere(b, func(f Fact) bool {
					bo, ok := f.V.(*ssa.BinOp)
					if !ok || f.Kind != "true" {
						return false
					}
					switch bo.Op {
					case token.LSS, token.LEQ, token.GTR, token.GEQ:
					default:
						return false
					}
					involves := func(v ssa.Value) bool {
						if v == idx || fi.canon(v) == ci {
							return true
						}
						if cv, isConv := v.(*ssa.Convert); isConv {
							return cv.X == idx || fi.canon(cv.X) == ci
						}
						return false
					}
					return involves(bo.X) || involves(bo.Y)
				})
				if guarded {
					c.OK("C10.TABLEINDEX", FnName(fn)+": "+g.Name()+"[...]", p.Pos(in.Pos()), "indexed under a bound on the index ("+fi.Describe(b)+")")
				}
				if !guarded {
					bad++
					c.Bad("C10.TABLEINDEX", FnName(fn)+": "+g.Name()+"[...]", p.Pos(in.Pos()), "the package-level table "+g.Name()+" is indexed by "+describeValue(idx)+" with no bound established on the path: a value without an entry (a new or forgotten enumeration value) panics with index out of range where a map lookup would yield the zero value")
				}
			}
		}
	}
	if bad == 0 {
		c.OK("C10.TABLEINDEX", "package-level tables", "-", fmt.Sprintf("%d index expression(s) on package-level arrays/slices, all constant or bounded", n))
	}
	c.CallSites(n)
}

// ruleC10NilRecv: results of the listener's pop helpers are nil once an error is latched; using one
// as a method receiver needs a nil test or the listener's "no error so far" guard.
func ruleC10NilRecv(c *Ctx) {
	p := c.P
	hasErr := p.Method("ast", "ToBoltListener", "HasError")
	setErr := p.Method("ast", "ToBoltListener", "SetError")
	// the pop helpers, by what they do: a function of the listener (method, or free/generic function handed the
	// listener) that consults the error latch, takes something off the stack, tests its type with the comma-ok
	// form, latches an error when the test fails, and hands back a value that can be nil
	pops := map[*ssa.Function]bool{}
	for _, fn := range c.prodFuncs("ast") {
		res := fn.Signature.Results()
		if res.Len() == 0 || res.Len() > 2 || len(fn.Params) == 0 || namedOf(fn.Params[0].Type()) != p.Named("ast", "ToBoltListener") {
			continue
		}
		switch types.Unalias(res.At(0).Type()).Underlying().(type) {
		case *types.Interface, *types.Pointer:
		default:
			if _, isTP := types.Unalias(res.At(0).Type()).(*types.TypeParam); !isTP {
				continue
			}
		}
		latch, sets, asserts := false, false, false
		for _, b := range fn.Blocks {
			for _, in := range b.Instrs {
				if isCallTo(in, hasErr) {
					latch = true
				}
				if isCallTo(in, setErr) {
					sets = true
				}
				if ta, isTA := in.(*ssa.TypeAssert); isTA && ta.CommaOk {
					asserts = true
				}
			}
		}
		if latch && sets && asserts {
			pops[fn] = true
		}
	}
	n := 0
	for _, fn := range c.prodFuncs("ast") {
		var fi *FactInfo
		for _, call := range callsIn(fn) {
			cc := call.Common()
			if !cc.IsInvoke() {
				continue
			}
			// the helper's result: the call itself, or the first of its results when it also reports
			// whether it had something to hand out
			var recvVal ssa.Value = cc.Value
			src, ok := cc.Value.(*ssa.Call)
			if ex, isEx := cc.Value.(*ssa.Extract); isEx && ex.Index == 0 {
				src, ok = ex.Tuple.(*ssa.Call)
			}
			if !ok {
				continue
			}
			cal, _ := calleeOf(src.Common())
			sc := src.Common().StaticCallee()
			if sc != nil && sc.Origin() != nil {
				sc = sc.Origin()
			}
			if cal == nil || sc == nil || !pops[sc] {
				continue
			}
			if fi == nil {
				fi = ComputeFacts(fn)
				c.Analysed(FnName(fn))
			}
			n++
			construct := FnName(fn) + ": " + cc.Method.Name() + " on result of " + cal.Name()
			ok = fi.Holds(call.Block(), Fact{"nonnil", recvVal, true}) || fi.HoldsWhere(call.Block(), func(f Fact) bool {
				if f.Kind != "true" {
					return false
				}
				// the helper's own "found" flag, when it is false whenever the node is nil
				if ex, isEx := f.V.(*ssa.Extract); isEx && f.Pol && ex.Index == 1 && ex.Tuple == ssa.Value(src) {
					return flagMeansNonNil(sc)
				}
				if f.Pol {
					return false
				}
				hc, isCall := f.V.(*ssa.Call)
				return isCall && isCallTo(hc, hasErr)
			})
			c.Check(ok, "C10.NILRECV", construct, p.Pos(call.Pos()), "guarded by a nil test or by the listener's !HasError() latch (pop helpers return nil only after an error was latched)", "a pop helper's result is used as a method receiver without a nil test or the !HasError() guard: once an error is latched the helper returns nil and this call panics")
		}
	}
	c.Floor("C10.NILRECV", 1)
}

// ---- ASSERT ----------------------------------------------------------------------------------

var assertTabled = map[string]string{
	"(*ast.ToBoltListener).ExitNumberArray: .(ast.Int64Node)": "runs only when allInt is still true, i.e. every element popped in the loop above passed the comma-ok Int64Node test (flag/element-type correlation, not derivable by dominance)",
	"(*boltz.EntityChangeState[E]).initFromChild: .(E)":       "GetInitialParentEntity/GetFinalParentEntity return store.parentMapper(child), whose contract (StoreDefinition.ParentMapper) is to return the parent store's entity type E; user-supplied wiring",
	"(*ast.SortFieldNode).TypeTransform: .(ast.SymbolNode)":   "the operand is node.symbol after transformTypes: transforms of SymbolNode implementers return SymbolNode implementers or leave the value untouched on error (checked by C10.ASSERT.SYMCLOSED)",
	"(*ast.treeCursor).Current: .(ast.byteArrayWrapper)":      "elements of trees built by TreeSet.Add are byteArrayComparable/reverseByteArrayComparable, both byteArrayWrapper (only-writer checked); NewTreeCursor on a foreign tree is outside the library's own construction",
}

func init() {
	assertTabled["(*ast.LoggingListener).printChildren: .(github.com/antlr4-go/antlr/v4.ParseTree)"] = "debug printing only (LoggingListener.PrintChildren is never enabled by NewListener); children of an ANTLR parse tree are ParseTree instances (runtime contract)"
}

var gettypeExempt = map[string]string{
	"BinaryFloat64ExprNode": "GetType returns NodeTypeFloat64 although it is a boolean result node; result nodes are never operands (operands are symbols, set functions and literals per grammar rule binaryLhs)",
	"SetFunctionNode":       "allOf/anyOf set functions are replaced by their symbol in TypeTransformBool before getTypedExpr runs; count/isEmpty are replaced by Count/IsEmptySetExprNode in TypeTransform",
}

func ruleC10Assert(c *Ctx) {
	p := c.P
	// --- GetType table -----------------------------------------------------------------
	nts := astNodeTypes(c)
	ntConst := map[int64]string{}
	ifaceFor := map[int64]*types.Interface{}
	for name, ifn := range map[string]string{"NodeTypeBool": "BoolNode", "NodeTypeDatetime": "DatetimeNode", "NodeTypeFloat64": "Float64Node", "NodeTypeInt64": "Int64Node", "NodeTypeString": "StringNode"} {
		k := constInt(p.Obj("ast", name))
		ntConst[k] = name
		ifaceFor[k] = p.Iface("ast", ifn)
	}
	anyK := constInt(p.Obj("ast", "NodeTypeAnyType"))
	// retset: which NodeType constants can GetType of T return
	retset := map[*types.Named]map[int64]bool{}
	deleg := map[*types.Named]bool{}
	for _, nt := range nts {
		var gt *ssa.Function
		for i := 0; i < nt.named.NumMethods(); i++ {
			if nt.named.Method(i).Name() == "GetType" {
				gt = p.SSA.FuncValue(nt.named.Method(i))
			}
		}
		if gt == nil {
			continue // promoted
		}
		rs := map[int64]bool{}
		for _, r := range returnsOf(gt) {
			if k, ok := r.Results[0].(*ssa.Const); ok && k.Value != nil {
				v, _ := constant.Int64Val(k.Value)
				rs[v] = true
			} else {
				deleg[nt.named] = true
			}
		}
		retset[nt.named] = rs
	}
	// implementsFor(K): every node type that may answer K (or AnyType) implements iface(K)
	tableOK := func(k int64, target types.Type, includeAny bool) (bool, string) {
		for _, nt := range nts {
			rs := retset[nt.named]
			may := rs[k] || (includeAny && rs[anyK]) || deleg[nt.named]
			if !may {
				continue
			}
			if _, ex := gettypeExempt[nt.named.Obj().Name()]; ex {
				continue
			}
			if isControl(nt.named.Obj().Name()) {
				continue
			}
			if !types.AssignableTo(types.NewPointer(nt.named), target) && !types.AssignableTo(nt.named, target) {
				return false, "ast." + nt.named.Obj().Name() + " can answer GetType()==" + ntConst[k] + " but is not a " + types.TypeString(target, types.RelativeTo(p.pkg("ast").Types))
			}
		}
		return true, ""
	}
	for nm, why := range gettypeExempt {
		c.OK("C10.ASSERT.TABLE", "ast."+nm+": GetType table exemption", "-", "tabled: "+why)
	}

	cg := p.CallGraph()
	nodeIface := p.Iface("ast", "Node")
	_ = nodeIface

	// typeFacts: NodeType constants that v.GetType() is known to equal at block b, where v is a
	// load of field fld of base.
	isGetTypeOn := func(v ssa.Value, base ssa.Value, fld *types.Var) bool {
		call, ok := v.(*ssa.Call)
		if !ok || !call.Call.IsInvoke() || call.Call.Method.Name() != "GetType" {
			return false
		}
		f, b := loadedField(call.Call.Value)
		return sameVar(f, fld) && b == base
	}
	// denotes: x is base.fld.GetType(), or the usual "left type, or the right type when the left is Any" merge
	denotes := func(fi *FactInfo, x ssa.Value, base ssa.Value, fld *types.Var) (ok bool, viaAny bool) {
		if isGetTypeOn(x, base, fld) {
			return true, false
		}
		phi, isPhi := x.(*ssa.Phi)
		if !isPhi {
			return false, false
		}
		// nodeType := left.GetType(); if nodeType == Any { nodeType = right.GetType() }
		all := true
		for i, e := range phi.Edges {
			if isGetTypeOn(e, base, fld) {
				continue
			}
			// the other edge must come from a block where base.fld.GetType()==AnyType
			pb := phi.Block().Preds[i]
			okAny := false
			for pf := range fi.At(pb) {
				if pf.Kind == "true" && pf.Pol {
					if pbo, ok := pf.V.(*ssa.BinOp); ok && pbo.Op == token.EQL && isGetTypeOn(pbo.X, base, fld) {
						if pk, ok := pbo.Y.(*ssa.Const); ok && pk.Value != nil {
							if v, _ := constant.Int64Val(pk.Value); v == anyK {
								okAny = true
							}
						}
					}
				}
			}
			if !okAny {
				all = false
			}
		}
		return all && len(phi.Edges) > 0, true
	}
	typeFacts := func(fi *FactInfo, b *ssa.BasicBlock, base ssa.Value, fld *types.Var) (ks []int64, viaAny bool) {
		for f := range fi.At(b) {
			if f.Kind != "true" || !f.Pol {
				continue
			}
			bo, ok := f.V.(*ssa.BinOp)
			if !ok || bo.Op != token.EQL {
				continue
			}
			kc, ok := bo.Y.(*ssa.Const)
			if !ok || kc.Value == nil {
				continue
			}
			k, _ := constant.Int64Val(kc.Value)
			if d, any := denotes(fi, bo.X, base, fld); d {
				ks = append(ks, k)
				if any {
					viaAny = true
				}
			}
		}
		return
	}
	// tableSites: a thunk that is only ever an entry of constant dispatch tables: the calls through those
	// tables, each with the lookup key and the entry's key constant
	type tableSite struct {
		caller *ssa.Function
		call   ssa.CallInstruction
		key    ssa.Value
		k      int64
	}
	tableSites := func(thunk *ssa.Function) ([]tableSite, bool) {
		pkg := thunk.Pkg
		if pkg == nil {
			return nil, false
		}
		keysOf := map[*ssa.Global][]int64{}
		for _, m := range pkg.Members {
			g, isG := m.(*ssa.Global)
			if !isG {
				continue
			}
			if _, isMap := derefType(g.Type()).Underlying().(*types.Map); !isMap {
				continue
			}
			entries, okT := constTable(g)
			if !okT {
				continue
			}
			for _, e := range entries {
				if isThunkOf(e.val, thunk) && e.key.Kind() == constant.Int {
					k, _ := constant.Int64Val(e.key)
					keysOf[g] = append(keysOf[g], k)
				}
			}
		}
		if len(keysOf) == 0 {
			return nil, false
		}
		// no other use of the thunk as a value
		uses := 0
		for _, fn := range c.P.SrcFuncs(pkg.Pkg.Name()) {
			for _, b := range fn.Blocks {
				for _, in := range b.Instrs {
					for _, op := range in.Operands(nil) {
						if _, isConv := (*op).(*ssa.ChangeType); *op != nil && isConv {
							continue // the converted value is counted where the conversion reads the thunk
						}
						if *op != nil && isThunkOf(*op, thunk) {
							if call, isCall := in.(ssa.CallInstruction); isCall && call.Common().Value == *op {
								continue // a plain static call, handled as an ordinary caller
							}
							uses++
						}
					}
				}
			}
		}
		nEntries := 0
		for _, ks := range keysOf {
			nEntries += len(ks)
		}
		if uses != nEntries {
			return nil, false
		}
		var out []tableSite
		for _, fn := range c.P.SrcFuncs(pkg.Pkg.Name()) {
			for _, b := range fn.Blocks {
				for _, in := range b.Instrs {
					lk, isLk := in.(*ssa.Lookup)
					if !isLk {
						continue
					}
					ld, isLd := lk.X.(*ssa.UnOp)
					if !isLd {
						continue
					}
					g, isG := ld.X.(*ssa.Global)
					if !isG || keysOf[g] == nil {
						continue
					}
					// the function value: the lookup itself or element 0 of the comma-ok pair
					vals := []ssa.Value{lk}
					for _, r := range *lk.Referrers() {
						if ex, isEx := r.(*ssa.Extract); isEx && ex.Index == 0 {
							vals = append(vals, ex)
						}
					}
					for _, v := range vals {
						for _, r := range *v.Referrers() {
							call, isCall := r.(ssa.CallInstruction)
							if !isCall {
								if _, isEx := r.(*ssa.Extract); isEx {
									continue
								}
								if _, isDbg := r.(*ssa.DebugRef); isDbg {
									continue
								}
								if v == ssa.Value(lk) && lk.CommaOk {
									continue
								}
								return nil, false // the function value escapes
							}
							if call.Common().Value != v {
								return nil, false
							}
							for _, k := range keysOf[g] {
								out = append(out, tableSite{fn, call, lk.Index, k})
							}
						}
					}
				}
			}
		}
		return out, len(out) > 0
	}

	// --- only-writer facts ------------------------------------------------------------------
	// llrb trees per package: dynamic types inserted
	llrbInsert := p.ExtMethod("github.com/biogo/store/llrb", "Tree", "Insert")
	inserted := map[string][]types.Type{}
	for _, fn := range c.prodFuncs("ast", "boltz", "objectz") {
		for _, call := range callsIn(fn) {
			if isCallTo(call, llrbInsert) {
				arg := call.Common().Args[1]
				pk := fn.Pkg.Pkg.Name()
				if mi, ok := arg.(*ssa.MakeInterface); ok {
					inserted[pk] = append(inserted[pk], mi.X.Type())
				} else {
					inserted[pk] = append(inserted[pk], nil) // unknown dynamic type
				}
			}
		}
	}
	llrbComparable := p.ExtNamed("github.com/biogo/store/llrb", "Comparable")

	// sync.Pool variables: New returns T, all Put(x) have type T
	poolType := func(g *ssa.Global) types.Type {
		var t types.Type
		ok := true
		for _, fn := range c.P.SrcFuncs("zitiql") {
			if c.P.isGenerated(fn.Pos()) {
				continue
			}
			for _, b := range fn.Blocks {
				for _, in := range b.Instrs {
					// pool literal: New: func() interface{} { return NewX(nil) }
					if mk, isMk := in.(*ssa.MakeClosure); isMk {
						_ = mk
					}
					if call, isCall := in.(ssa.CallInstruction); isCall {
						cal, _ := calleeOf(call.Common())
						if cal != nil && cal.Name() == "Put" && cal.Pkg() != nil && cal.Pkg().Path() == "sync" {
							if u, isLoad := call.Common().Args[0].(*ssa.UnOp); isLoad && u.X == ssa.Value(g) {
								a := call.Common().Args[1]
								if mi, isMI := a.(*ssa.MakeInterface); isMI {
									if t == nil {
										t = mi.X.Type()
									} else if !types.Identical(t, mi.X.Type()) {
										ok = false
									}
								} else {
									ok = false
								}
							}
						}
					}
				}
			}
		}
		// the pool's New function: the function value stored into the New field of the pool literal
		// that initialises this global (a closure or a named function); all its returns box a T
		initFn := c.P.SSAPkgs["zitiql"].Func("init")
		nNew := 0
		var poolAlloc ssa.Value
		for _, b := range initFn.Blocks {
			for _, in := range b.Instrs {
				if st, isSt := in.(*ssa.Store); isSt && st.Addr == ssa.Value(g) {
					poolAlloc = st.Val
				}
			}
		}
		for _, b := range initFn.Blocks {
			for _, in := range b.Instrs {
				st, isSt := in.(*ssa.Store)
				if !isSt || poolAlloc == nil {
					continue
				}
				fa, isFA := st.Addr.(*ssa.FieldAddr)
				if !isFA || fa.X != poolAlloc {
					continue
				}
				if f, _ := fieldOfAddr(fa); f == nil || f.Name() != "New" {
					continue
				}
				var newFn *ssa.Function
				switch v := st.Val.(type) {
				case *ssa.Function:
					newFn = v
				case *ssa.MakeClosure:
					newFn, _ = v.Fn.(*ssa.Function)
				}
				if newFn == nil || newFn.Blocks == nil {
					ok = false
					continue
				}
				good := true
				for _, r := range returnsOf(newFn) {
					mi, isMI := r.Results[0].(*ssa.MakeInterface)
					if len(r.Results) != 1 || !isMI || t == nil || !types.Identical(mi.X.Type(), t) {
						good = false
					}
				}
				if good {
					nNew++
				} else {
					ok = false
				}
			}
		}
		if !ok || t == nil || nNew == 0 {
			return nil
		}
		return t
	}

	// objectz symbols map: all values stored are of known types, each with a constant GetType
	objSymbolsTypes := map[int64][]types.Type{}
	objOK := true
	{
		symFld := p.Field("objectz", "ObjectStore", "symbols")
		for _, fn := range c.prodFuncs("objectz") {
			for _, b := range fn.Blocks {
				for _, in := range b.Instrs {
					mu, ok := in.(*ssa.MapUpdate)
					if !ok || !derivesFromField(mu.Map, symFld, 0) {
						continue
					}
					mi, ok := mu.Value.(*ssa.MakeInterface)
					if !ok {
						objOK = false
						continue
					}
					n := namedOf(mi.X.Type())
					if n == nil {
						objOK = false
						continue
					}
					var gt *ssa.Function
					for i := 0; i < n.NumMethods(); i++ {
						if n.Method(i).Name() == "GetType" {
							gt = p.SSA.FuncValue(n.Method(i))
						}
					}
					if gt == nil {
						objOK = false
						continue
					}
					for _, r := range returnsOf(gt) {
						if k, ok := r.Results[0].(*ssa.Const); ok && k.Value != nil {
							v, _ := constant.Int64Val(k.Value)
							objSymbolsTypes[v] = append(objSymbolsTypes[v], n)
						} else {
							objOK = false
						}
					}
				}
			}
		}
	}

	// --- sites ------------------------------------------------------------------------------
	nSites := 0
	for _, fn := range c.prodFuncs(srcPkgs...) {
		var fi *FactInfo
		for _, b := range fn.Blocks {
			for _, in := range b.Instrs {
				ta, ok := in.(*ssa.TypeAssert)
				if !ok || ta.CommaOk {
					continue
				}
				if !ta.Pos().IsValid() {
					continue // synthesized (e.g. range-over-func), not a source assertion
				}
				if types.Identical(ta.AssertedType, ta.X.Type()) {
					continue // the builder's nil check for a method value of an interface, not a source assertion
				}
				if xi, isXI := ta.X.Type().Underlying().(*types.Interface); isXI {
					if ai, isAI := ta.AssertedType.Underlying().(*types.Interface); isAI && types.Implements(xi, ai) {
						continue // towards an interface the static type already satisfies: cannot fail on the operand's type
					}
				}
				nSites++
				if fi == nil {
					fi = ComputeFacts(fn)
					c.Analysed(FnName(fn))
				}
				rel := types.RelativeTo(nil)
				_ = rel
				tstr := strings.ReplaceAll(types.TypeString(ta.AssertedType, nil), modPath+"/", "")
				construct := FnName(fn) + ": .(" + tstr + ")"
				pos := p.Pos(ta.Pos())
				if why, ok := assertTabled[construct]; ok {
					c.OK("C10.ASSERT", construct, pos, "tabled: "+why)
					continue
				}
				// (ii) GetType guard in this function on the same field
				if fld, base := loadedField(ta.X); fld != nil {
					ks, viaAny := typeFacts(fi, b, base, fld)
					if len(ks) > 0 {
						ok, why := tableOK(ks[0], ta.AssertedType, viaAny)
						if ok && noFieldChangeBetween(fn, fld, ta) {
							c.OK("C10.ASSERT", construct, pos, fmt.Sprintf("dominated by %s.GetType()==%s and every node type answering that implements the asserted interface", fld.Name(), ntConst[ks[0]]))
							continue
						} else if !ok {
							c.Bad("C10.ASSERT", construct, pos, "guarded by GetType()=="+ntConst[ks[0]]+" but "+why)
							continue
						}
					}
					// callers-hold: private method, operand is a field of the receiver
					if len(fn.Params) > 0 && base == ssa.Value(fn.Params[0]) && fn.Object() != nil && !fn.Object().Exported() {
						allOK, n := true, 0
						whyNot := ""
						// the method as an entry of a constant dispatch table: at a call through the table the lookup
						// key equals the entry's key
						if sites, okS := tableSites(fn); okS {
							for _, ts := range sites {
								n++
								tfi := factsOf(ts.caller)
								args := ts.call.Common().Args
								if len(args) == 0 {
									allOK, whyNot = false, "table call without a receiver argument"
									continue
								}
								d, viaAny := denotes(tfi, ts.key, args[0], fld)
								if !d {
									allOK = false
									whyNot = "the dispatch table in " + FnName(ts.caller) + " is not indexed by ." + fld.Name() + ".GetType()"
									continue
								}
								if ok, why := tableOK(ts.k, ta.AssertedType, viaAny); !ok {
									allOK = false
									whyNot = why
								}
								if !noFieldChangeBetween(ts.caller, fld, ts.call) {
									allOK = false
									whyNot = FnName(ts.caller) + " reassigns ." + fld.Name() + " between reading its type and dispatching on it"
								}
							}
						}
						for _, caller := range cg.callers[fn] {
							cfi := ComputeFacts(caller)
							for _, call := range callsIn(caller) {
								if cal, _ := calleeOf(call.Common()); cal == nil || cal != fn.Object() {
									continue
								}
								n++
								ks, viaAny := typeFacts(cfi, call.Block(), call.Common().Args[0], fld)
								if len(ks) == 0 {
									allOK = false
									whyNot = "call site in " + FnName(caller) + " holds no GetType guard on ." + fld.Name()
									continue
								}
								if ok, why := tableOK(ks[0], ta.AssertedType, viaAny); !ok {
									allOK = false
									whyNot = why
								}
								if !noStoreToField(caller, fld) {
									allOK = false
									whyNot = FnName(caller) + " reassigns ." + fld.Name()
								}
							}
						}
						if allOK && n > 0 && noStoreToField(fn, fld) {
							c.OK("C10.ASSERT", construct, pos, fmt.Sprintf("callers-hold: all %d call site(s) are dominated by a GetType guard on .%s whose answering node types implement the asserted interface", n, fld.Name()))
							continue
						}
						if n > 0 && whyNot != "" {
							c.Bad("C10.ASSERT", construct, pos, "unchecked assertion on ."+fld.Name()+": "+whyNot)
							continue
						}
					}
				}
				// (ii') objectz: switch symbol.GetType() over the store's own symbol types
				if call := getTypeGuardOnValue(fi, b, ta.X); call != nil && fn.Pkg.Pkg.Name() == "objectz" {
					k := *call
					ts := objSymbolsTypes[k]
					if objOK && len(ts) == 1 && types.Identical(types.NewPointer(ts[0]), originPtr(ta.AssertedType)) {
						c.OK("C10.ASSERT", construct, pos, "dominated by symbol.GetType()==K; the store's symbols map is only ever filled with five symbol types (only-writer) and exactly this type answers K")
						continue
					}
				}
				// (ii'') objectz: the assertion sits in a closure that is an entry of a dispatch table built by a
				// function (a map literal keyed by node type) and the table is indexed by GetType() of the very
				// value handed to the closure
				if prm, isPrm := ta.X.(*ssa.Parameter); isPrm && fn.Parent() != nil && fn.Pkg.Pkg.Name() == "objectz" && objOK {
					idx := -1
					for i, q := range fn.Params {
						if q == prm {
							idx = i
						}
					}
					if sites, okS := localTableSites(c, fn); okS && idx >= 0 {
						all := true
						for _, ts := range sites {
							args := ts.call.Common().Args
							if idx >= len(args) {
								all = false
								break
							}
							kc, isCall := ts.key.(*ssa.Call)
							if !isCall || !kc.Call.IsInvoke() || kc.Call.Method.Name() != "GetType" || kc.Call.Value != args[idx] {
								all = false
								break
							}
							tys := objSymbolsTypes[ts.k]
							if len(tys) != 1 || !types.Identical(types.NewPointer(tys[0]), originPtr(ta.AssertedType)) {
								all = false
								break
							}
						}
						if all {
							c.OK("C10.ASSERT", construct, pos, fmt.Sprintf("entry of a dispatch table that is indexed by GetType() of the asserted value at all %d call site(s); the store's symbols map is only ever filled with five symbol types and exactly this type answers the entry's key", len(sites)))
							continue
						}
					}
				}
				// (iii) only-writer containers
				if types.Identical(ta.X.Type(), llrbComparable) || strings.HasSuffix(ta.X.Type().String(), "llrb.Comparable") {
					ins := inserted[fn.Pkg.Pkg.Name()]
					ok := len(ins) > 0
					for _, t := range ins {
						if t == nil || !types.AssignableTo(originType(t), originType(ta.AssertedType)) {
							ok = false
						}
					}
					if ok {
						c.OK("C10.ASSERT", construct, pos, fmt.Sprintf("llrb element: all %d Insert call(s) in this package insert a value of the asserted type (only-writer)", len(ins)))
						continue
					}
				}
				if call, ok := ta.X.(*ssa.Call); ok {
					cal, _ := calleeOf(call.Common())
					// sync.Pool.Get
					if cal != nil && cal.Name() == "Get" && cal.Pkg() != nil && cal.Pkg().Path() == "sync" {
						if u, ok := call.Call.Args[0].(*ssa.UnOp); ok {
							if g, ok := u.X.(*ssa.Global); ok {
								if t := poolType(g); t != nil && types.Identical(t, ta.AssertedType) {
									c.OK("C10.ASSERT", construct, pos, "sync.Pool element: New returns and every Put stores the asserted type (only-writer)")
									continue
								}
							}
						}
						// a pool kept in a field of a typed wrapper (instancePool[T]): the field only ever holds the
						// wrapper's type argument
						if f, base := fieldOfAddr(call.Call.Args[0]); f != nil && !f.Exported() {
							if idx := typeArgIndex(base.Type(), ta.AssertedType); idx >= 0 {
								okAll, n := poolFieldHoldsTypeArg(c, f, idx)
								if debugDecide {
									fmt.Fprintf(os.Stderr, "poolfield %s idx=%d ok=%v n=%d\n", f.Name(), idx, okAll, n)
								}
								if okAll && n > 0 {
									c.OK("C10.ASSERT", construct, pos, fmt.Sprintf("sync.Pool element of a typed wrapper: the %d Put/New site(s) of field %s all store the wrapper's type argument (only-writer)", n, f.Name()))
									continue
								}
							}
						}
					}
				}
				// *Stack popped from bl.stacks
				if ex, ok := ta.X.(*ssa.Extract); ok {
					if call, ok := ex.Tuple.(*ssa.Call); ok {
						if cal, _ := calleeOf(call.Common()); cal != nil && cal.Name() == "pop" && len(call.Call.Args) == 1 {
							if fld, base := loadedField(call.Call.Args[0]); fld != nil {
								if ok, n := onlyPushes(c, fld, ta.AssertedType); ok {
									_ = base
									c.OK("C10.ASSERT", construct, pos, fmt.Sprintf("popped from field %s whose %d push site(s) all push the asserted type (only-writer)", fld.Name(), n))
									continue
								}
							}
						}
					}
				}
				// (i) elimination: failed comma-ok to A on the same value, value is element of a
				// slice that only receives A or the asserted type
				if ok, why := eliminationDischarge(fi, b, ta); ok {
					c.OK("C10.ASSERT", construct, pos, why)
					continue
				}
				c.Bad("C10.ASSERT", construct, pos, "unchecked type assertion with no dominating guard the checker can see: it panics on an operand of another type (use the comma-ok form)")
			}
		}
	}
	c.Floor("C10.ASSERT", 25)
	c.Note(fmt.Sprintf("C10.ASSERT: %d single-result assertion sites", nSites))
	ruleSymClosed(c)
}

func originType(t types.Type) types.Type {
	if p, ok := t.(*types.Pointer); ok {
		if n, ok := p.Elem().(*types.Named); ok {
			return types.NewPointer(n.Origin())
		}
	}
	if n, ok := t.(*types.Named); ok {
		return n.Origin()
	}
	return t
}

func originPtr(t types.Type) types.Type { return originType(t) }

func constInt(o types.Object) int64 {
	k, ok := o.(*types.Const)
	if !ok {
		panic(anchorLost{o.Name() + " (not a constant)"})
	}
	v, _ := constant.Int64Val(k.Val())
	return v
}

// noFieldChangeBetween: no write to field fld (a store, or its address handed to a call) can happen
// between a GetType() guard on that field and the instruction `at`.
func noFieldChangeBetween(fn *ssa.Function, fld *types.Var, at ssa.Instruction) bool {
	var guards, mods []ssa.Instruction
	for _, b := range fn.Blocks {
		for _, in := range b.Instrs {
			switch x := in.(type) {
			case *ssa.Store:
				if f, _ := fieldOfAddr(x.Addr); sameVar(f, fld) {
					mods = append(mods, in)
				}
			case ssa.CallInstruction:
				cc := x.Common()
				if cc.IsInvoke() && cc.Method.Name() == "GetType" {
					if f, _ := loadedField(cc.Value); sameVar(f, fld) {
						guards = append(guards, in)
					}
				}
				for _, a := range cc.Args {
					if f, _ := fieldOfAddr(a); sameVar(f, fld) {
						mods = append(mods, in)
					}
				}
			}
		}
	}
	if len(mods) == 0 {
		return true
	}
	never := func(ssa.Instruction) bool { return false }
	for _, m := range mods {
		if !reachWithoutFrom(fn, m, never).Reaches(at) {
			continue
		}
		for _, g := range guards {
			if reachWithoutFrom(fn, g, never).Reaches(m) {
				return false
			}
		}
	}
	return true
}

func noStoreToField(fn *ssa.Function, fld *types.Var) bool {
	for _, b := range fn.Blocks {
		for _, in := range b.Instrs {
			if st, ok := in.(*ssa.Store); ok {
				if f, _ := fieldOfAddr(st.Addr); sameVar(f, fld) {
					return false
				}
			}
		}
	}
	return true
}

// getTypeGuardOnValue: a fact `v.GetType() == K` on the very SSA value v.
func getTypeGuardOnValue(fi *FactInfo, b *ssa.BasicBlock, v ssa.Value) *int64 {
	for f := range fi.At(b) {
		if f.Kind != "true" || !f.Pol {
			continue
		}
		bo, ok := f.V.(*ssa.BinOp)
		if !ok || bo.Op != token.EQL {
			continue
		}
		call, ok := bo.X.(*ssa.Call)
		if !ok || !call.Call.IsInvoke() || call.Call.Method.Name() != "GetType" || call.Call.Value != v {
			continue
		}
		if kc, ok := bo.Y.(*ssa.Const); ok && kc.Value != nil {
			k, _ := constant.Int64Val(kc.Value)
			return &k
		}
	}
	return nil
}

// onlyPushes: every call of a method named push whose receiver is loaded from field fld pushes a
// value of type want.
func onlyPushes(c *Ctx, fld *types.Var, want types.Type) (bool, int) {
	n := 0
	for _, fn := range c.prodFuncs("ast") {
		for _, call := range callsIn(fn) {
			cal, _ := calleeOf(call.Common())
			if cal == nil || cal.Name() != "push" || len(call.Common().Args) != 2 {
				continue
			}
			if f, _ := loadedField(call.Common().Args[0]); !sameVar(f, fld) {
				continue
			}
			n++
			mi, ok := call.Common().Args[1].(*ssa.MakeInterface)
			if !ok || !types.Identical(mi.X.Type(), want) {
				return false, n
			}
		}
	}
	return n > 0, n
}

// eliminationDischarge handles:  if a, ok := v.(A); ok {...} else { v.(B) }  where v ranges over a
// slice whose appends only add values statically typed A or B.
func eliminationDischarge(fi *FactInfo, b *ssa.BasicBlock, ta *ssa.TypeAssert) (bool, string) {
	// a failed comma-ok on the same value dominates
	var failed *ssa.TypeAssert
	for f := range fi.At(b) {
		if f.Kind == "true" && !f.Pol {
			if ex, ok := f.V.(*ssa.Extract); ok && ex.Index == 1 {
				if t, ok := ex.Tuple.(*ssa.TypeAssert); ok && t.CommaOk && t.X == ta.X {
					failed = t
				}
			}
		}
	}
	if failed == nil {
		return false, ""
	}
	// v is an element of a slice
	u, ok := ta.X.(*ssa.UnOp)
	if !ok {
		return false, ""
	}
	ia, ok := u.X.(*ssa.IndexAddr)
	if !ok {
		return false, ""
	}
	seen := map[ssa.Value]bool{}
	ok = true
	n := 0
	var walk func(v ssa.Value)
	walk = func(v ssa.Value) {
		if seen[v] || !ok {
			return
		}
		seen[v] = true
		switch x := v.(type) {
		case *ssa.Const:
			if !x.IsNil() {
				ok = false
			}
		case *ssa.Phi:
			for _, e := range x.Edges {
				walk(e)
			}
		case *ssa.Call:
			if bi, isB := x.Call.Value.(*ssa.Builtin); isB && bi.Name() == "append" {
				walk(x.Call.Args[0])
				// appended values: slice literal of one element
				if !appendedTypesWithin(x.Call.Args[1], []types.Type{failed.AssertedType, ta.AssertedType}, &n) {
					ok = false
				}
				return
			}
			ok = false
		case *ssa.UnOp:
			// the slice travels in a field of a local struct (a parameter object between two phases): every
			// value ever stored into that field, through whichever copy of the struct
			if fa, isFA := x.X.(*ssa.FieldAddr); isFA && x.Op == token.MUL {
				if al, isAl := fa.X.(*ssa.Alloc); isAl {
					srcs, okS := structFieldSources(al, fa.Field, 0, map[*ssa.Alloc]bool{})
					if !okS {
						ok = false
						return
					}
					for _, sv := range srcs {
						walk(sv)
					}
					return
				}
			}
			ok = false
		case *ssa.Field:
			// the struct value: loaded whole from local structs (through joins)
			var allocs []*ssa.Alloc
			good := true
			var origins func(sv ssa.Value, d int)
			origins = func(sv ssa.Value, d int) {
				if d > 5 {
					good = false
					return
				}
				switch y := sv.(type) {
				case *ssa.UnOp:
					if al, isAl := y.X.(*ssa.Alloc); isAl && y.Op == token.MUL {
						allocs = append(allocs, al)
						return
					}
					good = false
				case *ssa.Phi:
					for _, e := range y.Edges {
						origins(e, d+1)
					}
				default:
					good = false
				}
			}
			origins(x.X, 0)
			if !good || len(allocs) == 0 {
				ok = false
				return
			}
			for _, al := range allocs {
				srcs, okS := structFieldSources(al, x.Field, 0, map[*ssa.Alloc]bool{})
				if !okS {
					ok = false
					return
				}
				for _, sv := range srcs {
					walk(sv)
				}
			}
		default:
			ok = false
		}
	}
	walk(ia.X)
	if ok && n > 0 {
		return true, fmt.Sprintf("by elimination: the element failed the comma-ok test for %s and the slice only ever receives values of that or the asserted type (%d append site(s))", types.TypeString(failed.AssertedType, nil), n)
	}
	return false, ""
}

func appendedTypesWithin(v ssa.Value, allowed []types.Type, n *int) bool {
	sl, ok := v.(*ssa.Slice)
	if !ok {
		return false
	}
	alloc, ok := sl.X.(*ssa.Alloc)
	if !ok {
		return false
	}
	good := true
	for _, ref := range *alloc.Referrers() {
		ia, ok := ref.(*ssa.IndexAddr)
		if !ok {
			continue
		}
		for _, r2 := range *ia.Referrers() {
			st, ok := r2.(*ssa.Store)
			if !ok {
				continue
			}
			*n++
			val := st.Val
			if ci, ok := val.(*ssa.ChangeInterface); ok {
				val = ci.X
			}
			match := false
			for _, a := range allowed {
				if types.Identical(val.Type(), a) {
					match = true
				}
			}
			if !match {
				good = false
			}
		}
	}
	return good
}

// ruleSymClosed: TypeTransform of every SymbolNode implementer returns SymbolNode implementers.
func ruleSymClosed(c *Ctx) {
	p := c.P
	symIface := p.Iface("ast", "SymbolNode")
	for _, nt := range astNodeTypes(c) {
		if !types.Implements(types.NewPointer(nt.named), symIface) {
			continue
		}
		var tt *ssa.Function
		for i := 0; i < nt.named.NumMethods(); i++ {
			if nt.named.Method(i).Name() == "TypeTransform" {
				tt = p.SSA.FuncValue(nt.named.Method(i))
			}
		}
		if tt == nil {
			continue
		}
		ok := true
		why := ""
		fi := ComputeFacts(tt)
		for _, r := range returnsOf(tt) {
			v := r.Results[0]
			if isNilConst(v) {
				if classifyErr(fi, r.Block(), r.Results[1], 0) != errNonNil {
					ok = false
					why = "returns a nil node without an error"
				}
				continue
			}
			if mi, isMI := v.(*ssa.MakeInterface); isMI {
				if !types.Implements(mi.X.Type(), symIface) {
					ok = false
					why = "returns " + mi.X.Type().String() + " which is not a SymbolNode"
				}
				continue
			}
			// built by a constructor: a function of the package, or an entry of a constant dispatch table
			if tys, known := possibleDynTypes(v, 0); known && len(tys) > 0 {
				for _, t := range tys {
					if !types.Implements(t, symIface) {
						ok = false
						why = "returns " + t.String() + " which is not a SymbolNode"
					}
				}
				continue
			}
			ok = false
			why = "returns a value of unknown dynamic type"
		}
		c.Check(ok, "C10.ASSERT.SYMCLOSED", "ast."+nt.named.Obj().Name()+".TypeTransform", p.Pos(tt.Pos()), "returns only SymbolNode implementers (or nil with an error)", why)
	}
}

// ---- NILDEREF --------------------------------------------------------------------------------

var nilderefTabled = map[string]string{
	"boltz.FieldToString: result of boltz.FieldToBool":    "inside `case TypeBool`: FieldToBool returns nil only for an empty payload; the setter of that tag always writes one payload byte (writer/reader widths checked by C13.WIDTH)",
	"boltz.FieldToString: result of boltz.FieldToInt64":   "inside `case TypeInt32, TypeInt64`: payload widths 4/8 are fixed by the setters of those tags (C13.WIDTH)",
	"boltz.FieldToString: result of boltz.FieldToFloat64": "inside `case TypeFloat64`: payload width 8 is fixed by SetFloat64 (C13.WIDTH)",
}

// isNullableSource: call results that are nil by contract for null fields.
func isNullableSource(call *ssa.Call) bool {
	if _, ok := call.Type().Underlying().(*types.Pointer); !ok {
		return false
	}
	name := ""
	if call.Call.IsInvoke() {
		name = call.Call.Method.Name()
	} else if f, _ := calleeOf(call.Common()); f != nil {
		name = f.Name()
		if f.Pkg() == nil || !strings.HasPrefix(f.Pkg().Path(), modPath) {
			return false
		}
	} else {
		// function value returning a pointer to a scalar: objectz symbol accessors
		return isScalarPtr(call.Type())
	}
	switch {
	case strings.HasPrefix(name, "Eval") && isScalarPtr(call.Type()):
		return true
	case strings.HasPrefix(name, "FieldTo"), strings.HasPrefix(name, "BytesTo"):
		return true
	case name == "GetSkip" || name == "GetLimit":
		return false // nil means "absent": decided by C02.DEFAULTS (set-on-nil-edge idiom)
	case strings.HasPrefix(name, "Get") && isScalarPtr(call.Type()):
		return true
	case name == "PopState":
		return true
	}
	return false
}

func isScalarPtr(t types.Type) bool {
	p, ok := t.Underlying().(*types.Pointer)
	if !ok {
		return false
	}
	switch e := p.Elem().Underlying().(type) {
	case *types.Basic:
		return true
	case *types.Struct:
		return p.Elem().String() == "time.Time"
	default:
		_ = e
	}
	return false
}

func ruleNilDeref(c *Ctx, rule string, fns []*ssa.Function) {
	p := c.P
	for _, fn := range fns {
		var fi *FactInfo
		for _, b := range fn.Blocks {
			for _, in := range b.Instrs {
				u, ok := in.(*ssa.UnOp)
				if !ok || u.Op != token.MUL {
					continue
				}
				src := nullableOrigin(u.X, 0)
				if src == nil {
					continue
				}
				if fi == nil {
					fi = ComputeFacts(fn)
					c.Analysed(FnName(fn))
				}
				construct := FnName(fn) + ": " + describeValue(src)
				pos := p.Pos(u.Pos())
				if !u.Pos().IsValid() {
					pos = p.Pos(src.Pos())
				}
				if fi.Holds(b, Fact{"nonnil", u.X, true}) {
					c.OK(rule, construct, pos, "dereference dominated by a non-nil test of the same value")
					continue
				}
				if why, ok := nilderefTabled[construct]; ok {
					c.OK(rule, construct, pos, "tabled: "+why)
					continue
				}
				// the branch of a tabled function moved into a function of its own that is only reachable as an
				// entry of the dispatch table that function reads (switch on the tag -> table indexed by the tag)
				if user := tableOnlyUser(p, fn); user != nil {
					if why, ok := nilderefTabled[FnName(user)+": "+describeValue(src)]; ok {
						c.OK(rule, construct, pos, "tabled for "+FnName(user)+", whose dispatch table this function is an entry of: "+why)
						continue
					}
				}
				c.Bad(rule, construct, pos, "a nullable result is dereferenced without a dominating nil test of that value (null field ⇒ nil pointer dereference)")
			}
		}
	}
}

func nullableOrigin(v ssa.Value, depth int) *ssa.Call {
	if depth > 3 {
		return nil
	}
	switch x := v.(type) {
	case *ssa.Call:
		if isNullableSource(x) {
			return x
		}
	case *ssa.Phi:
		for _, e := range x.Edges {
			if c := nullableOrigin(e, depth+1); c != nil {
				return c
			}
		}
	}
	return nil
}

// ---- LEXERR ----------------------------------------------------------------------------------

func ruleC10LexErr(c *Ctx) {
	p := c.P
	// the function that runs the parser: the one that calls Start_ (whatever it is called and whoever
	// creates the listener)
	var fn *ssa.Function
	var start ssa.CallInstruction
	for _, f := range c.prodFuncs("zitiql") {
		if p.isGenerated(f.Pos()) {
			continue
		}
		for _, call := range callsIn(f) {
			if cal, _ := calleeOf(call.Common()); cal != nil && cal.Name() == "Start_" {
				fn, start = f, call
			}
		}
	}
	if fn == nil {
		panic(anchorLost{"zitiql: the function that calls Start_"})
	}
	name := FnName(fn)
	c.Analysed(name)
	lexerT := p.Named("zitiql", "ZitiQlLexer")
	parserT := p.Named("zitiql", "ZitiQlParser")
	recorderT := p.Named("zitiql", "ErrorListener")
	// the recording listener: a parameter of antlr's ErrorListener interface type (the caller's), or the
	// package's own recording listener created here — the one value of that kind handed to AddErrorListener
	var el ssa.Value
	nEl := 0
	for _, call := range callsIn(fn) {
		cc := call.Common()
		cal, _ := calleeOf(cc)
		if cal == nil || cal.Name() != "AddErrorListener" {
			continue
		}
		arg := cc.Args[len(cc.Args)-1]
		if mi, ok := arg.(*ssa.MakeInterface); ok {
			arg = mi.X
		}
		isRecorder := false
		if handedIn(fn, arg) {
			if n := namedOf(arg.Type()); n != nil && n.Obj().Name() == "ErrorListener" {
				isRecorder = true
			}
		}
		if pt, isP := arg.Type().(*types.Pointer); isP && namedOf(pt.Elem()) == recorderT {
			isRecorder = true
		}
		if isRecorder && !sameHandedIn(arg, el) {
			el = arg
			nEl++
		}
	}
	if nEl != 1 {
		c.Check(false, "C10.LEXERR", name+": recording listener", p.Pos(start.Pos()), "one recording error listener is attached", fmt.Sprintf("%d recording error listeners are attached before Start_(): lexer and parser errors must reach the one listener whose errors are returned", nEl))
		return
	}
	rootNamed := func(v ssa.Value) *types.Named {
		for i := 0; i < 10; i++ {
			switch x := v.(type) {
			case *ssa.FieldAddr:
				v = x.X
			case *ssa.UnOp:
				v = x.X
			case *ssa.ChangeType:
				v = x.X
			case *ssa.MakeInterface:
				v = x.X
			default:
				return namedOf(v.Type())
			}
		}
		return nil
	}
	for _, want := range []struct {
		t    *types.Named
		what string
	}{{lexerT, "lexer"}, {parserT, "parser"}} {
		isAdd := func(in ssa.Instruction) bool {
			call, ok := in.(ssa.CallInstruction)
			if !ok {
				return false
			}
			cc := call.Common()
			cal, _ := calleeOf(cc)
			if cal == nil || cal.Name() != "AddErrorListener" {
				return false
			}
			var recv, arg ssa.Value
			if cc.IsInvoke() {
				recv, arg = cc.Value, cc.Args[0]
			} else {
				recv, arg = cc.Args[0], cc.Args[1]
			}
			if mi, ok := arg.(*ssa.MakeInterface); ok {
				arg = mi.X
			}
			return sameHandedIn(arg, el) && rootNamed(recv) == want.t
		}
		ri := reachWithout(fn, isAdd)
		c.Check(!ri.Reaches(start), "C10.LEXERR", name+": "+want.what+" reports to the caller's listener", p.Pos(start.Pos()),
			"on every path to Start_() the "+want.what+" has the caller's error listener attached",
			"Start_() is reachable without attaching the caller's error listener to the "+want.what+": its errors are printed, not returned, and unrecognised input is silently dropped")
	}
	// ast.Parse must return the first parse error before building the query
	ap := p.SSAFunc(p.Func("ast", "Parse"))
	c.Analysed(FnName(ap))
	zparse := p.Func("zitiql", "Parse")
	var pcall *ssa.Call
	var gq ssa.CallInstruction
	for _, call := range callsIn(ap) {
		if isCallTo(call, zparse) {
			pcall, _ = call.(*ssa.Call)
		}
		if cal, _ := calleeOf(call.Common()); cal != nil && cal.Name() == "getQuery" {
			gq = call
		}
	}
	ok := pcall != nil && gq != nil
	why := "zitiql.Parse / getQuery call not found"
	if ok {
		fi := ComputeFacts(ap)
		// getQuery only where len(parseErrors) == 0
		ok = fi.HoldsWhere(gq.Block(), func(f Fact) bool {
			if f.Kind != "true" {
				return false
			}
			bo, isB := f.V.(*ssa.BinOp)
			if !isB {
				return false
			}
			lc, isC := bo.X.(*ssa.Call)
			if !isC {
				return false
			}
			if bi, isBi := lc.Call.Value.(*ssa.Builtin); !isBi || bi.Name() != "len" || lc.Call.Args[0] != ssa.Value(pcall) {
				return false
			}
			zero, isK := bo.Y.(*ssa.Const)
			if !isK || zero.Value == nil || constant.Sign(zero.Value) != 0 {
				return false
			}
			return (bo.Op == token.NEQ && !f.Pol) || (bo.Op == token.EQL && f.Pol) || (bo.Op == token.GTR && !f.Pol)
		})
		why = "the query is built even when the parser reported errors"
	}
	c.Check(ok, "C10.LEXERR", FnName(ap)+": parse errors stop the query", p.Pos(ap.Pos()), "getQuery runs only when zitiql.Parse returned no errors", why)
	// the listener itself must record every report: no path of SyntaxError returns without appending
	se := p.SSAFunc(p.Method("zitiql", "ErrorListener", "SyntaxError"))
	c.Analysed(FnName(se))
	errsFld := p.Field("zitiql", "ErrorListener", "Errors")
	isRecord := func(in ssa.Instruction) bool {
		st, ok := in.(*ssa.Store)
		if !ok {
			return false
		}
		f, base := fieldOfAddr(st.Addr)
		return sameVar(f, errsFld) && base == ssa.Value(se.Params[0])
	}
	ri := reachWithout(se, isRecord)
	okRec := true
	for _, r := range returnsOf(se) {
		if ri.Reaches(r) {
			okRec = false
		}
	}
	c.Check(okRec, "C10.LEXERR", FnName(se)+": records every report", p.Pos(se.Pos()), "every path appends a ParseError (lexer reports carry no token and must still be recorded)", "a path returns without recording the syntax error: reports without an offending token (all lexer errors) are dropped and the text is silently altered")
	c.Floor("C10.LEXERR", 4)
}

// ---- PANIC -----------------------------------------------------------------------------------

var panicTabled = map[string]string{
	"(*objectz.ObjectCursor[T]).OpenSetCursor":         "unreachable: ObjectStore.IsSet answers `false` for every symbol (checked), so SymbolValidator rejects every set function before evaluation",
	"(*objectz.ObjectCursor[T]).OpenSetCursorForQuery": "unreachable: ObjectStore.IsSet answers `false` for every symbol (checked), so SymbolValidator rejects every set function before evaluation",
}

func ruleC10Panic(c *Ctx) {
	p := c.P
	cg := p.CallGraph()
	var entries []*ssa.Function
	add := func(f *types.Func) { entries = append(entries, p.SSAFunc(f)) }
	add(p.Func("ast", "Parse"))
	add(p.Method("ast", "queryNode", "EvalBool"))
	for _, m := range []string{"QueryIds", "QueryIdsC", "QueryWithCursorC", "IterateIds", "IterateValidIds"} {
		add(p.Method("boltz", "BaseStore", m))
	}
	add(p.Func("boltz", "ValidateSymbolsArePublic"))
	add(p.Method("objectz", "ObjectStore", "QueryEntities"))
	add(p.Method("objectz", "ObjectStore", "QueryEntitiesC"))
	// forward reachability
	reach := map[*ssa.Function]*ssa.Function{}
	var work []*ssa.Function
	for _, e := range entries {
		reach[e] = e
		work = append(work, e)
	}
	for len(work) > 0 {
		f := work[len(work)-1]
		work = work[:len(work)-1]
		for _, t := range cg.edges[f] {
			if _, ok := reach[t]; !ok {
				reach[t] = f
				work = append(work, t)
			}
		}
	}
	var fns []*ssa.Function
	for f := range reach {
		fns = append(fns, f)
	}
	sort.Slice(fns, func(i, j int) bool { return FnName(fns[i]) < FnName(fns[j]) })
	nPanic := 0
	// reason check for the objectz exemption
	isSetConstFalse := false
	{
		isSet := p.SSAFunc(p.Method("objectz", "ObjectStore", "IsSet"))
		isSetConstFalse = true
		for _, r := range returnsOf(isSet) {
			if b, ok := boolConst(r.Results[0]); !ok || b {
				isSetConstFalse = false
			}
		}
	}
	for _, f := range fns {
		if p.isGenerated(f.Pos()) || isControl(FnName(f)) {
			continue
		}
		c.Analysed(FnName(f))
		for _, b := range f.Blocks {
			for _, in := range b.Instrs {
				pn, ok := in.(*ssa.Panic)
				if !ok || !pn.Pos().IsValid() {
					continue
				}
				nPanic++
				name := FnName(f)
				chain := name
				for x, n := f, 0; reach[x] != x && n < 10; n++ {
					x = reach[x]
					chain = FnName(x) + " -> " + chain
				}
				if why, ok := panicTabled[name]; ok && isSetConstFalse {
					c.OK("C10.PANIC", name, p.Pos(pn.Pos()), "tabled: "+why)
					continue
				}
				c.BadPath("C10.PANIC", name, p.Pos(pn.Pos()), "an explicit panic is reachable from a query entry point", chain)
			}
		}
	}
	c.OK("C10.PANIC", "query entry points", "-", fmt.Sprintf("%d functions reachable from %d entry points scanned for explicit panics (%d found)", len(fns), len(entries), nPanic))
}

// ruleC10NilBucket: a *TypedBucket returned by a lookup that can yield nil (Path, GetBucket*,
// GetEntitiesBucket, GetEntityBucket, ... — computed, not listed) must not be used as the receiver
// of a method that dereferences it (directly, through a bound method value, or a field access)
// without a dominating nil test.  Which methods tolerate a nil receiver is computed from their bodies.
func ruleC10NilBucket(c *Ctx) {
	p := c.P
	cg := p.CallGraph()
	tb := p.Named("boltz", "TypedBucket")
	isTB := func(t types.Type) bool {
		pt, ok := t.(*types.Pointer)
		return ok && namedOf(pt.Elem()) == tb && namedOf(pt.Elem()) != nil
	}
	funcs := c.prodFuncs("boltz", "objectz")
	// --- which functions may return a nil *TypedBucket
	mayNil := map[*ssa.Function]bool{}
	resultIdx := func(fn *ssa.Function) int {
		rs := fn.Signature.Results()
		for i := 0; i < rs.Len(); i++ {
			if isTB(rs.At(i).Type()) {
				return i
			}
		}
		return -1
	}
	var retMayNil func(v ssa.Value, seen map[ssa.Value]bool) bool
	retMayNil = func(v ssa.Value, seen map[ssa.Value]bool) bool {
		if seen[v] {
			return false
		}
		seen[v] = true
		switch x := v.(type) {
		case *ssa.Const:
			return x.IsNil()
		case *ssa.Phi:
			for _, e := range x.Edges {
				if retMayNil(e, seen) {
					return true
				}
			}
		case *ssa.Call:
			for _, t := range cg.CalleesOf(x.Common()) {
				if mayNil[t] {
					return true
				}
			}
		}
		return false
	}
	for changed := true; changed; {
		changed = false
		for _, fn := range funcs {
			if mayNil[fn] {
				continue
			}
			ri := resultIdx(fn)
			if ri < 0 {
				continue
			}
			fi := (*FactInfo)(nil)
			for _, r := range returnsOf(fn) {
				if r.Block() == fn.Recover || ri >= len(r.Results) {
					continue
				}
				v := r.Results[ri]
				if !retMayNil(v, map[ssa.Value]bool{}) {
					continue
				}
				if fi == nil {
					fi = ComputeFacts(fn)
				}
				if fi.Holds(r.Block(), Fact{"nonnil", v, true}) {
					continue
				}
				mayNil[fn] = true
				changed = true
				break
			}
		}
	}
	// --- which *TypedBucket methods tolerate a nil receiver (greatest fixpoint)
	nilSafe := map[*ssa.Function]bool{}
	var methods []*ssa.Function
	for _, fn := range funcs {
		if fn.Signature.Recv() != nil && isTB(fn.Signature.Recv().Type()) && len(fn.Params) > 0 {
			methods = append(methods, fn)
			nilSafe[fn] = true
		}
	}
	boundTarget := func(mc *ssa.MakeClosure) *ssa.Function {
		f, _ := mc.Fn.(*ssa.Function)
		if f == nil || !strings.HasSuffix(f.Name(), "$bound") || len(mc.Bindings) != 1 {
			return nil
		}
		if m, ok := f.Object().(*types.Func); ok {
			return p.SSA.FuncValue(m)
		}
		return nil
	}
	// unsafeUse reports why using v (a possibly nil bucket) at instruction `in` dereferences it
	unsafeUse := func(in ssa.Instruction, v ssa.Value) string {
		switch x := in.(type) {
		case *ssa.FieldAddr:
			if x.X == v {
				if f, _ := fieldOfAddr(x); f != nil {
					return "field access ." + f.Name()
				}
				return "field access"
			}
		case *ssa.UnOp:
			if x.Op == token.MUL && x.X == v {
				return "dereference"
			}
		case *ssa.MakeClosure:
			if t := boundTarget(x); t != nil && x.Bindings[0] == v && !nilSafe[t] {
				return "bound method value ." + t.Name() + " (invoked later on the nil receiver)"
			}
		case ssa.CallInstruction:
			cc := x.Common()
			if cc.IsInvoke() || len(cc.Args) == 0 || cc.Args[0] != v {
				return ""
			}
			if sc := cc.StaticCallee(); sc != nil && sc.Signature.Recv() != nil && isTB(sc.Signature.Recv().Type()) && !nilSafe[sc] {
				return "method call ." + sc.Name() + "(), which dereferences its receiver"
			}
		}
		return ""
	}
	for changed := true; changed; {
		changed = false
		for _, m := range methods {
			if !nilSafe[m] {
				continue
			}
			recv := ssa.Value(m.Params[0])
			var fi *FactInfo
			for _, b := range m.Blocks {
				for _, in := range b.Instrs {
					if unsafeUse(in, recv) == "" {
						continue
					}
					if fi == nil {
						fi = ComputeFacts(m)
					}
					if !fi.Holds(b, Fact{"nonnil", recv, true}) {
						nilSafe[m] = false
						changed = true
					}
				}
			}
		}
	}
	nSafe := 0
	for _, m := range methods {
		if nilSafe[m] {
			nSafe++
		}
	}
	nMay := 0
	for range mayNil {
		nMay++
	}
	c.Note(fmt.Sprintf("C10.NILBUCKET: %d lookups can return a nil *TypedBucket; %d of %d TypedBucket methods tolerate a nil receiver", nMay, nSafe, len(methods)))
	// --- use sites: every function reachable from the query entry points of a store
	inScope := map[*ssa.Function]bool{}
	entryNames := map[string]bool{"QueryIds": true, "QueryIdsf": true, "QueryIdsC": true, "QueryWithCursorC": true, "IterateIds": true, "IterateValidIds": true, "Scan": true, "ScanCursor": true, "QueryEntities": true, "QueryEntitiesC": true}
	var work []*ssa.Function
	for _, fn := range funcs {
		if fn.Signature.Recv() != nil && entryNames[fn.Name()] {
			inScope[fn] = true
			work = append(work, fn)
		}
	}
	nEntries := len(work)
	for len(work) > 0 {
		fn := work[len(work)-1]
		work = work[:len(work)-1]
		for _, t := range cg.edges[fn] {
			if !inScope[t] {
				inScope[t] = true
				work = append(work, t)
			}
		}
	}
	c.Note(fmt.Sprintf("C10.NILBUCKET scope: %d functions reachable from %d query entry points", len(inScope), nEntries))
	n := 0
	for _, fn := range funcs {
		if !inScope[fn] {
			continue
		}
		var fi *FactInfo
		for _, b := range fn.Blocks {
			for _, in := range b.Instrs {
				for _, op := range in.Operands(nil) {
					if op == nil || *op == nil {
						continue
					}
					src, ok := (*op).(*ssa.Call)
					if !ok || !isTB(src.Type()) {
						continue
					}
					may := false
					for _, t := range cg.CalleesOf(src.Common()) {
						if mayNil[t] {
							may = true
						}
					}
					if !may {
						continue
					}
					why := unsafeUse(in, src)
					if why == "" {
						continue
					}
					if fi == nil {
						fi = ComputeFacts(fn)
						c.Analysed(FnName(fn))
					}
					n++
					cal, _ := calleeOf(src.Common())
					cn := "?"
					if cal != nil {
						cn = cal.Name()
					}
					construct := fmt.Sprintf("%s: %s on result of %s", FnName(fn), strings.SplitN(why, " (", 2)[0], cn)
					c.Check(fi.Holds(b, Fact{"nonnil", src, true}), "C10.NILBUCKET", construct, p.Pos(in.Pos()), "dominated by a nil test of the looked-up bucket", "the lookup returns nil when the bucket does not exist and the result is used without a nil test: "+why)
				}
			}
		}
	}
	c.Floor("C10.NILBUCKET", 1)
}

// isThunkOf: v is fn used as a function value — fn itself or the builder's thunk for the method expression.
func isThunkOf(v ssa.Value, fn *ssa.Function) bool {
	// (a table whose element type is a named function type holds converted values)
	for i := 0; i < 2; i++ {
		if ct, isCT := v.(*ssa.ChangeType); isCT {
			v = ct.X
		}
	}
	f, ok := v.(*ssa.Function)
	if !ok {
		return false
	}
	if f == fn {
		return true
	}
	if !strings.HasPrefix(f.Synthetic, "thunk") {
		return false
	}
	for _, b := range f.Blocks {
		for _, in := range b.Instrs {
			if call, isCall := in.(ssa.CallInstruction); isCall && call.Common().StaticCallee() == fn {
				return true
			}
		}
	}
	return false
}

// localTableSite: a call through a dispatch table that a function builds and returns (map literal with
// constant keys whose entries are closures).
type localTableSite struct {
	call ssa.CallInstruction
	key  ssa.Value
	k    int64
}

// localTableSites: cl is a closure that is only ever an entry (under constant keys) of a map built and
// returned by its parent function; the result lists every call through a lookup in such a map.
func localTableSites(c *Ctx, cl *ssa.Function) ([]localTableSite, bool) {
	h := cl.Parent()
	if h == nil {
		return nil, false
	}
	var keys []int64
	var mm *ssa.MakeMap
	for _, b := range h.Blocks {
		for _, in := range b.Instrs {
			var v ssa.Value
			switch x := in.(type) {
			case *ssa.MakeClosure:
				if x.Fn == ssa.Value(cl) {
					v = x
				}
			}
			if v == nil {
				continue
			}
			if !entryOnly(v, &keys, &mm, 0) {
				return nil, false
			}
		}
	}
	// a closure without free variables is used as a plain function value
	for _, b := range h.Blocks {
		for _, in := range b.Instrs {
			for _, op := range in.Operands(nil) {
				if *op == ssa.Value(cl) {
					switch x := in.(type) {
					case *ssa.MapUpdate:
						k, isK := x.Key.(*ssa.Const)
						m, isMM := x.Map.(*ssa.MakeMap)
						if !isK || k.Value == nil || k.Value.Kind() != constant.Int || !isMM || (mm != nil && mm != m) {
							return nil, false
						}
						kv, _ := constant.Int64Val(k.Value)
						keys = append(keys, kv)
						mm = m
					case *ssa.ChangeType:
						if !entryOnly(x, &keys, &mm, 0) {
							return nil, false
						}
					case *ssa.MakeClosure:
					default:
						return nil, false
					}
				}
			}
		}
	}
	if mm == nil || len(keys) == 0 {
		return nil, false
	}
	// the map only receives entries, is looked up here, and/or is returned
	var out []localTableSite
	collect := func(lk *ssa.Lookup) bool {
		vals := []ssa.Value{lk}
		for _, lr := range *lk.Referrers() {
			if ex, isEx := lr.(*ssa.Extract); isEx && ex.Index == 0 {
				vals = append(vals, ex)
			}
		}
		for _, v := range vals {
			for _, vr := range *v.Referrers() {
				ci, isCall := vr.(ssa.CallInstruction)
				if !isCall {
					continue
				}
				if ci.Common().Value != v {
					return false
				}
				for _, k := range keys {
					out = append(out, localTableSite{ci, lk.Index, k})
				}
			}
		}
		return true
	}
	returned := false
	for _, r := range *mm.Referrers() {
		switch x := r.(type) {
		case *ssa.MapUpdate, *ssa.DebugRef:
		case *ssa.Return:
			returned = true
		case *ssa.Lookup:
			if !collect(x) {
				return nil, false
			}
		default:
			return nil, false
		}
	}
	if !returned {
		return out, len(out) > 0
	}
	for _, fn := range c.P.SrcFuncs(h.Pkg.Pkg.Name()) {
		for _, call := range callsIn(fn) {
			sc := call.Common().StaticCallee()
			if sc == nil || (sc != h && sc.Origin() != h) {
				continue
			}
			tbl, isV := call.(ssa.Value)
			if !isV {
				return nil, false
			}
			for _, r := range *tbl.Referrers() {
				lk, isLk := r.(*ssa.Lookup)
				if !isLk {
					if _, isDbg := r.(*ssa.DebugRef); isDbg {
						continue
					}
					return nil, false // the table escapes
				}
				vals := []ssa.Value{lk}
				for _, lr := range *lk.Referrers() {
					if ex, isEx := lr.(*ssa.Extract); isEx && ex.Index == 0 {
						vals = append(vals, ex)
					}
				}
				for _, v := range vals {
					for _, vr := range *v.Referrers() {
						ci, isCall := vr.(ssa.CallInstruction)
						if !isCall {
							continue
						}
						if ci.Common().Value != v {
							return nil, false
						}
						for _, k := range keys {
							out = append(out, localTableSite{ci, lk.Index, k})
						}
					}
				}
			}
		}
	}
	return out, len(out) > 0
}

// entryOnly: the function value v is used only as the value of map updates with constant integer keys into
// one MakeMap (directly or after a conversion to a named function type).
func entryOnly(v ssa.Value, keys *[]int64, mm **ssa.MakeMap, depth int) bool {
	if depth > 2 {
		return false
	}
	for _, r := range *v.Referrers() {
		switch x := r.(type) {
		case *ssa.DebugRef:
		case *ssa.ChangeType:
			if !entryOnly(x, keys, mm, depth+1) {
				return false
			}
		case *ssa.MapUpdate:
			k, isK := x.Key.(*ssa.Const)
			m, isMM := x.Map.(*ssa.MakeMap)
			if x.Value != v || !isK || k.Value == nil || k.Value.Kind() != constant.Int || !isMM || (*mm != nil && *mm != m) {
				return false
			}
			kv, _ := constant.Int64Val(k.Value)
			*keys = append(*keys, kv)
			*mm = m
		default:
			return false
		}
	}
	return true
}

// ruleC10LateCursor: a symbol's per-row cursor field is only assigned by OpenCursor.  A query can reach the
// symbol's other methods without OpenCursor ever having run (`count(a.b.c) = null` evaluates the set symbol
// through IsNil), so every other method that follows the field must have established that it is not nil.
func ruleC10LateCursor(c *Ctx) {
	p := c.P
	n := 0
	type key struct {
		t *types.Named
		f *types.Var
	}
	late := map[key]bool{}
	for _, fn := range c.prodFuncs("boltz") {
		if fn.Name() != "OpenCursor" || fn.Signature.Recv() == nil || fn.Parent() != nil {
			continue
		}
		recvT := namedOf(fn.Signature.Recv().Type())
		for _, b := range fn.Blocks {
			for _, in := range b.Instrs {
				st, ok := in.(*ssa.Store)
				if !ok {
					continue
				}
				f, base := fieldOfAddr(st.Addr)
				if f == nil || base != ssa.Value(fn.Params[0]) {
					continue
				}
				switch f.Type().Underlying().(type) {
				case *types.Pointer:
					late[key{recvT, f}] = true
				}
			}
		}
	}
	for _, fn := range c.prodFuncs("boltz") {
		if fn.Signature.Recv() == nil || fn.Parent() != nil || fn.Name() == "OpenCursor" {
			continue
		}
		recvT := namedOf(fn.Signature.Recv().Type())
		var fi *FactInfo
		for _, b := range fn.Blocks {
			for _, in := range b.Instrs {
				// a dereference of the loaded field: field access through it
				fa, ok := in.(*ssa.FieldAddr)
				if !ok {
					continue
				}
				ld, isLd := fa.X.(*ssa.UnOp)
				if !isLd {
					continue
				}
				f, base := loadedField(ld)
				if f == nil || base != ssa.Value(fn.Params[0]) || !late[key{recvT, f}] {
					continue
				}
				n++
				if fi == nil {
					fi = factsOf(fn)
				}
				guarded := fi.HoldsWhere(b, func(ft Fact) bool {
					if ft.Kind != "nonnil" || !ft.Pol {
						return false
					}
					gf, gb := loadedField(ft.V)
					return sameVar(gf, f) && gb == base
				})
				c.Check(guarded, "C10.LATECURSOR", FnName(fn)+": ."+f.Name(), p.Pos(fa.Pos()), "the cursor field is followed only where it was found non-nil", "the field ."+f.Name()+" is only assigned by OpenCursor, but this method follows it without a nil test: a query that evaluates the symbol without opening a cursor first (a null test on a set function over it) panics with a nil pointer dereference")
			}
		}
	}
	c.CallSites(n)
	c.Floor("C10.LATECURSOR", 1)
}

// flagMeansNonNil: fn returns (value, flag) and on every return the flag is false when the value is nil: a
// literal (nil, false), or the two results of one comma-ok type assertion.
func flagMeansNonNil(fn *ssa.Function) bool {
	if fn == nil || fn.Blocks == nil || fn.Signature.Results().Len() != 2 {
		return false
	}
	var pairOK func(v, flag ssa.Value, depth int) bool
	pairOK = func(v, flag ssa.Value, depth int) bool {
		if depth > 3 {
			return false
		}
		if isNilConst(v) {
			k, isK := flag.(*ssa.Const)
			return isK && k.Value != nil && k.Value.Kind() == constant.Bool && !constant.BoolVal(k.Value)
		}
		e0, ok0 := v.(*ssa.Extract)
		e1, ok1 := flag.(*ssa.Extract)
		if ok0 && ok1 && e0.Tuple == e1.Tuple && e0.Index == 0 && e1.Index == 1 {
			ta, isTA := e0.Tuple.(*ssa.TypeAssert)
			return isTA && ta.CommaOk
		}
		p0, isP0 := v.(*ssa.Phi)
		p1, isP1 := flag.(*ssa.Phi)
		if isP0 && isP1 && p0.Block() == p1.Block() {
			for i := range p0.Edges {
				if !pairOK(p0.Edges[i], p1.Edges[i], depth+1) {
					return false
				}
			}
			return true
		}
		return false
	}
	for _, r := range returnsOf(fn) {
		if !pairOK(r.Results[0], r.Results[1], 0) {
			return false
		}
	}
	return true
}

// possibleDynTypes: the dynamic types an interface value can have, when it is built by boxing a concrete
// value, by a function of the module whose every return does so, or by an entry of a package-level dispatch
// table that is only written by its initialiser.  nil results are left out.
func possibleDynTypes(v ssa.Value, depth int) ([]types.Type, bool) {
	if depth > 4 {
		return nil, false
	}
	var out []types.Type
	add := func(ts []types.Type) {
		for _, t := range ts {
			dup := false
			for _, o := range out {
				if types.Identical(o, t) {
					dup = true
				}
			}
			if !dup {
				out = append(out, t)
			}
		}
	}
	ofFunc := func(f *ssa.Function) bool {
		if f == nil || f.Blocks == nil || f.Signature.Results().Len() < 1 {
			return false
		}
		for _, r := range returnsOf(f) {
			if isNilConst(r.Results[0]) {
				continue
			}
			ts, ok := possibleDynTypes(r.Results[0], depth+1)
			if !ok {
				return false
			}
			add(ts)
		}
		return true
	}
	switch x := v.(type) {
	case *ssa.MakeInterface:
		return []types.Type{x.X.Type()}, true
	case *ssa.ChangeInterface:
		return possibleDynTypes(x.X, depth+1)
	case *ssa.Phi:
		for _, e := range x.Edges {
			if isNilConst(e) {
				continue
			}
			ts, ok := possibleDynTypes(e, depth+1)
			if !ok {
				return nil, false
			}
			add(ts)
		}
		return out, true
	case *ssa.Extract:
		if call, isCall := x.Tuple.(*ssa.Call); isCall && x.Index == 0 {
			return possibleDynTypes(call, depth+1)
		}
	case *ssa.Call:
		if sc := x.Call.StaticCallee(); sc != nil {
			if sc.Pkg == nil || !strings.HasPrefix(sc.Pkg.Pkg.Path(), modPath) || !ofFunc(sc) {
				return nil, false
			}
			return out, true
		}
		if x.Call.IsInvoke() {
			return nil, false
		}
		// a function taken from a constant dispatch table: any of its entries
		fv := x.Call.Value
		if ex, isEx := fv.(*ssa.Extract); isEx {
			fv = ex.Tuple
		}
		lk, isLk := fv.(*ssa.Lookup)
		if !isLk {
			return nil, false
		}
		ld, isLd := lk.X.(*ssa.UnOp)
		if !isLd {
			return nil, false
		}
		g, isG := ld.X.(*ssa.Global)
		if !isG {
			return nil, false
		}
		entries, okT := constTable(g)
		if !okT {
			return nil, false
		}
		for _, e := range entries {
			var f *ssa.Function
			ev0 := e.val
			if ct, isCT := ev0.(*ssa.ChangeType); isCT {
				ev0 = ct.X // an entry converted to the table's named function type
			}
			switch ev := ev0.(type) {
			case *ssa.Function:
				f = ev
			case *ssa.MakeClosure:
				f, _ = ev.Fn.(*ssa.Function)
			}
			if !ofFunc(f) {
				return nil, false
			}
		}
		return out, true
	}
	return nil, false
}

// structFieldSources: every value that is ever stored into field f of the local struct al — directly, or by a
// whole-struct copy from another local struct (then that struct's sources).  ok is false when the struct
// escapes or is written from something that is not a local struct.
func structFieldSources(al *ssa.Alloc, f int, depth int, seen map[*ssa.Alloc]bool) ([]ssa.Value, bool) {
	if depth > 6 || al.Referrers() == nil {
		return nil, false
	}
	if seen[al] {
		return nil, true
	}
	seen[al] = true
	if _, isStruct := derefType(al.Type()).Underlying().(*types.Struct); !isStruct {
		return nil, false
	}
	var out []ssa.Value
	for _, r := range *al.Referrers() {
		switch x := r.(type) {
		case *ssa.DebugRef:
		case *ssa.FieldAddr:
			for _, fr := range *x.Referrers() {
				switch y := fr.(type) {
				case *ssa.Store:
					if y.Addr != ssa.Value(x) {
						return nil, false
					}
					if x.Field == f {
						out = append(out, y.Val)
					}
				case *ssa.UnOp, *ssa.DebugRef:
				default:
					return nil, false
				}
			}
		case *ssa.Store:
			if x.Addr != ssa.Value(al) {
				return nil, false
			}
			// a whole copy: from another local struct (or, through a join, from several)
			var srcs []*ssa.Alloc
			good := true
			var origins func(v ssa.Value, d int)
			origins = func(v ssa.Value, d int) {
				if d > 5 {
					good = false
					return
				}
				switch y := v.(type) {
				case *ssa.UnOp:
					if src, isAl := y.X.(*ssa.Alloc); isAl && y.Op == token.MUL {
						srcs = append(srcs, src)
						return
					}
					good = false
				case *ssa.Phi:
					for _, e := range y.Edges {
						origins(e, d+1)
					}
				default:
					good = false
				}
			}
			origins(x.Val, 0)
			if !good {
				return nil, false
			}
			for _, src := range srcs {
				more, ok := structFieldSources(src, f, depth+1, seen)
				if !ok {
					return nil, false
				}
				out = append(out, more...)
			}
		case *ssa.UnOp:
		default:
			return nil, false
		}
	}
	return out, true
}

// sameHandedIn: a and b are the same value, or two reads of the same field of the same parameter object.
func sameHandedIn(a, b ssa.Value) bool {
	if a == nil || b == nil {
		return false
	}
	if a == b {
		return true
	}
	fa, ba := loadedField(a)
	fb, bb := loadedField(b)
	if fa != nil && sameVar(fa, fb) && ba == bb {
		_, isPrm := ba.(*ssa.Parameter)
		return isPrm
	}
	return false
}

// typeArgIndex: t is (a pointer to) an instance of a generic named type and want is its i-th type argument.
func typeArgIndex(t, want types.Type) int {
	nm, _ := types.Unalias(derefType(t)).(*types.Named)
	if nm == nil || nm.TypeArgs() == nil {
		return -1
	}
	for i := 0; i < nm.TypeArgs().Len(); i++ {
		if types.Identical(nm.TypeArgs().At(i), want) {
			return i
		}
	}
	return -1
}

// poolFieldHoldsTypeArg: every value put into the sync.Pool kept in field f of a generic wrapper — by Put, or
// by the New function installed where the wrapper is built — has the wrapper's idx-th type argument as its type
// (the type parameter itself inside the wrapper's own methods).  n counts the sites.
func poolFieldHoldsTypeArg(c *Ctx, f *types.Var, idx int) (bool, int) {
	p := c.P
	ok, n := true, 0
	isArg := func(base ssa.Value, x types.Type) bool {
		nm, _ := types.Unalias(derefType(base.Type())).(*types.Named)
		return nm != nil && nm.TypeArgs() != nil && idx < nm.TypeArgs().Len() && types.Identical(nm.TypeArgs().At(idx), x)
	}
	boxed := func(v ssa.Value) types.Type {
		if mi, isMI := v.(*ssa.MakeInterface); isMI {
			return mi.X.Type()
		}
		// inside a generic body a value of type-parameter type is converted, not boxed
		if ct, isCT := v.(*ssa.ChangeType); isCT {
			if _, isTP := types.Unalias(ct.X.Type()).(*types.TypeParam); isTP {
				return ct.X.Type()
			}
		}
		return nil
	}
	for _, fn := range p.SrcFuncs(f.Pkg().Name()) {
		for _, b := range fn.Blocks {
			for _, in := range b.Instrs {
				switch x := in.(type) {
				case ssa.CallInstruction:
					cal, _ := calleeOf(x.Common())
					if cal == nil || cal.Name() != "Put" || cal.Pkg() == nil || cal.Pkg().Path() != "sync" || len(x.Common().Args) != 2 {
						continue
					}
					if ff, base := fieldOfAddr(x.Common().Args[0]); sameVar(ff, f) {
						n++
						if t := boxed(x.Common().Args[1]); t == nil || !isArg(base, t) {
							ok = false
						}
					}
				case *ssa.Store:
					nf, poolAddr := fieldOfAddr(x.Addr)
					if nf == nil || nf.Name() != "New" {
						continue
					}
					ff, base := fieldOfAddr(poolAddr)
					if !sameVar(ff, f) {
						continue
					}
					n++
					var newFn *ssa.Function
					switch v := x.Val.(type) {
					case *ssa.MakeClosure:
						newFn, _ = v.Fn.(*ssa.Function)
					case *ssa.Function:
						newFn = v
					}
					if newFn == nil || newFn.Blocks == nil {
						ok = false
						continue
					}
					for _, r := range returnsOf(newFn) {
						if t := boxed(r.Results[0]); t == nil || !isArg(base, t) {
							ok = false
						}
					}
				}
			}
		}
	}
	return ok, n
}

// tableOnlyUser: fn is used nowhere but as an entry of one package-level table filled in init, and that table is
// read by exactly one function: that function.
func tableOnlyUser(p *Prog, fn *ssa.Function) *ssa.Function {
	if fn.Pkg == nil || fn.Parent() != nil {
		return nil
	}
	initFn := fn.Pkg.Func("init")
	var table *ssa.Global
	ok := true
	var all []*ssa.Function
	var add func(f *ssa.Function)
	add = func(f *ssa.Function) {
		all = append(all, f)
		for _, a := range f.AnonFuncs {
			add(a)
		}
	}
	for _, m := range fn.Pkg.Members {
		switch x := m.(type) {
		case *ssa.Function:
			add(x)
		case *ssa.Type:
			for _, t := range []types.Type{x.Type(), types.NewPointer(x.Type())} {
				ms := p.SSA.MethodSets.MethodSet(t)
				for i := 0; i < ms.Len(); i++ {
					if mf := p.SSA.MethodValue(ms.At(i)); mf != nil && mf.Pkg == fn.Pkg {
						add(mf)
					}
				}
			}
		}
	}
	uses := 0
	var rands []*ssa.Value
	for _, f := range all {
		for _, b := range f.Blocks {
			for _, in := range b.Instrs {
				rands = in.Operands(rands[:0])
				for _, op := range rands {
					if op == nil || *op != ssa.Value(fn) {
						continue
					}
					uses++
					if f != initFn {
						ok = false
						continue
					}
					// ChangeType to the table's element type, then stored into the table
					var v ssa.Value
					if val, isV := in.(ssa.Value); isV {
						v = val
					}
					if st, isSt := in.(*ssa.Store); isSt {
						v = nil
						if ia, isIA := st.Addr.(*ssa.IndexAddr); isIA {
							if g, isG := ia.X.(*ssa.Global); isG {
								table = g
								continue
							}
						}
						ok = false
						continue
					}
					if v == nil || v.Referrers() == nil {
						ok = false
						continue
					}
					for _, r := range *v.Referrers() {
						switch y := r.(type) {
						case *ssa.Store:
							if ia, isIA := y.Addr.(*ssa.IndexAddr); isIA {
								if g, isG := ia.X.(*ssa.Global); isG && (table == nil || table == g) {
									table = g
									continue
								}
							}
							ok = false
						case *ssa.MapUpdate:
							// the map value under construction; its global is found by its single store
							ok = false
						default:
							ok = false
						}
					}
				}
			}
		}
	}
	if !ok || uses == 0 || table == nil {
		return nil
	}
	var reader *ssa.Function
	for _, f := range all {
		if f == initFn {
			continue
		}
		for _, b := range f.Blocks {
			for _, in := range b.Instrs {
				rands = in.Operands(rands[:0])
				for _, op := range rands {
					if op != nil && *op == ssa.Value(table) {
						if reader != nil && reader != f {
							return nil
						}
						reader = f
					}
				}
			}
		}
	}
	return reader
}
