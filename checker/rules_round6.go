package main

import (
	"fmt"
	"go/ast"
	"go/token"
	"go/types"
	"strings"

	"golang.org/x/tools/go/ssa"
)

// Rules added after the sixth round of independently seeded changes (interplay of two functions: a
// contract one side relies on and the other silently stops honouring).

// ruleFreshRowCache: a row cursor resolves symbols into its OWN cache: set symbols are handed out as
// runtime copies that carry cursor state, and that is only safe while no two row cursors share one.  Every
// row cursor that is built gets symbol caches created on the spot, never one taken from another cursor.
func ruleFreshRowCache(c *Ctx, rule string) {
	p := c.P
	rc := p.Named("boltz", "rowCursorImpl")
	symI := p.Iface("boltz", "EntitySymbol")
	var holdsSymbols func(t types.Type, depth int) bool
	holdsSymbols = func(t types.Type, depth int) bool {
		if depth > 3 {
			return false
		}
		switch x := t.Underlying().(type) {
		case *types.Map:
			if it, ok := x.Elem().Underlying().(*types.Interface); ok && types.Identical(it, symI) {
				return true
			}
			return holdsSymbols(x.Elem(), depth+1)
		case *types.Pointer:
			return holdsSymbols(x.Elem(), depth+1)
		case *types.Struct:
			for i := 0; i < x.NumFields(); i++ {
				if holdsSymbols(x.Field(i).Type(), depth+1) {
					return true
				}
			}
		}
		return false
	}
	n := 0
	for _, fn := range c.prodFuncs("boltz") {
		for _, b := range fn.Blocks {
			for _, in := range b.Instrs {
				st, ok := in.(*ssa.Store)
				if !ok {
					continue
				}
				f, base := fieldOfAddr(st.Addr)
				if f == nil || namedOf(base.Type()) != rc || !holdsSymbols(f.Type(), 0) {
					continue
				}
				if _, fresh := base.(*ssa.Alloc); !fresh {
					continue // a later update of an existing cursor's own cache
				}
				n++
				okV := false
				switch v := st.Val.(type) {
				case *ssa.MakeMap:
					okV = true
				case *ssa.Alloc:
					okV = true
				case *ssa.Call:
					// a constructor that itself only returns fresh objects
					if sc := v.Call.StaticCallee(); sc != nil && sc.Blocks != nil {
						okV = true
						for _, r := range returnsOf(sc) {
							switch r.Results[0].(type) {
							case *ssa.MakeMap, *ssa.Alloc:
							default:
								okV = false
							}
						}
					}
				}
				c.Check(okV, rule, FnName(fn)+": ."+f.Name()+" of a new row cursor", p.Pos(st.Pos()), "the new row cursor gets a symbol cache of its own",
					"a new row cursor is given the symbol cache "+describeValue(st.Val)+" instead of a fresh one: two row cursors then resolve a set symbol to the SAME runtime object (which holds the open cursor), so a nested sub-query that re-opens the set moves the cursor the enclosing scan is iterating")
			}
		}
	}
	c.CallSites(n)
	c.Floor(rule, 1)
}

// ruleErrHolderShared: every level of an indexing-context chain (child store -> parent store) records into
// the holder the caller handed in, so that a refusal by a parent-level constraint is what Create/Update
// return.  The constructor stores a parameter into ErrHolder, never a holder it made itself.
func ruleErrHolderShared(c *Ctx, rule string) {
	p := c.P
	icT := p.Named("boltz", "IndexingContext")
	holderFld := p.Field("boltz", "IndexingContext", "ErrHolder")
	n := 0
	for _, fn := range c.prodFuncs("boltz") {
		for _, b := range fn.Blocks {
			for _, in := range b.Instrs {
				st, ok := in.(*ssa.Store)
				if !ok {
					continue
				}
				f, base := fieldOfAddr(st.Addr)
				if !sameVar(f, holderFld) || namedOf(base.Type()) != icT {
					continue
				}
				if _, fresh := base.(*ssa.Alloc); !fresh {
					continue
				}
				// in a constructor (a function that hands the context back); where the constructor was expanded
				// into Create/Update the holder is that function's own bucket
				if fn.Signature.Results().Len() != 1 || namedOf(fn.Signature.Results().At(0).Type()) != icT {
					continue
				}
				n++
				v := st.Val
				if mi, isMI := v.(*ssa.MakeInterface); isMI {
					v = mi.X
				}
				isParam := handedIn(fn, v)
				c.Check(isParam, rule, FnName(fn)+": ErrHolder of a new indexing context", p.Pos(st.Pos()), "the holder handed in by the caller is shared by every level of the chain",
					"the new indexing context records into "+describeValue(st.Val)+" instead of the holder handed in: what a constraint of another level (the parent store's unique index, a foreign key) refuses never reaches the holder Create/Update return, so the operation reports success and commits")
			}
		}
	}
	c.CallSites(n)
	c.Floor(rule, 1)
}

// ruleChildStrategiesAppend: a child store registers its strategy once and it stays registered: the list
// of child-store strategies only ever grows by appending the strategy handed in (entity types do not
// identify child stores: several children inherit the parent's).
func ruleChildStrategiesAppend(c *Ctx, rule string) {
	p := c.P
	fld := p.Field("boltz", "BaseStore", "childStoreStrategies")
	reg := p.SSAFunc(p.Method("boltz", "BaseStore", "RegisterChildStoreStrategy"))
	name := FnName(reg)
	c.Analysed(name)
	n := 0
	for _, fn := range c.prodFuncs("boltz") {
		for _, b := range fn.Blocks {
			for _, in := range b.Instrs {
				st, ok := in.(*ssa.Store)
				if !ok {
					continue
				}
				// an element of the list overwritten in place
				if ia, isIA := st.Addr.(*ssa.IndexAddr); isIA {
					if f, _ := loadedField(ia.X); sameVar(f, fld) {
						n++
						c.Bad(rule, FnName(fn)+": overwrites a registered strategy", p.Pos(st.Pos()), "an element of the child-store strategy list is replaced in place: the displaced child store is no longer told about updates and deletes of its entities (no events, no constraint or link cleanup)")
					}
					continue
				}
				f, _ := fieldOfAddr(st.Addr)
				if !sameVar(f, fld) {
					continue
				}
				n++
				okV := false
				if call, isCall := st.Val.(*ssa.Call); isCall {
					if bi, isB := call.Call.Value.(*ssa.Builtin); isB && bi.Name() == "append" {
						if f2, _ := loadedField(call.Call.Args[0]); sameVar(f2, fld) {
							okV = true
						}
					}
				}
				if k, isK := st.Val.(*ssa.Const); isK && k.IsNil() && fn.Name() != reg.Name() {
					okV = true // initialisation
				}
				c.Check(okV, rule, FnName(fn)+": writes the strategy list", p.Pos(st.Pos()), "the list only grows by append", "the child-store strategy list is rewritten other than by appending to it")
			}
		}
	}
	// ... on every path of the registration
	fi := factsOf(reg)
	isAppend := func(in ssa.Instruction) bool {
		st, ok := in.(*ssa.Store)
		if !ok {
			return false
		}
		f, _ := fieldOfAddr(st.Addr)
		return sameVar(f, fld)
	}
	_ = fi
	ok := noPathAvoiding(reg, isAppend, nil)
	c.Check(ok, rule, name, p.Pos(reg.Pos()), "every registration appends the strategy", "a registration can return without appending the strategy (for instance when a strategy 'of the same kind' is already present): the child store handed in is silently not registered")
	c.CallSites(n)
	c.Floor(rule, 2)
}

// ruleStoreBeforeErrCheck: what a type transform returns replaces the operand only when it succeeded: the
// callers (SortFieldNode.TypeTransform asserts the operand right after the call) rely on the operand being
// left alone on failure.
func ruleTransformKeepsOperandOnError(c *Ctx, rule string) {
	p := c.P
	n := 0
	for _, fn := range c.prodFuncs("ast") {
		var fi *FactInfo
		for _, b := range fn.Blocks {
			for _, in := range b.Instrs {
				st, ok := in.(*ssa.Store)
				if !ok {
					continue
				}
				ex, isEx := st.Val.(*ssa.Extract)
				if !isEx || ex.Index != 0 {
					continue
				}
				call, isCall := ex.Tuple.(*ssa.Call)
				if !isCall || !call.Call.IsInvoke() || !strings.HasPrefix(call.Call.Method.Name(), "TypeTransform") {
					continue
				}
				// stored through a pointer to the operand (*node = transformed) or into a field
				if _, isAlloc := st.Addr.(*ssa.Alloc); isAlloc {
					continue
				}
				n++
				if fi == nil {
					fi = factsOf(fn)
				}
				okErr := fi.HoldsWhere(b, func(f Fact) bool {
					e, isE := f.V.(*ssa.Extract)
					return f.Kind == "nonnil" && !f.Pol && isE && e.Tuple == ex.Tuple && e.Index == 1
				})
				c.Check(okErr, rule, FnName(fn)+": stores a transform result", p.Pos(st.Pos()), "the operand is replaced only where the transform's error is known to be nil", "the result of "+call.Call.Method.Name()+" is stored into the operand before its error is looked at: a failed transform (which returns a nil node) wipes the operand, and the caller's unchecked use of it (sort field typing) panics instead of reporting the error")
			}
		}
	}
	c.CallSites(n)
	c.Floor(rule, 2)
}

// ruleNoUnsafe: stored bytes live in bbolt's memory map and are only valid inside their transaction; every
// value handed out is copied.  Production code does not use package unsafe (zero-copy string/slice views
// outlive the transaction and change under the reader when the page is reused).
func ruleNoUnsafe(c *Ctx, rule string) {
	p := c.P
	n, bad := 0, 0
	for _, short := range []string{"ast", "boltz", "objectz", "zitiql"} {
		pk := p.pkg(short)
		for _, f := range pk.Syntax {
			if p.isGenerated(f.Pos()) || p.isTestSupport(f.Pos()) {
				continue
			}
			n++
			ast.Inspect(f, func(x ast.Node) bool {
				sel, ok := x.(*ast.SelectorExpr)
				if !ok {
					return true
				}
				id, isId := sel.X.(*ast.Ident)
				if !isId {
					return true
				}
				if pn, isPkg := pk.TypesInfo.Uses[id].(*types.PkgName); isPkg && pn.Imported().Path() == "unsafe" {
					bad++
					where := "package level"
					for _, d := range f.Decls {
						if fd, isFd := d.(*ast.FuncDecl); isFd && fd.Pos() <= sel.Pos() && sel.End() <= fd.End() {
							where = fd.Name.Name
						}
					}
					c.Bad(rule, short+"."+where+": unsafe."+sel.Sel.Name, p.Pos(sel.Pos()), "package unsafe is used: a string or slice built over stored bytes without copying is only valid until its read transaction ends; afterwards the page is reused and the value changes under its holder")
				}
				return true
			})
		}
	}
	if bad == 0 {
		c.OK(rule, "ast, boltz, objectz, zitiql", "-", fmt.Sprintf("%d production files, none refers to package unsafe", n))
	}
	c.CallSites(n)
}

// ruleNoStats: no decision is taken on bbolt's Bucket.Stats()/Tx.Stats(): the statistics describe the pages
// as they were when the bucket was opened and do not see what the current write transaction has put.
func ruleNoStats(c *Ctx, rule string) {
	p := c.P
	stats := p.ExtMethod(bboltPath, "Bucket", "Stats")
	n, bad := 0, 0
	for _, fn := range c.prodFuncs("boltz", "objectz") {
		for _, call := range callsIn(fn) {
			n++
			if isCallTo(call, stats) {
				// DbImpl.Stats (db-level) is reporting only; bucket statistics feeding a branch are the problem
				bad++
				c.Bad(rule, FnName(fn)+": Bucket.Stats", p.Pos(call.Pos()), "a bucket's Stats() is consulted: it does not count keys written in the still-open write transaction, so 'is this bucket empty' answers yes for a bucket filled a moment ago (link cleanup on delete is then skipped)")
			}
		}
	}
	if bad == 0 {
		c.OK(rule, "boltz, objectz", "-", "no call of bbolt Bucket.Stats in production code")
	}
	_ = n
}

var _ = token.NoPos

// ruleErrorLookedAtOnEveryPath: where a function tests an error it got from a call, it does so on EVERY
// path on which it goes on to succeed: a path from the call to a possibly-successful return (or to the next
// iteration of the enclosing loop) that never looks at the error — because another result of the same call
// was tested first and "looked fine" — loses a failure that was reported.
func ruleErrorLookedAtOnEveryPath(c *Ctx, rule string, fns []*ssa.Function) {
	p := c.P
	n := 0
	for _, fn := range fns {
		ei := errorResultIndex(fn.Signature)
		var fi *FactInfo
		loops := loopsOf(fn)
		for _, b := range fn.Blocks {
			for _, in := range b.Instrs {
				ex, ok := in.(*ssa.Extract)
				if !ok || !isErrorType(ex.Type()) {
					continue
				}
				call, isCall := ex.Tuple.(*ssa.Call)
				if !isCall {
					continue
				}
				// the call hands back something else besides the error, and that something is branched on
				tup, _ := call.Type().(*types.Tuple)
				if tup == nil || tup.Len() < 2 {
					continue
				}
				// uses of the error (tests included), following phis and spills
				uses := map[ssa.Instruction]bool{}
				tested := false
				var collect func(x ssa.Value, depth int)
				collect = func(x ssa.Value, depth int) {
					if depth > 3 {
						return
					}
					for _, r := range *x.Referrers() {
						switch y := r.(type) {
						case *ssa.DebugRef:
						case *ssa.BinOp:
							if (y.Op == token.EQL || y.Op == token.NEQ) && (isNilConst(y.X) || isNilConst(y.Y)) {
								tested = true
							}
							uses[y] = true
						case *ssa.Phi:
							collect(y, depth+1)
							uses[y] = true
						case *ssa.Store:
							if al, isAl := y.Addr.(*ssa.Alloc); isAl {
								for _, ar := range *al.Referrers() {
									if ld, isLd := ar.(*ssa.UnOp); isLd {
										collect(ld, depth+1)
									}
								}
							}
							uses[y] = true
						default:
							uses[r] = true
						}
					}
				}
				collect(ex, 0)
				if !tested {
					continue // never tested: C07.DROP's business if it is not used at all
				}
				// is another result of the same call branched on?
				otherTested := false
				for _, r := range *call.Referrers() {
					o, isEx := r.(*ssa.Extract)
					if !isEx || o == ex {
						continue
					}
					for _, or := range *o.Referrers() {
						if bo, isB := or.(*ssa.BinOp); isB && (bo.Op == token.EQL || bo.Op == token.NEQ) {
							otherTested = true
						}
						if _, isIf := or.(*ssa.If); isIf {
							otherTested = true
						}
					}
				}
				if !otherTested {
					continue
				}
				n++
				if fi == nil {
					fi = factsOf(fn)
				}
				isUse := func(x ssa.Instruction) bool { return uses[x] }
				ps := &pathSearch{fn: fn, fi: fi, start: b, startIdx: instrIndex(ex) + 1, startKnow: knowMap{}, stop: isUse}
				ps.atReturn = func(ret *ssa.Return, k knowMap) bool { return ei < 0 || !returnIsFailure(fi, ret, ei, k) }
				lost := ps.run()
				where := ""
				if lost {
					where = "a return that does not report a failure (at " + p.Pos(ps.Found.Pos()) + ")"
				} else if l := innermostLoop(loops, b); l != nil {
					// the next iteration of the loop
					ps2 := &pathSearch{fn: fn, fi: fi, start: b, startIdx: instrIndex(ex) + 1, startKnow: knowMap{}, stop: isUse, target: func(x ssa.Instruction) bool { return x == ssa.Instruction(call) }}
					if ps2.run() {
						lost, where = true, "the next iteration of the loop"
					}
				}
				construct := FnName(fn) + ": " + describeValue(ex)
				c.Check(!lost, rule, construct, p.Pos(ex.Pos()), "every path from the call to a successful continuation looks at the error", where+" is reachable from this call without the error being looked at, although the function tests it on other paths (another result of the same call is tested first): a failure reported together with a usable result is dropped")
			}
		}
	}
	c.CallSites(n)
}

// ruleHandedHolderConsulted: an error holder that a function creates and hands to code it does not control
// (a callback: the migrator of a migration step) is where that code reports failures.  After the call the
// holder is consulted before the function goes on: on every path from the call to a return that reports
// success, or to the next round of the enclosing loop.
func ruleHandedHolderConsulted(c *Ctx, rule string) {
	p := c.P
	n := 0
	isHolderType := func(t types.Type) bool {
		ms := types.NewMethodSet(types.NewPointer(derefType(t)))
		return ms.Lookup(nil, "HasError") != nil && ms.Lookup(nil, "SetError") != nil && ms.Lookup(nil, "GetError") != nil
	}
	rootAlloc := func(v ssa.Value) *ssa.Alloc {
		for i := 0; i < 6 && v != nil; i++ {
			switch x := v.(type) {
			case *ssa.Alloc:
				return x
			case *ssa.FieldAddr:
				v = x.X
			case *ssa.UnOp:
				v = x.X
			case *ssa.MakeInterface:
				v = x.X
			case *ssa.ChangeInterface:
				v = x.X
			default:
				return nil
			}
		}
		return nil
	}
	for _, fn := range c.prodFuncs("boltz") {
		ei := errorResultIndex(fn.Signature)
		if ei < 0 {
			continue
		}
		var fi *FactInfo
		loops := loopsOf(fn)
		for _, call := range callsIn(fn) {
			cc := call.Common()
			if cc.IsInvoke() || cc.StaticCallee() != nil {
				continue
			}
			if _, isBuiltin := cc.Value.(*ssa.Builtin); isBuiltin {
				continue
			}
			for _, a := range cc.Args {
				al := rootAlloc(a)
				if al == nil || !al.Heap || !isHolderType(al.Type()) {
					continue
				}
				n++
				if fi == nil {
					fi = factsOf(fn)
				}
				consults := func(in ssa.Instruction) bool {
					k, ok := in.(ssa.CallInstruction)
					if !ok {
						return false
					}
					kc := k.Common()
					nm := ""
					var recv ssa.Value
					if kc.IsInvoke() {
						nm, recv = kc.Method.Name(), kc.Value
					} else if cal, _ := calleeOf(kc); cal != nil && len(kc.Args) > 0 {
						nm, recv = cal.Name(), kc.Args[0]
					}
					return (nm == "HasError" || nm == "GetError") && rootAlloc(recv) == al
				}
				ci, _ := call.(ssa.Instruction)
				ps := &pathSearch{fn: fn, fi: fi, start: call.Block(), startIdx: instrIndex(ci) + 1, startKnow: knowMap{}, stop: consults}
				ps.atReturn = func(ret *ssa.Return, k knowMap) bool { return !returnIsFailure(fi, ret, ei, k) }
				lost := ps.run()
				where := ""
				if lost {
					where = "a return that reports success (at " + p.Pos(ps.Found.Pos()) + ")"
				} else if l := innermostLoop(loops, call.Block()); l != nil {
					ps2 := &pathSearch{fn: fn, fi: fi, start: call.Block(), startIdx: instrIndex(ci) + 1, startKnow: knowMap{}, stop: consults, target: func(x ssa.Instruction) bool { return x == ci }}
					if ps2.run() {
						lost, where = true, "the next round of the loop"
					}
				}
				c.Check(!lost, rule, FnName(fn)+": holder handed to "+describeInstr(call), p.Pos(call.Pos()), "the holder is consulted after the callback, before anything else is decided", where+" is reachable after the callback without consulting the error holder it was given: a failure the callback recorded there is dropped and the transaction commits")
			}
		}
	}
	c.CallSites(n)
	c.Floor(rule, 1)
}

// rulePatchScope: a function that persists with a PersistContext in hand restricts every write to the
// fields the context's checker selects: each TypedBucket setter that takes a FieldChecker is given the
// context's own checker.  Passing no checker (nil) is only right on the create path, where everything is
// written.
func rulePatchScope(c *Ctx, rule string) {
	p := c.P
	cg := p.CallGraph()
	pcT := p.Named("boltz", "PersistContext")
	tbT := p.Named("boltz", "TypedBucket")
	fcI := p.Iface("boltz", "FieldChecker")
	fcFld := p.Field("boltz", "PersistContext", "FieldChecker")
	isCreate := p.Field("boltz", "PersistContext", "IsCreate")
	holdsCreate := func(fi *FactInfo, b *ssa.BasicBlock) bool {
		return fi.HoldsWhere(b, func(f Fact) bool {
			ff, _ := loadedField(f.V)
			return f.Kind == "true" && f.Pol && sameVar(ff, isCreate)
		})
	}
	var createOnly func(fn *ssa.Function, depth int) bool
	createOnly = func(fn *ssa.Function, depth int) bool {
		callers := 0
		for _, caller := range cg.callers[fn] {
			cfi := factsOf(caller)
			for _, k := range callsIn(caller) {
				if kc, _ := calleeOf(k.Common()); kc == nil || kc != fn.Object() {
					continue
				}
				callers++
				if holdsCreate(cfi, k.Block()) {
					continue
				}
				if depth >= 3 || !createOnly(caller, depth+1) {
					return false
				}
			}
		}
		if callers == 0 {
			return fn.Name() == "CreateBaseValues"
		}
		return true
	}
	n := 0
	for _, fn := range c.prodFuncs("boltz") {
		var ctxPrm *ssa.Parameter
		for _, prm := range fn.Params {
			if namedOf(prm.Type()) == pcT {
				ctxPrm = prm
			}
		}
		if ctxPrm == nil {
			continue
		}
		fi := factsOf(fn)
		for _, call := range callsIn(fn) {
			cal, _ := calleeOf(call.Common())
			if cal == nil || call.Common().IsInvoke() {
				continue
			}
			sig := cal.Type().(*types.Signature)
			if sig.Recv() == nil || namedOf(sig.Recv().Type()) != tbT {
				continue
			}
			for i := 0; i < sig.Params().Len(); i++ {
				if it, isI := sig.Params().At(i).Type().Underlying().(*types.Interface); !isI || !types.Identical(it, fcI) {
					continue
				}
				arg := call.Common().Args[i+1]
				n++
				construct := FnName(fn) + ": " + cal.Name()
				if f, base := loadedField(arg); sameVar(f, fcFld) && base == ssa.Value(ctxPrm) {
					c.OK(rule, construct, p.Pos(call.Pos()), "the context's own field checker is handed on")
					continue
				}
				if k, isK := arg.(*ssa.Const); isK && k.IsNil() {
					// tabled exception (one field, with its reason): the modification timestamp is bookkeeping that
					// every update writes, whatever the patch selects
					if nameArg, isStr := constString(call.Common().Args[1]); isStr && nameArg == patchScopeAlways {
						c.OK(rule, construct+" ("+nameArg+")", p.Pos(call.Pos()), "tabled: the modification timestamp is written by every update regardless of the selected fields")
						continue
					}
					if holdsCreate(fi, call.Block()) || createOnly(fn, 0) {
						c.OK(rule, construct, p.Pos(call.Pos()), "no checker, on the create path only")
						continue
					}
					c.Bad(rule, construct, p.Pos(call.Pos()), "a TypedBucket setter is called without a field checker (nil) in a function that persists with a PersistContext and is not confined to the create path: a field-restricted update (patch) rewrites this field although the checker does not select it")
					continue
				}
				c.Bad(rule, construct, p.Pos(call.Pos()), "a TypedBucket setter is given "+describeValue(arg)+" instead of the persist context's own field checker")
			}
		}
	}
	c.CallSites(n)
	c.Floor(rule, 4)
}

// patchScopeAlways: the one field a restricted update writes without asking the checker.
const patchScopeAlways = "updatedAt"

// ruleNilEntryMarked: a nil entry of a map or list is stored as an explicit nil marker: maps are read back by
// enumerating the keys that exist, so an entry that is not written is not a null entry but a missing one.
func ruleNilEntryMarked(c *Ctx, rule string) {
	p := c.P
	fn := p.SSAFunc(p.Method("boltz", "TypedBucket", "setMarshaled"))
	name := FnName(fn)
	c.Analysed(name)
	isW := p.isBoltWrite()
	sum := p.CallGraph().Summarize(isW)
	writes := func(in ssa.Instruction) bool {
		call, ok := in.(ssa.CallInstruction)
		if !ok {
			return false
		}
		if isW(call) {
			return true
		}
		may, _ := sum.CallMay(call.Common())
		return may
	}
	fi := factsOf(fn)
	// every return is preceded by a write or by recording an error, except where the bucket already holds one
	recorded := func(in ssa.Instruction) bool {
		return writes(in) || invokeNamed(in, "SetError")
	}
	ok := noPathAvoiding(fn, recorded, func(from, to *ssa.BasicBlock) bool {
		for f := range fi.edgeFacts(from, to) {
			if ff, _ := loadedField(f.V); ff != nil && isErrorType(ff.Type()) && f.Kind == "nonnil" && f.Pol {
				return true
			}
		}
		return false
	})
	c.Check(ok, rule, name, p.Pos(fn.Pos()), "every entry handed in is written (a nil entry as the nil marker) or refused with an error", "an entry can be skipped without writing anything and without an error (a nil value, for instance): in a map that entry is then missing after the round trip instead of being null")
	c.Floor(rule, 1)
}

// ruleIdCursorFiltered: the id cursor a store hands out is always the filtering scanner: besides evaluating
// the filter it is the only place where a (non-extended) child store drops the ids of parent entities that
// have no child data.  IterateIds never returns the raw bucket cursor, also not for the constant-true filter.
func ruleIdCursorFiltered(c *Ctx, rule string) {
	p := c.P
	fn := p.SSAFunc(p.Method("boltz", "BaseStore", "IterateIds"))
	name := FnName(fn)
	c.Analysed(name)
	scanner := p.Named("boltz", "uniqueIndexScanner")
	fi := factsOf(fn)
	var okVal func(v ssa.Value, b *ssa.BasicBlock, depth int) (bool, string)
	okVal = func(v ssa.Value, b *ssa.BasicBlock, depth int) (bool, string) {
		if depth > 5 {
			return false, "too deep"
		}
		switch x := v.(type) {
		case *ssa.MakeInterface:
			return okVal(x.X, b, depth+1)
		case *ssa.ChangeInterface:
			return okVal(x.X, b, depth+1)
		case *ssa.Alloc:
			if namedOf(x.Type()) == scanner {
				return true, ""
			}
		case *ssa.Call:
			if cal, _ := calleeOf(x.Common()); cal != nil && cal.Pkg() != nil && cal.Pkg().Path() == modPath+"/boltz" {
				// a constructor of the scanner
				if sc := x.Call.StaticCallee(); sc != nil && sc.Blocks != nil {
					all := len(returnsOf(sc)) > 0
					for _, r := range returnsOf(sc) {
						if ok, _ := okVal(r.Results[0], r.Block(), depth+1); !ok {
							all = false
						}
					}
					if all {
						return true, ""
					}
				}
			}
		case *ssa.UnOp:
			// the empty cursor, where there is no entities bucket at all
			if g, isG := x.X.(*ssa.Global); isG && strings.Contains(g.Name(), "Empty") {
				if fi.HoldsWhere(b, func(f Fact) bool { return f.Kind == "nonnil" && !f.Pol }) {
					return true, ""
				}
			}
		case *ssa.Phi:
			for i, e := range x.Edges {
				if ok, why := okVal(e, x.Block().Preds[i], depth+1); !ok {
					return false, why
				}
			}
			return len(x.Edges) > 0, ""
		}
		return false, describeValue(v)
	}
	ok, why := true, ""
	for _, r := range returnsOf(fn) {
		if good, what := okVal(r.Results[0], r.Block(), 0); !good {
			ok = false
			why = "IterateIds returns " + what + " at " + p.Pos(r.Pos()) + " — not the filtering scanner: through a child store that cursor enumerates the ids of all parent entities (the scanner is what drops rows without child data), whatever the filter"
		}
	}
	c.Check(ok, rule, name, p.Pos(fn.Pos()), "every cursor IterateIds hands out is the filtering scanner (or the empty cursor when the store has no bucket)", why)
	c.Floor(rule, 1)
}

// ruleLoadersShareLookup: FindById, LoadById and LoadEntity answer for the same set of entities: each fills
// the entity from the bucket that getEntityBucketForLoad found (which, for an extended child store, falls
// back to the parent's data) — none of them looks the entity bucket up its own way.
func ruleLoadersShareLookup(c *Ctx, rule string) {
	p := c.P
	lookup := p.Method("boltz", "BaseStore", "getEntityBucketForLoad")
	n := 0
	for _, m := range []string{"FindById", "LoadById", "LoadEntity"} {
		fn := p.SSAFunc(p.Method("boltz", "BaseStore", m))
		name := FnName(fn)
		c.Analysed(name)
		for _, call := range callsIn(fn) {
			if !invokeNamed(call, "FillEntity") || !call.Common().IsInvoke() {
				continue
			}
			n++
			args := call.Common().Args
			bucket := args[len(args)-1]
			// the lookup answering (bucket, found): its first result
			if ex, isEx := bucket.(*ssa.Extract); isEx && ex.Index == 0 {
				bucket = ex.Tuple
			}
			src, isCall := bucket.(*ssa.Call)
			c.Check(isCall && isCallTo(src, lookup), rule, name+": FillEntity", p.Pos(call.Pos()), "the entity is filled from the bucket getEntityBucketForLoad found", "the entity is filled from "+describeValue(bucket)+" instead of the bucket the shared load lookup found: for an extended child store this loader no longer presents the parent's entities while the other loaders and the queries do")
		}
	}
	if n == 0 {
		// the loaders delegate to one another: at least one of them must do the lookup itself
		c.Undecided(rule, "boltz.BaseStore loaders", "-", "none of FindById/LoadById/LoadEntity fills an entity itself")
	}
	c.CallSites(n)
	c.Floor(rule, 1)
}

// ruleReadLoop: io.Reader's contract — a Read may deliver n > 0 bytes together with an error, io.EOF
// included.  Wherever package boltz reads a stream by hand (the snapshot is such a stream), no path on which
// n may be positive gets from the Read to a successful return, or to the next Read, without the bytes having
// been taken (buf[:n]).  Returning a failure is fine: then the copy failed and says so.
func ruleReadLoop(c *Ctx, rule string) {
	p := c.P
	sites := 0
	for _, fn := range c.prodFuncs("boltz") {
		for _, call := range callsIn(fn) {
			cc := call.Common()
			if !cc.IsInvoke() || cc.Method.Name() != "Read" || len(cc.Args) != 1 {
				continue
			}
			sig := cc.Method.Type().(*types.Signature)
			if sig.Results().Len() != 2 || !isErrorType(sig.Results().At(1).Type()) {
				continue
			}
			if b, ok := sig.Results().At(0).Type().Underlying().(*types.Basic); !ok || b.Kind() != types.Int {
				continue
			}
			sites++
			name := FnName(fn)
			c.Analysed(name)
			var n ssa.Value
			cv, isVal := call.(*ssa.Call)
			if !isVal {
				continue
			}
			for _, r := range *cv.Referrers() {
				if e, ok := r.(*ssa.Extract); ok && e.Index == 0 {
					n = e
				}
			}
			if n == nil {
				c.Check(false, rule, name+": Read", p.Pos(call.Pos()), "the bytes a Read delivered are taken before its error ends the copy", "the count a stream Read returned is discarded: the bytes it delivered are never taken")
				continue
			}
			derived := map[ssa.Value]bool{n: true}
			isDerived := func(v ssa.Value) bool {
				for i := 0; i < 4 && v != nil; i++ {
					if derived[v] {
						return true
					}
					switch x := v.(type) {
					case *ssa.Convert:
						v = x.X
					case *ssa.ChangeType:
						v = x.X
					default:
						return false
					}
				}
				return false
			}
			consumes := func(in ssa.Instruction) bool {
				if s, ok := in.(*ssa.Slice); ok && s.High != nil && isDerived(s.High) {
					return true
				}
				// the count handed on to a helper that does the taking
				if ci, ok := in.(ssa.CallInstruction); ok && in != ssa.Instruction(call) {
					for _, a := range ci.Common().Args {
						if isDerived(a) {
							return true
						}
					}
				}
				return false
			}
			errIdx := -1
			if res := fn.Signature.Results(); res.Len() > 0 && isErrorType(res.At(res.Len()-1).Type()) {
				errIdx = res.Len() - 1
			}
			bad := ""
			seen := map[*ssa.BasicBlock]bool{}
			var walk func(b, from *ssa.BasicBlock, start int)
			walk = func(b, from *ssa.BasicBlock, start int) {
				if bad != "" {
					return
				}
				for i := start; i < len(b.Instrs); i++ {
					in := b.Instrs[i]
					if in == ssa.Instruction(call) {
						bad = "the next Read at " + p.Pos(call.Pos())
						return
					}
					if consumes(in) {
						return
					}
					switch x := in.(type) {
					case *ssa.Return:
						if errIdx < 0 {
							bad = "the return at " + p.Pos(x.Pos())
							return
						}
						v := x.Results[errIdx]
						if ph, ok := v.(*ssa.Phi); ok && ph.Block() == b && from != nil {
							for k, pr := range b.Preds {
								if pr == from {
									v = ph.Edges[k]
								}
							}
						}
						if cst, ok := v.(*ssa.Const); ok && cst.IsNil() {
							bad = "the successful return at " + p.Pos(x.Pos())
						}
						return
					case *ssa.If:
						// a test of the count: only the side on which bytes were delivered matters
						if bo, ok := x.Cond.(*ssa.BinOp); ok {
							side := -1
							nl, nr := isDerived(bo.X), isDerived(bo.Y)
							zl, zr := isZeroConst(bo.X), isZeroConst(bo.Y)
							switch {
							case nl && zr:
								switch bo.Op {
								case token.GTR, token.NEQ:
									side = 0
								case token.LEQ, token.EQL:
									side = 1
								}
							case nr && zl:
								switch bo.Op {
								case token.LSS, token.NEQ:
									side = 0
								case token.GEQ, token.EQL:
									side = 1
								}
							}
							if side >= 0 {
								s := b.Succs[side]
								if !seen[s] || s == call.Block() {
									seen[s] = true
									walk(s, b, 0)
								}
								return
							}
						}
					}
				}
				for _, s := range b.Succs {
					if s == call.Block() {
						// back at the Read without the bytes
						idx := 0
						walk(s, b, idx)
						continue
					}
					if !seen[s] {
						seen[s] = true
						walk(s, b, 0)
					}
				}
			}
			idx := 0
			for i, in := range call.Block().Instrs {
				if in == ssa.Instruction(call) {
					idx = i + 1
				}
			}
			walk(call.Block(), nil, idx)
			c.Check(bad == "", rule, name+": Read", p.Pos(call.Pos()), "the bytes a Read delivered are taken before its error ends the copy", "a path on which the Read delivered bytes (n > 0 not excluded) reaches "+bad+" without buf[:n] being taken: a reader may return the last bytes together with io.EOF, so the copy (the persisted snapshot) loses its tail yet reports success")
		}
	}
	c.CallSites(sites)
}

func isZeroConst(v ssa.Value) bool {
	cst, ok := v.(*ssa.Const)
	if !ok || cst.Value == nil {
		return false
	}
	return cst.Value.String() == "0"
}
