package main

import (
	"go/ast"
	"go/constant"
	"go/token"
	"go/types"
)

// Constant parameters of expanded helpers decide the helper's branches.
//
// Two sibling functions are often merged into one helper that is told which of the two it is standing in for
// by a constant (adjustLinkCount(..., linkCountIncrement, ...), advance(advancePaged)); inside, pairs of
// branches on that constant are correlated (increment the local side and increment the remote side).  A
// path-insensitive rule reading the expanded body would see the mixed paths as well.  When the helper is
// expanded at a call site whose argument is a compile-time constant and the helper never writes the
// parameter, the branches on it are decided here, at the syntax level, before the body is pasted: an `if`
// or `switch` whose condition depends only on such parameters and other constants is replaced by the arm
// that is taken.  Behaviour-preserving by construction (the discarded arms are dead at this call site).

// paramNeverWritten: the helper never assigns the parameter, takes its address, or uses it as a range variable
// (so it holds the argument's value throughout).
func (n *normalizer) paramNeverWritten(fd *ast.FuncDecl, pv types.Object) bool {
	ok := true
	isPV := func(e ast.Expr) bool {
		id, isId := ast.Unparen(e).(*ast.Ident)
		return isId && (n.info.Uses[id] == pv || n.info.Defs[id] == pv)
	}
	ast.Inspect(fd.Body, func(x ast.Node) bool {
		switch z := x.(type) {
		case *ast.AssignStmt:
			for _, l := range z.Lhs {
				if isPV(l) {
					ok = false
				}
			}
		case *ast.IncDecStmt:
			if isPV(z.X) {
				ok = false
			}
		case *ast.UnaryExpr:
			if z.Op == token.AND && isPV(z.X) {
				ok = false
			}
		case *ast.RangeStmt:
			if (z.Key != nil && isPV(z.Key)) || (z.Value != nil && isPV(z.Value)) {
				ok = false
			}
		}
		return ok
	})
	return ok
}

type constFolder struct {
	n      *normalizer
	consts map[types.Object]constant.Value
	folded int
	root   *ast.BlockStmt
}

// localConst: `x := <expression decided by constants>` where x is never written again binds x as well
// (paged := mode == advancePaged).
func (cf *constFolder) localConst(as *ast.AssignStmt) (bound bool) {
	if cf.root == nil || as.Tok != token.DEFINE || len(as.Lhs) != 1 || len(as.Rhs) != 1 {
		return
	}
	id, isId := as.Lhs[0].(*ast.Ident)
	if !isId || id.Name == "_" {
		return
	}
	oid, _ := cf.n.o(id).(*ast.Ident)
	if oid == nil {
		return
	}
	ob, isVar := cf.n.info.Defs[oid].(*types.Var)
	if !isVar {
		return
	}
	var v constant.Value
	if cv, ok := cf.val(as.Rhs[0]); ok {
		v = cv
	} else if b, ok := cf.cond(as.Rhs[0]); ok {
		v = constant.MakeBool(b)
	} else {
		return
	}
	written := false
	isOb := func(e ast.Expr) bool {
		x, isX := ast.Unparen(e).(*ast.Ident)
		return isX && x != id && cf.n.useOf(x) == types.Object(ob)
	}
	ast.Inspect(cf.root, func(x ast.Node) bool {
		switch z := x.(type) {
		case *ast.AssignStmt:
			for _, l := range z.Lhs {
				if isOb(l) {
					written = true
				}
			}
		case *ast.IncDecStmt:
			if isOb(z.X) {
				written = true
			}
		case *ast.UnaryExpr:
			if z.Op == token.AND && isOb(z.X) {
				written = true
			}
		case *ast.RangeStmt:
			if (z.Key != nil && isOb(z.Key)) || (z.Value != nil && isOb(z.Value)) {
				written = true
			}
		}
		return !written
	})
	if !written {
		cf.consts[ob] = v
		return true
	}
	return false
}

// simplify drops the operands of && and || that constants make neutral (true && x, false || x, x && true,
// x || false), leaving the rest of the condition as it is.
func (cf *constFolder) simplify(e ast.Expr) ast.Expr {
	switch x := e.(type) {
	case *ast.ParenExpr:
		x.X = cf.simplify(x.X)
		return x
	case *ast.BinaryExpr:
		if x.Op != token.LAND && x.Op != token.LOR {
			return e
		}
		neutral := x.Op == token.LAND
		if a, ok := cf.cond(x.X); ok && a == neutral {
			cf.folded++
			return cf.simplify(x.Y)
		}
		if b, ok := cf.cond(x.Y); ok && b == neutral {
			cf.folded++
			return cf.simplify(x.X)
		}
		x.X = cf.simplify(x.X)
		x.Y = cf.simplify(x.Y)
	}
	return e
}

func (cf *constFolder) val(e ast.Expr) (constant.Value, bool) {
	e = ast.Unparen(e)
	if id, isId := e.(*ast.Ident); isId {
		if ob := cf.n.useOf(id); ob != nil {
			if v, has := cf.consts[ob]; has {
				return v, true
			}
		}
	}
	if oe, isE := cf.n.o(e).(ast.Expr); isE {
		if tv, has := cf.n.info.Types[oe]; has && tv.Value != nil {
			return tv.Value, true
		}
	}
	// a conversion of a known value to a named constant type: T(p)
	if call, isCall := e.(*ast.CallExpr); isCall && len(call.Args) == 1 {
		if oe, isE := cf.n.o(call.Fun).(ast.Expr); isE {
			if tv, has := cf.n.info.Types[oe]; has && tv.IsType() {
				if b, isB := tv.Type.Underlying().(*types.Basic); isB && b.Info()&(types.IsInteger|types.IsBoolean|types.IsString) != 0 {
					if v, okV := cf.val(call.Args[0]); okV && (v.Kind() == constant.Int) == (b.Info()&types.IsInteger != 0) {
						return v, true
					}
				}
			}
		}
	}
	return nil, false
}

func (cf *constFolder) cond(e ast.Expr) (bool, bool) {
	e = ast.Unparen(e)
	switch x := e.(type) {
	case *ast.UnaryExpr:
		if x.Op == token.NOT {
			v, ok := cf.cond(x.X)
			return !v, ok
		}
	case *ast.BinaryExpr:
		switch x.Op {
		case token.LAND, token.LOR:
			a, okA := cf.cond(x.X)
			b, okB := cf.cond(x.Y)
			if okA && okB {
				if x.Op == token.LAND {
					return a && b, true
				}
				return a || b, true
			}
			// a deciding left operand short-circuits
			if okA && ((x.Op == token.LAND && !a) || (x.Op == token.LOR && a)) {
				return a, true
			}
			return false, false
		case token.EQL, token.NEQ, token.LSS, token.LEQ, token.GTR, token.GEQ:
			a, okA := cf.val(x.X)
			b, okB := cf.val(x.Y)
			if okA && okB && a.Kind() == b.Kind() && a.Kind() != constant.Unknown {
				if a.Kind() == constant.Bool && x.Op != token.EQL && x.Op != token.NEQ {
					return false, false
				}
				return constant.Compare(a, x.Op, b), true
			}
			return false, false
		}
	}
	if v, ok := cf.val(e); ok && v.Kind() == constant.Bool {
		return constant.BoolVal(v), true
	}
	return false, false
}

// hasLooseBreak: an unlabelled break (or any fallthrough) that belongs to the switch the statements come from.
func hasLooseBreak(list []ast.Stmt) bool {
	found := false
	var walk func(x ast.Node)
	walk = func(x ast.Node) {
		ast.Inspect(x, func(y ast.Node) bool {
			if found {
				return false
			}
			switch z := y.(type) {
			case *ast.ForStmt, *ast.RangeStmt, *ast.SwitchStmt, *ast.TypeSwitchStmt, *ast.SelectStmt, *ast.FuncLit:
				if y != x {
					// a break inside belongs to that statement; a fallthrough cannot occur there for us
					return false
				}
			case *ast.BranchStmt:
				if (z.Tok == token.BREAK && z.Label == nil) || z.Tok == token.FALLTHROUGH {
					found = true
				}
			}
			return true
		})
	}
	for _, s := range list {
		switch s.(type) {
		case *ast.ForStmt, *ast.RangeStmt, *ast.SwitchStmt, *ast.TypeSwitchStmt, *ast.SelectStmt:
			continue
		}
		walk(s)
	}
	return found
}

func (cf *constFolder) stmt(s ast.Stmt) ast.Stmt {
	switch x := s.(type) {
	case *ast.BlockStmt:
		cf.list(&x.List)
	case *ast.LabeledStmt:
		// a labelled switch stays a switch (`break L` needs one to leave): only its clauses are looked into
		if sw, isSw := x.Stmt.(*ast.SwitchStmt); isSw {
			for _, c := range sw.Body.List {
				if cc, isCC := c.(*ast.CaseClause); isCC {
					cf.list(&cc.Body)
				}
			}
			return s
		}
		x.Stmt = cf.stmt(x.Stmt)
	case *ast.IfStmt:
		if x.Init == nil {
			x.Cond = cf.simplify(x.Cond)
			if v, ok := cf.cond(x.Cond); ok {
				cf.folded++
				if v {
					cf.list(&x.Body.List)
					return x.Body
				}
				if x.Else == nil {
					return &ast.EmptyStmt{Semicolon: x.Pos(), Implicit: true}
				}
				return cf.stmt(x.Else)
			}
		}
		cf.list(&x.Body.List)
		if x.Else != nil {
			x.Else = cf.stmt(x.Else)
			if _, isEmpty := x.Else.(*ast.EmptyStmt); isEmpty {
				x.Else = nil
			}
		}
	case *ast.ForStmt:
		cf.list(&x.Body.List)
	case *ast.RangeStmt:
		cf.list(&x.Body.List)
	case *ast.SelectStmt:
		for _, c := range x.Body.List {
			if cc, isCC := c.(*ast.CommClause); isCC {
				cf.list(&cc.Body)
			}
		}
	case *ast.TypeSwitchStmt:
		for _, c := range x.Body.List {
			if cc, isCC := c.(*ast.CaseClause); isCC {
				cf.list(&cc.Body)
			}
		}
	case *ast.SwitchStmt:
		if r := cf.switchStmt(x); r != nil {
			return r
		}
		for _, c := range x.Body.List {
			if cc, isCC := c.(*ast.CaseClause); isCC {
				cf.list(&cc.Body)
			}
		}
	}
	return s
}

// switchStmt: the clause that is taken, as a block, when that is decided by constants alone.
func (cf *constFolder) switchStmt(x *ast.SwitchStmt) ast.Stmt {
	if x.Init != nil {
		return nil
	}
	var tag constant.Value
	if x.Tag != nil {
		v, ok := cf.val(x.Tag)
		if !ok {
			return nil
		}
		tag = v
	}
	// `switch { default: … }` is the wrapper the expansion itself pastes bodies in: nothing to decide
	decides := false
	for _, c := range x.Body.List {
		if cc, isCC := c.(*ast.CaseClause); isCC && cc.List != nil {
			decides = true
		}
	}
	if !decides {
		return nil
	}
	var taken, deflt *ast.CaseClause
	for _, c := range x.Body.List {
		cc, isCC := c.(*ast.CaseClause)
		if !isCC {
			return nil
		}
		if hasLooseBreak(cc.Body) {
			return nil
		}
		if cc.List == nil {
			deflt = cc
			continue
		}
		if taken != nil {
			continue
		}
		for _, e := range cc.List {
			var hit, ok bool
			if tag != nil {
				v, okV := cf.val(e)
				if okV && v.Kind() == tag.Kind() {
					hit, ok = constant.Compare(tag, token.EQL, v), true
				}
			} else {
				hit, ok = cf.cond(e)
			}
			if !ok {
				return nil
			}
			if hit {
				taken = cc
				break
			}
		}
	}
	if taken == nil {
		taken = deflt
	}
	cf.folded++
	if taken == nil {
		return &ast.EmptyStmt{Semicolon: x.Pos(), Implicit: true}
	}
	blk := &ast.BlockStmt{Lbrace: taken.Colon, List: taken.Body, Rbrace: x.Body.Rbrace}
	cf.list(&blk.List)
	return blk
}

func (cf *constFolder) list(l *[]ast.Stmt) {
	var out []ast.Stmt
	for _, s := range *l {
		if as, isAs := s.(*ast.AssignStmt); isAs && cf.localConst(as) {
			// its reads may all be folded away: keep the variable used
			out = append(out, s, blankAssign(ident(as.Lhs[0].(*ast.Ident).Name, as.Pos())))
			continue
		}
		out = append(out, cf.stmt(s))
	}
	*l = out
}

// foldConstParams decides, in the cloned helper body, the branches that depend only on the given constant
// parameters; it returns the number of statements replaced.
func (n *normalizer) foldConstParams(cb *ast.BlockStmt, consts map[types.Object]constant.Value) int {
	if len(consts) == 0 {
		return 0
	}
	cf := &constFolder{n: n, consts: consts, root: cb}
	cf.list(&cb.List)
	return cf.folded
}

// foldLeftUnused: after folding, some local variable declared in the body is no longer read anywhere (the
// compiler would reject the pasted body).
func (n *normalizer) foldLeftUnused(cb *ast.BlockStmt) bool {
	defs := map[types.Object]bool{}
	reads := map[types.Object]bool{}
	lhs := map[*ast.Ident]bool{}
	readNames := map[string]bool{}
	ast.Inspect(cb, func(x ast.Node) bool {
		if as, isAs := x.(*ast.AssignStmt); isAs {
			for _, l := range as.Lhs {
				if id, isId := l.(*ast.Ident); isId {
					lhs[id] = true
				}
			}
		}
		return true
	})
	ast.Inspect(cb, func(x ast.Node) bool {
		id, isId := x.(*ast.Ident)
		if !isId || id.Name == "_" {
			return true
		}
		oid, _ := n.o(id).(*ast.Ident)
		if oid == nil {
			return true
		}
		if ob, isVar := n.info.Defs[oid].(*types.Var); isVar && !ob.IsField() {
			defs[ob] = true
			return true
		}
		if ob, isVar := n.info.Uses[oid].(*types.Var); isVar && !lhs[id] {
			reads[ob] = true
		} else if n.info.Uses[oid] == nil && n.info.Defs[oid] == nil {
			// an identifier made here (`_ = x` keeping a folded local used)
			readNames[id.Name] = true
		}
		return true
	})
	for ob := range defs {
		if !reads[ob] && !readNames[ob.Name()] {
			return true
		}
	}
	return false
}

// A deferred helper that makes exactly one call defers that call.
//
// `defer pool.release(x)` where release is `func (p *instancePool[T]) release(x T) { p.pool.Put(x) }` runs the
// same Put, on the same operands, at the same moment as `defer p.pool.Put(x)`: the operands of a deferred call are
// evaluated at the defer statement, and the helper only passes them on.  That holds when the inner call's
// function and arguments are built from the helper's parameters by address arithmetic alone (fields of struct
// values reached from a parameter, never a load through a pointer or interface field, never another call), which
// is what is checked here.  The prefix binds the parameters where the defer statement stands.
func (n *normalizer) deferThrough(d *ast.DeferStmt, st *inlState) ([]ast.Stmt, bool) {
	call := d.Call
	if n.expandable(call, st) != "" {
		return nil, false
	}
	cal := n.staticCallee(call)
	fd := n.decls[cal]
	if fd == nil || fd.Body == nil || len(fd.Body.List) != 1 || isVariadicDecl(fd) {
		return nil, false
	}
	es, isES := fd.Body.List[0].(*ast.ExprStmt)
	if !isES {
		return nil, false
	}
	inner, isCall := ast.Unparen(es.X).(*ast.CallExpr)
	if !isCall || inner.Ellipsis.IsValid() {
		return nil, false
	}
	params := map[types.Object]bool{}
	addNames := func(fl *ast.FieldList) {
		if fl == nil {
			return
		}
		for _, f := range fl.List {
			for _, nm := range f.Names {
				if ob := n.info.Defs[nm]; ob != nil {
					params[ob] = true
				}
			}
		}
	}
	addNames(fd.Recv)
	addNames(fd.Type.Params)
	isParam := func(e ast.Expr) bool {
		id, isId := ast.Unparen(e).(*ast.Ident)
		return isId && params[n.info.Uses[id]]
	}
	// the path to the method: parameter, then fields of struct values only
	var purePath func(e ast.Expr, root bool) bool
	purePath = func(e ast.Expr, root bool) bool {
		e = ast.Unparen(e)
		if isParam(e) {
			return true
		}
		sel, isSel := e.(*ast.SelectorExpr)
		if !isSel {
			return false
		}
		s := n.info.Selections[sel]
		if s == nil || s.Kind() != types.FieldVal || s.Indirect() && !isParam(sel.X) {
			return false
		}
		if _, isStruct := s.Type().Underlying().(*types.Struct); !isStruct {
			return false
		}
		return purePath(sel.X, false)
	}
	fsel, isSel := ast.Unparen(inner.Fun).(*ast.SelectorExpr)
	if !isSel {
		return nil, false
	}
	ms := n.info.Selections[fsel]
	if ms == nil || ms.Kind() != types.MethodVal || !purePath(fsel.X, true) {
		return nil, false
	}
	for _, a := range inner.Args {
		if isParam(a) {
			continue
		}
		if tv, has := n.info.Types[a]; has && tv.Value != nil {
			continue
		}
		return nil, false
	}
	if n.staticCallee(inner) != nil && n.expandable(inner, st) == "" {
		return nil, false // the inner call would itself be expanded: not a plain call any more
	}
	prefix, _, ok := n.expandMode(call, st, true)
	if !ok || len(prefix) == 0 {
		return nil, false
	}
	blk, isBlk := prefix[len(prefix)-1].(*ast.BlockStmt)
	if !isBlk || len(blk.List) == 0 {
		return nil, false
	}
	last, isLast := blk.List[len(blk.List)-1].(*ast.ExprStmt)
	if !isLast {
		return nil, false
	}
	lc, isLC := ast.Unparen(last.X).(*ast.CallExpr)
	if !isLC {
		return nil, false
	}
	blk.List[len(blk.List)-1] = &ast.DeferStmt{Defer: d.Defer, Call: lc}
	return prefix, true
}

// namedResOf: the names of the helper's named results.
func namedResOf(fd *ast.FuncDecl) []string {
	var out []string
	if fd.Type.Results != nil {
		for _, f := range fd.Type.Results.List {
			for _, nm := range f.Names {
				out = append(out, nm.Name)
			}
		}
	}
	return out
}

// renameHelperVars renames, in the cloned helper body cb, the variables the helper itself declares (receiver,
// parameters, locals) under one of the given names.  False when a name is declared more than once in the helper
// (shadowing): left alone then.
func (n *normalizer) renameHelperVars(cb *ast.BlockStmt, fd *ast.FuncDecl, renamed map[string]string) bool {
	objs := map[types.Object]string{}
	count := map[string]int{}
	ast.Inspect(fd, func(x ast.Node) bool {
		if id, ok := x.(*ast.Ident); ok {
			if ob, isVar := n.info.Defs[id].(*types.Var); isVar && !ob.IsField() {
				if nn, has := renamed[id.Name]; has {
					objs[ob] = nn
					count[id.Name]++
				}
			}
		}
		return true
	})
	for _, k := range count {
		if k != 1 {
			return false
		}
	}
	ast.Inspect(cb, func(x ast.Node) bool {
		id, ok := x.(*ast.Ident)
		if !ok {
			return true
		}
		oid, _ := n.o(id).(*ast.Ident)
		if oid == nil {
			return true
		}
		var ob types.Object
		if d := n.info.Defs[oid]; d != nil {
			ob = d
		} else {
			ob = n.info.Uses[oid]
		}
		if nn, has := objs[ob]; has && ob != nil {
			id.Name = nn
		}
		return true
	})
	return true
}
