package main

import (
	"fmt"
	"go/constant"
	"go/token"
	"go/types"
	"sort"
	"strings"

	"golang.org/x/tools/go/ssa"
)

// ---- callee resolution -----------------------------------------------------

// calleeOf returns the statically resolved callee (origin of generic instantiations) of a call,
// or the interface method for invoke-mode calls. Second result: true if interface dispatch.
func calleeOf(c *ssa.CallCommon) (*types.Func, bool) {
	if c.IsInvoke() {
		return c.Method.Origin(), true
	}
	if sc := c.StaticCallee(); sc != nil {
		if obj, ok := sc.Object().(*types.Func); ok && obj != nil {
			return obj.Origin(), false
		}
		// wrapper / bound method / thunk: look through synthetic wrappers
		if sc.Synthetic != "" {
			if o := sc.Origin(); o != nil {
				if obj, ok := o.Object().(*types.Func); ok && obj != nil {
					return obj.Origin(), false
				}
			}
		}
	}
	return nil, false
}

// anonCallee returns the anonymous function called/closed over at a call site, if any.
func anonCallee(c *ssa.CallCommon) *ssa.Function {
	if c.IsInvoke() {
		return nil
	}
	switch v := c.Value.(type) {
	case *ssa.Function:
		if v.Parent() != nil {
			return v
		}
	case *ssa.MakeClosure:
		if fn, ok := v.Fn.(*ssa.Function); ok {
			return fn
		}
	}
	return nil
}

func isCallTo(instr ssa.Instruction, targets ...*types.Func) bool {
	ci, ok := instr.(ssa.CallInstruction)
	if !ok {
		return false
	}
	f, _ := calleeOf(ci.Common())
	if f == nil {
		return false
	}
	for _, t := range targets {
		if t != nil && f == t.Origin() {
			return true
		}
	}
	return false
}

// callsIn lists the call instructions of fn (not descending into closures).
func callsIn(fn *ssa.Function) []ssa.CallInstruction {
	var out []ssa.CallInstruction
	for _, b := range fn.Blocks {
		for _, in := range b.Instrs {
			if ci, ok := in.(ssa.CallInstruction); ok {
				out = append(out, ci)
			}
		}
	}
	return out
}

// allFuncsWithAnon returns fn and, transitively, its anonymous functions.
func allFuncsWithAnon(fn *ssa.Function) []*ssa.Function {
	out := []*ssa.Function{fn}
	for _, a := range fn.AnonFuncs {
		out = append(out, allFuncsWithAnon(a)...)
	}
	return out
}

// ---- facts -------------------------------------------------------------------

// A Fact is an atomic proposition about an SSA value that holds on entry to a block.
type Fact struct {
	Kind string    // "true" (V is a bool that is Pol) | "nonnil" (V != nil is Pol)
	V    ssa.Value // the value
	Pol  bool
}

func (f Fact) String() string {
	n := f.V.Name()
	switch f.Kind {
	case "nonnil":
		if f.Pol {
			return n + "!=nil"
		}
		return n + "==nil"
	}
	if f.Pol {
		return n
	}
	return "!" + n
}

type factSet map[Fact]bool

func (s factSet) clone() factSet {
	o := make(factSet, len(s))
	for k := range s {
		o[k] = true
	}
	return o
}

func intersect(a, b factSet) factSet {
	o := factSet{}
	for k := range a {
		if b[k] {
			o[k] = true
		}
	}
	return o
}

func isNilConst(v ssa.Value) bool {
	c, ok := v.(*ssa.Const)
	return ok && c.IsNil()
}

func boolConst(v ssa.Value) (bool, bool) {
	c, ok := v.(*ssa.Const)
	if !ok || c.Value == nil || c.Value.Kind() != constant.Bool {
		return false, false
	}
	return constant.BoolVal(c.Value), true
}

// FactInfo holds, per function, the facts that hold on entry to each block.
type FactInfo struct {
	fn     *ssa.Function
	in     map[*ssa.BasicBlock]factSet
	expand map[Fact]factSet // memo for implied facts
	busy   map[Fact]bool
	// canonV: pure computations that are structurally identical (len(x) > 0 written twice) share one
	// representative, so a fact established through one of them is known for the others
	canonV map[ssa.Value]ssa.Value
	// dupRep: representatives that stand for more than one computation
	dupRep map[ssa.Value]bool
}

// canon returns the representative of v's class of structurally identical pure values.
func (fi *FactInfo) canon(v ssa.Value) ssa.Value {
	if fi == nil || fi.canonV == nil {
		return v
	}
	if r, ok := fi.canonV[v]; ok {
		return r
	}
	return v
}

func (fi *FactInfo) buildCanon() {
	fi.canonV = map[ssa.Value]ssa.Value{}
	fi.dupRep = map[ssa.Value]bool{}
	byKey := map[string]ssa.Value{}
	id := func(v ssa.Value) string {
		if c, ok := v.(*ssa.Const); ok {
			if c.Value == nil {
				return "const:nil:" + c.Type().String()
			}
			return "const:" + c.Value.ExactString() + ":" + c.Type().String()
		}
		if r, ok := fi.canonV[v]; ok {
			v = r
		}
		return fmt.Sprintf("%p", v)
	}
	// a local struct that is only ever used field by field (built once, read back later: a parameter
	// object handed between the phases of one function after helper expansion): a field that is stored
	// exactly once, before every load of it, reads back as the stored value
	// (the struct may also be copied whole — built in a literal, assigned to a result variable, handed on as
	// an argument of an expanded helper: a field of the copy reads back as the field of the original)
	type allocInfo struct {
		private     bool
		stores      map[int][]*ssa.Store
		loads       map[int][]*ssa.UnOp
		wholeStores []*ssa.Store
		wholeLoads  []*ssa.UnOp
	}
	infos := map[*ssa.Alloc]*allocInfo{}
	infoOf := func(al *ssa.Alloc) *allocInfo {
		if ai, ok := infos[al]; ok {
			return ai
		}
		ai := &allocInfo{private: true, stores: map[int][]*ssa.Store{}, loads: map[int][]*ssa.UnOp{}}
		infos[al] = ai
		if _, isStruct := derefType(al.Type()).Underlying().(*types.Struct); !isStruct || al.Referrers() == nil {
			ai.private = false
			return ai
		}
		for _, r := range *al.Referrers() {
			switch x := r.(type) {
			case *ssa.DebugRef:
			case *ssa.FieldAddr:
				for _, fr := range *x.Referrers() {
					switch y := fr.(type) {
					case *ssa.DebugRef:
					case *ssa.Store:
						if y.Addr != ssa.Value(x) {
							ai.private = false
						}
						ai.stores[x.Field] = append(ai.stores[x.Field], y)
					case *ssa.UnOp:
						if y.Op != token.MUL {
							ai.private = false
						}
						ai.loads[x.Field] = append(ai.loads[x.Field], y)
					default:
						ai.private = false
					}
				}
			case *ssa.Store:
				if x.Addr != ssa.Value(al) || x.Val == ssa.Value(al) {
					ai.private = false
				}
				ai.wholeStores = append(ai.wholeStores, x)
			case *ssa.UnOp:
				if x.Op != token.MUL {
					ai.private = false
				}
				ai.wholeLoads = append(ai.wholeLoads, x)
			default:
				ai.private = false
			}
		}
		return ai
	}
	before := func(a, b ssa.Instruction) bool {
		if a.Block() == b.Block() {
			return instrIndex(a) < instrIndex(b)
		}
		return a.Block().Dominates(b.Block())
	}
	// fieldAt: the value field f of the private struct al holds when instruction at runs, if it was written
	// exactly once (directly, or by one whole-struct copy) before
	var fieldAt func(al *ssa.Alloc, f int, at ssa.Instruction, depth int) ssa.Value
	fieldAt = func(al *ssa.Alloc, f int, at ssa.Instruction, depth int) ssa.Value {
		if depth > 6 {
			return nil
		}
		ai := infoOf(al)
		if !ai.private || len(ai.stores[f])+len(ai.wholeStores) != 1 {
			return nil
		}
		if len(ai.stores[f]) == 1 {
			st := ai.stores[f][0]
			if !before(st, at) {
				return nil
			}
			return st.Val
		}
		ws := ai.wholeStores[0]
		if !before(ws, at) {
			return nil
		}
		// the copied value: a load of another private struct
		if ld, ok := ws.Val.(*ssa.UnOp); ok && ld.Op == token.MUL {
			if src, isAl := ld.X.(*ssa.Alloc); isAl {
				// nothing may be written to the source between nothing: single stores before the load
				return fieldAt(src, f, ld, depth+1)
			}
		}
		return nil
	}
	for _, b := range fi.fn.Blocks {
		for _, in := range b.Instrs {
			switch x := in.(type) {
			case *ssa.UnOp:
				if x.Op != token.MUL {
					continue
				}
				fa, ok := x.X.(*ssa.FieldAddr)
				if !ok {
					continue
				}
				al, isAl := fa.X.(*ssa.Alloc)
				if !isAl {
					continue
				}
				if v := fieldAt(al, fa.Field, x, 0); v != nil {
					if r, ok := fi.canonV[v]; ok {
						v = r
					}
					fi.canonV[x] = v
				}
			case *ssa.Field:
				// a field of a struct value loaded whole from a private struct
				ld, ok := x.X.(*ssa.UnOp)
				if !ok || ld.Op != token.MUL {
					continue
				}
				al, isAl := ld.X.(*ssa.Alloc)
				if !isAl {
					continue
				}
				if v := fieldAt(al, x.Field, ld, 0); v != nil {
					if r, ok := fi.canonV[v]; ok {
						v = r
					}
					fi.canonV[x] = v
				}
			}
		}
	}
	// dominator-tree preorder would be ideal; block order is enough because a representative is only
	// used to look facts up, never to evaluate
	for _, b := range fi.fn.Blocks {
		for _, in := range b.Instrs {
			var key string
			switch x := in.(type) {
			case *ssa.BinOp:
				key = "bin:" + x.Op.String() + ":" + id(x.X) + ":" + id(x.Y)
			case *ssa.UnOp:
				if x.Op == token.MUL || x.Op == token.ARROW {
					continue
				}
				key = "un:" + x.Op.String() + ":" + id(x.X)
			case *ssa.Call:
				bi, ok := x.Call.Value.(*ssa.Builtin)
				if !ok || (bi.Name() != "len" && bi.Name() != "cap") || len(x.Call.Args) != 1 {
					continue
				}
				// len of a slice/string/map value: the same SSA value has the same length (values are
				// immutable; len of a map or channel may change and is left alone)
				switch x.Call.Args[0].Type().Underlying().(type) {
				case *types.Slice, *types.Basic, *types.Array:
				default:
					continue
				}
				key = "call:" + bi.Name() + ":" + id(x.Call.Args[0])
			case *ssa.Convert:
				key = "conv:" + x.Type().String() + ":" + id(x.X)
			case *ssa.ChangeType:
				key = "ct:" + x.Type().String() + ":" + id(x.X)
			default:
				continue
			}
			v := in.(ssa.Value)
			if r, ok := byKey[key]; ok {
				fi.canonV[v] = r
				fi.dupRep[r] = true
			} else {
				byKey[key] = v
			}
		}
	}
}

// edgeFacts returns the facts established by taking the edge from -> to.
func (fi *FactInfo) edgeFacts(from, to *ssa.BasicBlock) factSet {
	out := factSet{}
	if len(from.Instrs) == 0 {
		return out
	}
	iff, ok := from.Instrs[len(from.Instrs)-1].(*ssa.If)
	if !ok || len(from.Succs) != 2 || from.Succs[0] == from.Succs[1] {
		return out
	}
	pol := from.Succs[0] == to
	for f := range fi.implied(iff.Cond, pol) {
		out[f] = true
	}
	// during a path search: what the branch condition stands for on the current path (a condition
	// that is a join of several computations is resolved to the one taken, see paths.go)
	if pathEdge.from == from && pathEdge.to == to && pathEdge.cond != nil {
		for f := range fi.implied(pathEdge.cond, pol) {
			out[f] = true
		}
	}
	return out
}

// pathEdge is set by pathSearch while it asks a rule about one edge.
var pathEdge struct {
	from, to *ssa.BasicBlock
	cond     ssa.Value
}

// implied expands "v is pol" into atomic facts.
func (fi *FactInfo) implied(v ssa.Value, pol bool) factSet {
	v = fi.canon(v)
	key := Fact{"true", v, pol}
	if r, ok := fi.expand[key]; ok {
		return r
	}
	if fi.busy[key] {
		return factSet{key: true}
	}
	fi.busy[key] = true
	defer delete(fi.busy, key)
	out := factSet{key: true}
	switch x := v.(type) {
	case *ssa.UnOp:
		if x.Op == token.NOT {
			for f := range fi.implied(x.X, !pol) {
				out[f] = true
			}
		}
	case *ssa.BinOp:
		if x.Op == token.EQL || x.Op == token.NEQ {
			var other ssa.Value
			if isNilConst(x.Y) {
				other = x.X
			} else if isNilConst(x.X) {
				other = x.Y
			}
			if other != nil {
				nonnil := (x.Op == token.NEQ) == pol
				out[Fact{"nonnil", fi.canon(other), nonnil}] = true
			}
			// comparison with a bool constant
			if b, ok := boolConst(x.Y); ok {
				want := (x.Op == token.EQL) == pol
				if !b {
					want = !want
				}
				for f := range fi.implied(x.X, want) {
					out[f] = true
				}
			}
		}
	case *ssa.Phi:
		// bool phi from && / || chains: edges whose constant value contradicts pol are excluded
		var sets []factSet
		for i, e := range x.Edges {
			if b, ok := boolConst(e); ok && b != pol {
				continue
			}
			pred := x.Block().Preds[i]
			s := fi.outFacts(pred, x.Block())
			if _, isConst := boolConst(e); !isConst {
				s = s.clone()
				for f := range fi.implied(e, pol) {
					s[f] = true
				}
			}
			sets = append(sets, s)
		}
		if len(sets) > 0 {
			acc := sets[0]
			for _, s := range sets[1:] {
				acc = intersect(acc, s)
			}
			for f := range acc {
				out[f] = true
			}
		}
	}
	fi.expand[key] = out
	return out
}

// outFacts = in[from] + edge facts (from->to)
func (fi *FactInfo) outFacts(from, to *ssa.BasicBlock) factSet {
	s := factSet{}
	if in := fi.in[from]; in != nil {
		s = in.clone()
	}
	for f := range fi.edgeFacts(from, to) {
		s[f] = true
	}
	return s
}

// ComputeFacts runs a forward must-analysis over the CFG.
func ComputeFacts(fn *ssa.Function) *FactInfo {
	fi := &FactInfo{fn: fn, in: map[*ssa.BasicBlock]factSet{}, expand: map[Fact]factSet{}, busy: map[Fact]bool{}}
	if len(fn.Blocks) == 0 {
		return fi
	}
	fi.buildCanon()
	// iterate to fixpoint; nil in-set = TOP (not yet computed)
	fi.in[fn.Blocks[0]] = factSet{}
	changed := true
	for iter := 0; changed && iter < 50; iter++ {
		changed = false
		fi.expand = map[Fact]factSet{} // phi expansions depend on in-sets
		for _, b := range fn.Blocks {
			if b == fn.Blocks[0] {
				continue
			}
			var acc factSet
			for _, p := range b.Preds {
				if fi.in[p] == nil {
					continue // TOP
				}
				s := fi.outFacts(p, b)
				if acc == nil {
					acc = s
				} else {
					acc = intersect(acc, s)
				}
			}
			if acc == nil {
				continue
			}
			old := fi.in[b]
			if old == nil || len(old) != len(acc) {
				fi.in[b] = acc
				changed = true
			} else {
				for k := range acc {
					if !old[k] {
						fi.in[b] = acc
						changed = true
						break
					}
				}
			}
		}
	}
	fi.expand = map[Fact]factSet{}
	return fi
}

// At returns the facts holding on entry to the block of instr.
func (fi *FactInfo) At(b *ssa.BasicBlock) factSet {
	if s := fi.in[b]; s != nil {
		return s
	}
	return factSet{}
}

func (fi *FactInfo) Holds(b *ssa.BasicBlock, f Fact) bool {
	f.V = fi.canon(f.V)
	return fi.At(b)[f]
}

// HoldsWhere reports whether some fact at b satisfies pred.
func (fi *FactInfo) HoldsWhere(b *ssa.BasicBlock, pred func(Fact) bool) bool {
	for f := range fi.At(b) {
		if pred(f) {
			return true
		}
	}
	return false
}

func (fi *FactInfo) Describe(b *ssa.BasicBlock) string {
	var ss []string
	for f := range fi.At(b) {
		ss = append(ss, f.String())
	}
	sort.Strings(ss)
	return strings.Join(ss, " && ")
}

// ---- reachability ------------------------------------------------------------

// instrIndex returns the index of instr in its block.
func instrIndex(instr ssa.Instruction) int {
	for i, in := range instr.Block().Instrs {
		if in == instr {
			return i
		}
	}
	return -1
}

// reachWithout computes, for every block, whether its entry is reachable from the function entry
// along a path on which no "blocker" instruction has executed. For a reachable block, an
// instruction at index i is reachable-without iff no blocker occurs at index < i in that block.
type reachInfo struct {
	entryReach map[*ssa.BasicBlock]bool
	firstBlock map[*ssa.BasicBlock]int // index of first blocker in block, or -1
	pred       map[*ssa.BasicBlock]*ssa.BasicBlock
	from       ssa.Instruction
	blocker    func(ssa.Instruction) bool
	states     map[*ssa.BasicBlock][]knowMap // path knowledge with which each block is entered
	fi         *FactInfo
}

func reachWithout(fn *ssa.Function, blocker func(ssa.Instruction) bool) *reachInfo {
	return reachWithoutFrom(fn, nil, blocker)
}

// reachWithoutFrom starts after instruction `from` (or at the entry if nil).
func reachWithoutFrom(fn *ssa.Function, from ssa.Instruction, blocker func(ssa.Instruction) bool) *reachInfo {
	ri := &reachInfo{entryReach: map[*ssa.BasicBlock]bool{}, firstBlock: map[*ssa.BasicBlock]int{}, pred: map[*ssa.BasicBlock]*ssa.BasicBlock{}, from: from, blocker: blocker, states: map[*ssa.BasicBlock][]knowMap{}}
	for _, b := range fn.Blocks {
		ri.firstBlock[b] = -1
		for i, in := range b.Instrs {
			if blocker(in) {
				ri.firstBlock[b] = i
				break
			}
		}
	}
	if len(fn.Blocks) == 0 {
		return ri
	}
	// the search follows only feasible branch sides (jump threading over phi edges, see paths.go)
	ps := &pathSearch{fn: fn, stop: blocker}
	if from == nil {
		ps.start, ps.startIdx = fn.Blocks[0], 0
		ri.entryReach[fn.Blocks[0]] = true
		ri.states[fn.Blocks[0]] = append(ri.states[fn.Blocks[0]], knowMap{})
	} else {
		ps.start, ps.startIdx = from.Block(), instrIndex(from)+1
	}
	ps.run()
	ri.fi = ps.fi
	for b, ks := range ps.Reached {
		ri.entryReach[b] = true
		ri.states[b] = append(ri.states[b], ks...)
	}
	for b, p := range ps.Pred {
		ri.pred[b] = p
	}
	return ri
}

// ReachesSuccess: return r is reachable (in the sense of Reaches) on a path on which its error
// result (index ei) is not known to be non-nil.
func (ri *reachInfo) ReachesSuccess(r *ssa.Return, ei int) bool {
	if !ri.Reaches(r) {
		return false
	}
	b := r.Block()
	states := ri.states[b]
	if ri.from != nil && ri.from.Block() == b && instrIndex(r) > instrIndex(ri.from) {
		states = append(append([]knowMap{}, states...), knowMap{})
	}
	if len(states) == 0 {
		states = []knowMap{{}}
	}
	for _, k := range states {
		if !returnIsFailure(ri.fi, r, ei, k) {
			return true
		}
	}
	return false
}

func (ri *reachInfo) Reaches(instr ssa.Instruction) bool {
	b := instr.Block()
	if ri.from != nil && ri.from.Block() == b && instrIndex(instr) > instrIndex(ri.from) {
		// straight-line remainder of the starting block
		blocked := false
		for i := instrIndex(ri.from) + 1; i < instrIndex(instr); i++ {
			if ri.blocker(b.Instrs[i]) {
				blocked = true
			}
		}
		if !blocked {
			return true
		}
	}
	if !ri.entryReach[b] {
		return false
	}
	fb := ri.firstBlock[b]
	return fb < 0 || instrIndex(instr) <= fb
}

// PathTo renders the block path from the entry to instr's block.
func (ri *reachInfo) PathTo(instr ssa.Instruction) string {
	var idx []string
	b := instr.Block()
	for n := 0; b != nil && n < 64; n++ {
		idx = append([]string{fmt.Sprintf("b%d", b.Index)}, idx...)
		b = ri.pred[b]
	}
	return strings.Join(idx, " -> ")
}

// ---- returns -------------------------------------------------------------------

var errorType = types.Universe.Lookup("error").Type()

func isErrorType(t types.Type) bool {
	switch t.(type) {
	case *types.Named, *types.Interface, *types.Alias:
		return types.Identical(t, errorType)
	}
	return false // tuples, go/ssa's opaque iterator type, ...
}

// errorResultIndex returns the index of the (last) error result of fn, or -1.
func errorResultIndex(sig *types.Signature) int {
	r := sig.Results()
	for i := r.Len() - 1; i >= 0; i-- {
		if isErrorType(r.At(i).Type()) {
			return i
		}
	}
	return -1
}

func returnsOf(fn *ssa.Function) []*ssa.Return {
	var out []*ssa.Return
	for _, b := range fn.Blocks {
		for _, in := range b.Instrs {
			if r, ok := in.(*ssa.Return); ok {
				out = append(out, r)
			}
		}
	}
	return out
}

// errKind classifies the error operand of a return.
type errKind int

const (
	errNil      errKind = iota // literal nil
	errNonNil                  // provably non-nil
	errMaybe                   // unknown
	errNotError                // function has no error result
)

// classifyErr decides whether value v (of type error) is nil / non-nil / unknown at block b.
func classifyErr(fi *FactInfo, b *ssa.BasicBlock, v ssa.Value, depth int) errKind {
	if isNilConst(v) {
		return errNil
	}
	if fi.Holds(b, Fact{"nonnil", v, true}) {
		return errNonNil
	}
	if fi.Holds(b, Fact{"nonnil", v, false}) {
		return errNil
	}
	switch x := v.(type) {
	case *ssa.UnOp:
		// a second load of the same error cell (bucket.Err) after a load of it was found non-nil: error
		// cells of holders are latched (never reset to nil), so the later load is non-nil as well
		if x.Op == token.MUL {
			if f, _ := fieldOfAddr(x.X); f != nil && isErrorType(f.Type()) {
				if fi.HoldsWhere(b, func(ft Fact) bool {
					ld, ok := ft.V.(*ssa.UnOp)
					return ok && ft.Kind == "nonnil" && ft.Pol && ld.Op == token.MUL && sameAddr(ld.X, x.X)
				}) {
					return errNonNil
				}
			}
		}
	case *ssa.MakeInterface:
		// boxing a concrete value: non-nil interface
		return errNonNil
	case *ssa.Call:
		// store.entityNotFoundF(id): the store's configured not-found error constructor
		if fld, _ := loadedField(x.Call.Value); fld != nil && fld.Name() == "entityNotFoundF" {
			return errNonNil
		}
		// step.failed(err): a function kept in a field of an unexported struct, every value of which maps an
		// error to an error (returns it, wraps it, or makes a new one): non-nil when the error handed in is
		if fld, _ := loadedField(x.Call.Value); fld != nil && !fld.Exported() && !x.Call.IsInvoke() && x.Call.StaticCallee() == nil && depth < 4 {
			if targets := fieldFuncTargets(fld); len(targets) > 0 {
				all := true
				for _, t := range targets {
					idx, isMapper := errorMapperParam(t)
					if !isMapper {
						all = false
						break
					}
					if idx >= 0 && (idx >= len(x.Call.Args) || classifyErr(fi, b, x.Call.Args[idx], depth+1) != errNonNil) {
						all = false
						break
					}
				}
				if all {
					return errNonNil
				}
			}
		}
		if f, _ := calleeOf(x.Common()); f != nil {
			if isErrorCtor(f) {
				return errNonNil
			}
			// errors.Wrap*(err, ...) is non-nil iff err is
			if f.Pkg() != nil && f.Pkg().Path() == "github.com/pkg/errors" && len(x.Call.Args) > 0 {
				switch f.Name() {
				case "Wrap", "Wrapf", "WithStack", "WithMessage", "WithMessagef":
					if depth < 4 && isErrorType(x.Call.Args[0].Type()) {
						return classifyErr(fi, b, x.Call.Args[0], depth+1)
					}
				}
			}
			// return h.GetError() under the fact h.HasError()
			if f.Name() == "GetError" {
				recv := callRecv(x.Common())
				if recv != nil && fi.HoldsWhere(b, func(ft Fact) bool {
					if ft.Kind != "true" || !ft.Pol {
						return false
					}
					hc, ok := ft.V.(*ssa.Call)
					if !ok {
						return false
					}
					hf, _ := calleeOf(hc.Common())
					return hf != nil && hf.Name() == "HasError" && sameAddr(callRecv(hc.Common()), recv)
				}) {
					return errNonNil
				}
			}
		}
	case *ssa.Phi:
		if depth > 4 {
			return errMaybe
		}
		kinds := map[errKind]bool{}
		for i, e := range x.Edges {
			pb := x.Block().Preds[i]
			// facts on the edge
			k := errMaybe
			if isNilConst(e) {
				k = errNil
			} else {
				of := fi.outFacts(pb, x.Block())
				if of[Fact{"nonnil", e, true}] {
					k = errNonNil
				} else if of[Fact{"nonnil", e, false}] {
					k = errNil
				} else {
					k = classifyErr(fi, pb, e, depth+1)
				}
			}
			kinds[k] = true
		}
		if len(kinds) == 1 {
			for k := range kinds {
				return k
			}
		}
	}
	return errMaybe
}

// isErrorCtor recognises functions that always return a non-nil error.
func isErrorCtor(f *types.Func) bool {
	if f.Pkg() == nil {
		return false
	}
	switch f.Pkg().Path() {
	case "github.com/pkg/errors":
		switch f.Name() {
		case "Errorf", "New":
			return true
		}
	case "errors":
		return f.Name() == "New"
	case "fmt":
		return f.Name() == "Errorf"
	case modPath + "/boltz":
		switch f.Name() {
		case "NewNotFoundError", "NewReferenceByIdsError", "NewReferenceByIdError":
			return true
		}
	case modPath + "/ast":
		return f.Name() == "NewUnknownSymbolError"
	case "github.com/openziti/foundation/v2/errorz":
		return strings.HasPrefix(f.Name(), "New")
	}
	return false
}

// ---- misc ------------------------------------------------------------------

// derefType strips one pointer.
func derefType(t types.Type) types.Type {
	if p, ok := t.Underlying().(*types.Pointer); ok {
		return p.Elem()
	}
	return t
}

func namedOf(t types.Type) *types.Named {
	t = derefType(t)
	if n, ok := t.(*types.Named); ok {
		return n.Origin()
	}
	return nil
}

// fieldOfAddr: if v is &x.f (FieldAddr) return the field.
func fieldOfAddr(v ssa.Value) (*types.Var, ssa.Value) {
	fa, ok := v.(*ssa.FieldAddr)
	if !ok {
		return nil, nil
	}
	st, ok := derefType(fa.X.Type()).Underlying().(*types.Struct)
	if !ok {
		return nil, nil
	}
	// a promoted field (the field of an embedded struct) is a field of the object that embeds it
	base := fa.X
	for i := 0; i < 4; i++ {
		outer, isFA := base.(*ssa.FieldAddr)
		if !isFA {
			break
		}
		ost, isSt := derefType(outer.X.Type()).Underlying().(*types.Struct)
		if !isSt || !ost.Field(outer.Field).Embedded() {
			break
		}
		base = outer.X
	}
	return st.Field(fa.Field), base
}

// loadedField: if v is *(&x.f) return f and x.
func loadedField(v ssa.Value) (*types.Var, ssa.Value) {
	u, ok := v.(*ssa.UnOp)
	if !ok || u.Op != token.MUL {
		if f, ok := v.(*ssa.Field); ok {
			st, ok := f.X.Type().Underlying().(*types.Struct)
			if ok {
				return st.Field(f.Field), f.X
			}
		}
		return nil, nil
	}
	return fieldOfAddr(u.X)
}

func sameVar(a, b *types.Var) bool {
	if a == nil || b == nil {
		return false
	}
	return a.Origin() == b.Origin()
}

// callRecv returns the receiver operand of a method call (invoke or static).
func callRecv(c *ssa.CallCommon) ssa.Value {
	if c.IsInvoke() {
		return c.Value
	}
	if f, _ := calleeOf(c); f != nil && f.Type().(*types.Signature).Recv() != nil && len(c.Args) > 0 {
		return c.Args[0]
	}
	return nil
}

// sameAddr: syntactically the same memory location / value (no intervening-store reasoning;
// used only for receivers of pure observers such as HasError/GetError).
func sameAddr(a, b ssa.Value) bool {
	if a == nil || b == nil {
		return false
	}
	if a == b {
		return true
	}
	switch x := a.(type) {
	case *ssa.FieldAddr:
		y, ok := b.(*ssa.FieldAddr)
		return ok && x.Field == y.Field && sameAddr(x.X, y.X)
	case *ssa.UnOp:
		y, ok := b.(*ssa.UnOp)
		return ok && x.Op == y.Op && x.Op == token.MUL && sameAddr(x.X, y.X)
	}
	return false
}

// ---- loops -------------------------------------------------------------------

// Loop is a natural loop: header + body blocks.
type Loop struct {
	Header *ssa.BasicBlock
	Blocks map[*ssa.BasicBlock]bool
}

// loopsOf finds the natural loops of fn (one per header, back edges merged).
func loopsOf(fn *ssa.Function) []*Loop {
	byHeader := map[*ssa.BasicBlock]*Loop{}
	var order []*ssa.BasicBlock
	for _, b := range fn.Blocks {
		for _, s := range b.Succs {
			if s.Dominates(b) { // back edge b -> s
				l := byHeader[s]
				if l == nil {
					l = &Loop{Header: s, Blocks: map[*ssa.BasicBlock]bool{s: true}}
					byHeader[s] = l
					order = append(order, s)
				}
				// add all blocks that reach b without passing the header
				stack := []*ssa.BasicBlock{b}
				for len(stack) > 0 {
					x := stack[len(stack)-1]
					stack = stack[:len(stack)-1]
					if l.Blocks[x] {
						continue
					}
					l.Blocks[x] = true
					stack = append(stack, x.Preds...)
				}
			}
		}
	}
	var out []*Loop
	for _, h := range order {
		out = append(out, byHeader[h])
	}
	return out
}

// innermostLoop returns the smallest loop containing b.
func innermostLoop(loops []*Loop, b *ssa.BasicBlock) *Loop {
	var best *Loop
	for _, l := range loops {
		if l.Blocks[b] && (best == nil || len(l.Blocks) < len(best.Blocks)) {
			best = l
		}
	}
	return best
}

// blockEndsInFailure: the block returns a provably non-nil error or panics.
func blockEndsInFailure(fi *FactInfo, b *ssa.BasicBlock, ei int) bool {
	if len(b.Instrs) == 0 {
		return false
	}
	switch x := b.Instrs[len(b.Instrs)-1].(type) {
	case *ssa.Panic:
		return true
	case *ssa.Return:
		if ei >= 0 && len(x.Results) > ei {
			return classifyErr(fi, b, x.Results[ei], 0) == errNonNil
		}
	}
	return false
}

// paramCopy: v is parameter prm itself, or a load of the local variable that holds an unmodified copy of it
// (a struct parameter whose address is taken is spilled into an Alloc by the SSA builder).
func paramCopy(v ssa.Value, prm *ssa.Parameter) bool {
	if v == ssa.Value(prm) {
		return true
	}
	ld, ok := v.(*ssa.UnOp)
	if !ok || ld.Op != token.MUL {
		return false
	}
	al, ok := ld.X.(*ssa.Alloc)
	if !ok || al.Referrers() == nil {
		return false
	}
	n, fromPrm := 0, false
	for _, r := range *al.Referrers() {
		if st, isSt := r.(*ssa.Store); isSt && st.Addr == ssa.Value(al) {
			n++
			fromPrm = st.Val == ssa.Value(prm)
		}
	}
	return n == 1 && fromPrm
}

// handedIn: v is something the function was given by its caller: a parameter, a field of a struct parameter
// (a parameter object, by value or through a pointer), or the local copy of either.
func handedIn(fn *ssa.Function, v ssa.Value) bool {
	for i := 0; i < 4 && v != nil; i++ {
		switch x := v.(type) {
		case *ssa.Parameter:
			return true
		case *ssa.MakeInterface:
			v = x.X
		case *ssa.ChangeInterface:
			v = x.X
		case *ssa.Field:
			v = x.X
		case *ssa.UnOp:
			if x.Op != token.MUL {
				return false
			}
			switch a := x.X.(type) {
			case *ssa.FieldAddr:
				v = a.X
			case *ssa.Alloc:
				for _, prm := range fn.Params {
					if paramCopy(x, prm) {
						return true
					}
				}
				return false
			default:
				return false
			}
		case *ssa.Alloc:
			// the address of the spilled parameter copy
			for _, prm := range fn.Params {
				n, fromPrm := 0, false
				for _, r := range *x.Referrers() {
					if st, isSt := r.(*ssa.Store); isSt && st.Addr == ssa.Value(x) {
						n++
						fromPrm = st.Val == ssa.Value(prm)
					}
				}
				if n == 1 && fromPrm {
					return true
				}
			}
			return false
		default:
			return false
		}
	}
	return false
}

// curProg: the loaded program (set by Load), for the few value-level helpers that have to look at other functions.
var curProg *Prog

// fieldFuncTargets: the functions a function-typed field of an unexported struct can hold: what every store to
// that field in its package stores (closures, named functions, results of module factories).  nil when a store
// cannot be resolved.
func fieldFuncTargets(fld *types.Var) []*ssa.Function {
	if curProg == nil || fld.Pkg() == nil {
		return nil
	}
	short := strings.TrimPrefix(strings.TrimPrefix(fld.Pkg().Path(), modPath), "/")
	if curProg.SSAPkgs[short] == nil {
		return nil
	}
	var out []*ssa.Function
	for _, fn := range curProg.SrcFuncs(short) {
		for _, b := range fn.Blocks {
			for _, in := range b.Instrs {
				st, isSt := in.(*ssa.Store)
				if !isSt {
					continue
				}
				if f, _ := fieldOfAddr(st.Addr); !sameVar(f, fld) {
					continue
				}
				ts := closuresOf(st.Val, 0)
				if len(ts) == 0 {
					return nil
				}
				out = append(out, ts...)
			}
		}
	}
	return out
}

// errorMapperParam: fn returns exactly one error and every return hands back one particular error parameter,
// that parameter wrapped, or a freshly made error.  The index of that parameter (-1: none needed, every return
// makes a new error).
func errorMapperParam(fn *ssa.Function) (int, bool) {
	if fn == nil || fn.Blocks == nil || fn.Signature.Results().Len() != 1 || !isErrorType(fn.Signature.Results().At(0).Type()) {
		return 0, false
	}
	idx := -1
	var ok func(v ssa.Value, depth int) bool
	ok = func(v ssa.Value, depth int) bool {
		if depth > 3 {
			return false
		}
		switch x := v.(type) {
		case *ssa.Parameter:
			for i, prm := range fn.Params {
				if prm == x && isErrorType(x.Type()) {
					if idx >= 0 && idx != i {
						return false
					}
					idx = i
					return true
				}
			}
		case *ssa.MakeInterface:
			return true
		case *ssa.Call:
			f, _ := calleeOf(x.Common())
			if f == nil {
				return false
			}
			if isErrorCtor(f) {
				return true
			}
			if f.Pkg() != nil && f.Pkg().Path() == "github.com/pkg/errors" && len(x.Call.Args) > 0 {
				switch f.Name() {
				case "Wrap", "Wrapf", "WithStack", "WithMessage", "WithMessagef":
					return ok(x.Call.Args[0], depth+1)
				}
			}
		}
		return false
	}
	rets := returnsOf(fn)
	if len(rets) == 0 {
		return 0, false
	}
	for _, r := range rets {
		if !ok(r.Results[0], 0) {
			return 0, false
		}
	}
	return idx, true
}
